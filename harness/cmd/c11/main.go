// Driver for C11: runs the REAL srv.Orchestrator, srv.Group, srv.WorkerPool /
// srv.HandlerWorkerPool and srv.Cleanup (also through the context helpers of
// srv/context.go) under scripted scenarios, records a linearised event log per
// scenario, evaluates the property's direct oracles on it and prints the log as
// a Coq term for the model's acceptor (coq/Corr/C11_corr.v).
//
// Verdicts are deterministic on a correct tree: every claim is derived from the
// order of events in a log whose entries are appended under one mutex (Add and
// cancel() are executed while holding it, so "Add returned nil before the
// context was cancelled" is a fact of the log), all waits are handshakes with a
// 10 s deadline. Short sleeps are used only to widen the window in which a
// defective tree misbehaves ("linger" of blocking services, "grace" before a
// group is cancelled); they never decide a verdict on a correct tree.
package main

import (
	"context"
	"errors"
	"fmt"
	"io"
	"os"
	"sort"
	"strings"
	"sync"
	"sync/atomic"
	"time"

	"github.com/tychoish/fun"
	"github.com/tychoish/fun/ers"
	"github.com/tychoish/fun/pubsub"
	"github.com/tychoish/fun/srv"

	"verif/harness/kit"
)

const deadline = 10 * time.Second

// ---------------------------------------------------------------- cases

type Item struct {
	Oc    string `json:"oc"`             // ok | err | pan | blk | blkerr
	Kind  string `json:"kind,omitempty"` // orchestrator: fresh | running | finished
	Phase int    `json:"phase"`          // 0 before start, 1 while running, 2 racing cancel, 3 after cancel
}

type Case struct {
	ID       int    `json:"id"`
	Kind     string `json:"kind"` // orch | group | pool | cleanup
	Items    []Item `json:"items"`
	Workers  int    `json:"workers,omitempty"`
	Handler  bool   `json:"handler,omitempty"`
	Coe      bool   `json:"coe,omitempty"`
	Cop      bool   `json:"cop,omitempty"`
	Limit    int    `json:"limit,omitempty"`   // pool queue hard limit (0 = unlimited)
	ViaCtx   bool   `json:"via_ctx,omitempty"` // use srv.WithOrchestrator / WithCleanup / WithWorkerPool
	Cancel   string `json:"cancel,omitempty"`  // group: grace | during-start | none | before-start ; others: "" (normal)
	LingerMs int    `json:"linger_ms,omitempty"`
	Settle   bool   `json:"settle,omitempty"` // wait for the accepted work to be picked up before cancelling
	Hook     string `json:"hook,omitempty"`   // orch, one item: owner-in-start | orch-in-start (placed with the srv yield hooks)
	Rounds   int    `json:"rounds,omitempty"` // repetitions of the scenario (each is one evaluation)
}

// ---------------------------------------------------------------- event log

type Ev struct {
	K string `json:"k"`
	I int    `json:"i"`
	W []int  `json:"w,omitempty"`
	H []int  `json:"h,omitempty"`
}

type Log struct {
	mu   sync.Mutex
	cond *sync.Cond
	evs  []Ev
}

func newLog() *Log { l := &Log{}; l.cond = sync.NewCond(&l.mu); return l }

// Do runs f while holding the log mutex and appends the event it returns (K=="" appends nothing).
func (l *Log) Do(f func() Ev) {
	l.mu.Lock()
	e := f()
	if e.K != "" {
		l.evs = append(l.evs, e)
	}
	l.cond.Broadcast()
	l.mu.Unlock()
}

func (l *Log) Add(k string, i int) { l.Do(func() Ev { return Ev{K: k, I: i} }) }

func (l *Log) Snapshot() []Ev {
	l.mu.Lock()
	defer l.mu.Unlock()
	return append([]Ev(nil), l.evs...)
}

// WaitFor blocks until pred holds of the log or the deadline passes; reports whether it held.
func (l *Log) WaitFor(pred func([]Ev) bool, d time.Duration) bool {
	t := time.AfterFunc(d, func() { l.mu.Lock(); l.cond.Broadcast(); l.mu.Unlock() })
	defer t.Stop()
	end := time.Now().Add(d)
	l.mu.Lock()
	defer l.mu.Unlock()
	for !pred(l.evs) {
		if !time.Now().Before(end) {
			return false
		}
		l.cond.Wait()
	}
	return true
}

func count(evs []Ev, k string, i int) int {
	n := 0
	for _, e := range evs {
		if e.K == k && e.I == i {
			n++
		}
	}
	return n
}

func index(evs []Ev, k string, i int) int {
	for p, e := range evs {
		if e.K == k && (i < 0 || e.I == i) {
			return p
		}
	}
	return -1
}

// ---------------------------------------------------------------- outcomes

// Outcomes: ok | err | pan | blk | blkerr, and the control-valued errors: an error that IS (eof, canceled,
// deadline, skip, abort) or WRAPS (weof, wcanceled, wdeadline, wskip, wabort) io.EOF, context.Canceled,
// context.DeadlineExceeded, fun.ErrIteratorSkip, ers.ErrCurrentOpAbort. For services, group members and cleanup
// functions they are errors like any other; Iterator.ProcessParallel (the worker pools) treats the first three
// as "stop" and ErrIteratorSkip as "skip" signals.
func ctlBase(oc string) (error, bool) {
	switch strings.TrimPrefix(oc, "w") {
	case "eof":
		return io.EOF, true
	case "canceled":
		return context.Canceled, true
	case "deadline":
		return context.DeadlineExceeded, true
	case "skip":
		return fun.ErrIteratorSkip, true
	case "abort":
		return ers.ErrCurrentOpAbort, true
	}
	return nil, false
}

func isCtl(oc string) bool { _, ok := ctlBase(oc); return ok }

// ctlClass: "stop" (io.EOF / context errors), "skip" (ErrIteratorSkip), "" (everything else, incl. ErrCurrentOpAbort)
func ctlClass(oc string) string {
	switch strings.TrimPrefix(oc, "w") {
	case "eof", "canceled", "deadline":
		return "stop"
	case "skip":
		return "skip"
	}
	return ""
}

func fails(oc string) bool    { return oc == "err" || oc == "pan" || oc == "blkerr" || isCtl(oc) }
func blocking(oc string) bool { return oc == "blk" || oc == "blkerr" }

// body is the behaviour of a service Run / job / cleanup function with the given outcome.
// It logs begin and end itself; sawDone (if not nil) is told when a blocking body observed ctx.Done().
func body(l *Log, begin, end string, i int, oc string, myErr error, linger time.Duration, gate <-chan struct{}, sawDone func()) func(context.Context) error {
	return func(ctx context.Context) error {
		l.Add(begin, i)
		if gate != nil {
			select {
			case <-gate:
			case <-time.After(deadline):
			}
		}
		if blocking(oc) {
			select {
			case <-ctx.Done():
			case <-time.After(3 * deadline):
			}
			if sawDone != nil {
				sawDone()
			}
			if linger > 0 {
				time.Sleep(linger)
			}
		}
		l.Add(end, i)
		switch {
		case oc == "err" || oc == "blkerr" || isCtl(oc):
			return myErr
		case oc == "pan":
			panic(myErr)
		}
		return nil
	}
}

func isIDs(err error, errs []error) []int {
	out := []int{}
	if err == nil {
		return out
	}
	for i, e := range errs {
		if errors.Is(err, e) {
			out = append(out, i)
		}
	}
	return out
}

// callWithDeadline runs f in a goroutine and waits at most the deadline for it.
func callWithDeadline(f func() error) (error, bool) {
	ch := make(chan error, 1)
	go func() { ch <- f() }()
	select {
	case err := <-ch:
		return err, true
	case <-time.After(deadline):
		return nil, false
	}
}

type fail struct{ sig, detail string }

type result struct {
	log   []Ev
	fails []fail
}

func (r *result) failf(sig, f string, a ...any) {
	r.fails = append(r.fails, fail{sig, fmt.Sprintf(f, a...)})
}

func mkErrs(c Case, what string) []error {
	errs := make([]error, len(c.Items))
	for i, it := range c.Items {
		if base, ok := ctlBase(it.Oc); ok {
			if strings.HasPrefix(it.Oc, "w") {
				errs[i] = fmt.Errorf("c11 case %d %s %d gave up: %w", c.ID, what, i, base)
			} else {
				errs[i] = base // the bare sentinel (the generator uses each bare sentinel at most once per case)
			}
			continue
		}
		errs[i] = fmt.Errorf("c11 case %d %s %d failed", c.ID, what, i)
	}
	return errs
}

// runPhase2 performs the given operations concurrently with the cancellation.
func runPhase2(ops []func(), cancelOp func()) {
	var wg sync.WaitGroup
	start := make(chan struct{})
	all := append([]func(){}, ops...)
	pos := len(all) / 2
	all = append(all[:pos], append([]func(){cancelOp}, all[pos:]...)...)
	for _, op := range all {
		wg.Add(1)
		go func(op func()) { defer wg.Done(); <-start; op() }(op)
	}
	close(start)
	wg.Wait()
}

// ---------------------------------------------------------------- Orchestrator

func runOrch(c Case) *result {
	res := &result{}
	l := newLog()
	errs := mkErrs(c, "service")
	ctx, cancel := context.WithCancel(context.Background())
	defer cancel()
	linger := time.Duration(c.LingerMs) * time.Millisecond

	svcs := make([]*srv.Service, len(c.Items))
	gates := make([]chan struct{}, len(c.Items))
	for i, it := range c.Items {
		var gate chan struct{}
		if it.Kind == "running" && !blocking(it.Oc) {
			gate = make(chan struct{})
			gates[i] = gate
		}
		svcs[i] = &srv.Service{Name: fmt.Sprintf("s%d", i), Run: body(l, "RunBegin", "RunEnd", i, it.Oc, errs[i], linger, gate, nil)}
	}
	envStart := func(i int) {
		l.Do(func() Ev {
			if err := svcs[i].Start(ctx); err != nil {
				res.failf("C11:harness:env-start", "service %d: %v", i, err)
			}
			return Ev{K: "EnvStart", I: i}
		})
	}
	var or *srv.Orchestrator
	add := func(i int) {
		it := c.Items[i]
		if it.Kind == "running" || it.Kind == "finished" {
			envStart(i)
			if it.Kind == "finished" {
				if _, ok := callWithDeadline(svcs[i].Wait); !ok {
					res.failf("C11:harness:env-finish", "service %d did not finish", i)
				}
			} else if !l.WaitFor(func(evs []Ev) bool { return count(evs, "RunBegin", i) > 0 }, deadline) {
				res.failf("C11:harness:env-running", "service %d did not begin", i)
			}
		}
		l.Do(func() Ev {
			if err := or.Add(svcs[i]); err != nil {
				return Ev{K: "AddRej", I: i}
			}
			return Ev{K: "Add", I: i}
		})
		if gates[i] != nil {
			close(gates[i])
		}
	}

	if c.ViaCtx {
		// srv.WithOrchestrator starts the orchestrator at once: phase 0 does not exist
		l.Do(func() Ev {
			octx := srv.WithOrchestrator(ctx)
			or = srv.GetOrchestrator(octx)
			return Ev{K: "OrchStart"}
		})
	} else {
		or = &srv.Orchestrator{}
	}
	for i, it := range c.Items {
		if it.Phase == 0 {
			add(i)
		}
	}
	if !c.ViaCtx {
		l.Do(func() Ev {
			if err := or.Start(ctx); err != nil {
				res.failf("C11:harness:orch-start", "%v", err)
			}
			return Ev{K: "OrchStart"}
		})
	}
	// "raced" services are added unstarted while their owner calls Start on them concurrently (owner goroutine k
	// takes every third raced service and starts it as soon as its Add has returned, or without waiting for it)
	added := make([]chan struct{}, len(c.Items))
	var raced []int
	for i, it := range c.Items {
		added[i] = make(chan struct{})
		if it.Kind == "raced" && it.Phase == 1 {
			raced = append(raced, i)
		}
	}
	var owners sync.WaitGroup
	for k := 0; k < 3 && len(raced) > 0; k++ {
		owners.Add(1)
		go func(k int) {
			defer owners.Done()
			for n := k; n < len(raced); n += 3 {
				i := raced[n]
				if n%4 != 3 {
					select {
					case <-added[i]:
					case <-time.After(deadline):
					}
				}
				l.Do(func() Ev {
					if err := svcs[i].Start(ctx); err != nil {
						return Ev{} // the orchestrator's Start won
					}
					return Ev{K: "EnvStart", I: i}
				})
			}
		}(k)
	}
	for i, it := range c.Items {
		if it.Phase == 1 {
			add(i)
			close(added[i])
		}
	}
	owners.Wait()
	if c.Settle {
		// every fresh service added so far must get started while the context is live
		ok := l.WaitFor(func(evs []Ev) bool {
			for i, it := range c.Items {
				if it.Phase <= 1 && count(evs, "RunBegin", i) == 0 {
					return false
				}
			}
			return true
		}, deadline)
		if !ok {
			res.failf("C11:Orchestrator:not-started", "a service added while the orchestrator was running was not started within %v", deadline)
		}
	}
	var ops []func()
	for i, it := range c.Items {
		if it.Phase == 2 {
			i := i
			ops = append(ops, func() { add(i) })
		}
	}
	runPhase2(ops, func() { l.Do(func() Ev { cancel(); return Ev{K: "Cancel"} }) })
	for i, it := range c.Items {
		if it.Phase == 3 {
			add(i)
		}
	}
	werr, ok := callWithDeadline(or.Wait)
	if !ok {
		res.failf("C11:Orchestrator:wait-stuck", "Orchestrator.Wait did not return within %v of the cancellation", deadline)
	} else {
		l.Do(func() Ev { return Ev{K: "WaitRet", W: isIDs(werr, errs)} })
	}
	// let everything that was started finish (so that late events are in the log)
	for i := range svcs {
		i := i
		if count(l.Snapshot(), "RunBegin", i) > 0 || count(l.Snapshot(), "EnvStart", i) > 0 {
			l.WaitFor(func(evs []Ev) bool { return count(evs, "RunEnd", i) > 0 }, deadline)
		}
	}
	evs := l.Snapshot()
	res.log = evs

	orchOracles(c, evs, res)
	return res
}

// orchOracles: the property's direct oracles for an orchestrator scenario, evaluated on the recorded log.
func orchOracles(c Case, evs []Ev, res *result) {
	cpos := index(evs, "Cancel", -1)
	wpos := index(evs, "WaitRet", -1)
	var reported []int
	if wpos >= 0 {
		reported = evs[wpos].W
	}
	for i, it := range c.Items {
		if n := count(evs, "RunBegin", i); n > 1 {
			res.failf("C11:Orchestrator:started-twice", "service %d: Run invoked %d times", i, n)
		}
		apos := index(evs, "Add", i)
		if apos < 0 || cpos < 0 || apos > cpos || wpos < 0 {
			continue // no claim: Add did not return nil before the cancellation
		}
		bpos, epos := index(evs, "RunBegin", i), index(evs, "RunEnd", i)
		if bpos < 0 || bpos > wpos {
			res.failf("C11:Orchestrator:not-started", "service %d (%s, %s) was added before the cancellation but had not been started when Wait returned", i, it.Kind, it.Oc)
		} else if epos < 0 || epos > wpos {
			res.failf("C11:Orchestrator:not-awaited", "service %d (%s, %s) was added before the cancellation; Orchestrator.Wait returned before its Run returned", i, it.Kind, it.Oc)
		}
		if fails(it.Oc) && !has(reported, i) {
			res.failf("C11:Wait:error-missing", "Orchestrator.Wait's error does not satisfy errors.Is for the failure of service %d (%s, %s)", i, it.Kind, it.Oc)
		}
	}
	for _, i := range reported {
		if !fails(c.Items[i].Oc) {
			res.failf("C11:Wait:error-spurious", "Orchestrator.Wait reports a failure of service %d, which does not fail", i)
		}
	}
}

// runOrchHook places one racing Start exactly, with the srv yield hooks (build tag verif). The hook is global,
// so these scenarios run one at a time, before the concurrent ones.
//
//	owner-in-start: the owner's Start is held at srv.Service.Start.launched (Running() is already true, the call
//	  has not finished); the service is added and the orchestrator looks at it; then the owner's call finishes.
//	orch-in-start:  the service is added unstarted; the orchestrator's own Start is held at
//	  srv.Service.Start.checked; the owner starts the service; then the orchestrator's call proceeds (and fails
//	  with "already started").
//
// In both the orchestrator must still await the service and report its failure.
func runOrchHook(c Case) *result {
	res := &result{}
	l := newLog()
	errs := mkErrs(c, "service")
	ctx, cancel := context.WithCancel(context.Background())
	defer cancel()
	linger := time.Duration(c.LingerMs) * time.Millisecond
	svc := &srv.Service{Name: "s0", Run: body(l, "RunBegin", "RunEnd", 0, c.Items[0].Oc, errs[0], linger, nil, nil)}

	var phase atomic.Int32 // 0: nothing armed
	atPoint := make(chan struct{})
	release := make(chan struct{})
	picked := make(chan struct{}, 8)
	hold := func() {
		close(atPoint)
		select {
		case <-release:
		case <-time.After(deadline):
		}
	}
	srv.SetVerifYieldHook(func(name string) {
		switch c.Hook {
		case "owner-in-start":
			if name == "srv.Service.Start.launched" && phase.CompareAndSwap(1, 2) {
				hold()
			} else if name == "srv.Service.Start.checked" && phase.Load() == 3 {
				select {
				case picked <- struct{}{}:
				default:
				}
			}
		case "orch-in-start":
			if name == "srv.Service.Start.checked" && phase.CompareAndSwap(1, 2) {
				hold()
			}
		}
	})
	defer srv.SetVerifYieldHook(nil)

	or := &srv.Orchestrator{}
	l.Do(func() Ev {
		if err := or.Start(ctx); err != nil {
			res.failf("C11:harness:orch-start", "%v", err)
		}
		return Ev{K: "OrchStart"}
	})
	add := func() {
		l.Do(func() Ev {
			if err := or.Add(svc); err != nil {
				return Ev{K: "AddRej", I: 0}
			}
			return Ev{K: "Add", I: 0}
		})
	}
	waitPoint := func() bool {
		select {
		case <-atPoint:
			return true
		case <-time.After(deadline):
			res.failf("C11:harness:hook", "the yield point of scenario %s was not reached", c.Hook)
			return false
		}
	}
	switch c.Hook {
	case "owner-in-start":
		ownerDone := make(chan error, 1)
		l.Add("EnvStart", 0) // the owner is the only one who knows the service: its Start will start it
		phase.Store(1)
		go func() { ownerDone <- svc.Start(ctx) }()
		if waitPoint() {
			phase.Store(3)
			add()
			// the repaired orchestrator calls Start itself (and blocks in it until the owner's call is done):
			// that is the handshake; a tree without the repair never gets there, the grace only widens its window
			select {
			case <-picked:
			case <-time.After(30 * time.Millisecond):
			}
		}
		close(release)
		select {
		case err := <-ownerDone:
			if err != nil {
				res.failf("C11:harness:owner-start", "%v", err)
			}
		case <-time.After(deadline):
			res.failf("C11:harness:owner-start", "the owner's Start did not return")
		}
	case "orch-in-start":
		phase.Store(1)
		add()
		if waitPoint() {
			l.Do(func() Ev {
				if err := svc.Start(ctx); err != nil {
					res.failf("C11:harness:owner-start", "%v", err)
					return Ev{}
				}
				return Ev{K: "EnvStart", I: 0}
			})
		}
		close(release)
	}
	if !l.WaitFor(func(evs []Ev) bool { return count(evs, "RunBegin", 0) > 0 }, deadline) {
		res.failf("C11:harness:hook", "the service did not begin")
	}
	l.Do(func() Ev { cancel(); return Ev{K: "Cancel"} })
	werr, ok := callWithDeadline(or.Wait)
	if !ok {
		res.failf("C11:Orchestrator:wait-stuck", "Orchestrator.Wait did not return within %v of the cancellation", deadline)
	} else {
		l.Do(func() Ev { return Ev{K: "WaitRet", W: isIDs(werr, errs)} })
	}
	l.WaitFor(func(evs []Ev) bool { return count(evs, "RunEnd", 0) > 0 }, deadline)
	res.log = l.Snapshot()
	orchOracles(c, res.log, res)
	return res
}

func has(xs []int, x int) bool {
	for _, y := range xs {
		if y == x {
			return true
		}
	}
	return false
}

// ---------------------------------------------------------------- Group

func runGroup(c Case) *result {
	res := &result{}
	l := newLog()
	errs := mkErrs(c, "member")
	ctx, cancel := context.WithCancel(context.Background())
	defer cancel()
	linger := time.Duration(c.LingerMs) * time.Millisecond
	n := len(c.Items)

	var mu sync.Mutex
	cancelled := false // set (under mu) right before cancel() is called
	early := []int{}   // blocking members that saw ctx.Done() before that
	anyDone := make(chan struct{}, n+1)
	var once sync.Once
	doCancel := func() {
		once.Do(func() {
			l.Do(func() Ev {
				mu.Lock()
				cancelled = true
				mu.Unlock()
				cancel()
				return Ev{K: "Cancel"}
			})
		})
	}
	ms := make([]*srv.Service, n)
	for i, it := range c.Items {
		i := i
		saw := func() {
			mu.Lock()
			if !cancelled {
				early = append(early, i)
			}
			mu.Unlock()
			anyDone <- struct{}{}
		}
		run := body(l, "RunBegin", "RunEnd", i, it.Oc, errs[i], linger, nil, saw)
		if c.Cancel == "during-start" && i == 0 {
			inner := run
			run = func(ctx context.Context) error { go doCancel(); return inner(ctx) }
		}
		ms[i] = &srv.Service{Name: fmt.Sprintf("m%d", i), Run: run}
	}
	g := srv.Group(fun.SliceIterator(ms))
	if c.Cancel == "before-start" {
		doCancel()
	}
	l.Do(func() Ev {
		if err := g.Start(ctx); err != nil {
			res.failf("C11:harness:group-start", "%v", err)
		}
		return Ev{K: "Start"}
	})
	if c.Cancel == "grace" || c.Cancel == "none" {
		ok := l.WaitFor(func(evs []Ev) bool {
			for i := 0; i < n; i++ {
				if count(evs, "RunBegin", i) == 0 {
					return false
				}
			}
			return true
		}, deadline)
		if !ok {
			res.failf("C11:Group:member-not-started", "not every member was started within %v while the group's context was live", deadline)
		}
	}
	if c.Cancel == "grace" {
		// grace handshake: a member that observes ctx.Done() reports at once; otherwise the grace period passes
		select {
		case <-anyDone:
		case <-time.After(25 * time.Millisecond):
		}
		doCancel()
	}
	werr, ok := callWithDeadline(g.Wait)
	if !ok {
		res.failf("C11:Group:wait-stuck", "Group service Wait did not return within %v", deadline)
	} else {
		l.Do(func() Ev { return Ev{K: "WaitRet", W: isIDs(werr, errs)} })
	}
	doCancel()
	for i := 0; i < n; i++ {
		i := i
		if count(l.Snapshot(), "RunBegin", i) > 0 {
			l.WaitFor(func(evs []Ev) bool { return count(evs, "RunEnd", i) > 0 }, deadline)
		}
	}
	// a member whose Start is still in flight may begin even later: give it the chance to show up
	for i := 0; i < n; i++ {
		if ms[i].Running() {
			callWithDeadline(ms[i].Wait)
		}
	}
	evs := l.Snapshot()
	res.log = evs

	wpos := index(evs, "WaitRet", -1)
	var reported []int
	if wpos >= 0 {
		reported = evs[wpos].W
	}
	mu.Lock()
	earlyCopy := append([]int(nil), early...)
	mu.Unlock()
	if len(earlyCopy) > 0 {
		sort.Ints(earlyCopy)
		res.failf("C11:Group:members-cancelled-early", "members %v block on ctx.Done(); their context was cancelled while the group's own context was live and they had not returned", earlyCopy)
	}
	for i, it := range c.Items {
		nb := count(evs, "RunBegin", i)
		if nb > 1 {
			res.failf("C11:Group:started-twice", "member %d: Run invoked %d times", i, nb)
		}
		if wpos < 0 {
			continue
		}
		bpos, epos := index(evs, "RunBegin", i), index(evs, "RunEnd", i)
		if bpos < 0 {
			continue
		}
		if bpos > wpos || epos < 0 || epos > wpos {
			res.failf("C11:Group:not-awaited", "member %d (%s) was started by the group; Wait returned before its Run returned", i, it.Oc)
		} else if fails(it.Oc) && !has(reported, i) {
			res.failf("C11:Wait:error-missing", "Group Wait's error does not satisfy errors.Is for the failure of member %d (%s)", i, it.Oc)
		}
	}
	for _, i := range reported {
		if !fails(c.Items[i].Oc) {
			res.failf("C11:Wait:error-spurious", "Group Wait reports a failure of member %d, which does not fail", i)
		}
	}
	return res
}

// ---------------------------------------------------------------- WorkerPool / HandlerWorkerPool

func poolContinues(c Case, oc string) bool {
	switch ctlClass(oc) {
	case "stop":
		return c.Handler
	case "skip":
		return true
	}
	if isCtl(oc) {
		return c.Handler || c.Coe
	}
	switch oc {
	case "err", "blkerr":
		return c.Handler || c.Coe
	case "pan":
		return c.Cop
	}
	return true
}

func runPool(c Case) *result {
	res := &result{}
	l := newLog()
	errs := mkErrs(c, "job")
	ctx, cancel := context.WithCancel(context.Background())
	defer cancel()
	linger := time.Duration(c.LingerMs) * time.Millisecond

	var hmu sync.Mutex
	hseen := map[int]bool{}
	observer := func(err error) {
		if err == nil {
			return
		}
		hmu.Lock()
		for _, i := range isIDs(err, errs) {
			hseen[i] = true
		}
		hmu.Unlock()
	}
	opts := []fun.OptionProvider[*fun.WorkerGroupConf]{fun.WorkerGroupConfNumWorkers(c.Workers)}
	if c.Coe {
		opts = append(opts, fun.WorkerGroupConfContinueOnError())
	}
	if c.Cop {
		opts = append(opts, fun.WorkerGroupConfContinueOnPanic())
	}
	var queue *pubsub.Queue[fun.Worker]
	if !c.ViaCtx {
		if c.Limit > 0 {
			q, err := pubsub.NewQueue[fun.Worker](pubsub.QueueOptions{HardLimit: c.Limit, SoftQuota: c.Limit})
			if err != nil {
				res.failf("C11:harness:queue", "%v", err)
				return res
			}
			queue = q
		} else {
			queue = pubsub.NewUnlimitedQueue[fun.Worker]()
		}
	}
	var pctx context.Context
	const key = "c11"
	jobs := make([]fun.Worker, len(c.Items))
	for i, it := range c.Items {
		jobs[i] = fun.Worker(body(l, "JobBegin", "JobEnd", i, it.Oc, errs[i], linger, nil, nil))
	}
	add := func(i int) {
		l.Do(func() Ev {
			var err error
			if c.ViaCtx {
				err = srv.AddToWorkerPool(pctx, key, jobs[i])
			} else {
				err = queue.Add(jobs[i])
			}
			if err != nil {
				return Ev{K: "AddRej", I: i}
			}
			return Ev{K: "Add", I: i}
		})
	}
	var svc *srv.Service
	var waitFn func() error
	start := func() {
		l.Do(func() Ev {
			if c.ViaCtx {
				if c.Handler {
					pctx = srv.WithHandlerWorkerPool(ctx, key, observer, opts...)
				} else {
					pctx = srv.WithWorkerPool(ctx, key, opts...)
				}
				waitFn = srv.GetOrchestrator(pctx).Wait
			} else {
				if c.Handler {
					svc = srv.HandlerWorkerPool(queue, observer, opts...)
				} else {
					svc = srv.WorkerPool(queue, opts...)
				}
				if err := svc.Start(ctx); err != nil {
					res.failf("C11:harness:pool-start", "%v", err)
				}
				waitFn = svc.Wait
			}
			return Ev{K: "Start"}
		})
	}
	if c.ViaCtx {
		start() // the queue exists only once the pool is attached to the context
	} else {
		for i, it := range c.Items {
			if it.Phase == 0 {
				add(i)
			}
		}
		start()
	}
	for i, it := range c.Items {
		if it.Phase == 1 || (c.ViaCtx && it.Phase == 0) {
			add(i)
		}
	}
	// "accepted while the pool keeps running": no accepted job makes a worker leave, and fewer
	// blocking jobs than workers, so every other accepted job must have run before we cancel.
	stable := true
	nblock := 0
	{
		evs := l.Snapshot()
		for i, it := range c.Items {
			if index(evs, "Add", i) >= 0 {
				if !poolContinues(c, it.Oc) {
					stable = false
				}
				if blocking(it.Oc) {
					nblock++
				}
			}
		}
		if nblock >= c.Workers {
			stable = false
		}
	}
	if c.Settle && stable {
		ok := l.WaitFor(func(evs []Ev) bool {
			for i, it := range c.Items {
				if index(evs, "Add", i) >= 0 {
					if blocking(it.Oc) {
						if count(evs, "JobBegin", i) == 0 {
							return false
						}
					} else if count(evs, "JobEnd", i) == 0 {
						return false
					}
				}
			}
			return true
		}, deadline)
		if !ok {
			res.failf("C11:WorkerPool:job-not-run", "a job accepted while the pool kept running (no abort, a free worker) was not run within %v", deadline)
		}
	}
	var ops []func()
	for i, it := range c.Items {
		if it.Phase == 2 {
			i := i
			ops = append(ops, func() { add(i) })
		}
	}
	runPhase2(ops, func() { l.Do(func() Ev { cancel(); return Ev{K: "Cancel"} }) })
	for i, it := range c.Items {
		if it.Phase == 3 {
			add(i)
		}
	}
	werr, ok := callWithDeadline(waitFn)
	if !ok {
		res.failf("C11:WorkerPool:wait-stuck", "the pool service's Wait did not return within %v of the cancellation", deadline)
	} else {
		l.Do(func() Ev {
			hmu.Lock()
			h := []int{}
			for i := range hseen {
				h = append(h, i)
			}
			hmu.Unlock()
			sort.Ints(h)
			return Ev{K: "WaitRet", W: isIDs(werr, errs), H: h}
		})
	}
	for i := range jobs {
		i := i
		if count(l.Snapshot(), "JobBegin", i) > 0 {
			l.WaitFor(func(evs []Ev) bool { return count(evs, "JobEnd", i) > 0 }, deadline)
		}
	}
	evs := l.Snapshot()
	res.log = evs

	wpos := index(evs, "WaitRet", -1)
	var w, h []int
	if wpos >= 0 {
		w, h = evs[wpos].W, evs[wpos].H
	}
	name := "WorkerPool"
	for i, it := range c.Items {
		nb := count(evs, "JobBegin", i)
		if nb > 1 {
			res.failf("C11:"+name+":job-twice", "job %d ran %d times", i, nb)
		}
		if index(evs, "Add", i) < 0 {
			if nb > 0 {
				res.failf("C11:"+name+":rejected-job-ran", "job %d was refused by Add and ran anyway", i)
			}
			continue
		}
		if wpos < 0 {
			continue
		}
		bpos, epos := index(evs, "JobBegin", i), index(evs, "JobEnd", i)
		if bpos >= 0 && (epos < 0 || epos > wpos) {
			res.failf("C11:"+name+":not-awaited", "job %d was still running when the pool service's Wait returned", i)
			continue
		}
		if bpos >= 0 && fails(it.Oc) && !has(w, i) && !has(h, i) && !c.Handler && ctlClass(it.Oc) != "" {
			res.failf("C11:WorkerPool:control-error-dropped", "job %d returned a control-valued error (%s); the plain WorkerPool reports it neither through Wait nor to a handler (and an io.EOF / context error stops the whole pool even with ContinueOnError)", i, it.Oc)
		} else if bpos >= 0 && fails(it.Oc) && !has(w, i) && !has(h, i) {
			res.failf("C11:Wait:error-missing", "job %d (%s) ran and failed; neither Wait's error nor the handler saw its error (handler pool: %v)", i, it.Oc, c.Handler)
		}
	}
	for _, i := range append(append([]int{}, w...), h...) {
		if !fails(c.Items[i].Oc) {
			res.failf("C11:Wait:error-spurious", "a failure of job %d is reported, which does not fail", i)
		}
	}
	return res
}

// ---------------------------------------------------------------- Cleanup

func runCleanup(c Case) *result {
	res := &result{}
	l := newLog()
	errs := mkErrs(c, "cleanup")
	ctx, cancel := context.WithCancel(context.Background())
	defer cancel()

	fns := make([]fun.Worker, len(c.Items))
	for i, it := range c.Items {
		fns[i] = fun.Worker(body(l, "FnBegin", "FnEnd", i, it.Oc, errs[i], 0, nil, nil))
	}
	var pipe *pubsub.Queue[fun.Worker]
	var cctx context.Context
	var waitFn func() error
	add := func(i int) {
		l.Do(func() (ev Ev) {
			if c.ViaCtx {
				// srv.AddCleanup raises an invariant violation when the queue refuses the function
				defer func() {
					if r := recover(); r != nil {
						ev = Ev{K: "AddRej", I: i}
					}
				}()
				srv.AddCleanup(cctx, fns[i])
				return Ev{K: "Add", I: i}
			}
			if err := pipe.Add(fns[i]); err != nil {
				return Ev{K: "AddRej", I: i}
			}
			return Ev{K: "Add", I: i}
		})
	}
	start := func() {
		l.Do(func() Ev {
			if c.ViaCtx {
				cctx = srv.WithCleanup(ctx)
				waitFn = srv.GetOrchestrator(cctx).Wait
			} else {
				s := srv.Cleanup(pipe, 0)
				if err := s.Start(ctx); err != nil {
					res.failf("C11:harness:cleanup-start", "%v", err)
				}
				waitFn = s.Wait
			}
			return Ev{K: "Start"}
		})
	}
	if c.ViaCtx {
		start()
	} else {
		pipe = pubsub.NewUnlimitedQueue[fun.Worker]()
		for i, it := range c.Items {
			if it.Phase == 0 {
				add(i)
			}
		}
		start()
	}
	for i, it := range c.Items {
		if it.Phase == 1 || (c.ViaCtx && it.Phase == 0) {
			add(i)
		}
	}
	if c.Settle && pipe != nil {
		// wait until the service has moved everything into its cache (handshake on the queue length)
		end := time.Now().Add(deadline)
		for pipe.Len() > 0 && time.Now().Before(end) {
			time.Sleep(200 * time.Microsecond)
		}
	}
	var ops []func()
	for i, it := range c.Items {
		if it.Phase == 2 {
			i := i
			ops = append(ops, func() { add(i) })
		}
	}
	runPhase2(ops, func() { l.Do(func() Ev { cancel(); return Ev{K: "Cancel"} }) })
	for i, it := range c.Items {
		if it.Phase == 3 {
			add(i)
		}
	}
	werr, ok := callWithDeadline(waitFn)
	if !ok {
		res.failf("C11:Cleanup:wait-stuck", "the cleanup service's Wait did not return within %v of the cancellation", deadline)
	} else {
		l.Do(func() Ev { return Ev{K: "WaitRet", W: isIDs(werr, errs)} })
	}
	for i := range fns {
		i := i
		if count(l.Snapshot(), "FnBegin", i) > 0 {
			l.WaitFor(func(evs []Ev) bool { return count(evs, "FnEnd", i) > 0 }, deadline)
		}
	}
	evs := l.Snapshot()
	res.log = evs

	wpos := index(evs, "WaitRet", -1)
	cpos := index(evs, "Cancel", -1)
	var w []int
	if wpos >= 0 {
		w = evs[wpos].W
	}
	for i, it := range c.Items {
		nb := count(evs, "FnBegin", i)
		if nb > 1 {
			res.failf("C11:Cleanup:run-twice", "cleanup function %d ran %d times", i, nb)
		}
		bpos, epos := index(evs, "FnBegin", i), index(evs, "FnEnd", i)
		if bpos >= 0 && cpos >= 0 && bpos < cpos {
			res.failf("C11:Cleanup:ran-before-shutdown", "cleanup function %d ran before the service was shut down", i)
		}
		if index(evs, "Add", i) < 0 {
			if nb > 0 {
				res.failf("C11:Cleanup:rejected-ran", "cleanup function %d was refused by Add and ran anyway", i)
			}
			continue
		}
		if wpos < 0 {
			continue
		}
		if bpos < 0 || bpos > wpos || epos < 0 || epos > wpos {
			res.failf("C11:Cleanup:not-run", "cleanup function %d (%s, phase %d) was accepted (Add returned nil) and had not run when the service's Wait returned", i, it.Oc, it.Phase)
			continue
		}
		if fails(it.Oc) && !has(w, i) {
			res.failf("C11:Wait:error-missing", "cleanup function %d (%s) failed; Wait's error does not satisfy errors.Is for it", i, it.Oc)
		}
	}
	for _, i := range w {
		if !fails(c.Items[i].Oc) {
			res.failf("C11:Wait:error-spurious", "a failure of cleanup function %d is reported, which does not fail", i)
		}
	}
	return res
}

// ---------------------------------------------------------------- Coq terms

func coqOc(oc string) string {
	switch oc {
	case "ok":
		return "Ok"
	case "err":
		return "Err"
	case "pan":
		return "Pan"
	case "blk":
		return "Blk"
	case "blkerr":
		return "BlkErr"
	}
	switch ctlClass(oc) {
	case "stop":
		return "CtlStop"
	case "skip":
		return "CtlSkip"
	}
	return "Err" // ers.ErrCurrentOpAbort is an ordinary error for the code under test
}

func natList(xs []int) string {
	s := make([]string, len(xs))
	for i, x := range xs {
		s[i] = fmt.Sprint(x)
	}
	return "[" + strings.Join(s, "; ") + "]"
}

func coqTerm(c Case, evs []Ev) string {
	ocs := make([]string, len(c.Items))
	for i, it := range c.Items {
		ocs[i] = coqOc(it.Oc)
	}
	mod := map[string]string{"orch": "Orch", "group": "Grp", "pool": "Pool", "cleanup": "Cln"}[c.Kind]
	names := map[string]string{
		"orch/Add": "EAdd", "orch/EnvStart": "EEnvStart", "orch/OrchStart": "EOrchStart", "orch/Cancel": "ECancel",
		"orch/RunBegin": "ERunBegin", "orch/RunEnd": "ERunEnd",
		"group/Start": "EStart", "group/Cancel": "ECancel", "group/RunBegin": "ERunBegin", "group/RunEnd": "ERunEnd",
		"pool/Add": "EAdd", "pool/AddRej": "EAddRej", "pool/Start": "EStart", "pool/Cancel": "ECancel", "pool/JobBegin": "EJobBegin", "pool/JobEnd": "EJobEnd",
		"cleanup/Add": "EAdd", "cleanup/AddRej": "EAddRej", "cleanup/Start": "EStart", "cleanup/Cancel": "ECancel", "cleanup/FnBegin": "EFnBegin", "cleanup/FnEnd": "EFnEnd",
	}
	noarg := map[string]bool{"OrchStart": true, "Cancel": true, "Start": true}
	var es []string
	for _, e := range evs {
		if e.K == "WaitRet" {
			if c.Kind == "pool" {
				es = append(es, fmt.Sprintf("%s.EWaitRet %s %s", mod, natList(e.W), natList(e.H)))
			} else {
				es = append(es, fmt.Sprintf("%s.EWaitRet %s", mod, natList(e.W)))
			}
			break // the model's log ends when Wait returns
		}
		nm, ok := names[c.Kind+"/"+e.K]
		if !ok {
			nm = "UNKNOWN_" + e.K // orch/AddRej never happens on a correct tree; makes the case file fail loudly
		}
		if noarg[e.K] {
			es = append(es, mod+"."+nm)
		} else {
			es = append(es, fmt.Sprintf("%s.%s %d", mod, nm, e.I))
		}
	}
	log := "[" + strings.Join(es, "; ") + "]"
	oc := "[" + strings.Join(ocs, "; ") + "]"
	switch c.Kind {
	case "orch":
		return fmt.Sprintf("COrch %s %s %s", kit.ZI(c.ID), oc, log)
	case "group":
		return fmt.Sprintf("CGroup %s %d %s %s", kit.ZI(c.ID), len(c.Items), oc, log)
	case "pool":
		return fmt.Sprintf("CPool %s (Pool.mkconf %d %s %s %s %s) %s %s", kit.ZI(c.ID), c.Workers, kit.Bool(c.Handler), kit.Bool(c.Coe), kit.Bool(c.Cop), kit.Bool(c.Limit > 0 || c.ViaCtx), oc, log)
	}
	return fmt.Sprintf("CCleanup %s %s %s", kit.ZI(c.ID), oc, log)
}

// ---------------------------------------------------------------- generation

var allOcs = []string{"ok", "err", "pan", "blk", "blkerr", "ok", "err", "blkerr", "CTL"}
var ctlOcs = []string{"eof", "weof", "canceled", "wcanceled", "deadline", "wdeadline", "skip", "wskip", "abort", "wabort"}

// fixCtl replaces the placeholder "CTL" by a control-valued outcome. Each base sentinel is used by at most one
// item of a case: errors.Is(err, io.EOF) cannot tell a bare io.EOF of one item from another item's error that
// wraps io.EOF, so two such items could not be told apart in the error Wait returns.
func fixCtl(r *kit.Rand, its []Item) {
	used := map[string]bool{}
	for i := range its {
		if its[i].Oc == "CTL" {
			its[i].Oc = ctlOcs[r.Intn(len(ctlOcs))]
		}
		if !isCtl(its[i].Oc) {
			continue
		}
		wrapped := strings.HasPrefix(its[i].Oc, "w")
		base := strings.TrimPrefix(its[i].Oc, "w")
		if used[base] {
			base = ""
			for _, b := range []string{"eof", "canceled", "deadline", "skip", "abort"} {
				if !used[b] {
					base = b
					break
				}
			}
			if base == "" {
				its[i].Oc = "err"
				continue
			}
		}
		used[base] = true
		if wrapped {
			its[i].Oc = "w" + base
		} else {
			its[i].Oc = base
		}
	}
}

func genItems(r *kit.Rand, n int, ocs []string, phases []int, kinds []string) []Item {
	its := make([]Item, n)
	for i := range its {
		its[i].Oc = ocs[r.Intn(len(ocs))]
		its[i].Phase = phases[r.Intn(len(phases))]
		if kinds != nil {
			its[i].Kind = kinds[r.Intn(len(kinds))]
			if its[i].Kind == "finished" && blocking(its[i].Oc) {
				its[i].Kind = "running"
			}
		}
	}
	fixCtl(r, its)
	return its
}

func genCase(r *kit.Rand, id int) Case {
	c := Case{ID: id}
	switch r.Intn(4) {
	case 0:
		c.Kind = "orch"
		n := r.Range(0, 7)
		kinds := []string{"fresh", "fresh", "fresh", "running", "finished", "raced"}
		phases := []int{0, 1, 1, 2, 2, 3}
		if r.Chance(1, 12) { // many unstarted services whose owners start them while the orchestrator picks them up
			n = r.Range(16, 48)
			kinds = []string{"raced", "raced", "raced", "fresh"}
			phases = []int{1}
			c.LingerMs = 2
		}
		c.Items = genItems(r, n, allOcs, phases, kinds)
		for i := range c.Items {
			if c.Items[i].Kind == "raced" && c.Items[i].Phase != 1 {
				c.Items[i].Kind = "fresh"
			}
		}
		c.ViaCtx = r.Chance(1, 5)
		c.Settle = r.Chance(1, 3)
		if r.Chance(1, 4) {
			c.LingerMs = r.Range(1, 5)
		}
	case 1:
		c.Kind = "group"
		n := r.Range(1, 6)
		c.Cancel = []string{"grace", "grace", "none", "during-start", "before-start"}[r.Intn(5)]
		ocs := allOcs
		if c.Cancel == "none" {
			ocs = []string{"ok", "err", "pan", "CTL"}
		}
		if c.Cancel == "during-start" {
			n = r.Range(8, 40)
		}
		c.Items = genItems(r, n, ocs, []int{0}, nil)
		if c.Cancel == "during-start" {
			c.LingerMs = 1
		}
	case 2:
		c.Kind = "pool"
		c.Workers = r.Range(1, 4)
		c.Handler = r.Bool()
		c.Coe = r.Chance(3, 4)
		c.Cop = r.Chance(3, 4)
		c.ViaCtx = r.Chance(1, 5)
		if !c.ViaCtx && r.Chance(1, 3) {
			c.Limit = r.Range(1, 6)
		}
		n := r.Range(0, 12)
		ocs := []string{"ok", "ok", "ok", "ok", "err", "err", "pan", "blk", "blkerr", "CTL"}
		c.Items = genItems(r, n, ocs, []int{0, 1, 1, 1, 2, 2, 3}, nil)
		c.Settle = r.Chance(2, 3)
		if r.Chance(1, 5) {
			c.LingerMs = r.Range(1, 3)
		}
	default:
		c.Kind = "cleanup"
		n := r.Range(0, 8)
		c.Items = genItems(r, n, []string{"ok", "ok", "err", "pan", "CTL"}, []int{0, 1, 1, 2, 2, 3}, nil)
		c.ViaCtx = r.Chance(1, 4)
		c.Settle = r.Chance(1, 3)
	}
	return c
}

// corpus: boundary scenarios that always run (each reproduces a defect found with this check on the
// tree as it was before the C11 repairs; see /verif/fixes_pending/C11-*.diff)
func corpus() []Case {
	return []Case{
		// defect 16: cleanup functions added just before the cancellation never ran
		{Kind: "cleanup", Items: []Item{{Oc: "ok", Phase: 1}, {Oc: "err", Phase: 1}, {Oc: "pan", Phase: 1}}, Rounds: 5},
		{Kind: "cleanup", ViaCtx: true, Items: []Item{{Oc: "ok", Phase: 1}, {Oc: "err", Phase: 1}}, Rounds: 3},
		// defect 24: the group's Run returned once its members were started and the wrapper cancelled them
		{Kind: "group", Cancel: "grace", Items: []Item{{Oc: "blk"}, {Oc: "blk"}, {Oc: "blkerr"}}, Rounds: 3},
		{Kind: "group", Cancel: "none", Items: []Item{{Oc: "ok"}, {Oc: "err"}, {Oc: "pan"}}, Rounds: 3},
		// a member started while the group's context was being cancelled was not awaited
		{Kind: "group", Cancel: "during-start", LingerMs: 1, Items: rep(Item{Oc: "blk"}, 48), Rounds: 8},
		// a service that was already running when it was added was only awaited until the cancellation
		{Kind: "orch", LingerMs: 20, Items: []Item{{Oc: "blkerr", Kind: "running", Phase: 1}, {Oc: "ok", Kind: "fresh", Phase: 1}}, Rounds: 3},
		{Kind: "orch", LingerMs: 20, Items: []Item{{Oc: "blk", Kind: "running", Phase: 0}}, Rounds: 2},
		// a racing owner Start, placed with the yield hooks: the orchestrator looked at a service whose owner's Start
		// was still in progress (Running() already true, isStarted not yet) and its Wait() returned "not started"
		{Kind: "orch", Hook: "owner-in-start", LingerMs: 20, Items: []Item{{Oc: "blkerr", Kind: "raced", Phase: 1}}, Rounds: 3},
		// ... and the owner starting the service between the run loop's checks and the orchestrator's own Start
		{Kind: "orch", Hook: "orch-in-start", LingerMs: 20, Items: []Item{{Oc: "blkerr", Kind: "raced", Phase: 1}}, Rounds: 3},
		{Kind: "orch", Hook: "orch-in-start", Items: []Item{{Oc: "weof", Kind: "raced", Phase: 1}}, Rounds: 2},
		// the same race without hooks: many services, owners starting them while the orchestrator walks its queue
		{Kind: "orch", LingerMs: 3, Items: rep(Item{Oc: "blkerr", Kind: "raced", Phase: 1}, 64), Rounds: 6},
		// control-valued errors (is / wraps io.EOF, a context error, ErrIteratorSkip, ErrCurrentOpAbort)
		{Kind: "cleanup", Items: append([]Item{{Oc: "eof", Phase: 1}, {Oc: "wdeadline", Phase: 1}, {Oc: "wcanceled", Phase: 1}, {Oc: "skip", Phase: 1}, {Oc: "abort", Phase: 1}}, rep(Item{Oc: "ok", Phase: 1}, 40)...), Rounds: 2},
		{Kind: "cleanup", Items: append(rep(Item{Oc: "ok", Phase: 1}, 20), append([]Item{{Oc: "weof", Phase: 1}}, rep(Item{Oc: "ok", Phase: 1}, 20)...)...), Rounds: 2},
		{Kind: "orch", Settle: true, Items: []Item{{Oc: "eof", Kind: "fresh", Phase: 1}, {Oc: "wcanceled", Kind: "fresh", Phase: 0}, {Oc: "deadline", Kind: "running", Phase: 1}, {Oc: "wskip", Kind: "finished", Phase: 1}, {Oc: "abort", Kind: "fresh", Phase: 1}}, Rounds: 2},
		{Kind: "group", Cancel: "none", Items: []Item{{Oc: "eof"}, {Oc: "wdeadline"}, {Oc: "skip"}, {Oc: "ok"}}, Rounds: 2},
		{Kind: "pool", Workers: 2, Handler: true, Coe: true, Cop: true, Settle: true, Items: []Item{{Oc: "eof", Phase: 1}, {Oc: "wcanceled", Phase: 1}, {Oc: "wskip", Phase: 1}, {Oc: "abort", Phase: 1}, {Oc: "ok", Phase: 1}, {Oc: "ok", Phase: 1}}, Rounds: 2},
		// KNOWN FINDING C11:WorkerPool:control-error-dropped: the plain WorkerPool consumes a job's io.EOF as a signal
		{Kind: "pool", Workers: 2, Coe: true, Cop: true, Items: []Item{{Oc: "ok", Phase: 1}, {Oc: "weof", Phase: 1}, {Oc: "ok", Phase: 1}}, Rounds: 1},
		// plain scenarios
		{Kind: "orch", Settle: true, Items: []Item{{Oc: "ok", Kind: "fresh", Phase: 0}, {Oc: "err", Kind: "fresh", Phase: 1}, {Oc: "pan", Kind: "fresh", Phase: 1}, {Oc: "blk", Kind: "fresh", Phase: 2}, {Oc: "err", Kind: "finished", Phase: 1}}, Rounds: 2},
		{Kind: "pool", Workers: 2, Coe: true, Cop: true, Settle: true, Items: []Item{{Oc: "ok", Phase: 0}, {Oc: "err", Phase: 1}, {Oc: "pan", Phase: 1}, {Oc: "blk", Phase: 1}, {Oc: "ok", Phase: 2}}, Rounds: 2},
		{Kind: "pool", Workers: 1, Handler: true, Settle: true, Items: []Item{{Oc: "ok", Phase: 0}, {Oc: "err", Phase: 1}, {Oc: "pan", Phase: 1}, {Oc: "ok", Phase: 1}}, Rounds: 2},
	}
}

func rep(it Item, n int) []Item {
	out := make([]Item, n)
	for i := range out {
		out[i] = it
	}
	return out
}

func execute(c Case) *result {
	switch c.Kind {
	case "orch":
		if c.Hook != "" {
			return runOrchHook(c)
		}
		return runOrch(c)
	case "group":
		return runGroup(c)
	case "pool":
		return runPool(c)
	}
	return runCleanup(c)
}

func nontrivial(c Case) bool {
	if len(c.Items) < 2 {
		return false
	}
	f, late := false, false
	for _, it := range c.Items {
		if fails(it.Oc) || blocking(it.Oc) {
			f = true
		}
		if it.Phase >= 1 {
			late = true
		}
	}
	return f && (late || c.Kind == "group")
}

func key(c Case) string {
	return fmt.Sprintf("%s|%v|%d|%v%v%v|%d|%v|%s|%v|%s", c.Kind, c.Items, c.Workers, c.Handler, c.Coe, c.Cop, c.Limit, c.ViaCtx, c.Cancel, c.Settle, c.Hook)
}

func main() {
	run := kit.Start()
	run.Header = "From FunV Require Import Base.Tac Model.OrchestratorModel Corr.C11_corr."
	run.Footer = "Definition M := Eval vm_compute in mismatches cases.\nPrint M."
	run.CaseType = "case"
	run.ShardSize = 100
	run.Rule = "scenario scripts for Orchestrator (services fresh/running/finished/raced = started by their owner while the orchestrator picks them up, also placed with the srv yield hooks; Add before start / while running / racing cancel / after cancel), Group (cancel after grace / during member start / never / before start), WorkerPool+HandlerWorkerPool (1..4 workers, continue-on-error/panic on/off, unlimited/bounded queue, direct and via srv.WithWorkerPool), Cleanup (direct and via srv.WithCleanup); outcomes per item: ok/err/pan/blk/blkerr or a control-valued error that is or wraps io.EOF, context.Canceled, context.DeadlineExceeded, ErrIteratorSkip, ErrCurrentOpAbort. One evaluation = one execution of a scenario on the real code with its recorded event log. distinct = distinct scenario scripts; non-trivial = at least 2 items, at least one failing or blocking item, and (except Group) at least one item added after start"

	if run.Replay != "" {
		var c Case
		if err := kit.ReadReplayCase(run.Replay, &c); err != nil {
			panic(err)
		}
		rounds := 60
		for k := 0; k < rounds; k++ {
			res := execute(c)
			if len(res.fails) > 0 || k == rounds-1 {
				fmt.Printf("round %d of scenario %+v\nlog: %+v\n", k, c, res.log)
				for _, f := range res.fails {
					fmt.Printf("ORACLE %s: %s\n", f.sig, f.detail)
					run.OracleFail(c.ID, f.sig, f.detail, c, res.log)
				}
				if len(res.fails) > 0 {
					break
				}
			}
		}
		run.Finish()
		return
	}

	// build the list of executions
	var todo []Case
	id := 0
	push := func(c Case) {
		rounds := c.Rounds
		if rounds <= 0 {
			rounds = 1
		}
		if run.Thorough() && c.Rounds > 0 {
			rounds *= 10 // the corpus scenarios (the generated ones are multiplied through n below)
		}
		c.Rounds = 0
		for k := 0; k < rounds; k++ {
			c.ID = id
			id++
			todo = append(todo, c)
		}
	}
	for _, c := range corpus() {
		push(c)
	}
	n := run.Pick(4000, 40000)
	if st := os.Getenv("C11_STRESS"); st != "" {
		// development aid: C11_STRESS=<file with one JSON case> runs that scenario 400 times instead of the generated ones
		var c Case
		if err := kit.ReadReplayCase(st, &c); err != nil {
			panic(err)
		}
		c.Rounds = 400
		push(c)
		n = 0
	}
	for i := 0; i < n; i++ {
		push(genCase(run.Rand.Fork(), 0))
	}

	// execute (scenarios are independent; most of their time is spent waiting)
	results := make([]*result, len(todo))
	for k := range todo {
		if todo[k].Hook != "" { // the srv yield hook is global: these run alone
			results[k] = execute(todo[k])
		}
	}
	var wg sync.WaitGroup
	sem := make(chan struct{}, 8)
	for k := range todo {
		if todo[k].Hook != "" {
			continue
		}
		wg.Add(1)
		sem <- struct{}{}
		go func(k int) {
			defer wg.Done()
			defer func() { <-sem }()
			results[k] = execute(todo[k])
		}(k)
	}
	wg.Wait()

	for k, c := range todo {
		res := results[k]
		seen := map[string]bool{}
		for _, f := range res.fails {
			if seen[f.sig] {
				continue
			}
			seen[f.sig] = true
			rc := c
			rc.Rounds = 0
			run.OracleFail(c.ID, f.sig, f.detail, rc, res.log)
		}
		run.Count(c.Kind)
		if c.Kind == "group" {
			run.Count("group/cancel=" + c.Cancel)
		}
		if c.ViaCtx {
			run.Count(c.Kind + "/via-context-helpers")
		}
		if c.Hook != "" {
			run.Count("orch/hook=" + c.Hook)
		}
		for _, it := range c.Items {
			run.Count(fmt.Sprintf("%s/item oc=%s", c.Kind, it.Oc))
			if it.Kind == "raced" {
				run.Count("orch/item kind=raced")
			}
			if c.Kind != "group" {
				run.Count(fmt.Sprintf("%s/item phase=%d", c.Kind, it.Phase))
			}
		}
		if c.Kind == "pool" {
			run.Count(fmt.Sprintf("pool/workers=%d", c.Workers))
		}
		// the recorded log is kept with the case, so that a disagreement between model and implementation can be inspected
		type caseWithLog struct {
			Case
			Log []Ev `json:"log"`
		}
		run.Case(c.ID, caseWithLog{c, res.log}, coqTerm(c, res.log), key(c), nontrivial(c))
	}
	run.Finish()
}
