// Driver for C15 (function wrappers keep their execution-count, exclusion and
// waiting contracts).
//
// Sequential part (this file + build.go + oracle.go): a case is a wrapper tree
// over scripted functions plus a number of top-level calls; the REAL wrappers of
// /repo are built from the tree and called; per call the visible result (value,
// sorted error leaves, or the panic that reached the caller) and the order log of
// every execution of a scripted function / hook / condition are observed.  The
// case is printed as a Coq term (tree + observations) and re-run through
// Model/Wrappers.v by Corr/C15_corr.v; independent direct oracles written from
// the property text run on the observations.
//
// Concurrent part (conc.go): K goroutines against the real Once / Limit / Lock
// wrappers and the Launch/Signal/Background/StartGroup waiters, with
// deterministic verdicts (explicit handshakes, completion counters read at the
// moment a waiter returns, 10 s deadlines only to decide "stuck").
package main

import (
	"fmt"
	"sort"
	"strings"

	"verif/harness/kit"
)

// ---------------------------------------------------------------- case format

type Out struct {
	K string `json:"k"` // ok err eof abort ctx skip panic cancel
	V int64  `json:"v,omitempty"`
	E int64  `json:"e,omitempty"`
}

type Tree struct {
	W      string  `json:"w"` // base once limit retry lock if when join pre post
	ID     int     `json:"id,omitempty"`
	Script []Out   `json:"script,omitempty"`
	N      int     `json:"n,omitempty"`
	C      bool    `json:"c,omitempty"`
	Conds  []bool  `json:"conds,omitempty"`
	Impl   string  `json:"impl,omitempty"`
	Kids   []*Tree `json:"kids,omitempty"` // unary: [f]; join: [f,g]; pre/post: [hook, f]
}

type Conc struct {
	What string `json:"what"` // once limit lock launch
	Impl string `json:"impl"`
	K    int    `json:"k,omitempty"`
	M    int    `json:"m,omitempty"`
	N    int    `json:"n,omitempty"`
	R    int    `json:"r,omitempty"` // rounds
}

type Case struct {
	ID    int    `json:"id"`
	Kind  string `json:"kind"` // worker operation producer processor handler future | conc
	Tree  *Tree  `json:"tree,omitempty"`
	Calls int    `json:"calls,omitempty"`
	Conc  *Conc  `json:"conc,omitempty"`
}

type Res struct {
	Pan bool    `json:"pan,omitempty"`
	PK  int64   `json:"pk,omitempty"`
	V   int64   `json:"v"`
	L   []int64 `json:"l,omitempty"` // sorted leaf codes (leaf_code in Model/Wrappers.v)
}

type Obs struct {
	Constructed bool       `json:"constructed"`
	Results     []Res      `json:"results"`
	Log         [][2]int64 `json:"log"`
}

func (a Res) eq(b Res) bool {
	if a.Pan != b.Pan || a.PK != b.PK || a.V != b.V || len(a.L) != len(b.L) {
		return false
	}
	for i := range a.L {
		if a.L[i] != b.L[i] {
			return false
		}
	}
	return true
}

// ---------------------------------------------------------------- Coq printing

var kindCoq = map[string]string{"worker": "KWorker", "operation": "KOperation", "producer": "KProducer",
	"processor": "KProcessor", "handler": "KHandler", "future": "KFuture", "func": "KFunc"}

func coqOut(o Out) string {
	switch o.K {
	case "ok":
		return "OOk " + kit.Z(o.V)
	case "err":
		return "OErr " + kit.Z(o.V) + " " + kit.Z(o.E)
	case "eof":
		return "OEOF " + kit.Z(o.V)
	case "abort":
		return "OAbort " + kit.Z(o.V)
	case "ctx":
		return "OCtx " + kit.Z(o.V)
	case "skip":
		return "OSkip " + kit.Z(o.V)
	case "panic":
		return "OPanic " + kit.Z(o.E)
	case "cancel":
		return "OCancel " + kit.Z(o.V)
	}
	panic("bad outcome " + o.K)
}

func coqScript(s []Out) string {
	x := make([]string, len(s))
	for i, o := range s {
		x[i] = coqOut(o)
	}
	return kit.List(x)
}

// hookKind: the function type of the hook argument of kind.PreHook / kind.PostHook
func hookKind(kind, w string) string {
	if kind == "handler" {
		return "handler"
	}
	if w == "pre" && kind != "future" {
		return "operation"
	}
	return "func"
}

func coqTree(kind string, t *Tree) string {
	un := func(c string) string { return "(" + c + " " + coqTree(kind, t.Kids[0]) + ")" }
	switch t.W {
	case "base":
		return fmt.Sprintf("(FBase %s %s %s)", kindCoq[kind], kit.ZI(t.ID), coqScript(t.Script))
	case "once":
		return un("FOnce")
	case "limit":
		if kind == "operation" {
			return un("FLimitCAS " + kit.ZI(t.N))
		}
		return un("FLimitExec " + kit.ZI(t.N))
	case "retry":
		if kind == "producer" {
			return un("FRetryP " + kit.ZI(t.N))
		}
		return un("FRetryW " + kit.ZI(t.N))
	case "lock":
		return un("FLock")
	case "if":
		return un("FIf " + kit.Bool(t.C))
	case "when":
		return un(fmt.Sprintf("FWhen %s %s", kit.ZI(t.ID), kit.BoolList(t.Conds)))
	case "join":
		c := map[string]string{"worker": "FJoinW", "processor": "FJoinW", "operation": "FJoinO", "handler": "FJoinH",
			"future": "FJoinF", "producer": "FJoinP", "func": "FJoinH"}[kind]
		// wf.Join(a, b, c) folds merge from the left: ((wf.merge(a)).merge(b)).merge(c)
		out := coqTree(kind, t.Kids[0])
		for _, k := range t.Kids[1:] {
			out = fmt.Sprintf("(%s %s %s)", c, out, coqTree(kind, k))
		}
		return out
	case "pre", "post":
		hk := hookKind(kind, t.W)
		var c string
		switch {
		case kind == "handler":
			c = "FJoinH" // Handler.PreHook(prev) = prev.Join(of)
		case t.W == "pre" && (kind == "operation" || kind == "future"):
			c = "FPreProp"
		case t.W == "pre":
			c = "FPreRec"
		case kind == "operation" || kind == "future":
			c = "FPostDefer"
		default:
			c = "FPostRec"
		}
		return fmt.Sprintf("(%s %s %s)", c, coqTree(hk, t.Kids[0]), coqTree(kind, t.Kids[1]))
	}
	panic("bad wrapper " + t.W)
}

func coqLeaf(c int64) string {
	switch {
	case c == 1:
		return "LEOF"
	case c == 2:
		return "LAbort"
	case c == 3:
		return "LCtx"
	case c == 4:
		return "LSkip"
	case c == 5:
		return "LRecovered"
	case c >= 1000 && c < 2000:
		return "LPanicVal " + kit.Z(c-1000)
	case c >= 100 && c < 1000:
		return "LErr " + kit.Z(c-100)
	}
	return "LErr 9999%Z" // an error the driver could not classify: never produced by the model
}

func coqRes(r Res) string {
	if r.Pan {
		return "Pan " + kit.Z(r.PK)
	}
	l := make([]string, len(r.L))
	for i, c := range r.L {
		l[i] = coqLeaf(c)
	}
	return "Ret " + kit.Z(r.V) + " " + kit.List(l)
}

func coqObs(o Obs) string {
	rs := make([]string, len(o.Results))
	for i, r := range o.Results {
		rs[i] = coqRes(r)
	}
	lg := make([]string, len(o.Log))
	for i, e := range o.Log {
		lg[i] = kit.Pair(kit.Z(e[0]), kit.Z(e[1]))
	}
	return kit.Bool(o.Constructed) + " " + kit.List(rs) + " " + kit.List(lg)
}

// ---------------------------------------------------------------- generator

type gen struct {
	r      *kit.Rand
	nextID int
}

func (g *gen) id() int { g.nextID++; return g.nextID }

var wrappersOf = map[string][]string{
	"worker":    {"once", "limit", "retry", "lock", "if", "when", "join", "pre", "post"},
	"operation": {"once", "limit", "lock", "if", "when", "join", "pre", "post"},
	"producer":  {"once", "limit", "retry", "lock", "if", "when", "join", "pre", "post"},
	"processor": {"once", "limit", "retry", "lock", "if", "when", "join", "pre", "post"},
	"handler":   {"once", "lock", "if", "when", "join", "pre"},
	"future":    {"once", "limit", "lock", "if", "when", "join", "pre", "post"},
	"func":      {"once"},
}

var seqKinds = []string{"worker", "operation", "producer", "processor", "handler", "future"}

func (g *gen) outcome(kind string, noskip bool) Out {
	r := g.r
	v := int64(r.Range(1, 9))
	switch kind {
	case "operation", "handler", "func":
		switch x := r.Intn(10); {
		case x < 7:
			return Out{K: "ok", V: v}
		case x < 9:
			return Out{K: "panic", E: int64(r.Intn(4))}
		default:
			return Out{K: "cancel", V: v}
		}
	case "future":
		if r.Chance(1, 6) {
			return Out{K: "panic", E: int64(r.Intn(4))}
		}
		return Out{K: "ok", V: v}
	}
	for {
		switch x := r.Intn(20); {
		case x < 6:
			return Out{K: "ok", V: v}
		case x < 12:
			return Out{K: "err", V: v, E: int64(r.Intn(4))}
		case x < 13:
			return Out{K: "eof", V: v}
		case x < 14:
			return Out{K: "abort", V: v}
		case x < 15:
			return Out{K: "ctx", V: v}
		case x < 17:
			if noskip {
				continue
			}
			return Out{K: "skip", V: v}
		case x < 19:
			return Out{K: "panic", E: int64(r.Intn(4))}
		default:
			return Out{K: "cancel", V: v}
		}
	}
}

func (g *gen) base(kind string, noskip bool) *Tree {
	r := g.r
	n := r.Intn(9)
	if r.Chance(1, 8) {
		n = r.Range(9, 20)
	}
	t := &Tree{W: "base", ID: g.id()}
	shape := r.Intn(8)
	for i := 0; i < n; i++ {
		o := g.outcome(kind, noskip)
		switch shape {
		case 0: // all failures (retry exhausts)
			if kind == "worker" || kind == "producer" || kind == "processor" {
				o = Out{K: "err", V: int64(r.Range(1, 9)), E: int64(r.Intn(4))}
			}
		case 1: // no panics (the clean contracts)
			if o.K == "panic" {
				o = Out{K: "ok", V: int64(r.Range(1, 9))}
			}
		}
		t.Script = append(t.Script, o)
	}
	return t
}

func (g *gen) limitN() int {
	if g.r.Chance(1, 14) {
		return 0
	}
	return g.r.Range(1, 5)
}

func (g *gen) retryN() int {
	if g.r.Chance(1, 30) {
		return -1
	}
	return g.r.Intn(6)
}

func (g *gen) wrap(kind, w string, noskip bool, sub func(kind string, noskip bool) *Tree) *Tree {
	r := g.r
	t := &Tree{W: w}
	switch w {
	case "once":
		if kind == "future" {
			t.Impl = []string{"", "adt", "adtdo", "mnemonize"}[r.Intn(4)]
		}
		t.Kids = []*Tree{sub(kind, noskip)}
	case "limit":
		t.N = g.limitN()
		t.Kids = []*Tree{sub(kind, noskip)}
	case "retry":
		t.N = g.retryN()
		t.Kids = []*Tree{sub(kind, noskip)}
	case "lock":
		if r.Bool() {
			t.Impl = "with"
		}
		t.Kids = []*Tree{sub(kind, noskip)}
	case "if":
		t.C = r.Chance(2, 3)
		t.Kids = []*Tree{sub(kind, noskip)}
	case "when":
		t.ID = g.id()
		for i, n := 0, r.Intn(7); i < n; i++ {
			t.Conds = append(t.Conds, r.Chance(3, 5))
		}
		t.Kids = []*Tree{sub(kind, noskip)}
	case "join":
		ns := noskip || kind == "producer"
		if kind == "handler" && r.Chance(1, 3) {
			t.Impl = "chain"
		}
		if kind == "future" && r.Chance(1, 3) {
			t.Impl = "reduce"
		}
		t.Kids = []*Tree{sub(kind, ns), sub(kind, ns)}
		// the variadic forms: Worker/Operation/Processor.Join(...), Future.Join(merge, ...), Handler.Chain(...)
		if kind != "producer" && t.Impl != "reduce" && (kind != "handler" || t.Impl == "chain") {
			for extra := r.Intn(3); extra > 0; extra-- {
				t.Kids = append(t.Kids, sub(kind, ns))
			}
		}
	case "pre", "post":
		hk := hookKind(kind, w)
		var hook *Tree
		if r.Chance(1, 4) && hk != "handler" {
			hook = &Tree{W: "once", Kids: []*Tree{g.base(hk, true)}}
		} else {
			hook = g.base(hk, true)
		}
		t.Kids = []*Tree{hook, sub(kind, noskip)}
	}
	return t
}

func (g *gen) tree(kind string, depth int, noskip bool) *Tree {
	if depth <= 0 {
		return g.base(kind, noskip)
	}
	ws := wrappersOf[kind]
	w := ws[g.r.Intn(len(ws))]
	return g.wrap(kind, w, noskip, func(k string, ns bool) *Tree {
		d := depth - 1
		if w == "join" && d > 1 {
			d = 1
		}
		return g.tree(k, d, ns)
	})
}

// stack builds the given wrappers (outermost first) over a base
func (g *gen) stack(kind string, ws []string) *Tree {
	if len(ws) == 0 {
		return g.base(kind, false)
	}
	return g.wrap(kind, ws[0], false, func(k string, ns bool) *Tree {
		if ns {
			t := g.stack(k, ws[1:])
			stripSkips(t)
			return t
		}
		return g.stack(k, ws[1:])
	})
}

func stripSkips(t *Tree) {
	for i, o := range t.Script {
		if o.K == "skip" {
			t.Script[i] = Out{K: "err", V: o.V, E: 1}
		}
	}
	for _, k := range t.Kids {
		stripSkips(k)
	}
}

func has(ws []string, w string) bool {
	for _, x := range ws {
		if x == w {
			return true
		}
	}
	return false
}

func treeKey(t *Tree) string {
	var sb strings.Builder
	var rec func(t *Tree)
	rec = func(t *Tree) {
		sb.WriteString(t.W)
		switch t.W {
		case "base":
			for _, o := range t.Script {
				fmt.Fprintf(&sb, "%s%d.%d,", o.K[:2], o.V, o.E)
			}
		case "limit", "retry":
			fmt.Fprintf(&sb, "%d", t.N)
		case "if":
			fmt.Fprintf(&sb, "%v", t.C)
		case "when":
			fmt.Fprintf(&sb, "%v", t.Conds)
		}
		sb.WriteString(t.Impl + "(")
		for _, k := range t.Kids {
			rec(k)
			sb.WriteString(";")
		}
		sb.WriteString(")")
	}
	rec(t)
	return sb.String()
}

// shapeOf: the two outermost wrappers on the main path
func shapeOf(t *Tree) string {
	if t.W == "base" {
		return "base"
	}
	s := t.W
	main := t.Kids[len(t.Kids)-1]
	if main.W != "base" {
		s += "." + main.W
	}
	return s
}

func depthOf(t *Tree) int {
	d := 0
	for _, k := range t.Kids {
		if x := depthOf(k); x > d {
			d = x
		}
	}
	if t.W == "base" {
		return 0
	}
	return d + 1
}

// ---------------------------------------------------------------- main

func main() {
	run := kit.Start()
	run.Header = "From FunV Require Import Base.Tac Model.Wrappers Model.LaunchNet Corr.C15_corr."
	run.Footer = "Definition M := Eval vm_compute in mismatches cases.\nPrint M."
	run.CaseType = "case"
	run.Rule = "sequential: wrapper trees (Once/Limit/Retry/Lock/If/When/Join/PreHook/PostHook, depth 0..3, every single wrapper and the named stackings for each of Worker/Operation/Producer/Processor/Handler/Future incl. adt.Once, Mnemonize, ft.Once) over random outcome scripts (ok/err/EOF/abort/ctx/skip/panic/cancel), n in -1..5, 0..8 calls; concurrent: K goroutines against Once/Limit/Lock and every Launch/Signal/Background/StartGroup waiter. distinct = distinct (kind, tree, calls) or (concurrent scenario, parameters); non-trivial = at least one wrapper and at least one call (sequential), always (concurrent)"

	if run.Replay != "" {
		var c Case
		if err := kit.ReadReplayCase(run.Replay, &c); err != nil {
			panic(err)
		}
		execCase(run, c, true)
		run.Finish()
		return
	}

	id := 0
	add := func(c Case) {
		c.ID = id
		id++
		execCase(run, c, false)
	}

	// ---- corpus: fixed boundary cases
	for _, c := range corpus() {
		add(c)
	}

	// ---- concurrent scenarios (deterministic verdicts)
	for _, c := range concCases(run) {
		add(c)
	}

	// ---- every single wrapper and the named stackings, for every function type
	stackings := [][]string{
		{"once"}, {"limit"}, {"retry"}, {"lock"}, {"if"}, {"when"}, {"join"}, {"pre"}, {"post"},
		{"retry", "limit"}, {"once", "retry"}, {"limit", "pre"}, {"limit", "retry"}, {"retry", "once"},
		{"once", "limit"}, {"limit", "once"}, {"lock", "limit"}, {"limit", "post"}, {"once", "pre"},
		{"retry", "pre"}, {"retry", "post"}, {"when", "limit"}, {"limit", "when"}, {"join", "once"},
		{"once", "join"}, {"limit", "join"}, {"retry", "join"}, {"post", "pre"}, {"pre", "post"},
		{"lock", "once", "retry"}, {"limit", "lock", "retry"},
	}
	reps := run.Pick(8, 150)
	for _, kind := range seqKinds {
		for _, ws := range stackings {
			ok := true
			for _, w := range ws {
				if !has(wrappersOf[kind], w) {
					ok = false
				}
			}
			if !ok {
				continue
			}
			for i := 0; i < reps; i++ {
				g := &gen{r: run.Rand.Fork()}
				add(Case{Kind: kind, Tree: g.stack(kind, ws), Calls: g.r.Intn(9)})
			}
		}
	}

	// ---- Join of m >= 3 parts, the context cancelled DURING part i, for every i and every function type that has a variadic Join
	for _, kind := range []string{"worker", "operation", "processor", "handler", "future"} {
		for m := 3; m <= 5; m++ {
			for i := 0; i < m; i++ {
				t := &Tree{W: "join"}
				if kind == "handler" {
					t.Impl = "chain"
				}
				for j := 0; j < m; j++ {
					b := &Tree{W: "base", ID: j + 1, Script: []Out{{K: "ok", V: int64(j + 1)}, {K: "ok", V: int64(j + 1)}}}
					if j == i {
						b.Script[0] = Out{K: "cancel", V: int64(j + 1)}
					}
					t.Kids = append(t.Kids, b)
				}
				add(Case{Kind: kind, Tree: t, Calls: 2})
			}
		}
	}

	// ---- random trees
	n := run.Pick(12000, 80000)
	for i := 0; i < n; i++ {
		g := &gen{r: run.Rand.Fork()}
		kind := seqKinds[g.r.Intn(len(seqKinds))]
		add(Case{Kind: kind, Tree: g.tree(kind, g.r.Intn(4), false), Calls: g.r.Intn(9)})
	}
	run.Finish()
}

func corpus() []Case {
	b := func(id int, s ...Out) *Tree { return &Tree{W: "base", ID: id, Script: s} }
	ok := func(v int64) Out { return Out{K: "ok", V: v} }
	er := func(e int64) Out { return Out{K: "err", V: 1, E: e} }
	w1 := func(w string, n int, k *Tree) *Tree { return &Tree{W: w, N: n, Kids: []*Tree{k}} }
	return []Case{
		{Kind: "worker", Tree: w1("once", 0, b(1, er(1), ok(2))), Calls: 3},
		{Kind: "worker", Tree: w1("once", 0, b(1, Out{K: "panic", E: 2}, er(1))), Calls: 3},
		{Kind: "worker", Tree: w1("limit", 2, b(1, er(1), er(2), er(3))), Calls: 5},
		{Kind: "worker", Tree: w1("limit", 1, b(1, Out{K: "panic", E: 1}, er(2), er(3))), Calls: 4},
		{Kind: "worker", Tree: w1("limit", 0, b(1)), Calls: 1},
		{Kind: "operation", Tree: w1("limit", 2, b(1, Out{K: "panic", E: 1}, ok(1), ok(1))), Calls: 4},
		{Kind: "worker", Tree: w1("retry", 3, b(1, er(1), er(2), ok(0), er(3))), Calls: 2},
		{Kind: "worker", Tree: w1("retry", 3, b(1, er(1), Out{K: "eof"}, er(3))), Calls: 1},
		{Kind: "producer", Tree: w1("retry", 3, b(1, er(1), Out{K: "eof", V: 4}, er(3))), Calls: 1},
		{Kind: "producer", Tree: w1("retry", 2, b(1, Out{K: "skip"}, Out{K: "skip"}, ok(5))), Calls: 2},
		{Kind: "worker", Tree: w1("retry", 4, b(1, er(1), Out{K: "ctx"}, ok(0))), Calls: 1},
		{Kind: "worker", Tree: w1("retry", 0, b(1, er(1))), Calls: 2},
		{Kind: "worker", Tree: &Tree{W: "join", Kids: []*Tree{b(1, ok(0), er(1)), b(2, ok(0), ok(0))}}, Calls: 3},
		{Kind: "worker", Tree: &Tree{W: "join", Kids: []*Tree{b(1, Out{K: "cancel"}), b(2, ok(0))}}, Calls: 2},
		{Kind: "operation", Tree: &Tree{W: "join", Kids: []*Tree{b(1, ok(0), Out{K: "cancel"}), b(2)}}, Calls: 3},
		{Kind: "producer", Tree: &Tree{W: "join", Kids: []*Tree{b(1, ok(1), Out{K: "eof"}), b(2, ok(2), Out{K: "eof"})}}, Calls: 6},
		{Kind: "producer", Tree: &Tree{W: "join", Kids: []*Tree{b(1, ok(1), er(3)), b(2, ok(2))}}, Calls: 4},
		{Kind: "worker", Tree: &Tree{W: "pre", Kids: []*Tree{b(1, Out{K: "panic", E: 1}), b(2, er(2))}}, Calls: 2},
		{Kind: "worker", Tree: &Tree{W: "post", Kids: []*Tree{b(1, Out{K: "panic", E: 1}), b(2, er(2), Out{K: "panic", E: 3})}}, Calls: 3},
		{Kind: "operation", Tree: &Tree{W: "post", Kids: []*Tree{b(1, ok(0), Out{K: "panic", E: 1}), b(2, Out{K: "panic", E: 2}, Out{K: "panic", E: 3})}}, Calls: 3},
		{Kind: "future", Tree: &Tree{W: "once", Impl: "adt", Kids: []*Tree{b(1, ok(7), ok(8))}}, Calls: 3},
		{Kind: "future", Tree: &Tree{W: "once", Impl: "mnemonize", Kids: []*Tree{b(1, Out{K: "panic", E: 1}, ok(8))}}, Calls: 3},
		{Kind: "worker", Tree: w1("retry", 3, w1("limit", 2, b(1, er(1), er(2), ok(0)))), Calls: 2},
		{Kind: "worker", Tree: w1("once", 0, w1("retry", 3, b(1, er(1), er(2), ok(0)))), Calls: 2},
		{Kind: "worker", Tree: w1("limit", 2, &Tree{W: "pre", Kids: []*Tree{b(1), b(2, er(1), er(2), er(3))}}), Calls: 4},
	}
}

// ---------------------------------------------------------------- executing one case

func execCase(run *kit.Run, c Case, verbose bool) {
	if c.Kind == "conc" {
		execConc(run, c, verbose)
		return
	}
	obs := runSeq(c)
	if verbose {
		fmt.Printf("kind=%s calls=%d tree=%s\nconstructed=%v\n", c.Kind, c.Calls, treeKey(c.Tree), obs.Constructed)
		for i, r := range obs.Results {
			fmt.Printf("  call %d -> %s\n", i, coqRes(r))
		}
		fmt.Printf("  log (function id, call): %v\n", obs.Log)
	}
	for _, f := range seqOracles(c, obs) {
		if verbose {
			fmt.Printf("ORACLE FAIL %s: %s\n", f.sig, f.detail)
		}
		run.OracleFail(c.ID, f.sig, f.detail, c, obs)
	}
	run.Count("seq/" + c.Kind + "/" + shapeOf(c.Tree))
	run.Count(fmt.Sprintf("seq/depth=%d", depthOf(c.Tree)))
	run.Count(fmt.Sprintf("seq/calls=%s", bucket(c.Calls)))
	np := 0
	for _, r := range obs.Results {
		if r.Pan {
			np++
		}
	}
	if np > 0 {
		run.Count("seq/with-panic-reaching-caller")
	}
	if !obs.Constructed {
		run.Count("seq/constructor-panicked")
	}
	term := fmt.Sprintf("CSeq %s %s %d %s", kit.ZI(c.ID), coqTree(c.Kind, c.Tree), c.Calls, coqObs(obs))
	run.Case(c.ID, c, term, fmt.Sprintf("%s|%d|%s", c.Kind, c.Calls, treeKey(c.Tree)), c.Tree.W != "base" && c.Calls > 0)
}

func bucket(n int) string {
	switch {
	case n == 0:
		return "0"
	case n == 1:
		return "1"
	case n <= 3:
		return "2-3"
	default:
		return "4-8"
	}
}

func sortedCodes(l []int64) []int64 {
	sort.Slice(l, func(i, j int) bool { return l[i] < l[j] })
	return l
}
