package main

// Concurrent oracles with deterministic verdicts.
//
// Every verdict is derived from facts that are certain when they are observed:
//   - an invocation counter incremented inside the wrapped function;
//   - a max-concurrency gauge inside the wrapped function;
//   - a completion flag/counter that the wrapped function sets as its last action and
//     that a caller / waiter reads immediately AFTER its own call has returned: if the
//     flag is not set at that moment, the caller returned before the execution finished;
//   - 10 s deadlines, used only to decide "stuck".
// Short pauses ("grace") are used only to give a defective implementation the time to
// misbehave; they are never evidence that the implementation is right.
//
// Every run also records a stamped event trace (one atomic counter), which is printed
// as a Coq term and replayed through the executable acceptors of Model/LaunchNet.v.

import (
	"context"
	"fmt"
	"io"
	"runtime"
	"sort"
	"sync"
	"sync/atomic"
	"time"

	"github.com/tychoish/fun"
	"github.com/tychoish/fun/adt"
	"github.com/tychoish/fun/ft"

	"verif/harness/kit"
)

const (
	deadline = 10 * time.Second
	grace    = 4 * time.Millisecond
)

type cev struct {
	S int64  `json:"s"`
	K string `json:"k"` // call start end ret
	T int64  `json:"t"`
	V int64  `json:"v"`
}

type recorder struct {
	ctr atomic.Int64
	mu  sync.Mutex
	evs []cev
}

func (r *recorder) rec(k string, t, v int64) {
	s := r.ctr.Add(1)
	r.mu.Lock()
	r.evs = append(r.evs, cev{S: s, K: k, T: t, V: v})
	r.mu.Unlock()
}

func (r *recorder) sorted() []cev {
	r.mu.Lock()
	defer r.mu.Unlock()
	out := append([]cev(nil), r.evs...)
	sort.Slice(out, func(i, j int) bool { return out[i].S < out[j].S })
	return out
}

func coqEvents(evs []cev) string {
	s := make([]string, len(evs))
	for i, e := range evs {
		switch e.K {
		case "call":
			s[i] = "EvCall " + kit.Z(e.T)
		case "start":
			s[i] = "EvStart " + kit.Z(e.T)
		case "end":
			s[i] = "EvEnd " + kit.Z(e.T) + " " + kit.Z(e.V)
		case "ret":
			s[i] = "EvRet " + kit.Z(e.T) + " " + kit.Z(e.V)
		case "ctx":
			s[i] = "EvCtx " + kit.Z(e.T)
		}
	}
	return kit.List(s)
}

// goid returns the id of the calling goroutine (parsed from its stack header); the wrapped
// function runs on its caller's goroutine, which is how a body event learns its caller.
func goid() int64 {
	var buf [64]byte
	n := runtime.Stack(buf[:], false)
	var id int64
	for _, c := range buf[len("goroutine "):n] {
		if c < '0' || c > '9' {
			break
		}
		id = id*10 + int64(c-'0')
	}
	return id
}

type callerMap struct{ m sync.Map }

func (c *callerMap) set(id int64) { c.m.Store(goid(), id) }
func (c *callerMap) get() int64 {
	if v, ok := c.m.Load(goid()); ok {
		return v.(int64)
	}
	return -1
}

// waitFor polls cond until it holds or the deadline passes.
func waitFor(cond func() bool) bool {
	t0 := time.Now()
	for !cond() {
		if time.Since(t0) > deadline {
			return false
		}
		runtime.Gosched()
		time.Sleep(50 * time.Microsecond)
	}
	return true
}

func waitChan(ch <-chan struct{}) bool {
	select {
	case <-ch:
		return true
	case <-time.After(deadline):
		return false
	}
}

func firstLeaf(err error) int64 {
	l := leaves(err)
	if len(l) == 0 {
		return 0
	}
	if len(l) > 1 {
		return -int64(len(l))
	}
	return l[0]
}

var onceImpls = []string{"worker", "operation", "producer", "processor", "handler", "future", "adt", "adtdo", "adtdoonly", "adtdo-then-resolve", "mnemonize", "ftonce", "ftoncedo"}
var limitImpls = []string{"worker", "producer", "processor", "future", "operation"}
var lockImpls = []string{"worker", "operation", "producer", "processor", "handler", "future",
	"worker-with", "operation-with", "producer-with", "processor-with", "handler-with", "future-with"}

func concCases(run *kit.Run) []Case {
	var cs []Case
	r := run.Rand.Fork()
	reps := run.Pick(6, 40)
	for rep := 0; rep < reps; rep++ {
		for _, impl := range onceImpls {
			cs = append(cs, Case{Kind: "conc", Conc: &Conc{What: "once", Impl: impl, K: r.Range(2, 12)}})
		}
		cs = append(cs, Case{Kind: "conc", Conc: &Conc{What: "once", Impl: onceImpls[r.Intn(len(onceImpls))], K: 1}})
		for _, impl := range limitImpls {
			cs = append(cs, Case{Kind: "conc", Conc: &Conc{What: "limit", Impl: impl, K: r.Range(2, 8), M: r.Range(1, 6), N: r.Range(1, 5)}})
			cs = append(cs, Case{Kind: "conc", Conc: &Conc{What: "limit", Impl: impl, K: r.Range(2, 4), M: 1, N: r.Range(3, 5)}})
		}
		// high-contention rounds with the number of calls close to n (no traces: the counts are the oracle)
		for _, impl := range limitImpls {
			n := r.Range(2000, 6000) * 8
			for _, c := range []int{n, n + 1, n + 8, n - r.Range(1, 50), n / 2} {
				cs = append(cs, Case{Kind: "conc", Conc: &Conc{What: "limitstress", Impl: impl, K: 8, N: n, M: c, R: run.Pick(3, 6)}})
			}
			cs = append(cs, Case{Kind: "conc", Conc: &Conc{What: "limitstress", Impl: impl, K: r.Range(2, 16), N: r.Range(50, 400), M: r.Range(50, 400), R: run.Pick(20, 60)}})
		}
		for _, impl := range lockImpls {
			cs = append(cs, Case{Kind: "conc", Conc: &Conc{What: "lock", Impl: impl, K: r.Range(2, 8), M: r.Range(1, 12)}})
		}
		for _, w := range waiterSpecs {
			n := 1
			if w.multi {
				n = r.Range(1, 4)
			}
			cs = append(cs, Case{Kind: "conc", Conc: &Conc{What: "launch", Impl: w.name, N: n}})
			if !w.lazy {
				// M = 1: a wait with an already-expired context first; 2: with a soon-expiring one; 3: concurrent waiters with mixed contexts
				for mode := 1; mode <= 3; mode++ {
					cs = append(cs, Case{Kind: "conc", Conc: &Conc{What: "launch", Impl: w.name, N: n, M: mode}})
				}
			}
		}
	}
	return cs
}

func execConc(run *kit.Run, c Case, verbose bool) {
	var fails []fail
	var evs []cev
	var info string
	cc := c.Conc
	switch cc.What {
	case "once":
		fails, evs, info = concOnce(cc.Impl, cc.K)
	case "limit":
		fails, evs, info = concLimit(cc.Impl, cc.K, cc.M, cc.N)
	case "limitstress":
		fails, info = concLimitStress(cc.Impl, cc.K, cc.N, cc.M, cc.R)
		if verbose {
			fmt.Printf("concurrent limit stress impl=%s K=%d n=%d calls=%d rounds=%d: %s\n", cc.Impl, cc.K, cc.N, cc.M, cc.R, info)
		}
		for _, f := range fails {
			if verbose {
				fmt.Printf("ORACLE FAIL %s: %s\n", f.sig, f.detail)
			}
			run.OracleFail(c.ID, f.sig, f.detail, c, map[string]any{"info": info})
		}
		run.Count("conc/limitstress")
		run.Case(c.ID, c, "", fmt.Sprintf("conc|limitstress|%s|%d|%d|%d", cc.Impl, cc.K, cc.N, cc.M), true)
		return
	case "lock":
		fails, evs, info = concLock(cc.Impl, cc.K, cc.M)
	case "launch":
		fails, evs, info = concLaunch(cc.Impl, cc.N, cc.M)
	default:
		panic("bad concurrent scenario " + cc.What)
	}
	if verbose {
		fmt.Printf("concurrent %s impl=%s K=%d M=%d N=%d: %s\n", cc.What, cc.Impl, cc.K, cc.M, cc.N, info)
		for _, e := range evs {
			fmt.Printf("  %4d %-5s t=%d v=%d\n", e.S, e.K, e.T, e.V)
		}
	}
	for _, f := range fails {
		if verbose {
			fmt.Printf("ORACLE FAIL %s: %s\n", f.sig, f.detail)
		}
		run.OracleFail(c.ID, f.sig, f.detail, c, map[string]any{"info": info, "events": evs})
	}
	run.Count("conc/" + cc.What)
	what := map[string]string{"once": "NOnce", "limit": "NLimit", "lock": "NLock"}[cc.What]
	adtParam := -1
	if cc.What == "once" {
		switch cc.Impl {
		case "adt": // NewOnce + Resolve
			what, adtParam = "NAdtOnce", 1
		case "adtdoonly":
			what, adtParam = "NAdtOnce", 0
		}
	}
	if cc.What == "launch" {
		what = specByName(cc.Impl).net
	}
	// parameters of the net: once: -, limit: n, lock: -, launch: number of background bodies
	param := cc.N
	if cc.What == "launch" && !specByName(cc.Impl).multi {
		param = 1
	}
	if adtParam >= 0 {
		param = adtParam
	}
	exec := "false" // limitExec (runs under the mutex) vs. Operation.Limit (runs may overlap)
	if cc.What == "limit" && cc.Impl != "operation" {
		exec = "true"
	}
	term := fmt.Sprintf("CConc %s %s %s %s %s", kit.ZI(c.ID), what, kit.ZI(param), exec, coqEvents(evs))
	run.Case(c.ID, c, term, fmt.Sprintf("conc|%s|%s|%d|%d|%d", cc.What, cc.Impl, cc.K, cc.M, cc.N), true)
}

// ---------------------------------------------------------------- Once under K concurrent callers

func concOnce(impl string, K int) (fails []fail, evs []cev, info string) {
	bad := func(sig, f string, a ...any) { fails = append(fails, fail{"C15:" + sig, fmt.Sprintf(f, a...)}) }
	rc := &recorder{}
	var inv atomic.Int64
	var finished atomic.Bool
	started := make(chan struct{}, 1024)
	release := make(chan struct{})
	const val = 42
	resErr := errKs[7]
	cm := &callerMap{}
	want := int64(0) // encoding of what every caller must see
	body := func() {
		inv.Add(1)
		t := cm.get()
		rc.rec("start", t, 0)
		started <- struct{}{}
		<-release
		rc.rec("end", t, want)
		finished.Store(true) // last action of the execution
	}
	ctx := context.Background()
	var call func(t int64) int64 // returns an encoding of what the caller saw
	after := func() int64 { return 0 } // checked once every caller has returned; 0 = as expected
	switch impl {
	case "worker":
		w := fun.Worker(func(context.Context) error { body(); return resErr }).Once()
		call = func(int64) int64 { return firstLeaf(w(ctx)) }
		want = 107
	case "operation":
		op := fun.Operation(func(context.Context) { body() }).Once()
		call = func(int64) int64 { op(ctx); return 0 }
	case "producer":
		p := fun.Producer[int64](func(context.Context) (int64, error) { body(); return val, resErr }).Once()
		call = func(int64) int64 { v, err := p(ctx); return v*10000 + firstLeaf(err) }
		want = val*10000 + 107
	case "processor":
		p := fun.Processor[int64](func(context.Context, int64) error { body(); return resErr }).Once()
		call = func(t int64) int64 { return firstLeaf(p(ctx, t)) }
		want = 107
	case "handler":
		h := fun.Handler[int64](func(int64) { body() }).Once()
		call = func(t int64) int64 { h(t); return 0 }
	case "future":
		f := fun.Future[int64](func() int64 { body(); return val }).Once()
		call = func(int64) int64 { return f() }
		want = val
	case "adt":
		o := adt.NewOnce(func() int64 { body(); return val })
		call = func(int64) int64 { return o.Resolve() }
		want = val
	case "adtdo":
		o := &adt.Once[int64]{}
		f := func() int64 { body(); return val }
		call = func(int64) int64 { o.Do(f); return o.Resolve() }
		want = val
	case "adtdoonly":
		// callers use Do alone: it must not return before the one execution has finished
		o := &adt.Once[int64]{}
		f := func() int64 { body(); return val }
		call = func(int64) int64 { o.Do(f); return 0 }
		after = func() int64 { return o.Resolve() - val }
	case "adtdo-then-resolve":
		// the first caller uses Do, the later ones Resolve (and vice versa for the last): both entry points share the sync.Once
		o := &adt.Once[int64]{}
		f := func() int64 { body(); return val }
		call = func(t int64) int64 {
			if t%2 == 0 {
				o.Do(f)
				return o.Resolve()
			}
			o.Set(f)
			return o.Resolve()
		}
		want = val
	case "mnemonize":
		f := adt.Mnemonize(func() int64 { body(); return val })
		call = func(int64) int64 { return f() }
		want = val
	case "ftonce":
		f := ft.Once(body)
		call = func(int64) int64 { f(); return 0 }
	case "ftoncedo":
		f := ft.OnceDo(func() int64 { body(); return val })
		call = func(int64) int64 { return f() }
		want = val
	default:
		panic("bad once impl " + impl)
	}

	var entered atomic.Int64
	early := make([]bool, K)
	got := make([]int64, K)
	var wg sync.WaitGroup
	alldone := make(chan struct{})
	caller := func(t int) {
		defer wg.Done()
		cm.set(int64(t))
		rc.rec("call", int64(t), 0)
		entered.Add(1)
		v := call(int64(t))
		early[t] = !finished.Load() // read right after our call returned
		got[t] = v
		rc.rec("ret", int64(t), v)
	}
	// the first caller goes in alone and is parked inside the body on the driver's channel ...
	wg.Add(K)
	go caller(0)
	ran := waitChan(started)
	// ... the others are invoked now, while the one execution is in progress
	for t := 1; t < K; t++ {
		go caller(t)
	}
	go func() { wg.Wait(); close(alldone) }()
	allIn := waitFor(func() bool { return entered.Load() == int64(K) })
	time.Sleep(grace) // gives a defective implementation the time to let a caller through; not evidence
	close(release)
	if !waitChan(alldone) {
		bad("Once:stuck", "%s: not every caller returned within %v of the execution finishing", impl, deadline)
		return fails, rc.sorted(), "stuck"
	}
	if !ran || !allIn {
		bad("Once:count", "%s: the function never started although %d callers called", impl, K)
	}
	if n := inv.Load(); n != 1 {
		bad("Once:count", "%s: %d concurrent callers, the function executed %d times", impl, K, n)
	}
	for t := 0; t < K; t++ {
		if early[t] {
			bad("Once:early-return", "%s: caller %d returned before the one execution had finished", impl, t)
			break
		}
	}
	for t := 0; t < K; t++ {
		if got[t] != want {
			bad("Once:result", "%s: caller %d observed %d, the execution produced %d", impl, t, got[t], want)
			break
		}
	}
	if d := after(); d != 0 {
		bad("Once:result", "%s: after all callers returned the cached value is off by %d", impl, d)
	}
	return fails, rc.sorted(), fmt.Sprintf("executions=%d callers=%d", inv.Load(), K)
}


// ---------------------------------------------------------------- Limit(n) under contention

func concLimit(impl string, K, M, n int) (fails []fail, evs []cev, info string) {
	bad := func(sig, f string, a ...any) { fails = append(fails, fail{"C15:" + sig, fmt.Sprintf(f, a...)}) }
	rc := &recorder{}
	var inv, cur, maxc atomic.Int64
	cm := &callerMap{}
	body := func() int64 {
		i := inv.Add(1)
		t := cm.get()
		rc.rec("start", t, 0)
		c := cur.Add(1)
		for {
			m := maxc.Load()
			if c <= m || maxc.CompareAndSwap(m, c) {
				break
			}
		}
		runtime.Gosched()
		cur.Add(-1)
		rc.rec("end", t, i)
		return i
	}
	ctx := context.Background()
	var call func(t int64) int64
	errOf := func(i int64) error { return errKs[i%10] }
	switch impl {
	case "worker":
		w := fun.Worker(func(context.Context) error { return errOf(body()) }).Limit(n)
		call = func(int64) int64 { return firstLeaf(w(ctx)) - 100 }
	case "producer":
		p := fun.Producer[int64](func(context.Context) (int64, error) { i := body(); return i, errOf(i) }).Limit(n)
		call = func(int64) int64 {
			v, err := p(ctx)
			if firstLeaf(err)-100 != v%10 {
				return -1
			}
			return v
		}
	case "processor":
		p := fun.Processor[int64](func(context.Context, int64) error { return errOf(body()) }).Limit(n)
		call = func(t int64) int64 { return firstLeaf(p(ctx, t)) - 100 }
	case "future":
		f := fun.Future[int64](func() int64 { return body() }).Limit(n)
		call = func(int64) int64 { return f() }
	case "operation":
		op := fun.Operation(func(context.Context) { body() }).Limit(n)
		call = func(int64) int64 { op(ctx); return 0 }
	default:
		panic("bad limit impl " + impl)
	}
	total := K * M
	got := make([][]int64, K)
	var wg sync.WaitGroup
	gate := make(chan struct{})
	alldone := make(chan struct{})
	for t := 0; t < K; t++ {
		wg.Add(1)
		go func(t int) {
			defer wg.Done()
			<-gate
			for j := 0; j < M; j++ {
				id := int64(t*M + j)
				cm.set(id)
				rc.rec("call", id, 0)
				v := call(id)
				got[t] = append(got[t], v)
				rc.rec("ret", id, v)
			}
		}(t)
	}
	go func() { wg.Wait(); close(alldone) }()
	close(gate)
	if !waitChan(alldone) {
		bad("Limit:stuck", "%s.Limit(%d): callers did not return within %v", impl, n, deadline)
		return fails, rc.sorted(), "stuck"
	}
	wantRuns := int64(min(n, total))
	if inv.Load() != wantRuns {
		bad("Limit:count", "%s.Limit(%d): %d calls from %d goroutines executed the function %d times, want %d", impl, n, total, K, inv.Load(), wantRuns)
	}
	if impl != "operation" {
		// every caller saw either its own execution's result (each of 1..runs exactly once as an own result)
		// or the cached last result, which exists only once n executions have completed
		cnt := map[int64]int{}
		for t := range got {
			for _, v := range got[t] {
				cnt[v]++
			}
		}
		for v, k := range cnt {
			if v < 1 || v > wantRuns {
				bad("Limit:last-result", "%s.Limit(%d): a caller observed %d, which no execution produced (executions 1..%d)", impl, n, v, wantRuns)
			} else if v < int64(n) && k != 1 {
				bad("Limit:last-result", "%s.Limit(%d): result of execution %d (not the last) was observed by %d callers", impl, n, v, k)
			}
		}
		for v := int64(1); v <= wantRuns; v++ {
			if cnt[v] == 0 {
				bad("Limit:last-result", "%s.Limit(%d): no caller observed the result of execution %d", impl, n, v)
			}
		}
		if total >= n {
			id := int64(total)
			cm.set(id)
			rc.rec("call", id, 0)
			v := call(id)
			rc.rec("ret", id, v)
			if v != int64(n) {
				bad("Limit:last-result", "%s.Limit(%d): a later call returned %d, the last execution produced %d", impl, n, v, n)
			}
			if inv.Load() != wantRuns {
				bad("Limit:count", "%s.Limit(%d): a later call executed the function again", impl, n)
			}
		}
	}
	return fails, rc.sorted(), fmt.Sprintf("executions=%d calls=%d max-concurrency=%d", inv.Load(), total, maxc.Load())
}

// ---------------------------------------------------------------- Lock / WithLock: mutual exclusion

func concLock(impl string, K, M int) (fails []fail, evs []cev, info string) {
	bad := func(sig, f string, a ...any) { fails = append(fails, fail{"C15:" + sig, fmt.Sprintf(f, a...)}) }
	rc := &recorder{}
	var inv, cur, maxc atomic.Int64
	cm := &callerMap{}
	body := func() int64 {
		i := inv.Add(1)
		t := cm.get()
		rc.rec("start", t, 0)
		c := cur.Add(1)
		for {
			m := maxc.Load()
			if c <= m || maxc.CompareAndSwap(m, c) {
				break
			}
		}
		for x := 0; x < 3; x++ {
			runtime.Gosched()
		}
		cur.Add(-1)
		rc.rec("end", t, 0)
		return i
	}
	ctx := context.Background()
	mtx := &sync.Mutex{}
	var call func(t int64)
	switch impl {
	case "worker":
		w := fun.Worker(func(context.Context) error { body(); return nil }).Lock()
		call = func(int64) { _ = w(ctx) }
	case "worker-with":
		w := fun.Worker(func(context.Context) error { body(); return nil }).WithLock(mtx)
		call = func(int64) { _ = w(ctx) }
	case "operation":
		op := fun.Operation(func(context.Context) { body() }).Lock()
		call = func(int64) { op(ctx) }
	case "operation-with":
		op := fun.Operation(func(context.Context) { body() }).WithLock(mtx)
		call = func(int64) { op(ctx) }
	case "producer":
		p := fun.Producer[int64](func(context.Context) (int64, error) { return body(), nil }).Lock()
		call = func(int64) { _, _ = p(ctx) }
	case "producer-with":
		p := fun.Producer[int64](func(context.Context) (int64, error) { return body(), nil }).WithLock(mtx)
		call = func(int64) { _, _ = p(ctx) }
	case "processor":
		p := fun.Processor[int64](func(context.Context, int64) error { body(); return nil }).Lock()
		call = func(t int64) { _ = p(ctx, t) }
	case "processor-with":
		p := fun.Processor[int64](func(context.Context, int64) error { body(); return nil }).WithLock(mtx)
		call = func(t int64) { _ = p(ctx, t) }
	case "handler":
		h := fun.Handler[int64](func(int64) { body() }).Lock()
		call = func(t int64) { h(t) }
	case "handler-with":
		h := fun.Handler[int64](func(int64) { body() }).WithLock(mtx)
		call = func(t int64) { h(t) }
	case "future":
		f := fun.Future[int64](body).Lock()
		call = func(int64) { _ = f() }
	case "future-with":
		f := fun.Future[int64](body).WithLock(mtx)
		call = func(int64) { _ = f() }
	default:
		panic("bad lock impl " + impl)
	}
	var wg sync.WaitGroup
	gate := make(chan struct{})
	alldone := make(chan struct{})
	for t := 0; t < K; t++ {
		wg.Add(1)
		go func(t int) {
			defer wg.Done()
			cm.set(int64(t))
			<-gate
			for j := 0; j < M; j++ {
				call(int64(t))
			}
		}(t)
	}
	go func() { wg.Wait(); close(alldone) }()
	close(gate)
	if !waitChan(alldone) {
		bad("Lock:stuck", "%s: callers did not return within %v", impl, deadline)
		return fails, rc.sorted(), "stuck"
	}
	if inv.Load() != int64(K*M) {
		bad("Lock:count", "%s: %d calls, %d executions", impl, K*M, inv.Load())
	}
	if maxc.Load() > 1 {
		bad("Lock:overlap", "%s: %d executions were inside the locked function at the same time", impl, maxc.Load())
	}
	return fails, rc.sorted(), fmt.Sprintf("executions=%d max-concurrency=%d", inv.Load(), maxc.Load())
}

// ---------------------------------------------------------------- Launch / Signal / Background / StartGroup waiters

type bodyFn func(context.Context) (int64, error)

type waiterSpec struct {
	name  string
	net   string // which transition system of Model/LaunchNet.v the recorded trace is replayed through
	multi bool // starts n background executions
	lazy  bool // the background executions start only when the waiter is called
	// start launches the background execution(s) and returns the waiter; the waiter reports what it observed
	start func(ctx context.Context, body bodyFn, n int, seen *atomic.Int64) func(context.Context) (int64, error)
	wantV int64 // value the waiter must report (0: none)
	wantE int64 // leaf code the waiter must report (0: none)
	seenE bool  // the error handler passed to start must have seen the body's error before the waiter returns
}

// seeErr counts deliveries of the background execution's own error (e7); a waiter's context error is not one
func seeErr(seen *atomic.Int64) fun.Handler[error] {
	return func(err error) {
		for _, l := range leaves(err) {
			if l == 107 {
				seen.Add(1)
				return
			}
		}
	}
}

var waiterSpecs = []waiterSpec{
	{name: "Operation.Launch", net: "NSignal", start: func(ctx context.Context, body bodyFn, n int, _ *atomic.Int64) func(context.Context) (int64, error) {
		w := fun.Operation(func(c context.Context) { _, _ = body(c) }).Launch(ctx)
		return func(c context.Context) (int64, error) { w(c); return 0, nil }
	}},
	{name: "Operation.Signal", net: "NSignal", start: func(ctx context.Context, body bodyFn, n int, _ *atomic.Int64) func(context.Context) (int64, error) {
		ch := fun.Operation(func(c context.Context) { _, _ = body(c) }).Signal(ctx)
		return func(c context.Context) (int64, error) {
			select {
			case <-ch:
			case <-c.Done():
			}
			return 0, nil
		}
	}},
	{name: "Operation.Add", net: "NGroup", start: func(ctx context.Context, body bodyFn, n int, _ *atomic.Int64) func(context.Context) (int64, error) {
		wg := &fun.WaitGroup{}
		fun.Operation(func(c context.Context) { _, _ = body(c) }).Add(ctx, wg)
		return func(c context.Context) (int64, error) { wg.Wait(c); return 0, nil }
	}},
	{name: "Operation.StartGroup", net: "NGroup", multi: true, start: func(ctx context.Context, body bodyFn, n int, _ *atomic.Int64) func(context.Context) (int64, error) {
		wg := &fun.WaitGroup{}
		fun.Operation(func(c context.Context) { _, _ = body(c) }).StartGroup(ctx, wg, n)
		return func(c context.Context) (int64, error) { wg.Wait(c); return 0, nil }
	}},
	{name: "Worker.Launch", net: "NSend", wantE: 107, start: func(ctx context.Context, body bodyFn, n int, _ *atomic.Int64) func(context.Context) (int64, error) {
		w := fun.Worker(func(c context.Context) error { _, err := body(c); return err }).Launch(ctx)
		return func(c context.Context) (int64, error) { return 0, w(c) }
	}},
	{name: "Worker.Signal", net: "NSend", wantE: 107, start: func(ctx context.Context, body bodyFn, n int, _ *atomic.Int64) func(context.Context) (int64, error) {
		ch := fun.Worker(func(c context.Context) error { _, err := body(c); return err }).Signal(ctx)
		return func(c context.Context) (int64, error) {
			select {
			case err := <-ch:
				return 0, err
			case <-c.Done():
				return 0, c.Err()
			}
		}
	}},
	{name: "Worker.Background", net: "NSend", seenE: true, start: func(ctx context.Context, body bodyFn, n int, seen *atomic.Int64) func(context.Context) (int64, error) {
		op := fun.Worker(func(c context.Context) error { _, err := body(c); return err }).Background(ctx, seeErr(seen))
		return func(c context.Context) (int64, error) { op(c); return 0, nil }
	}},
	{name: "Worker.StartGroup", net: "NGroup", multi: true, wantE: 107, start: func(ctx context.Context, body bodyFn, n int, _ *atomic.Int64) func(context.Context) (int64, error) {
		w := fun.Worker(func(c context.Context) error { _, err := body(c); return err }).StartGroup(ctx, n)
		return func(c context.Context) (int64, error) { return 0, w(c) }
	}},
	{name: "Worker.Group", net: "NGroup", multi: true, lazy: true, wantE: 107, start: func(ctx context.Context, body bodyFn, n int, _ *atomic.Int64) func(context.Context) (int64, error) {
		w := fun.Worker(func(c context.Context) error { _, err := body(c); return err }).Group(n)
		return func(c context.Context) (int64, error) { return 0, w(c) }
	}},
	{name: "Producer.Launch", net: "NSend", wantV: 42, start: func(ctx context.Context, body bodyFn, n int, _ *atomic.Int64) func(context.Context) (int64, error) {
		p := fun.Producer[int64](func(c context.Context) (int64, error) {
			v, _ := body(c)
			if v == 0 {
				return 0, io.EOF
			}
			return v, nil
		}).Launch(ctx)
		return func(c context.Context) (int64, error) { return p(c) }
	}},
	{name: "Producer.Background", net: "NSend", wantE: 107, start: func(ctx context.Context, body bodyFn, n int, seen *atomic.Int64) func(context.Context) (int64, error) {
		w := fun.Producer[int64](func(c context.Context) (int64, error) { return body(c) }).Background(ctx, func(v int64) { seen.Add(v) })
		return func(c context.Context) (int64, error) {
			err := w(c)
			return seen.Load(), err
		}
	}, wantV: 42},
	{name: "Processor.Background", net: "NSend", wantE: 107, start: func(ctx context.Context, body bodyFn, n int, _ *atomic.Int64) func(context.Context) (int64, error) {
		w := fun.Processor[int64](func(c context.Context, in int64) error { _, err := body(c); return err }).Background(ctx, 5)
		return func(c context.Context) (int64, error) { return 0, w(c) }
	}},
	{name: "Processor.Add", net: "NGroup", seenE: true, start: func(ctx context.Context, body bodyFn, n int, seen *atomic.Int64) func(context.Context) (int64, error) {
		wg := &fun.WaitGroup{}
		fun.Processor[int64](func(c context.Context, in int64) error { _, err := body(c); return err }).Add(ctx, wg, seeErr(seen), 5)
		return func(c context.Context) (int64, error) { wg.Wait(c); return 0, nil }
	}},
}

func specByName(name string) waiterSpec {
	for _, w := range waiterSpecs {
		if w.name == name {
			return w
		}
	}
	panic("unknown waiter " + name)
}

func concLaunch(name string, n int, mode int) (fails []fail, evs []cev, info string) {
	spec := specByName(name)
	bad := func(cls, f string, a ...any) {
		fails = append(fails, fail{"C15:" + name + ":" + cls, fmt.Sprintf(f, a...)})
	}
	if !spec.multi {
		n = 1
	}
	if spec.lazy {
		mode = 0
	}
	rc := &recorder{}
	var started, finished atomic.Int64
	var seen atomic.Int64
	release := make([]chan struct{}, n)
	for i := range release {
		release[i] = make(chan struct{})
	}
	releaseAll := func() {
		for _, ch := range release {
			close(ch)
		}
	}
	body := func(ctx context.Context) (int64, error) {
		idx := started.Add(1) - 1
		if idx >= int64(n) { // Producer.Launch calls its producer again after the first value
			return 0, io.EOF
		}
		rc.rec("start", idx, 0)
		<-release[idx]
		rc.rec("end", idx, 0)
		finished.Add(1) // last action of the background execution
		return 42, errKs[7]
	}
	ctx, cancel := context.WithCancel(context.Background())
	defer cancel()
	waiter := spec.start(ctx, body, n, &seen)
	if !spec.lazy {
		if !waitFor(func() bool { return started.Load() >= int64(n) }) {
			bad("not-started", "only %d of %d background executions started within %v", started.Load(), n, deadline)
			releaseAll()
			return fails, rc.sorted(), "not started"
		}
	}
	// the background executions are running, parked on the driver's channels

	// one wait: returns what the waiter reported and how many background executions had finished when it returned
	type waitRes struct {
		v        int64
		err      error
		finished int64
		seen     int64
		done     chan struct{}
	}
	wait := func(tid int64, wctx context.Context, expires bool) *waitRes {
		r := &waitRes{done: make(chan struct{})}
		go func() {
			rc.rec("call", tid, 0)
			r.v, r.err = waiter(wctx)
			r.finished = finished.Load() // read right after the waiter returned
			r.seen = seen.Load()
			if expires && r.finished < int64(n) {
				rc.rec("ctx", tid, 0)
			} else {
				rc.rec("ret", tid, 0)
			}
			close(r.done)
		}()
		return r
	}
	earlyClass := "waiter-early"
	var live []*waitRes
	switch mode {
	case 1, 2:
		// wait #1 gives up on its own context while the background execution is still parked ...
		earlyClass = "returns-early-after-timeout"
		var c1 context.Context
		var cancel1 context.CancelFunc
		if mode == 1 {
			c1, cancel1 = context.WithCancel(context.Background())
			cancel1()
		} else {
			c1, cancel1 = context.WithTimeout(context.Background(), 3*time.Millisecond)
		}
		w1 := wait(0, c1, true)
		ok := waitChan(w1.done)
		cancel1()
		if !ok {
			bad("ignores-context", "a wait whose own context had ended did not return within %v", deadline)
			releaseAll()
			return fails, rc.sorted(), "wait #1 stuck"
		}
		// ... wait #2, with a live context, must block until the driver releases the execution and then deliver its result
		live = append(live, wait(1, context.Background(), false))
	case 3:
		earlyClass = "returns-early-after-timeout"
		var timed []*waitRes
		var cancels []context.CancelFunc
		for tid := int64(0); tid < 4; tid++ {
			if tid%2 == 1 {
				c1, cancel1 := context.WithTimeout(context.Background(), 2*time.Millisecond)
				cancels = append(cancels, cancel1)
				timed = append(timed, wait(tid, c1, true))
			} else {
				live = append(live, wait(tid, context.Background(), false))
			}
		}
		for _, w := range timed {
			if !waitChan(w.done) {
				bad("ignores-context", "a wait whose own context had ended did not return within %v", deadline)
				releaseAll()
				return fails, rc.sorted(), "timed wait stuck"
			}
		}
		for _, c := range cancels {
			c()
		}
		live = append(live, wait(4, context.Background(), false)) // one more live wait after the timed-out ones
	default:
		live = append(live, wait(0, context.Background(), false))
	}
	if spec.lazy {
		if !waitFor(func() bool { return started.Load() >= int64(n) }) {
			bad("not-started", "only %d of %d background executions started within %v", started.Load(), n, deadline)
			releaseAll()
			return fails, rc.sorted(), "not started"
		}
	}
	time.Sleep(3 * grace) // gives a defective waiter the time to return; not evidence
	for i := 0; i < n; i++ {
		close(release[i])
		waitFor(func() bool { return finished.Load() >= int64(i+1) })
		if i < n-1 {
			time.Sleep(grace)
		}
	}
	minFinished := int64(n)
	gotV, gotE, gotSeen := false, false, false
	for _, w := range live {
		if !waitChan(w.done) {
			bad("waiter-stuck", "the waiter did not return within %v of the background execution finishing", deadline)
			return fails, rc.sorted(), "stuck"
		}
		if w.finished < minFinished {
			minFinished = w.finished
		}
		if w.v == spec.wantV {
			gotV = true
		}
		for _, l := range leaves(w.err) {
			if l == spec.wantE {
				gotE = true
			}
		}
		if w.seen >= 1 {
			gotSeen = true
		}
	}
	if minFinished < int64(n) {
		if mode == 0 {
			bad(earlyClass, "the waiter returned when %d of %d background executions had finished", minFinished, n)
		} else {
			bad(earlyClass, "after another wait had given up on its own context, a wait with a live context returned when %d of %d background executions had finished", minFinished, n)
		}
	} else {
		// the result reaches (at least one of) the live waiters
		if spec.wantV != 0 && !gotV {
			bad("result", "no waiter reported the value %d the background execution produced", spec.wantV)
		}
		if spec.wantE != 0 && !gotE {
			bad("result", "no waiter reported the error e7 the background execution returned")
		}
		if spec.seenE && !gotSeen {
			bad("result", "the error handler had not seen the background execution's error when the waiter returned")
		}
	}
	return fails, rc.sorted(), fmt.Sprintf("mode=%d bodies=%d finished-at-waiter-return=%d", mode, n, minFinished)
}

// ---------------------------------------------------------------- Limit(n): exact count under high contention
//
// K goroutines released together by a barrier issue c calls in total in tight loops, c close to n; the wrapped
// function only counts.  At quiescence executions must be exactly min(n, c); two further calls must then execute
// only if c < n.  Many rounds, GOMAXPROCS >= 8.  The verdict is an exact count: no false alarm is possible.
func concLimitStress(impl string, K, n, c, rounds int) (fails []fail, info string) {
	bad := func(sig, f string, a ...any) { fails = append(fails, fail{"C15:" + sig, fmt.Sprintf(f, a...)}) }
	if runtime.GOMAXPROCS(0) < 8 {
		defer runtime.GOMAXPROCS(runtime.GOMAXPROCS(8))
	}
	ctx := context.Background()
	worst, short, over := 0, 0, 0
	for round := 0; round < rounds; round++ {
		var inv atomic.Int64
		var call func()
		switch impl {
		case "worker":
			w := fun.Worker(func(context.Context) error { inv.Add(1); return nil }).Limit(n)
			call = func() { _ = w(ctx) }
		case "producer":
			p := fun.Producer[int64](func(context.Context) (int64, error) { return inv.Add(1), nil }).Limit(n)
			call = func() { _, _ = p(ctx) }
		case "processor":
			p := fun.Processor[int64](func(context.Context, int64) error { inv.Add(1); return nil }).Limit(n)
			call = func() { _ = p(ctx, 1) }
		case "future":
			f := fun.Future[int64](func() int64 { return inv.Add(1) }).Limit(n)
			call = func() { _ = f() }
		case "operation":
			op := fun.Operation(func(context.Context) { inv.Add(1) }).Limit(n)
			call = func() { op(ctx) }
		default:
			panic("bad limit impl " + impl)
		}
		var ready, wg sync.WaitGroup
		gate := make(chan struct{})
		alldone := make(chan struct{})
		for t := 0; t < K; t++ {
			m := c / K
			if t < c%K {
				m++
			}
			ready.Add(1)
			wg.Add(1)
			go func(m int) {
				defer wg.Done()
				ready.Done()
				<-gate
				for j := 0; j < m; j++ {
					call()
				}
			}(m)
		}
		ready.Wait()
		close(gate)
		go func() { wg.Wait(); close(alldone) }()
		if !waitChan(alldone) {
			bad("Limit:stuck", "%s.Limit(%d): callers did not return within %v", impl, n, deadline)
			return fails, "stuck"
		}
		want := int64(min(n, c))
		got := inv.Load()
		if got != want {
			if got < want {
				short++
			} else {
				over++
			}
			d := int(want - got)
			if d < 0 {
				d = -d
			}
			if d > worst {
				worst = d
			}
		}
		// quiescent: two more calls execute iff the limit has not been reached
		call()
		call()
		if want2 := int64(min(n, c+2)); got == want && inv.Load() != want2 {
			bad("Limit:count", "%s.Limit(%d): after %d calls two further calls brought the executions to %d, want %d", impl, n, c, inv.Load(), want2)
			break
		}
	}
	if short+over > 0 {
		bad("Limit:count", "%s.Limit(%d): %d calls from %d goroutines: in %d of %d rounds fewer and in %d rounds more than min(n, calls) = %d executions (worst difference %d)",
			impl, n, c, K, short, rounds, over, min(n, c), worst)
	}
	return fails, fmt.Sprintf("rounds=%d short=%d over=%d", rounds, short, over)
}
