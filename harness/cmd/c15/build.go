package main

// Building the REAL wrappers of /repo from a case tree, one builder per function type.

import (
	"context"
	"errors"
	"fmt"
	"io"
	"sync"

	"github.com/tychoish/fun"
	"github.com/tychoish/fun/adt"
	"github.com/tychoish/fun/ers"
	"github.com/tychoish/fun/ft"
)

type sentinel struct {
	code int64
	name string
}

func (s *sentinel) Error() string { return s.name }

var (
	errKs   = map[int64]*sentinel{}
	panicKs = map[int64]*sentinel{}
)

func init() {
	for k := int64(0); k < 10; k++ {
		errKs[k] = &sentinel{code: 100 + k, name: fmt.Sprintf("e%d", k)}
		panicKs[k] = &sentinel{code: 1000 + k, name: fmt.Sprintf("p%d", k)}
	}
}

type runaway struct{}

// leaves decodes an error into the sorted list of leaf codes (leaf_code in Model/Wrappers.v).
func leaves(err error) []int64 {
	if err == nil {
		return nil
	}
	var out []int64
	for _, e := range ers.Unwind(err) {
		var s *sentinel
		switch {
		case e == nil:
			continue
		case errors.As(e, &s):
			out = append(out, s.code)
		case e == io.EOF:
			out = append(out, 1)
		case e == error(ers.ErrCurrentOpAbort):
			out = append(out, 2)
		case e == context.Canceled:
			out = append(out, 3)
		case e == error(fun.ErrIteratorSkip):
			out = append(out, 4)
		case e == error(ers.ErrRecoveredPanic):
			out = append(out, 5)
		default:
			out = append(out, 9999)
		}
	}
	return sortedCodes(out)
}

type env struct {
	ctx    context.Context
	cancel context.CancelFunc
	call   int64
	log    [][2]int64
	pos    map[*Tree]int
	steps  int
}

func newEnv() *env {
	e := &env{pos: map[*Tree]int{}, log: [][2]int64{}}
	e.ctx, e.cancel = context.WithCancel(context.Background())
	return e
}

func (e *env) tick(id int, arg int64) {
	e.steps++
	if e.steps > 20000 {
		panic(runaway{})
	}
	e.log = append(e.log, [2]int64{int64(id), arg})
}

// step executes the scripted function t once.
func (e *env) step(t *Tree, arg int64) (int64, error) {
	e.tick(t.ID, arg)
	p := e.pos[t]
	if p >= len(t.Script) {
		return 0, nil
	}
	e.pos[t] = p + 1
	o := t.Script[p]
	switch o.K {
	case "ok":
		return o.V, nil
	case "err":
		return o.V, errKs[o.E]
	case "eof":
		return o.V, io.EOF
	case "abort":
		return o.V, ers.ErrCurrentOpAbort
	case "ctx":
		return o.V, context.Canceled
	case "skip":
		return o.V, fun.ErrIteratorSkip
	case "panic":
		panic(panicKs[o.E])
	case "cancel":
		e.cancel()
		return o.V, nil
	}
	panic("bad outcome")
}

func (e *env) cond(t *Tree) func() bool {
	return func() bool {
		e.tick(t.ID, e.call)
		p := e.pos[t]
		e.pos[t] = p + 1
		if p >= len(t.Conds) {
			return true
		}
		return t.Conds[p]
	}
}

func (e *env) locker(t *Tree) *sync.Mutex { return &sync.Mutex{} }

func (e *env) worker(t *Tree) fun.Worker {
	kid := func(i int) fun.Worker { return e.worker(t.Kids[i]) }
	switch t.W {
	case "base":
		return func(ctx context.Context) error { _, err := e.step(t, e.call); return err }
	case "once":
		return kid(0).Once()
	case "limit":
		return kid(0).Limit(t.N)
	case "retry":
		return kid(0).Retry(t.N)
	case "lock":
		if t.Impl == "with" {
			return kid(0).WithLock(e.locker(t))
		}
		return kid(0).Lock()
	case "if":
		return kid(0).If(t.C)
	case "when":
		return kid(0).When(e.cond(t))
	case "join":
		rest := make([]fun.Worker, 0, len(t.Kids)-1)
		for i := 1; i < len(t.Kids); i++ {
			rest = append(rest, kid(i))
		}
		return kid(0).Join(rest...)
	case "pre":
		return kid(1).PreHook(e.operation(t.Kids[0]))
	case "post":
		return kid(1).PostHook(e.fn(t.Kids[0]))
	}
	panic("worker: bad wrapper " + t.W)
}

func (e *env) operation(t *Tree) fun.Operation {
	kid := func(i int) fun.Operation { return e.operation(t.Kids[i]) }
	switch t.W {
	case "base":
		return func(ctx context.Context) { _, _ = e.step(t, e.call) }
	case "once":
		return kid(0).Once()
	case "limit":
		return kid(0).Limit(t.N)
	case "lock":
		if t.Impl == "with" {
			return kid(0).WithLock(e.locker(t))
		}
		return kid(0).Lock()
	case "if":
		return kid(0).If(t.C)
	case "when":
		return kid(0).When(e.cond(t))
	case "join":
		rest := make([]fun.Operation, 0, len(t.Kids)-1)
		for i := 1; i < len(t.Kids); i++ {
			rest = append(rest, kid(i))
		}
		return kid(0).Join(rest...)
	case "pre":
		return kid(1).PreHook(e.operation(t.Kids[0]))
	case "post":
		return kid(1).PostHook(e.fn(t.Kids[0]))
	}
	panic("operation: bad wrapper " + t.W)
}

func (e *env) fn(t *Tree) func() {
	switch t.W {
	case "base":
		return func() { _, _ = e.step(t, e.call) }
	case "once":
		return ft.Once(e.fn(t.Kids[0]))
	case "join":
		return ft.Join(e.fn(t.Kids[0]), e.fn(t.Kids[1]))
	}
	panic("func: bad wrapper " + t.W)
}

func (e *env) producer(t *Tree) fun.Producer[int64] {
	kid := func(i int) fun.Producer[int64] { return e.producer(t.Kids[i]) }
	switch t.W {
	case "base":
		return func(ctx context.Context) (int64, error) { return e.step(t, e.call) }
	case "once":
		return kid(0).Once()
	case "limit":
		return kid(0).Limit(t.N)
	case "retry":
		return kid(0).Retry(t.N)
	case "lock":
		if t.Impl == "with" {
			return kid(0).WithLock(e.locker(t))
		}
		return kid(0).Lock()
	case "if":
		return kid(0).If(t.C)
	case "when":
		return kid(0).When(e.cond(t))
	case "join":
		return kid(0).Join(kid(1))
	case "pre":
		return kid(1).PreHook(e.operation(t.Kids[0]))
	case "post":
		return kid(1).PostHook(e.fn(t.Kids[0]))
	}
	panic("producer: bad wrapper " + t.W)
}

func (e *env) processor(t *Tree) fun.Processor[int64] {
	kid := func(i int) fun.Processor[int64] { return e.processor(t.Kids[i]) }
	switch t.W {
	case "base":
		return func(ctx context.Context, in int64) error { _, err := e.step(t, in); return err }
	case "once":
		return kid(0).Once()
	case "limit":
		return kid(0).Limit(t.N)
	case "retry":
		k := kid(0)
		return func(ctx context.Context, in int64) error { return k.Retry(t.N, in)(ctx) }
	case "lock":
		if t.Impl == "with" {
			return kid(0).WithLock(e.locker(t))
		}
		return kid(0).Lock()
	case "if":
		return kid(0).If(t.C)
	case "when":
		return kid(0).When(e.cond(t))
	case "join":
		rest := make([]fun.Processor[int64], 0, len(t.Kids)-1)
		for i := 1; i < len(t.Kids); i++ {
			rest = append(rest, kid(i))
		}
		return kid(0).Join(rest...)
	case "pre":
		return kid(1).PreHook(e.operation(t.Kids[0]))
	case "post":
		return kid(1).PostHook(e.fn(t.Kids[0]))
	}
	panic("processor: bad wrapper " + t.W)
}

func (e *env) handler(t *Tree) fun.Handler[int64] {
	kid := func(i int) fun.Handler[int64] { return e.handler(t.Kids[i]) }
	switch t.W {
	case "base":
		return func(in int64) { _, _ = e.step(t, in) }
	case "once":
		return kid(0).Once()
	case "lock":
		if t.Impl == "with" {
			return kid(0).WithLock(e.locker(t))
		}
		return kid(0).Lock()
	case "if":
		return kid(0).If(t.C)
	case "when":
		return kid(0).When(e.cond(t))
	case "join":
		if t.Impl == "chain" {
			rest := make([]fun.Handler[int64], 0, len(t.Kids)-1)
			for i := 1; i < len(t.Kids); i++ {
				rest = append(rest, kid(i))
			}
			return kid(0).Chain(rest...)
		}
		return kid(0).Join(kid(1))
	case "pre":
		return kid(1).PreHook(kid(0))
	}
	panic("handler: bad wrapper " + t.W)
}

func merge2(a, b int64) int64 { return 2*a + b }

func (e *env) future(t *Tree) fun.Future[int64] {
	kid := func(i int) fun.Future[int64] { return e.future(t.Kids[i]) }
	switch t.W {
	case "base":
		return func() int64 { v, _ := e.step(t, e.call); return v }
	case "once":
		switch t.Impl {
		case "adt":
			o := adt.NewOnce(kid(0))
			return o.Resolve
		case "adtdo":
			o := &adt.Once[int64]{}
			k := kid(0)
			return func() int64 { o.Do(k); return o.Resolve() }
		case "mnemonize":
			return adt.Mnemonize(kid(0))
		}
		return kid(0).Once()
	case "limit":
		return kid(0).Limit(t.N)
	case "lock":
		if t.Impl == "with" {
			return kid(0).WithLock(e.locker(t))
		}
		return kid(0).Lock()
	case "if":
		return kid(0).If(t.C)
	case "when":
		return kid(0).When(e.cond(t))
	case "join":
		if t.Impl == "reduce" {
			return kid(0).Reduce(merge2, kid(1))
		}
		rest := make([]fun.Future[int64], 0, len(t.Kids)-1)
		for i := 1; i < len(t.Kids); i++ {
			rest = append(rest, kid(i))
		}
		return kid(0).Join(merge2, rest...)
	case "pre":
		return kid(1).PreHook(e.fn(t.Kids[0]))
	case "post":
		return kid(1).PostHook(e.fn(t.Kids[0]))
	}
	panic("future: bad wrapper " + t.W)
}

// runSeq builds the wrappers (recording a constructor panic) and performs the calls.
func runSeq(c Case) (obs Obs) {
	e := newEnv()
	defer e.cancel()
	obs.Results = []Res{}
	var call func(i int64) Res
	func() {
		defer func() {
			if r := recover(); r != nil {
				if !errors.Is(asErr(r), fun.ErrInvariantViolation) {
					panic(r)
				}
				obs.Constructed = false
			}
		}()
		switch c.Kind {
		case "worker":
			w := e.worker(c.Tree)
			call = func(int64) Res { err := w(e.ctx); return Res{L: leaves(err)} }
		case "operation":
			op := e.operation(c.Tree)
			call = func(int64) Res { op(e.ctx); return Res{} }
		case "producer":
			p := e.producer(c.Tree)
			call = func(int64) Res { v, err := p(e.ctx); return Res{V: v, L: leaves(err)} }
		case "processor":
			p := e.processor(c.Tree)
			call = func(i int64) Res { err := p(e.ctx, i); return Res{L: leaves(err)} }
		case "handler":
			h := e.handler(c.Tree)
			call = func(i int64) Res { h(i); return Res{} }
		case "future":
			f := e.future(c.Tree)
			call = func(int64) Res { return Res{V: f()} }
		default:
			panic("bad kind " + c.Kind)
		}
		obs.Constructed = true
	}()
	if obs.Constructed {
		for i := 0; i < c.Calls; i++ {
			e.call = int64(i)
			obs.Results = append(obs.Results, protect(func() Res { return call(int64(i)) }))
		}
	}
	obs.Log = e.log
	return obs
}

func asErr(r any) error {
	if err, ok := r.(error); ok {
		return err
	}
	return fmt.Errorf("%v", r)
}

// protect performs one top-level call and turns a panic that reaches the caller into an observation.
func protect(f func() Res) (res Res) {
	defer func() {
		if r := recover(); r != nil {
			var s *sentinel
			if err, ok := r.(error); ok && errors.As(err, &s) && s.code >= 1000 {
				res = Res{Pan: true, PK: s.code - 1000}
				return
			}
			if _, ok := r.(runaway); ok {
				res = Res{Pan: true, PK: -1}
				return
			}
			res = Res{Pan: true, PK: -3}
		}
	}()
	return f()
}
