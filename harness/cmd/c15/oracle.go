package main

// Direct oracles on the implementation's observations, written from the property
// text and independent of the Coq model.  They look only at: the scripts, the
// per-call results and the order log (function id, index of the top-level call).

import "fmt"

type fail struct{ sig, detail string }

func evOf(obs Obs, id int) []int64 { // calls in which function id executed, in order
	var out []int64
	for _, e := range obs.Log {
		if e[0] == int64(id) {
			out = append(out, e[1])
		}
	}
	return out
}

func outcomeAt(t *Tree, i int) Out {
	if i < len(t.Script) {
		return t.Script[i]
	}
	return Out{K: "ok"}
}

func retryable(o Out) bool { return o.K == "err" || o.K == "skip" }
func success(o Out) bool   { return o.K == "ok" || o.K == "cancel" }

// expected visible result of a direct call of a scripted function of the given type
func direct(kind string, o Out) Res {
	if o.K == "panic" {
		return Res{Pan: true, PK: o.E}
	}
	var r Res
	if kind == "producer" || kind == "future" {
		r.V = o.V
	}
	if kind == "worker" || kind == "producer" || kind == "processor" {
		switch o.K {
		case "err":
			r.L = []int64{100 + o.E}
		case "eof":
			r.L = []int64{1}
		case "abort":
			r.L = []int64{2}
		case "ctx":
			r.L = []int64{3}
		case "skip":
			r.L = []int64{4}
		}
	}
	return r
}

func allIDs(t *Tree, into map[int]bool) {
	if t.W == "base" || t.W == "when" {
		into[t.ID] = true
	}
	for _, k := range t.Kids {
		allIDs(k, into)
	}
}

// alwaysLogs: every execution of the tree executes at least one scripted function
func alwaysLogs(kind string, t *Tree) bool {
	switch t.W {
	case "base", "when":
		return true
	case "lock":
		return alwaysLogs(kind, t.Kids[0])
	case "pre", "post":
		// hook and function both run unless one of them panics, which it can only do after logging
		return alwaysLogs(kind, t.Kids[0]) || alwaysLogs(kind, t.Kids[1])
	case "join":
		// Producer.Join returns a cached error without running anything once a part has failed
		return kind != "producer" && alwaysLogs(kind, t.Kids[0])
	}
	return false
}

func seqOracles(c Case, obs Obs) []fail {
	var fs []fail
	bad := func(sig, f string, a ...any) { fs = append(fs, fail{"C15:" + sig, fmt.Sprintf(f, a...)}) }
	t := c.Tree
	if !obs.Constructed {
		return nil
	}
	if len(obs.Results) != c.Calls {
		bad("driver:calls", "made %d calls, have %d results", c.Calls, len(obs.Results))
		return fs
	}
	name := map[string]string{"worker": "Worker", "operation": "Operation", "producer": "Producer",
		"processor": "Processor", "handler": "Handler", "future": "Future"}[c.Kind]
	inner := map[int]bool{}
	if len(t.Kids) > 0 {
		allIDs(t.Kids[len(t.Kids)-1], inner)
	}
	innerCalls := func() (calls []int64) {
		for _, e := range obs.Log {
			if inner[int(e[0])] {
				calls = append(calls, e[1])
			}
		}
		return
	}
	hasEvent := func(call int) bool {
		for _, x := range innerCalls() {
			if x == int64(call) {
				return true
			}
		}
		return false
	}

	switch t.W {
	case "once":
		// executes exactly once however often it is called; all callers observe its result
		k := t.Kids[0]
		for _, x := range innerCalls() {
			if x != 0 {
				bad("Once:count", "%s.Once: the wrapped function executed again in call %d", name, x)
				break
			}
		}
		if k.W == "base" {
			want := 0
			if c.Calls > 0 {
				want = 1
			}
			if got := len(evOf(obs, k.ID)); got != want {
				bad("Once:count", "%s.Once over %d calls executed the function %d times, want %d", name, c.Calls, got, want)
			}
			if c.Calls > 0 && !obs.Results[0].eq(direct(c.Kind, outcomeAt(k, 0))) {
				bad("Once:result", "%s.Once: first caller saw %v, the function produced %v", name, obs.Results[0], outcomeAt(k, 0))
			}
		}
		if c.Calls > 0 && !obs.Results[0].Pan {
			for i, r := range obs.Results {
				if !r.eq(obs.Results[0]) {
					bad("Once:result", "%s.Once: caller %d saw %v, the execution produced %v", name, i, r, obs.Results[0])
					break
				}
			}
		}

	case "limit":
		if t.N <= 0 {
			break
		}
		k := t.Kids[0]
		if c.Kind == "operation" {
			// Operation.Limit: the first min(n, calls) calls execute, later ones do not
			for _, x := range innerCalls() {
				if x >= int64(t.N) {
					bad("Limit:count", "Operation.Limit(%d): executed in call %d", t.N, x)
					break
				}
			}
			if alwaysLogs(c.Kind, k) {
				for i := 0; i < c.Calls && i < t.N; i++ {
					if !hasEvent(i) {
						bad("Limit:count", "Operation.Limit(%d): call %d did not execute", t.N, i)
						break
					}
				}
			}
			if k.W == "base" {
				if got, want := len(evOf(obs, k.ID)), min(t.N, c.Calls); got != want {
					bad("Limit:count", "Operation.Limit(%d) over %d calls executed %d times, want %d", t.N, c.Calls, got, want)
				}
			}
			break
		}
		// limitExec: executions that returned are counted; j = call holding the n-th of them
		done, j := 0, c.Calls
		for i, r := range obs.Results {
			if !r.Pan {
				done++
				if done == t.N {
					j = i
					break
				}
			}
		}
		for _, x := range innerCalls() {
			if x > int64(j) {
				bad("Limit:count", "%s.Limit(%d): executed again in call %d after %d completed executions", name, t.N, x, t.N)
				break
			}
		}
		if alwaysLogs(c.Kind, k) {
			for i := 0; i < c.Calls && i <= j; i++ {
				if !hasEvent(i) {
					bad("Limit:count", "%s.Limit(%d): call %d did not execute although fewer than %d executions had completed", name, t.N, i, t.N)
					break
				}
			}
		}
		if k.W == "base" {
			panics := 0
			for _, r := range obs.Results {
				if r.Pan {
					panics++
				}
			}
			if panics == 0 {
				if got, want := len(evOf(obs, k.ID)), min(t.N, c.Calls); got != want {
					bad("Limit:count", "%s.Limit(%d) over %d calls executed %d times, want min(n, calls) = %d", name, t.N, c.Calls, got, want)
				}
			}
			for i := 0; i < c.Calls && i <= j; i++ {
				if !obs.Results[i].eq(direct(c.Kind, outcomeAt(k, i))) {
					bad("Limit:result", "%s.Limit(%d): call %d saw %v, the function produced %v", name, t.N, i, obs.Results[i], outcomeAt(k, i))
					break
				}
			}
		}
		for i := j + 1; i < c.Calls; i++ {
			if !obs.Results[i].eq(obs.Results[j]) {
				bad("Limit:last-result", "%s.Limit(%d): call %d returned %v, the last execution (call %d) returned %v", name, t.N, i, obs.Results[i], j, obs.Results[j])
				break
			}
		}

	case "retry":
		k := t.Kids[0]
		if k.W != "base" {
			break
		}
		n := t.N
		if n < 0 {
			n = 0
		}
		ev := evOf(obs, k.ID)
		pos := 0
		for call := 0; call < c.Calls; call++ {
			a := 0
			for pos+a < len(ev) && ev[pos+a] == int64(call) {
				a++
			}
			r := obs.Results[call]
			if a > n {
				bad("Retry:attempts", "%s.Retry(%d): call %d made %d attempts", name, t.N, call, a)
			}
			anySuccess := false
			for x := 0; x < a; x++ {
				o := outcomeAt(k, pos+x)
				if success(o) {
					anySuccess = true
				}
				if x < a-1 && !retryable(o) {
					bad("Retry:stop", "%s.Retry(%d): call %d went on after attempt %d produced %v", name, t.N, call, x, o)
				}
			}
			if a > 0 {
				last := outcomeAt(k, pos+a-1)
				if retryable(last) && a < n {
					bad("Retry:attempts", "%s.Retry(%d): call %d gave up after %d attempts although the last one (%v) was retryable", name, t.N, call, a, last)
				}
				if last.K == "panic" != r.Pan {
					bad("Retry:report", "%s.Retry(%d): call %d: last attempt %v, result %v", name, t.N, call, last, r)
				}
				if success(last) {
					want := direct(c.Kind, last)
					if !r.eq(want) {
						bad("Retry:report", "%s.Retry(%d): call %d succeeded at attempt %d with %v but returned %v", name, t.N, call, a, last, r)
					}
				}
				if retryable(last) && a == n && !r.Pan {
					// all attempts failed: every non-skip failure is reported
					cnt := map[int64]int{}
					for x := 0; x < a; x++ {
						if o := outcomeAt(k, pos+x); o.K == "err" {
							cnt[100+o.E]++
						}
					}
					for _, l := range r.L {
						cnt[l]--
					}
					for code, d := range cnt {
						if d != 0 {
							bad("Retry:report", "%s.Retry(%d): call %d exhausted its attempts; failure e%d reported %+d times too few/many: %v", name, t.N, call, code-100, d, r)
							break
						}
					}
				}
			} else if a == 0 && n > 0 {
				bad("Retry:attempts", "%s.Retry(%d): call %d made no attempt", name, t.N, call)
			}
			if !r.Pan && len(r.L) > 0 && anySuccess {
				bad("Retry:report", "%s.Retry(%d): call %d reported %v although an attempt succeeded", name, t.N, call, r)
			}
			pos += a
		}
		if pos != len(ev) {
			bad("Retry:attempts", "%s.Retry(%d): %d executions outside the calls made", name, t.N, len(ev)-pos)
		}

	case "lock":
		k := t.Kids[0]
		if k.W != "base" {
			break
		}
		if got := len(evOf(obs, k.ID)); got != c.Calls {
			bad("Lock:count", "%s.Lock: %d calls, %d executions", name, c.Calls, got)
		}
		for i, r := range obs.Results {
			if !r.eq(direct(c.Kind, outcomeAt(k, i))) {
				bad("Lock:result", "%s.Lock: call %d saw %v, the function produced %v", name, i, r, outcomeAt(k, i))
				break
			}
		}

	case "join":
		for _, k := range t.Kids {
			if k.W != "base" {
				return fs
			}
		}
		if c.Kind == "producer" {
			// first until io.EOF, then second; once the second has run the first never runs again
			a, b := t.Kids[0], t.Kids[1]
			seenB := false
			for _, e := range obs.Log {
				if e[0] == int64(b.ID) {
					seenB = true
				}
				if e[0] == int64(a.ID) && seenB {
					bad("Join:order", "Producer.Join: the first producer ran again (call %d) after the second had started", e[1])
					break
				}
			}
			break
		}
		// documented: the parts run in order; Worker/Processor stop at the first error; Worker/Processor/Operation do not
		// start a further part once the context has expired; Handler/Future have no context and run every part
		stopsOnErr := c.Kind == "worker" || c.Kind == "processor"
		checksCtx := c.Kind == "worker" || c.Kind == "processor" || c.Kind == "operation"
		pos := make([]int, len(t.Kids))
		cancelled := false
		li := 0
		for call := 0; call < c.Calls; call++ {
			var ids []int64
			for li < len(obs.Log) && obs.Log[li][1] == int64(call) {
				ids = append(ids, obs.Log[li][0])
				li++
			}
			var want []int64
			stoppedByCtx := -1
			for j, k := range t.Kids {
				if j > 0 && checksCtx && cancelled {
					stoppedByCtx = j
					break
				}
				want = append(want, int64(k.ID))
				o := outcomeAt(k, pos[j])
				pos[j]++
				if o.K == "cancel" {
					cancelled = true
				}
				if o.K == "panic" || (stopsOnErr && !success(o)) {
					break
				}
			}
			if fmt.Sprint(ids) != fmt.Sprint(want) {
				if stoppedByCtx >= 0 && len(ids) > len(want) && fmt.Sprint(ids[:len(want)]) == fmt.Sprint(want) {
					bad("Join:ran-after-cancel", "%s.Join of %d parts: in call %d part %d ran although the context had expired before it started (executed %v, documented %v)",
						name, len(t.Kids), call, stoppedByCtx, ids, want)
				} else {
					bad("Join:order", "%s.Join: call %d executed parts %v, documented order gives %v", name, call, ids, want)
				}
				break
			}
		}

	case "pre", "post":
		h, b := t.Kids[0], t.Kids[1]
		if h.W != "base" || b.W != "base" {
			break
		}
		sig := "PreHook:order"
		if t.W == "post" {
			sig = "PostHook:order"
		}
		li := 0
		ih, ib := 0, 0
		for call := 0; call < c.Calls; call++ {
			var ids []int64
			for li < len(obs.Log) && obs.Log[li][1] == int64(call) {
				ids = append(ids, obs.Log[li][0])
				li++
			}
			var want []int64
			if t.W == "pre" {
				want = []int64{int64(h.ID)}
				oh := outcomeAt(h, ih)
				ih++
				// a panicking pre-hook is recovered by Worker/Processor/Producer; it aborts Operation/Future/Handler
				if oh.K != "panic" || c.Kind == "worker" || c.Kind == "processor" || c.Kind == "producer" {
					want = append(want, int64(b.ID))
					ib++
				}
			} else {
				want = []int64{int64(b.ID)}
				ob := outcomeAt(b, ib)
				ib++
				// Operation/Future run the post-hook in a defer (always); the others only when the function returned
				if ob.K != "panic" || c.Kind == "operation" || c.Kind == "future" {
					want = append(want, int64(h.ID))
					ih++
				}
			}
			if fmt.Sprint(ids) != fmt.Sprint(want) {
				bad(sig, "%s.%sHook: call %d executed %v (hook=%d, function=%d), documented order gives %v", name, map[string]string{"pre": "Pre", "post": "Post"}[t.W], call, ids, h.ID, b.ID, want)
				break
			}
		}
	}
	return fs
}

func min(a, b int) int {
	if a < b {
		return a
	}
	return b
}
