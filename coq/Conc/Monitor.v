(* Conc/Monitor.v — one mutex-protected object with condition variables (Go's sync.Mutex + sync.Cond):
   the wake-up discipline of its methods implies that no wake-up is lost.   Stdlib only, axiom-free.

   WHAT IS GENERIC.  Everything in this file is generic in `Data`, in the program table `prog : tid -> op`
   (unboundedly many threads, each running one operation; a goroutine that calls several methods is several
   tids — program order between them is dropped, which only adds schedules), in the set of conds (nat ids),
   in the signal lists of every critical section, and in the discipline (Broadcast discipline: theorems
   `mon_parked_not_enabled`, `mon_pending_wake`, `mon_no_lost_wakeup`; Signal/cascade discipline:
   `mon_cascade_pending_wake`, `mon_no_lost_wakeup_cascade` — also fully generic, NOT restricted to a
   counter/length shape).  The cancellation half and the cascade theorems carry the guard described below.

   MODEL.  state = (dat, lock : option tid, thr : tid -> tstate, ended : tid -> bool, helper : tid -> bool,
   pendingB : list cond).
   An *effect* thread:  Idle -invoke-> WantLock -acquire-> InCrit true -body-> Done ROk   (body = the whole
   critical section `Data -> Data * list sig`: new data and the Signal/Broadcast calls made before Unlock).
   A *waiter* thread (c, P, closed, succ, eager):
        lock; [eager: spawn helper]                                       Idle -> WantLock -> InCrit true
        loop { if P d      then d,sigs := succ d; leave ROk               InCrit b -> Done ROk
               if closed d then leave RClosed                             InCrit b -> Done RClosed
               if ctx ended then leave RCancelled                         InCrit b -> Done RCancelled
               [first time, not eager: spawn helper]
               -- here the thread has decided to park but is not yet on the wait list --   InCrit b -> Parking
               cond.Wait(): register on c's wait list and release the lock, atomically     Parking  -> Parked
               ... Signal/Broadcast/helper broadcast ...                                   Parked   -> Woken
               re-acquire the lock                                                         Woken    -> InCrit false }
        every exit runs the deferred cancel(): if the helper is still waiting for ctx.Done it now broadcasts
        (c is added to pendingB).
   The per-wait helper goroutine `go func(){ <-ctx.Done(); c.Broadcast() }()` is `helper t = true` while it
   waits; when t's context ends (`LCtxEnd t`, possible in every thread state, does not need the lock) or the
   waiter leaves, c moves to `pendingB`; `LHelper c` performs that broadcast later.  In the Go code the
   helper broadcasts WITHOUT taking the mutex; that is `helper_locked = false`.  `helper_locked = true`
   models a helper that does `mu.Lock(); c.Broadcast(); mu.Unlock()`.
   sync.Cond: Signal moves one parked thread (any one) to Woken if there is one, Broadcast all.  sync.Cond has
   no spurious wake-ups; the model nevertheless allows them (`LSpurious`), which makes every theorem
   stronger and over-approximates additional harmless broadcasts.

   THE `Parking` STATE AND THE CANCELLATION RACE.  Between the waiter's `select { case <-ctx.Done(): ...
   default: cond.Wait() }` and the registration inside cond.Wait the lock is held, so no effect can run: for
   wake-ups caused by *data* changes check-and-park is atomic and nothing can be lost.  The helper's
   broadcast is not ordered by the lock: if the context ends and the helper broadcasts inside that window,
   the waiter parks afterwards with its context ended and nobody left to wake it.  Hence the ctx half of
   the pending-wake invariant (`mon_ctx_pending_wake`) is proved (a) for `helper_locked = true`, and (b)
   for the code as it is over all runs in which no context ends inside that window (`no_ctx_race`, a
   decidable condition on (state,label)); instances refute it for unrestricted runs with a concrete
   schedule (see Proofs/WaitGroup_monitor.v, `wg_ctx_wake_refuted`).  The cascade discipline hands a
   wake-up on through exit broadcasts, so it depends on the same condition.  The data half is
   unconditional.

   INTERFACE (how to instantiate).  Supply  Data,  prog : tid -> op Data  (built from `OEffect body` and
   `OWaiter (mkWaiter c P closed succ eager)`),  d0 : Data,  helper_locked : bool.   Then
     `reachable Data prog d0 hl s`  = s is reachable by any schedule;   `reach ... ok s` = by schedules all of
     whose steps satisfy `ok state label`.
   Side conditions an instance proves (both are statements about the bodies only, no schedules):
     `bcast_discipline Data prog c`      every body that turns `w_wake w` false->true for a waiter w on c
                                         contains `Broadcast c`;
     `cascade_discipline Data prog c W`  all waiters on c have wake predicate W, and every body that turns W
                                         false->true contains `Signal c` or `Broadcast c`.
   Theorems (all for `reach ok s` with an arbitrary step filter `ok`, hence in particular for `reachable s`):
     mon_mutex                    InCrit/Parking <-> holder of the lock
     mon_safety                   the step by which a waiter returns r is justified (`verdict_justified`)
     mon_cancelled_ended          Done RCancelled -> its context has ended
     mon_already_true_no_block    a waiter holding the lock while P holds can only return ROk
     mon_parked_not_enabled       Broadcast discipline: Parked/Parking on c -> wake predicate false   (every reachable state)
     mon_pending_wake             the same in the disjunctive form of DESIGN 3.2 (`token c s`)
     mon_no_lost_wakeup           quiescent corollary
     mon_ctx_inv, mon_ctx_pending_wake_locked / _norace, mon_no_lost_cancel, mon_pending_wake_ctx
                                  cancellation half, under `ctx_guard ok` (= helper_locked = true, or ok implies no_ctx_race)
     mon_cascade_inv, mon_cascade_pending_wake, mon_no_lost_wakeup_cascade (+ _locked / _norace)
                                  Signal discipline, under `ctx_guard ok`
   Worked instance: Model/WaitGroupModel.v + Proofs/WaitGroup_monitor.v (Broadcast discipline, refutation of the
   unguarded ctx half by an explicit schedule, and the Signal variant through the cascade theorem).  *)

From Coq Require Import List Arith Lia Bool.
Import ListNotations.

Definition tid := nat.
Definition cond := nat.

Inductive sig := Signal (c : cond) | Broadcast (c : cond).
Inductive verdict := ROk | RClosed | RCancelled.

Inductive tstate :=
| Idle                      (* not yet invoked *)
| WantLock                  (* invoked; blocked in mu.Lock() *)
| InCrit (first : bool)     (* holds the lock; about to run its body / (re-)check its predicate.  first = not yet parked *)
| Parking                   (* waiter: holds the lock, has decided to park, not yet registered with the cond *)
| Parked                    (* on its cond's wait list; lock released *)
| Woken                     (* taken off the wait list; must re-acquire the lock and re-check *)
| Done (r : verdict).

Inductive label :=
| LInvoke (t : tid) | LAcquire (t : tid) | LBody (t : tid) | LPark (t : tid)
| LCtxEnd (t : tid) | LHelper (c : cond) | LSpurious (t : tid).

Definition upd {A} (f : tid -> A) (t : tid) (v : A) : tid -> A := fun u => if Nat.eqb u t then v else f u.

Lemma upd_same {A} (f : tid -> A) t v : upd f t v t = v.
Proof. unfold upd. now rewrite Nat.eqb_refl. Qed.
Lemma upd_other {A} (f : tid -> A) t v u : u <> t -> upd f t v u = f u.
Proof. unfold upd. intros H. destruct (Nat.eqb_spec u t); [contradiction|reflexivity]. Qed.

Fixpoint remove_one (c : cond) (l : list cond) : list cond :=
  match l with [] => [] | x :: r => if Nat.eqb x c then r else x :: remove_one c r end.

Lemma remove_one_other c c' l : c' <> c -> In c' l -> In c' (remove_one c l).
Proof.
  induction l as [|x r IH]; simpl; [tauto|]. intros Hn [->|H].
  - destruct (Nat.eqb_spec c' c); [contradiction|now left].
  - destruct (Nat.eqb_spec x c); [assumption|right; auto].
Qed.

Definition holds_lock (st : tstate) : bool := match st with InCrit _ | Parking => true | _ => false end.
(* has been through the park decision at least once and has not left: its helper exists *)
Definition in_loop (st : tstate) : bool := match st with InCrit false | Parking | Parked | Woken => true | _ => false end.
Definition runnable (st : tstate) : bool := match st with WantLock | InCrit _ | Parking | Woken => true | _ => false end.

Section Monitor.
Variable Data : Type.

Definition body := Data -> Data * list sig.

Record waiter := mkWaiter {
  w_cond   : cond;            (* the cond it parks on *)
  w_P      : Data -> bool;    (* parks while this is false *)
  w_closed : Data -> bool;    (* "container closed": leaves with RClosed (use fun _ => false if there is none) *)
  w_succ   : body;            (* what it does, under the same lock hold, when P holds (incl. its signals) *)
  w_eager  : bool;            (* helper goroutine spawned right after Lock (pubsub.Queue) or only when it first has to park (fun.WaitGroup) *)
}.
Definition w_wake (w : waiter) (d : Data) : bool := w_P w d || w_closed w d.

Inductive op := OEffect (e : body) | OWaiter (w : waiter).

Variable prog : tid -> op.
Variable d0 : Data.
Variable helper_locked : bool.

Definition cond_of (t : tid) : option cond :=
  match prog t with OWaiter w => Some (w_cond w) | OEffect _ => None end.

Record state := mkState {
  dat : Data; lock : option tid; thr : tid -> tstate;
  ended : tid -> bool;      (* the context passed to t's call has ended *)
  helper : tid -> bool;     (* t's helper goroutine exists and is still waiting on ctx.Done *)
  pendingB : list cond;     (* helpers that have been released and have not yet broadcast *)
}.

Definition init : state := mkState d0 None (fun _ => Idle) (fun _ => false) (fun _ => false) [].

(* ---- sync.Cond *)
Definition wake_all (c : cond) (th : tid -> tstate) : tid -> tstate :=
  fun u => match th u, cond_of u with
           | Parked, Some c' => if Nat.eqb c' c then Woken else Parked
           | x, _ => x
           end.

Inductive sig_step : sig -> (tid -> tstate) -> (tid -> tstate) -> Prop :=
| ss_bcast c th : sig_step (Broadcast c) th (wake_all c th)
| ss_sig_one c th u : th u = Parked -> cond_of u = Some c -> sig_step (Signal c) th (upd th u Woken)
| ss_sig_none c th : (forall u, cond_of u = Some c -> th u <> Parked) -> sig_step (Signal c) th th.

Inductive sigs_steps : list sig -> (tid -> tstate) -> (tid -> tstate) -> Prop :=
| sgs_nil th : sigs_steps [] th th
| sgs_cons x r th th1 th2 : sig_step x th th1 -> sigs_steps r th1 th2 -> sigs_steps (x :: r) th th2.

(* leaving a waiter runs the deferred cancel(): a helper still waiting is released *)
Definition exit_pending (s : state) (t : tid) (c : cond) : list cond :=
  if helper s t then c :: pendingB s else pendingB s.

Inductive step : state -> label -> state -> Prop :=
| st_invoke s t : thr s t = Idle ->
    step s (LInvoke t) (mkState (dat s) (lock s) (upd (thr s) t WantLock) (ended s) (helper s) (pendingB s))
| st_acquire_effect s t e : thr s t = WantLock -> lock s = None -> prog t = OEffect e ->
    step s (LAcquire t) (mkState (dat s) (Some t) (upd (thr s) t (InCrit true)) (ended s) (helper s) (pendingB s))
| st_acquire_waiter s t w : thr s t = WantLock -> lock s = None -> prog t = OWaiter w ->
    (* eager waiters spawn their helper here; if the context has already ended the helper is released at once *)
    step s (LAcquire t)
      (mkState (dat s) (Some t) (upd (thr s) t (InCrit true)) (ended s)
               (if w_eager w && negb (ended s t) then upd (helper s) t true else helper s)
               (if w_eager w && ended s t then w_cond w :: pendingB s else pendingB s))
| st_reacquire s t : thr s t = Woken -> lock s = None ->
    step s (LAcquire t) (mkState (dat s) (Some t) (upd (thr s) t (InCrit false)) (ended s) (helper s) (pendingB s))
| st_effect s t e b d' sg th' : prog t = OEffect e -> thr s t = InCrit b ->
    e (dat s) = (d', sg) -> sigs_steps sg (thr s) th' ->
    step s (LBody t) (mkState d' None (upd th' t (Done ROk)) (ended s) (helper s) (pendingB s))
| st_wait_ok s t w b d' sg th' : prog t = OWaiter w -> thr s t = InCrit b ->
    w_P w (dat s) = true -> w_succ w (dat s) = (d', sg) -> sigs_steps sg (thr s) th' ->
    step s (LBody t) (mkState d' None (upd th' t (Done ROk)) (ended s) (upd (helper s) t false) (exit_pending s t (w_cond w)))
| st_wait_closed s t w b : prog t = OWaiter w -> thr s t = InCrit b ->
    w_P w (dat s) = false -> w_closed w (dat s) = true ->
    step s (LBody t) (mkState (dat s) None (upd (thr s) t (Done RClosed)) (ended s) (upd (helper s) t false) (exit_pending s t (w_cond w)))
| st_wait_cancelled s t w b : prog t = OWaiter w -> thr s t = InCrit b ->
    w_P w (dat s) = false -> w_closed w (dat s) = false -> ended s t = true ->
    step s (LBody t) (mkState (dat s) None (upd (thr s) t (Done RCancelled)) (ended s) (upd (helper s) t false) (exit_pending s t (w_cond w)))
| st_wait_decide s t w b : prog t = OWaiter w -> thr s t = InCrit b ->
    w_P w (dat s) = false -> w_closed w (dat s) = false -> ended s t = false ->
    (* not eager, first time round: the helper is spawned now (context still live) *)
    step s (LBody t) (mkState (dat s) (lock s) (upd (thr s) t Parking) (ended s)
                              (if b && negb (w_eager w) then upd (helper s) t true else helper s) (pendingB s))
| st_park s t : thr s t = Parking ->
    step s (LPark t) (mkState (dat s) None (upd (thr s) t Parked) (ended s) (helper s) (pendingB s))
| st_ctx_end s t w : prog t = OWaiter w -> ended s t = false ->
    step s (LCtxEnd t) (mkState (dat s) (lock s) (thr s) (upd (ended s) t true) (upd (helper s) t false)
                                (if helper s t then w_cond w :: pendingB s else pendingB s))
| st_helper s c : In c (pendingB s) -> (helper_locked = true -> lock s = None) ->
    step s (LHelper c) (mkState (dat s) (lock s) (wake_all c (thr s)) (ended s) (helper s) (remove_one c (pendingB s)))
| st_spurious s t : thr s t = Parked ->
    step s (LSpurious t) (mkState (dat s) (lock s) (upd (thr s) t Woken) (ended s) (helper s) (pendingB s)).

(* reachability by schedules whose every step satisfies `ok` *)
Inductive reach (ok : state -> label -> Prop) : state -> Prop :=
| reach_init : reach ok init
| reach_step s l s' : reach ok s -> ok s l -> step s l s' -> reach ok s'.

Definition any_step (_ : state) (_ : label) : Prop := True.
Definition reachable := reach any_step.

(* the same with the schedule kept (most recent step first), for statements about histories *)
Inductive run (ok : state -> label -> Prop) : list (state * label) -> state -> Prop :=
| run_init : run ok [] init
| run_step tr s l s' : run ok tr s -> ok s l -> step s l s' -> run ok ((s, l) :: tr) s'.

Lemma run_reach ok tr s : run ok tr s -> reach ok s.
Proof. intros H. induction H; [constructor|econstructor; eauto]. Qed.

Lemma reach_run ok s : reach ok s -> exists tr, run ok tr s.
Proof. intros H. induction H as [|s l s' _ [tr IH] Hok St]; [exists []; constructor|exists ((s, l) :: tr); econstructor; eauto]. Qed.

(* the cancellation race: a context ending while its waiter is between the ctx check and cond.Wait's registration *)
Definition no_ctx_race (s : state) (l : label) : Prop :=
  match l with LCtxEnd t => thr s t <> Parking | _ => True end.

Lemma reach_mono (ok ok' : state -> label -> Prop) :
  (forall s l, ok s l -> ok' s l) -> forall s, reach ok s -> reach ok' s.
Proof. intros H s R. induction R; [constructor|econstructor; eauto]. Qed.

Lemma reach_reachable ok s : reach ok s -> reachable s.
Proof. apply reach_mono. intros; exact I. Qed.

(* ---- facts about signal lists *)
Lemma wake_all_cases c th u :
  wake_all c th u = th u \/ (th u = Parked /\ cond_of u = Some c /\ wake_all c th u = Woken).
Proof.
  unfold wake_all. destruct (th u); auto. destruct (cond_of u) as [c'|]; auto.
  destruct (Nat.eqb_spec c' c); subst; auto.
Qed.

Lemma wake_all_on c th u : cond_of u = Some c -> wake_all c th u <> Parked.
Proof.
  unfold wake_all. intros ->. destruct (th u) eqn:E; try congruence. rewrite Nat.eqb_refl. congruence.
Qed.

Lemma sig_step_cases x th th1 u :
  sig_step x th th1 -> th1 u = th u \/ (th u = Parked /\ th1 u = Woken).
Proof.
  intros H. inversion H; subst; auto.
  - destruct (wake_all_cases c th u) as [?|(?&?&?)]; auto.
  - unfold upd. destruct (Nat.eqb_spec u u0); subst; auto.
Qed.

Lemma sigs_cases sg th th' u :
  sigs_steps sg th th' -> th' u = th u \/ (th u = Parked /\ th' u = Woken).
Proof.
  intros H. induction H; auto.
  destruct (sig_step_cases _ _ _ u H) as [E|[E1 E2]]; destruct IHsigs_steps as [F|[F1 F2]].
  - left; congruence.
  - right; split; congruence.
  - right; split; congruence.
  - congruence.
Qed.

Lemma sigs_not_parked sg th th' u : sigs_steps sg th th' -> th u <> Parked -> th' u <> Parked.
Proof. intros H N. destruct (sigs_cases _ _ _ u H) as [E|[E _]]; congruence. Qed.

Lemma sigs_bcast sg th th' c u :
  sigs_steps sg th th' -> In (Broadcast c) sg -> cond_of u = Some c -> th' u <> Parked.
Proof.
  intros H. induction H; simpl; [tauto|]. intros [->|Hin] Hc.
  - eapply sigs_not_parked; eauto. inversion H; subst. now apply wake_all_on.
  - auto.
Qed.

Lemma sigs_signal sg th th' c :
  sigs_steps sg th th' -> In (Signal c) sg ->
  (forall u, cond_of u = Some c -> th' u <> Parked) \/
  (exists u, cond_of u = Some c /\ th u = Parked /\ th' u = Woken).
Proof.
  intros H. induction H; simpl; [tauto|]. intros [->|Hin].
  - inversion H; subst.
    + right. exists u. repeat split; auto.
      destruct (sigs_cases _ _ _ u H0) as [E|[E _]]; rewrite upd_same in E; congruence.
    + left. intros u Hu. eapply sigs_not_parked; eauto.
  - destruct (IHsigs_steps Hin) as [A|(u & Hc & Hp & Hw)]; [left; assumption|].
    right. exists u. repeat split; auto.
    destruct (sig_step_cases _ _ _ u H) as [E|[_ E]]; congruence.
Qed.

(* ---- tactics *)
Ltac upd_destruct :=
  repeat match goal with
  | H : context [upd _ ?t _ ?u] |- _ => unfold upd in H
  | |- context [upd _ ?t _ ?u] => unfold upd
  end;
  repeat match goal with
  | H : context [Nat.eqb ?a ?b] |- _ => destruct (Nat.eqb_spec a b); subst
  | |- context [Nat.eqb ?a ?b] => destruct (Nat.eqb_spec a b); subst
  end.

(* ============================================================ basic invariants (any schedule) *)

Definition mutex_inv (s : state) : Prop := forall t, holds_lock (thr s t) = true <-> lock s = Some t.

Lemma sigs_holds sg th th' u : sigs_steps sg th th' -> holds_lock (th' u) = holds_lock (th u).
Proof. intros H. destruct (sigs_cases _ _ _ u H) as [->|[-> ->]]; reflexivity. Qed.

Lemma wake_all_holds c th u : holds_lock (wake_all c th u) = holds_lock (th u).
Proof. destruct (wake_all_cases c th u) as [->|(-> & _ & ->)]; reflexivity. Qed.

Theorem mon_mutex ok s : reach ok s -> mutex_inv s.
Proof.
  intros R. induction R as [|s l s' R IH _ St].
  - intros t; simpl; split; discriminate.
  - unfold mutex_inv in *. inversion St; subst; simpl; intros u;
      try (pose proof (IH t) as IHt); pose proof (IH u) as IHu;
      try rewrite wake_all_holds;
      try (unfold upd; destruct (Nat.eqb_spec u t); subst; simpl;
           try (erewrite sigs_holds by eauto));
      try match goal with H : thr s ?x = _ |- _ => rewrite H in *; simpl in * end;
      try match goal with H : lock s = None |- _ => rewrite H in * end;
      try tauto;
      try (split; intros; try discriminate; try congruence; tauto).
    (* remaining: another thread u <> t while t releases / acquires the lock *)
    all: try (split; [intros Hh; apply IHu in Hh; destruct IHt as [IHt _]; specialize (IHt eq_refl); congruence | discriminate]).
    all: try (split; [intros Hh; apply IHu in Hh; congruence| intros Hh; inversion Hh; congruence]).
Qed.


Ltac same_prog :=
  repeat match goal with
  | H1 : prog ?t = _, H2 : prog ?t = _ |- _ => rewrite H1 in H2; inversion H2; subst; clear H2
  end.

Lemma mutex_two s t u : mutex_inv s -> holds_lock (thr s t) = true -> holds_lock (thr s u) = true -> t = u.
Proof. intros M A B. apply M in A. apply M in B. congruence. Qed.

(* a thread inside the wait loop whose context is live has a live helper *)
Definition helper_inv (s : state) : Prop :=
  forall t w, prog t = OWaiter w -> ended s t = false ->
    (in_loop (thr s t) = true \/ (thr s t = InCrit true /\ w_eager w = true)) -> helper s t = true.

Lemma sigs_in_loop sg th th' u : sigs_steps sg th th' -> in_loop (th' u) = true -> in_loop (th u) = true.
Proof. intros H. destruct (sigs_cases _ _ _ u H) as [->|[-> ->]]; auto. Qed.

Lemma sigs_eq_crit sg th th' u b : sigs_steps sg th th' -> th' u = InCrit b -> th u = InCrit b.
Proof. intros H. destruct (sigs_cases _ _ _ u H) as [->|[_ ->]]; auto; discriminate. Qed.

Lemma wake_all_in_loop c th u : in_loop (wake_all c th u) = true -> in_loop (th u) = true.
Proof. destruct (wake_all_cases c th u) as [->|(-> & _ & ->)]; auto. Qed.

Lemma wake_all_eq_crit c th u b : wake_all c th u = InCrit b -> th u = InCrit b.
Proof. destruct (wake_all_cases c th u) as [->|(_ & _ & ->)]; auto; discriminate. Qed.

Lemma mon_helper_inv ok s : reach ok s -> helper_inv s.
Proof.
  intros R. induction R as [|s l s' R IH _ St].
  - intros t w _ _ [H|[H _]]; simpl in H; discriminate.
  - unfold helper_inv in *. inversion St; subst; simpl; intros u wu Hp He Hs.
    + (* invoke *) destruct (Nat.eq_dec u t) as [->|N].
      * rewrite upd_same in Hs. destruct Hs as [Hs|[Hs _]]; simpl in Hs; discriminate.
      * rewrite upd_other in Hs by auto. eauto.
    + (* acquire effect *) destruct (Nat.eq_dec u t) as [->|N]; [congruence|].
      rewrite upd_other in Hs by auto. eauto.
    + (* acquire waiter *) destruct (Nat.eq_dec u t) as [->|N].
      * same_prog. rewrite upd_same in Hs. destruct Hs as [Hs|[_ Hs]]; [simpl in Hs; discriminate|].
        rewrite Hs, He. simpl. apply upd_same.
      * rewrite upd_other in Hs by auto.
        assert (helper s u = true) by eauto.
        destruct (w_eager w && negb (ended s t)); [rewrite upd_other by auto|]; auto.
    + (* reacquire *) destruct (Nat.eq_dec u t) as [->|N].
      * apply (IH t wu); auto. left. rewrite H. reflexivity.
      * rewrite upd_other in Hs by auto. eauto.
    + (* effect *) destruct (Nat.eq_dec u t) as [->|N]; [congruence|].
      rewrite upd_other in Hs by auto. apply (IH u wu); auto.
      destruct Hs as [Hs|[Hs E]]; [left; eapply sigs_in_loop; eauto|right; split; auto; eapply sigs_eq_crit; eauto].
    + (* wait ok *) destruct (Nat.eq_dec u t) as [->|N].
      * rewrite upd_same in Hs. destruct Hs as [Hs|[Hs _]]; simpl in Hs; discriminate.
      * rewrite upd_other in Hs by auto. rewrite upd_other by auto. apply (IH u wu); auto.
        destruct Hs as [Hs|[Hs E]]; [left; eapply sigs_in_loop; eauto|right; split; auto; eapply sigs_eq_crit; eauto].
    + (* closed *) destruct (Nat.eq_dec u t) as [->|N].
      * rewrite upd_same in Hs. destruct Hs as [Hs|[Hs _]]; simpl in Hs; discriminate.
      * rewrite upd_other in Hs by auto. rewrite upd_other by auto. eauto.
    + (* cancelled *) destruct (Nat.eq_dec u t) as [->|N].
      * rewrite upd_same in Hs. destruct Hs as [Hs|[Hs _]]; simpl in Hs; discriminate.
      * rewrite upd_other in Hs by auto. rewrite upd_other by auto. eauto.
    + (* decide *) destruct (Nat.eq_dec u t) as [->|N].
      * same_prog. destruct b; simpl.
        -- match goal with |- context [w_eager ?x] => destruct (w_eager x) eqn:E end; simpl; [|apply upd_same].
           eapply IH; eauto.
        -- eapply IH; eauto. left. rewrite H0. reflexivity.
      * rewrite upd_other in Hs by auto.
        assert (helper s u = true) by eauto.
        destruct (b && negb (w_eager w)); [rewrite upd_other by auto|]; auto.
    + (* park *) destruct (Nat.eq_dec u t) as [->|N].
      * apply (IH t wu); auto. left. rewrite H. reflexivity.
      * rewrite upd_other in Hs by auto. eauto.
    + (* ctx end *) destruct (Nat.eq_dec u t) as [->|N].
      * rewrite upd_same in He. discriminate.
      * rewrite upd_other in He by auto. rewrite upd_other by auto. eauto.
    + (* helper *) apply (IH u wu); auto.
      destruct Hs as [Hs|[Hs E]]; [left; eapply wake_all_in_loop; eauto|right; split; auto; eapply wake_all_eq_crit; eauto].
    + (* spurious *) destruct (Nat.eq_dec u t) as [->|N].
      * apply (IH t wu); auto. left. rewrite H. reflexivity.
      * rewrite upd_other in Hs by auto. eauto.
Qed.

(* a thread between its park decision and cond.Wait's registration holds the lock, so its predicate is still false *)
Definition parking_inv (s : state) : Prop :=
  forall t w, prog t = OWaiter w -> thr s t = Parking -> w_wake w (dat s) = false.

Lemma sigs_eq_parking sg th th' u : sigs_steps sg th th' -> th' u = Parking -> th u = Parking.
Proof. intros H. destruct (sigs_cases _ _ _ u H) as [->|[_ ->]]; auto; discriminate. Qed.

Lemma wake_all_eq_parking c th u : wake_all c th u = Parking -> th u = Parking.
Proof. destruct (wake_all_cases c th u) as [->|(_ & _ & ->)]; auto; discriminate. Qed.

Lemma mon_parking_inv ok s : reach ok s -> parking_inv s.
Proof.
  intros R. induction R as [|s l s' R IH _ St]; [intros t w _ H; simpl in H; discriminate|].
  pose proof (mon_mutex _ _ R) as M.
  unfold parking_inv in *. inversion St; subst; simpl; intros u wu Hp Hs;
    try (destruct (Nat.eq_dec u t) as [->|N];
         [rewrite upd_same in Hs; try discriminate|rewrite upd_other in Hs by auto]); eauto.
  - (* effect: another thread would hold the lock too *)
    apply sigs_eq_parking with (1 := H2) in Hs.
    exfalso. apply N. apply (mutex_two s); auto; [rewrite Hs|rewrite H0]; reflexivity.
  - apply sigs_eq_parking with (1 := H3) in Hs.
    exfalso. apply N. apply (mutex_two s); auto; [rewrite Hs|rewrite H0]; reflexivity.
  - same_prog. unfold w_wake. rewrite H1, H2. reflexivity.
  - apply wake_all_eq_parking in Hs. eauto.
Qed.

(* ============================================================ safety *)

(* what justifies a waiter's verdict, at the step at which it returns *)
Definition verdict_justified (s s' : state) (t : tid) (w : waiter) (r : verdict) : Prop :=
  match r with
  | ROk => lock s = Some t /\ w_P w (dat s) = true /\ dat s' = fst (w_succ w (dat s))
  | RClosed => lock s = Some t /\ w_P w (dat s) = false /\ w_closed w (dat s) = true /\ dat s' = dat s
  | RCancelled => lock s = Some t /\ ended s t = true /\ dat s' = dat s
  end.

(* mon_safety: in any run, the step by which a waiter returns r is taken while it holds the lock (so the
   data it looked at is the current data), and r = ROk only if its predicate holds of that data (and the
   data afterwards is exactly its success effect applied to it), RClosed only if the closed flag is set,
   RCancelled only if its context really has ended.  In every other case a waiter does not return. *)
Theorem mon_safety ok s l s' t w r :
  reach ok s -> step s l s' -> prog t = OWaiter w ->
  thr s t <> Done r -> thr s' t = Done r -> verdict_justified s s' t w r.
Proof.
  intros R St Hp Hn Hd. pose proof (mon_mutex _ _ R) as M.
  assert (HL : forall b, thr s t = InCrit b -> lock s = Some t).
  { intros b E. apply M. rewrite E. reflexivity. }
  inversion St; subst; simpl in *;
    try (destruct (Nat.eq_dec t t0) as [->|N];
         [rewrite upd_same in Hd; try discriminate|rewrite upd_other in Hd by auto; try contradiction]).
  - congruence.
  - exfalso. destruct (sigs_cases _ _ _ t H2) as [E|[_ E]]; congruence.
  - same_prog. inversion Hd; subst. simpl. rewrite H2. simpl. eauto.
  - exfalso. destruct (sigs_cases _ _ _ t H3) as [E|[_ E]]; congruence.
  - same_prog. inversion Hd; subst. simpl. eauto.
  - same_prog. inversion Hd; subst. simpl. eauto.
  - contradiction.
  - exfalso. destruct (wake_all_cases c (thr s) t) as [E|(_ & _ & E)]; congruence.
Qed.

(* the context of a waiter that returned RCancelled has ended (state form; `ended` is monotone) *)
Theorem mon_cancelled_ended ok s t : reach ok s -> thr s t = Done RCancelled -> ended s t = true.
Proof.
  intros R. induction R as [|s l s' R IH _ St]; [simpl; discriminate|].
  inversion St; subst; simpl; intros Hd;
    try (destruct (Nat.eq_dec t t0) as [->|N];
         [rewrite upd_same in Hd; try discriminate|rewrite upd_other in Hd by auto]); auto.
  - apply IH. destruct (sigs_cases _ _ _ t H2) as [E|[_ E]]; congruence.
  - apply IH. destruct (sigs_cases _ _ _ t H3) as [E|[_ E]]; congruence.
  - unfold upd. destruct (Nat.eqb_spec t t0); auto.
  - apply IH. destruct (wake_all_cases c (thr s) t) as [E|(_ & _ & E)]; congruence.
Qed.

(* mon_already_true_no_block: a waiter that holds the lock for its first check while P holds cannot park: every
   step either leaves it where it is with the data unchanged, or is its own return with ROk. *)
Theorem mon_already_true_no_block ok s l s' t w b :
  reach ok s -> step s l s' -> prog t = OWaiter w -> thr s t = InCrit b -> w_P w (dat s) = true ->
  (thr s' t = InCrit b /\ dat s' = dat s) \/ (l = LBody t /\ thr s' t = Done ROk).
Proof.
  intros R St Hp Hs HP. pose proof (mon_mutex _ _ R) as M.
  assert (HX : forall u b', thr s u = InCrit b' -> u = t).
  { intros u b' E. apply (mutex_two s); auto; [rewrite E|rewrite Hs]; reflexivity. }
  assert (HL : lock s = Some t) by (apply M; rewrite Hs; reflexivity).
  inversion St; subst; simpl;
    try (destruct (Nat.eq_dec t t0) as [->|N]; [try congruence|rewrite ?upd_other by auto; auto]);
    try (same_prog; congruence).
  - exfalso. apply N. symmetry. eauto.
  - right. rewrite upd_same. auto.
  - exfalso. apply N. symmetry. eauto.
  - left. auto.
  - left. split; auto. destruct (wake_all_cases c (thr s) t) as [E|(E & _)]; congruence.
Qed.

(* ============================================================ Broadcast discipline *)

(* the critical sections that can change the data: effect bodies and the success parts of waiters *)
Definition body_of (t : tid) (b : body) : Prop :=
  prog t = OEffect b \/ exists w, prog t = OWaiter w /\ b = w_succ w.

(* every body that turns the wake predicate of some waiter on c from false to true broadcasts c
   in the same critical section *)
Definition bcast_discipline (c : cond) : Prop :=
  forall t b, body_of t b ->
  forall d u w, prog u = OWaiter w -> w_cond w = c ->
    w_wake w d = false -> w_wake w (fst (b d)) = true -> In (Broadcast c) (snd (b d)).

Definition parked_inv (c : cond) (s : state) : Prop :=
  forall t w, prog t = OWaiter w -> w_cond w = c ->
    (thr s t = Parking \/ thr s t = Parked) -> w_wake w (dat s) = false.

Lemma sigs_eq_pp sg th th' u :
  sigs_steps sg th th' -> (th' u = Parking \/ th' u = Parked) -> th' u = th u.
Proof. intros H. destruct (sigs_cases _ _ _ u H) as [->|[_ ->]]; auto. intros [?|?]; discriminate. Qed.

Lemma wake_all_eq_pp c th u :
  (wake_all c th u = Parking \/ wake_all c th u = Parked) -> wake_all c th u = th u.
Proof. destruct (wake_all_cases c th u) as [->|(_ & _ & ->)]; auto. intros [?|?]; discriminate. Qed.

(* the step of a body under the discipline keeps parked_inv *)
Lemma body_keeps_parked c s t b bb d' sg th' :
  bcast_discipline c -> mutex_inv s -> parked_inv c s ->
  body_of t bb -> thr s t = InCrit b -> bb (dat s) = (d', sg) -> sigs_steps sg (thr s) th' ->
  forall u w, u <> t -> prog u = OWaiter w -> w_cond w = c ->
    (th' u = Parking \/ th' u = Parked) -> w_wake w d' = false.
Proof.
  intros D M IH Hb Hs Hd Hsg u w N Hp Hc Hu.
  pose proof (sigs_eq_pp _ _ _ _ Hsg Hu) as E.
  destruct Hu as [Hu|Hu].
  - exfalso. apply N. apply (mutex_two s); auto; [rewrite <- E, Hu|rewrite Hs]; reflexivity.
  - assert (F : w_wake w (dat s) = false) by (apply (IH u w); auto; right; congruence).
    destruct (w_wake w d') eqn:G; auto. exfalso.
    pose proof (D t bb Hb (dat s) u w Hp Hc F) as X. rewrite Hd in X. simpl in X.
    eapply sigs_bcast; eauto. rewrite <- Hc. unfold cond_of. rewrite Hp. reflexivity.
Qed.

(* mon_parked_not_enabled (the strong form of the pending-wake invariant under the Broadcast discipline):
   in EVERY reachable state (any number of threads, any schedule, quiescent or not) a thread that is parked
   on c — or is about to park on c — has a false predicate and the container is not closed.  *)
Theorem mon_parked_not_enabled ok c s : bcast_discipline c -> reach ok s -> parked_inv c s.
Proof.
  intros D R. induction R as [|s l s' R IH _ St]; [intros t w _ _ [H|H]; simpl in H; discriminate|].
  pose proof (mon_mutex _ _ R) as M.
  unfold parked_inv in *. inversion St; subst; simpl; intros u wu Hp Hc Hs;
    try (destruct (Nat.eq_dec u t) as [->|N];
         [rewrite upd_same in Hs; try (destruct Hs; discriminate)|rewrite upd_other in Hs by auto]); eauto.
  - eapply (body_keeps_parked c s t b e); eauto. left; auto.
  - eapply (body_keeps_parked c s t b (w_succ w)); eauto. right; eauto.
  - same_prog. unfold w_wake. rewrite H1, H2. reflexivity.
  - apply (IH u wu); auto. rewrite <- (wake_all_eq_pp _ _ _ Hs). auto.
Qed.

(* a wake-up for c is pending: a released helper has yet to broadcast c, or a thread already taken off c's wait
   list (with a live helper, so that it will broadcast c when it leaves) has not yet re-checked *)
Definition token (c : cond) (s : state) : Prop :=
  In c (pendingB s) \/
  exists t', cond_of t' = Some c /\ (thr s t' = Woken \/ thr s t' = InCrit false) /\ helper s t' = true.

(* mon_pending_wake, in the form of DESIGN 3.2 (under the Broadcast discipline it follows from the stronger
   mon_parked_not_enabled: the premise `parked with a true predicate` is never met) *)
Theorem mon_pending_wake ok c s t w :
  bcast_discipline c -> reach ok s -> prog t = OWaiter w -> w_cond w = c ->
  thr s t = Parked -> w_wake w (dat s) = true -> token c s.
Proof.
  intros D R Hp Hc Hs Hw. exfalso.
  pose proof (mon_parked_not_enabled ok c s D R t w Hp Hc (or_intror Hs)). congruence.
Qed.

(* quiescent: nothing can run any more (threads not yet invoked do not count) *)
Definition quiescent (s : state) : Prop :=
  lock s = None /\ pendingB s = [] /\ forall t, runnable (thr s t) = false.

(* mon_no_lost_wakeup *)
Theorem mon_no_lost_wakeup ok c s t w :
  bcast_discipline c -> reach ok s -> quiescent s -> prog t = OWaiter w -> w_cond w = c ->
  thr s t = Parked -> w_P w (dat s) = false /\ w_closed w (dat s) = false.
Proof.
  intros D R _ Hp Hc Hs.
  pose proof (mon_parked_not_enabled ok c s D R t w Hp Hc (or_intror Hs)) as X.
  unfold w_wake in X. apply orb_false_iff in X. exact X.
Qed.

(* ============================================================ cancellation (the ctx half) *)

(* either the helper broadcasts under the lock, or the schedule never ends a context inside the window *)
Definition ctx_guard (ok : state -> label -> Prop) : Prop :=
  helper_locked = true \/ forall s l, ok s l -> no_ctx_race s l.

Definition ctx_inv (s : state) : Prop :=
  (forall t w, prog t = OWaiter w -> (thr s t = Parking \/ thr s t = Parked) -> ended s t = true ->
     In (w_cond w) (pendingB s)) /\
  (forall t, thr s t = Parking -> ended s t = true -> helper_locked = true).

Lemma exit_pending_incl s t c x : In x (pendingB s) -> In x (exit_pending s t c).
Proof. unfold exit_pending. destruct (helper s t); simpl; auto. Qed.

Lemma mon_ctx_inv ok s : ctx_guard ok -> reach ok s -> ctx_inv s.
Proof.
  intros G R. induction R as [|s l s' R IH Hok St].
  { split; [intros t w _ [H|H]|intros t H]; simpl in H; discriminate. }
  pose proof (mon_mutex _ _ R) as M. pose proof (mon_helper_inv _ _ R) as K.
  destruct IH as [J J2]. split.
  - inversion St; subst; simpl; intros u wu Hp Hs He;
      try (destruct (Nat.eq_dec u t) as [->|N];
           [rewrite upd_same in Hs; try (destruct Hs; discriminate)|rewrite upd_other in Hs by auto]); eauto.
    + destruct (w_eager w && ended s t); simpl; eauto.
    + apply (J u wu); auto. rewrite <- (sigs_eq_pp _ _ _ _ H2 Hs). auto.
    + apply exit_pending_incl. apply (J u wu); auto. rewrite <- (sigs_eq_pp _ _ _ _ H3 Hs). auto.
    + apply exit_pending_incl. eauto.
    + apply exit_pending_incl. eauto.
    + congruence.
    + (* ctx end *)
      destruct (Nat.eq_dec u t) as [->|N].
      * same_prog. rewrite (K t wu); simpl; auto. left. destruct Hs as [-> | ->]; reflexivity.
      * rewrite upd_other in He by auto. destruct (helper s t); simpl; eauto.
    + (* helper broadcast of c: a thread on c is no longer parked; one inside the window is impossible here *)
      pose proof (wake_all_eq_pp _ _ _ Hs) as E. rewrite E in Hs.
      destruct Hs as [Hs|Hs].
      * exfalso. pose proof (J2 u Hs He) as HL. specialize (H0 HL).
        assert (X : lock s = Some u) by (apply M; rewrite Hs; reflexivity). congruence.
      * apply remove_one_other; [|apply (J u wu); auto].
        intros Ec. apply (wake_all_on c (thr s) u); [unfold cond_of; rewrite Hp, Ec; reflexivity|congruence].
  - inversion St; subst; simpl; intros u Hs He;
      try (destruct (Nat.eq_dec u t) as [->|N];
           [rewrite upd_same in Hs; try discriminate|rewrite upd_other in Hs by auto]); eauto.
    + apply J2 with u; auto. eapply sigs_eq_parking; eauto.
    + apply J2 with u; auto. eapply sigs_eq_parking; eauto.
    + congruence.
    + destruct G as [G|G]; auto. destruct (Nat.eq_dec u t) as [->|N].
      * exfalso. apply (G _ _ Hok). exact Hs.
      * rewrite upd_other in He by auto. eauto.
    + apply J2 with u; auto. apply wake_all_eq_parking in Hs. auto.
Qed.

(* mon_ctx_pending_wake: a parked thread whose context has ended has a helper broadcast pending *)
Theorem mon_ctx_pending_wake_locked s t w :
  helper_locked = true -> reachable s -> prog t = OWaiter w -> thr s t = Parked -> ended s t = true ->
  In (w_cond w) (pendingB s).
Proof. intros HL R Hp Hs He. apply (proj1 (mon_ctx_inv any_step s (or_introl HL) R) t); auto. Qed.

Theorem mon_ctx_pending_wake_norace s t w :
  reach no_ctx_race s -> prog t = OWaiter w -> thr s t = Parked -> ended s t = true ->
  In (w_cond w) (pendingB s).
Proof. intros R Hp Hs He. apply (proj1 (mon_ctx_inv no_ctx_race s (or_intror (fun _ _ H => H)) R) t); auto. Qed.

(* at quiescence no parked thread's context has ended *)
Theorem mon_no_lost_cancel ok s t w :
  ctx_guard ok -> reach ok s -> quiescent s -> prog t = OWaiter w -> thr s t = Parked -> ended s t = false.
Proof.
  intros G R (_ & Q & _) Hp Hs. destruct (ended s t) eqn:E; auto. exfalso.
  pose proof (proj1 (mon_ctx_inv ok s G R) t w Hp (or_intror Hs) E) as X. rewrite Q in X. exact X.
Qed.

(* ============================================================ Signal / cascade discipline *)

(* Signal c is enough for a body that enables the waiters on c PROVIDED all waiters on c wait for the same
   change (one wake predicate W for all of them: whoever receives the single Signal can use it) and every
   waiter that has been through the wait loop re-broadcasts c when it leaves (built into the model: the
   deferred cancel() releases its helper).  *)
Definition cascade_discipline (c : cond) (W : Data -> bool) : Prop :=
  (forall t w, prog t = OWaiter w -> w_cond w = c -> forall d, w_wake w d = W d) /\
  (forall t b, body_of t b -> forall d, W d = false -> W (fst (b d)) = true ->
     In (Signal c) (snd (b d)) \/ In (Broadcast c) (snd (b d))).

(* the invariant of DESIGN Appendix B item 2, generalised:  W d /\ (exists Parked on c) -> a wake for c is pending *)
Definition cascade_inv (c : cond) (W : Data -> bool) (s : state) : Prop :=
  W (dat s) = true -> (exists t, cond_of t = Some c /\ thr s t = Parked) -> token c s.

Lemma cond_of_waiter t c : cond_of t = Some c -> exists w, prog t = OWaiter w /\ w_cond w = c.
Proof. unfold cond_of. destruct (prog t) as [e|w]; [discriminate|]. intros E. inversion E. eauto. Qed.

Lemma token_keep c s s' :
  (In c (pendingB s) -> In c (pendingB s')) ->
  (forall t', cond_of t' = Some c -> (thr s t' = Woken \/ thr s t' = InCrit false) -> helper s t' = true ->
     In c (pendingB s') \/ ((thr s' t' = Woken \/ thr s' t' = InCrit false) /\ helper s' t' = true)) ->
  token c s -> token c s'.
Proof.
  intros Hp Ht [H|(t' & Hc & Hs & Hh)]; [left; auto|].
  destruct (Ht t' Hc Hs Hh) as [X|[X Y]]; [left; auto|right; eauto].
Qed.

Lemma sigs_eq_woken_or_crit sg th th' u :
  sigs_steps sg th th' -> (th u = Woken \/ th u = InCrit false) -> th' u = th u.
Proof. intros H. destruct (sigs_cases _ _ _ u H) as [->|[-> _]]; auto. intros [?|?]; discriminate. Qed.

(* what a data-changing critical section of thread t leaves behind for cond c *)
Lemma body_keeps_cascade c W s t b bb d' sg th' :
  cascade_discipline c W -> mutex_inv s -> helper_inv s -> ctx_inv s -> cascade_inv c W s ->
  body_of t bb -> thr s t = InCrit b -> bb (dat s) = (d', sg) -> sigs_steps sg (thr s) th' ->
  W d' = true -> (exists u, u <> t /\ cond_of u = Some c /\ th' u = Parked) ->
  In c (pendingB s) \/
  (exists t', t' <> t /\ cond_of t' = Some c /\ th' t' = Woken /\ helper s t' = true) \/
  (cond_of t = Some c /\ b = false /\ helper s t = true).
Proof.
  intros [U D] M K [J _] IH Hb Hs Hd Hsg HW (u & N & Hcu & Hpu).
  assert (Hpu0 : thr s u = Parked).
  { destruct (sigs_cases _ _ _ u Hsg) as [E|[E _]]; congruence. }
  destruct (W (dat s)) eqn:HW0.
  - (* W held before: the pending wake-up is still there *)
    destruct (IH HW0 (ex_intro _ u (conj Hcu Hpu0))) as [X|(t' & Hc' & Hs' & Hh')]; [left; exact X|].
    destruct (Nat.eq_dec t' t) as [->|N'].
    + right; right. destruct Hs' as [Hs'|Hs']; [congruence|]. split; auto. split; auto. congruence.
    + right; left. exists t'. repeat split; auto.
      destruct Hs' as [Hs'|Hs'].
      * rewrite (sigs_eq_woken_or_crit _ _ _ _ Hsg (or_introl Hs')). exact Hs'.
      * exfalso. apply N'. apply (mutex_two s); auto; [rewrite Hs'|rewrite Hs]; reflexivity.
  - (* W became true: the body signalled or broadcast c *)
    pose proof (D t bb Hb (dat s) HW0) as X. rewrite Hd in X. simpl in X. specialize (X HW).
    destruct X as [X|X].
    + destruct (sigs_signal _ _ _ _ Hsg X) as [A|(v & Hcv & Hpv & Hwv)].
      * exfalso. exact (A u Hcu Hpu).
      * destruct (helper s v) eqn:Hh.
        -- right; left. exists v. repeat split; auto. intros ->. congruence.
        -- left. destruct (cond_of_waiter _ _ Hcv) as (wv & Hprog & Hcw). rewrite <- Hcw.
           apply (J v wv); auto.
           destruct (ended s v) eqn:He; auto.
           rewrite (K v wv Hprog He) in Hh; [discriminate|]. left. rewrite Hpv. reflexivity.
    + exfalso. exact (sigs_bcast _ _ _ _ _ Hsg X Hcu Hpu).
Qed.

Theorem mon_cascade_inv ok c W s :
  ctx_guard ok -> cascade_discipline c W -> reach ok s -> cascade_inv c W s.
Proof.
  intros G CD R. induction R as [|s l s' R IH Hok St].
  { intros _ (t & _ & H). simpl in H. discriminate. }
  pose proof (mon_mutex _ _ R) as M. pose proof (mon_helper_inv _ _ R) as K.
  pose proof (mon_parking_inv _ _ R) as P2. pose proof (mon_ctx_inv _ _ G R) as JJ.
  pose proof CD as [U D].
  unfold cascade_inv in *.
  inversion St; subst; simpl; intros HW (u & Hcu & Hpu).
  - (* invoke *)
    assert (N : u <> t) by (intros ->; rewrite upd_same in Hpu; discriminate).
    rewrite upd_other in Hpu by auto.
    eapply token_keep; [| |apply IH; eauto]; simpl; auto.
    intros t' _ Hs' Hh'. right. split; auto.
    rewrite upd_other; auto. intros ->. destruct Hs'; congruence.
  - (* acquire (effect) *)
    assert (N : u <> t) by (intros ->; rewrite upd_same in Hpu; discriminate).
    rewrite upd_other in Hpu by auto.
    eapply token_keep; [| |apply IH; eauto]; simpl; auto.
    intros t' _ Hs' Hh'. right. split; auto.
    rewrite upd_other; auto. intros ->. destruct Hs'; congruence.
  - (* acquire (waiter) *)
    assert (N : u <> t) by (intros ->; rewrite upd_same in Hpu; discriminate).
    rewrite upd_other in Hpu by auto.
    eapply token_keep; [| |apply IH; eauto]; simpl.
    + intros Hx. destruct (w_eager w && ended s t); simpl; auto.
    + intros t' _ Hs' Hh'. right.
      assert (N' : t' <> t) by (intros ->; destruct Hs'; congruence).
      rewrite upd_other by auto. split; auto.
      destruct (w_eager w && negb (ended s t)); [rewrite upd_other by auto|]; auto.
  - (* re-acquire *)
    assert (N : u <> t) by (intros ->; rewrite upd_same in Hpu; discriminate).
    rewrite upd_other in Hpu by auto.
    eapply token_keep; [| |apply IH; eauto]; simpl; auto.
    intros t' _ Hs' Hh'. right. split; auto.
    destruct (Nat.eq_dec t' t) as [->|N']; [rewrite upd_same; auto|rewrite upd_other; auto].
  - (* effect body *)
    assert (N : u <> t) by (intros ->; rewrite upd_same in Hpu; discriminate).
    rewrite upd_other in Hpu by auto.
    destruct (body_keeps_cascade c W s t b e d' sg th' CD M K JJ IH (or_introl H) H0 H1 H2 HW
                (ex_intro _ u (conj N (conj Hcu Hpu)))) as [X|[(t' & N' & Hc' & Hs' & Hh')|(X & _)]].
    + left. exact X.
    + right. exists t'. simpl. rewrite upd_other by auto. auto.
    + unfold cond_of in X. rewrite H in X. discriminate.
  - (* waiter success body *)
    assert (N : u <> t) by (intros ->; rewrite upd_same in Hpu; discriminate).
    rewrite upd_other in Hpu by auto.
    destruct (body_keeps_cascade c W s t b (w_succ w) d' sg th' CD M K JJ IH
                (or_intror (ex_intro _ w (conj H eq_refl))) H0 H2 H3 HW
                (ex_intro _ u (conj N (conj Hcu Hpu)))) as [X|[(t' & N' & Hc' & Hs' & Hh')|(X & _ & Hh)]].
    + left. simpl. apply exit_pending_incl. exact X.
    + right. exists t'. simpl. rewrite !upd_other by auto. auto.
    + left. simpl. unfold exit_pending. rewrite Hh. unfold cond_of in X. rewrite H in X. inversion X. left. reflexivity.
  - (* leaves: closed *)
    assert (N : u <> t) by (intros ->; rewrite upd_same in Hpu; discriminate).
    rewrite upd_other in Hpu by auto.
    eapply token_keep; [| |apply IH; eauto]; simpl.
    + apply exit_pending_incl.
    + intros t' Hc' Hs' Hh'. destruct (Nat.eq_dec t' t) as [->|N'].
      * left. unfold exit_pending. rewrite Hh'. unfold cond_of in Hc'. rewrite H in Hc'. inversion Hc'. left. reflexivity.
      * right. rewrite !upd_other by auto. auto.
  - (* leaves: cancelled *)
    assert (N : u <> t) by (intros ->; rewrite upd_same in Hpu; discriminate).
    rewrite upd_other in Hpu by auto.
    eapply token_keep; [| |apply IH; eauto]; simpl.
    + apply exit_pending_incl.
    + intros t' Hc' Hs' Hh'. destruct (Nat.eq_dec t' t) as [->|N'].
      * left. unfold exit_pending. rewrite Hh'. unfold cond_of in Hc'. rewrite H in Hc'. inversion Hc'. left. reflexivity.
      * right. rewrite !upd_other by auto. auto.
  - (* decides to park: its predicate is false, so if it is on c there is nothing to show *)
    assert (N : u <> t) by (intros ->; rewrite upd_same in Hpu; discriminate).
    rewrite upd_other in Hpu by auto.
    eapply token_keep; [| |apply IH; eauto]; simpl; auto.
    intros t' Hc' Hs' Hh'. destruct (Nat.eq_dec t' t) as [->|N'].
    + exfalso. unfold cond_of in Hc'. rewrite H in Hc'. inversion Hc'.
      pose proof (U t w H H5 (dat s)) as E. unfold w_wake in E. rewrite H1, H2 in E. simpl in E. congruence.
    + right. rewrite upd_other by auto. split; auto.
      destruct (b && negb (w_eager w)); [rewrite upd_other by auto|]; auto.
  - (* park *)
    destruct (Nat.eq_dec u t) as [->|N].
    + exfalso. destruct (cond_of_waiter _ _ Hcu) as (w & Hprog & Hcw).
      pose proof (P2 t w Hprog H) as E. rewrite (U t w Hprog Hcw) in E. congruence.
    + rewrite upd_other in Hpu by auto.
      eapply token_keep; [| |apply IH; eauto]; simpl; auto.
      intros t' _ Hs' Hh'. right. split; auto.
      rewrite upd_other; auto. intros ->. destruct Hs'; congruence.
  - (* context ends *)
    eapply token_keep; [| |apply IH; eauto]; simpl.
    + intros Hx. destruct (helper s t); simpl; auto.
    + intros t' Hc' Hs' Hh'. destruct (Nat.eq_dec t' t) as [->|N'].
      * left. rewrite Hh'. unfold cond_of in Hc'. rewrite H in Hc'. inversion Hc'. left. reflexivity.
      * right. rewrite upd_other by auto. auto.
  - (* helper broadcast *)
    destruct (Nat.eq_dec c0 c) as [->|Nc].
    + exfalso. exact (wake_all_on c (thr s) u Hcu Hpu).
    + assert (Hpu0 : thr s u = Parked).
      { destruct (wake_all_cases c0 (thr s) u) as [E|(E & _)]; congruence. }
      eapply token_keep; [| |apply IH; eauto]; simpl.
      * apply remove_one_other; auto.
      * intros t' _ Hs' Hh'. right. split; auto.
        destruct (wake_all_cases c0 (thr s) t') as [E|(E & _)]; [rewrite E; auto|destruct Hs'; congruence].
  - (* spurious wake-up *)
    assert (N : u <> t) by (intros ->; rewrite upd_same in Hpu; discriminate).
    rewrite upd_other in Hpu by auto.
    eapply token_keep; [| |apply IH; eauto]; simpl; auto.
    intros t' _ Hs' Hh'. right. split; auto.
    rewrite upd_other; auto. intros ->. destruct Hs'; congruence.
Qed.

(* mon_cascade_pending_wake: in every reachable state of a guarded run, a thread parked on c whose wake predicate
   holds has a wake-up for c pending *)
Theorem mon_cascade_pending_wake ok c W s t w :
  ctx_guard ok -> cascade_discipline c W -> reach ok s ->
  prog t = OWaiter w -> w_cond w = c -> thr s t = Parked -> w_wake w (dat s) = true -> token c s.
Proof.
  intros G CD R Hp Hc Hs Hw. apply (mon_cascade_inv ok c W s G CD R).
  - rewrite <- (proj1 CD t w Hp Hc). exact Hw.
  - exists t. split; auto. unfold cond_of. rewrite Hp, Hc. reflexivity.
Qed.

Lemma quiescent_no_token c s : quiescent s -> ~ token c s.
Proof.
  intros (_ & Q & Rn) [H|(t' & _ & Hs & _)]; [rewrite Q in H; exact H|].
  specialize (Rn t'). destruct Hs as [Hs|Hs]; rewrite Hs in Rn; discriminate.
Qed.

(* mon_no_lost_wakeup_cascade *)
Theorem mon_no_lost_wakeup_cascade ok c W s t w :
  ctx_guard ok -> cascade_discipline c W -> reach ok s -> quiescent s ->
  prog t = OWaiter w -> w_cond w = c -> thr s t = Parked ->
  w_P w (dat s) = false /\ w_closed w (dat s) = false.
Proof.
  intros G CD R Q Hp Hc Hs. apply orb_false_iff. fold (w_wake w (dat s)).
  destruct (w_wake w (dat s)) eqn:E; auto. exfalso.
  exact (quiescent_no_token c s Q (mon_cascade_pending_wake ok c W s t w G CD R Hp Hc Hs E)).
Qed.

Theorem mon_no_lost_wakeup_cascade_locked c W s t w :
  helper_locked = true -> cascade_discipline c W -> reachable s -> quiescent s ->
  prog t = OWaiter w -> w_cond w = c -> thr s t = Parked ->
  w_P w (dat s) = false /\ w_closed w (dat s) = false.
Proof. intros HL. apply mon_no_lost_wakeup_cascade. left; exact HL. Qed.

Theorem mon_no_lost_wakeup_cascade_norace c W s t w :
  cascade_discipline c W -> reach no_ctx_race s -> quiescent s ->
  prog t = OWaiter w -> w_cond w = c -> thr s t = Parked ->
  w_P w (dat s) = false /\ w_closed w (dat s) = false.
Proof. apply mon_no_lost_wakeup_cascade. right; auto. Qed.

(* mon_pending_wake with the ctx half (Broadcast discipline): parked with a true predicate, a closed container
   or an ended context => a wake-up is pending *)
Theorem mon_pending_wake_ctx ok c s t w :
  ctx_guard ok -> bcast_discipline c -> reach ok s -> prog t = OWaiter w -> w_cond w = c ->
  thr s t = Parked -> (w_wake w (dat s) = true \/ ended s t = true) -> token c s.
Proof.
  intros G D R Hp Hc Hs [Hw|He].
  - eapply mon_pending_wake; eauto.
  - left. rewrite <- Hc. apply (proj1 (mon_ctx_inv ok s G R) t w); auto.
Qed.

End Monitor.

Arguments mkWaiter {Data}.
Arguments OEffect {Data}.
Arguments OWaiter {Data}.
Arguments w_cond {Data}.
Arguments w_P {Data}.
Arguments w_closed {Data}.
Arguments w_succ {Data}.
Arguments w_eager {Data}.
Arguments w_wake {Data}.
Arguments dat {Data}.
Arguments lock {Data}.
Arguments thr {Data}.
Arguments ended {Data}.
Arguments helper {Data}.
Arguments pendingB {Data}.
Arguments mkState {Data}.
Arguments quiescent {Data}.
Arguments any_step {Data}.
Arguments token {Data}.
Arguments verdict_justified {Data}.
Arguments no_ctx_race {Data}.

(* ---- non-vacuity of the cascade discipline: the shape of pubsub.Queue's `nempty` cond.  Data = length; Add
   signals cond 0 exactly when the queue was empty; every consumer waits for `0 < len` and takes one item. *)
Module CascadeExample.
  Definition q_add : body nat := fun n => (S n, if Nat.eqb n 0 then [Signal 0] else []).
  Definition q_wait : waiter nat := mkWaiter 0 (fun n => negb (Nat.eqb n 0)) (fun _ => false) (fun n => (pred n, [])) true.
  Definition q_prog (is_add : tid -> bool) : tid -> op nat := fun t => if is_add t then OEffect q_add else OWaiter q_wait.

  Lemma q_cascade is_add : cascade_discipline nat (q_prog is_add) 0 (fun n => negb (Nat.eqb n 0)).
  Proof.
    split.
    - intros t w H _ d. unfold q_prog in H. destruct (is_add t); inversion H; subst.
      unfold w_wake. simpl. apply orb_false_r.
    - intros t b Hb d Hf Ht. apply negb_false_iff in Hf. apply Nat.eqb_eq in Hf. subst d.
      destruct Hb as [Hb|(w & Hb & ->)]; unfold q_prog in Hb; destruct (is_add t); inversion Hb; subst; simpl in *.
      + left. left. reflexivity.
      + discriminate.
  Qed.

  (* any number of producers and consumers, any schedule avoiding the cancellation window: at quiescence no consumer
     is parked on a non-empty queue *)
  Lemma q_no_lost_wakeup is_add s t :
    reach nat (q_prog is_add) 0 false no_ctx_race s -> quiescent s -> is_add t = false -> thr s t = Parked -> dat s = 0.
  Proof.
    intros R Q Ha Hs.
    assert (Hp : q_prog is_add t = OWaiter q_wait) by (unfold q_prog; rewrite Ha; reflexivity).
    destruct (mon_no_lost_wakeup_cascade_norace nat _ 0 false 0 _ s t q_wait (q_cascade is_add) R Q Hp eq_refl Hs) as [X _].
    simpl in X. apply negb_false_iff in X. apply Nat.eqb_eq in X. exact X.
  Qed.
End CascadeExample.
