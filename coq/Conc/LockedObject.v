(* Conc/LockedObject.v — a monitor ("locked") object is linearizable.

   WHAT IS PROVED.  Take any sequential object: a state type [St], operations [Op], results [Res],
   an initial state [init] and a TOTAL step function [seq : St -> Op -> St * Res].  A blocking
   operation whose wait predicate is false in state [s] is represented by a result [r] with
   [is_blocked r = true] (and, by convention, an unchanged state; the theorems do not even need that
   convention, because the concurrent system below discards the state component of a blocked attempt).
   [cancelled] is the result reported by a blocking operation that gives up (context error).

   The concurrent system has unboundedly many threads (thread ids are [nat]); a configuration is
   the object state, a phase per thread (Idle | Invoked op | Done entry), and ghost data: the
   linearization list, the list of completed (returned) operations and a logical clock that counts
   the events executed so far (so that a stamp IS the position of an event in the trace).  Events:

     Inv t op   thread t (Idle) invokes op                        -> Invoked op
     Crit t     thread t (Invoked op) runs one critical section: [seq st op = (st', r)];
                  if r is not blocked:  st := st', phase Done, the operation is appended to the
                                         ghost linearization (this is its linearization point);
                  if r is blocked:      NOTHING changes (the thread parks inside cond.Wait and
                                         will re-run the whole check later) — only the clock ticks;
     Cancel t   thread t (Invoked op) gives up: phase Done with result [cancelled],
                  state unchanged, appended to the linearization flagged as cancelled;
     Ret t      thread t (Done) returns its result to the caller        -> Idle.

   Theorems, for EVERY trace accepted from the initial configuration (no bound on the number of
   threads, on the number of operations, or on their overlap):

     lo_linearizable      the ghost list (operations in the order of their effective Crit / Cancel
                          event) is a legal sequential execution of [seq] from [init] that produces
                          exactly the results that were (or will be) returned and ends in the current
                          object state; every completed operation occurs in it; every element of it
                          is a completed operation or the pending result of a thread; stamps are
                          positions in the trace with  inv < lin < ret  per operation instance, and
                          the list is strictly ordered by linearization stamps;
     lo_realtime          real-time order: if [Ret] of operation a precedes [Inv] of operation b in
                          the trace, then a precedes b in the linearization;
     lo_cancel_no_effect  an operation that returns [cancelled] left the object state unchanged at
                          its Cancel step, and deleting it from the linearization leaves a legal
                          execution from [init] to the same final state (it contributes no change);
     lo_state_change_only_at_effective_crit
                          the only event that can change the object state is a non-blocked [Crit]
                          (so neither parked attempts, nor cancels, nor invocations/returns write).

   THE PREMISE (what must hold of the Go code for it to BE such a system) is not proved here and is
   not assumed silently by the properties that instantiate this file:
     (P1) every public method body is ONE critical section under the object's single mutex
          (Lock at entry, Unlock at exit, no other lock traffic);
     (P2) the mutex is released inside a method only by cond.Wait (atomic unlock-and-park);
     (P3) after a wake-up nothing is written before the wait predicate is re-checked, and a failed
          re-check writes nothing (so a blocked attempt is a no-op: the [Crit]-blocked case);
     (P4) the cancel path (ctx.Done observed in the wait loop) writes nothing to the object.
   (P1)-(P4) are validated separately: syntactically on the synchronisation skeleton regenerated
   from the source (C13's skeleton checker / atomic-shape check), and behaviourally by the recorded
   concurrent histories of each instantiating property, which are checked for linearizability
   against the same [seq].  Modelled, not verified: sync.Mutex mutual exclusion and sync.Cond's
   atomic unlock-and-park.

   Stdlib only, axiom-free.  An example instance (a counter with a blocking decrement) at the end
   shows that the hypotheses are satisfiable and the theorems non-vacuous. *)
From Coq Require Import List Arith Lia Bool Sorting.Sorted.
Import ListNotations.

Section LockedObject.

Variables St Op Res : Type.
Variable init : St.
Variable seq : St -> Op -> St * Res.
Variable is_blocked : Res -> bool.
Variable cancelled : Res.

Definition tid := nat.

(* One operation instance as recorded at its linearization point. *)
Record entry := mkEntry {
  le_tid : tid; le_op : Op; le_res : Res;
  le_cancel : bool;      (* true: gave up (Cancel event); false: effective critical section *)
  le_inv : nat;          (* position of its Inv event in the trace *)
  le_lin : nat           (* position of its effective Crit / Cancel event in the trace *)
}.

(* A returned operation: its entry and the position of its Ret event. *)
Record completed := mkCompleted { c_entry : entry; c_ret : nat }.

Inductive phase := Idle | Invoked (op : Op) (inv_stamp : nat) | Done (e : entry).

Inductive event := Inv (t : tid) (op : Op) | Crit (t : tid) | Cancel (t : tid) | Ret (t : tid).

Record config := mkConfig {
  st : St;
  ph : tid -> phase;
  lin : list entry;         (* ghost: linearization so far *)
  hist : list completed;    (* ghost: returned operations, in order of return *)
  clock : nat               (* ghost: number of events executed *)
}.

Definition upd (f : tid -> phase) (t : tid) (p : phase) : tid -> phase :=
  fun t' => if Nat.eqb t' t then p else f t'.

Definition init_config : config := mkConfig init (fun _ => Idle) [] [] 0.

(* Executable step function; [None] = the event is not enabled. *)
Definition step (c : config) (ev : event) : option config :=
  match ev with
  | Inv t op =>
      match ph c t with
      | Idle => Some (mkConfig (st c) (upd (ph c) t (Invoked op (clock c))) (lin c) (hist c) (S (clock c)))
      | _ => None
      end
  | Crit t =>
      match ph c t with
      | Invoked op i =>
          let (s', r) := seq (st c) op in
          if is_blocked r
          then Some (mkConfig (st c) (ph c) (lin c) (hist c) (S (clock c)))
          else let e := mkEntry t op r false i (clock c) in
               Some (mkConfig s' (upd (ph c) t (Done e)) (lin c ++ [e]) (hist c) (S (clock c)))
      | _ => None
      end
  | Cancel t =>
      match ph c t with
      | Invoked op i =>
          let e := mkEntry t op cancelled true i (clock c) in
          Some (mkConfig (st c) (upd (ph c) t (Done e)) (lin c ++ [e]) (hist c) (S (clock c)))
      | _ => None
      end
  | Ret t =>
      match ph c t with
      | Done e => Some (mkConfig (st c) (upd (ph c) t Idle) (lin c) (hist c ++ [mkCompleted e (clock c)]) (S (clock c)))
      | _ => None
      end
  end.

Fixpoint run_from (c : config) (tr : list event) : option config :=
  match tr with
  | [] => Some c
  | ev :: tr' => match step c ev with Some c' => run_from c' tr' | None => None end
  end.

Definition run (tr : list event) : option config := run_from init_config tr.

(* The sequential specification extended with "gave up": a cancelled entry is legal anywhere and
   does not change the state; any other entry must be exactly what [seq] produces, and not blocked. *)
Inductive legal : St -> list entry -> St -> Prop :=
| legal_nil s : legal s [] s
| legal_op s e l s' s'' :
    le_cancel e = false -> seq s (le_op e) = (s', le_res e) -> is_blocked (le_res e) = false ->
    legal s' l s'' -> legal s (e :: l) s''
| legal_cancel s e l s'' :
    le_cancel e = true -> le_res e = cancelled -> legal s l s'' -> legal s (e :: l) s''.

Definition ev_of_entry (e : entry) : event :=
  if le_cancel e then Cancel (le_tid e) else Crit (le_tid e).

(* a occurs strictly before b in l *)
Definition precedes (a b : entry) (l : list entry) : Prop :=
  exists l1 l2 l3, l = l1 ++ a :: l2 ++ b :: l3.

Definition lin_lt (a b : entry) : Prop := le_lin a < le_lin b.

(* ------------------------------------------------------------------ lemmas about [legal] *)

Lemma legal_app s1 l1 s2 l2 s3 : legal s1 l1 s2 -> legal s2 l2 s3 -> legal s1 (l1 ++ l2) s3.
Proof.
  induction 1; intros; simpl; auto.
  - eapply legal_op; eauto.
  - eapply legal_cancel; eauto.
Qed.

Lemma legal_app_inv l1 : forall s1 l2 s3, legal s1 (l1 ++ l2) s3 -> exists s2, legal s1 l1 s2 /\ legal s2 l2 s3.
Proof.
  induction l1 as [|e l1 IH]; simpl; intros s1 l2 s3 H.
  - exists s1. split; [constructor|assumption].
  - inversion H; subst.
    + destruct (IH _ _ _ H7) as (s2 & A & B). exists s2. split; [eapply legal_op; eauto|assumption].
    + destruct (IH _ _ _ H6) as (s2 & A & B). exists s2. split; [eapply legal_cancel; eauto|assumption].
Qed.

Lemma legal_cancel_inv s e l s' : le_cancel e = true -> legal s (e :: l) s' -> le_res e = cancelled /\ legal s l s'.
Proof. intros C H. inversion H; subst; [congruence|auto]. Qed.

(* ------------------------------------------------------------------ the invariant *)

Record inv (tr : list event) (c : config) : Prop := mkInv {
  i_clock : clock c = length tr;
  i_legal : legal init (lin c) (st c);
  i_sorted : StronglySorted lin_lt (lin c);
  i_entries : forall e, In e (lin c) ->
      le_inv e < le_lin e /\ le_lin e < clock c /\
      nth_error tr (le_inv e) = Some (Inv (le_tid e) (le_op e)) /\
      nth_error tr (le_lin e) = Some (ev_of_entry e) /\
      (ph c (le_tid e) = Done e \/ exists h, In h (hist c) /\ c_entry h = e);
  i_phase : forall t,
      match ph c t with
      | Idle => True
      | Invoked op i => i < clock c /\ nth_error tr i = Some (Inv t op)
      | Done e => In e (lin c) /\ le_tid e = t
      end;
  i_hist : forall h, In h (hist c) ->
      In (c_entry h) (lin c) /\ le_lin (c_entry h) < c_ret h /\ c_ret h < clock c /\
      nth_error tr (c_ret h) = Some (Ret (le_tid (c_entry h)))
}.

Lemma inv_init : inv [] init_config.
Proof.
  constructor; simpl; try tauto.
  - constructor.
  - constructor.
Qed.

Lemma nth_error_snoc_old {A} (l : list A) x i : i < length l -> nth_error (l ++ [x]) i = nth_error l i.
Proof. intros. apply nth_error_app1. assumption. Qed.

Lemma nth_error_snoc_new {A} (l : list A) x : nth_error (l ++ [x]) (length l) = Some x.
Proof. rewrite nth_error_app2 by lia. rewrite Nat.sub_diag. reflexivity. Qed.

Lemma nth_error_snoc_some {A} (l : list A) x i v : nth_error l i = Some v -> nth_error (l ++ [x]) i = Some v.
Proof. intros H. rewrite nth_error_app1; [assumption|]. apply nth_error_Some. congruence. Qed.

Lemma upd_same f t p : upd f t p t = p.
Proof. unfold upd. rewrite Nat.eqb_refl. reflexivity. Qed.

Lemma upd_other f t p t' : t' <> t -> upd f t p t' = f t'.
Proof. unfold upd. intros. destruct (Nat.eqb_spec t' t); congruence. Qed.

Lemma sorted_snoc l e : StronglySorted lin_lt l -> (forall x, In x l -> lin_lt x e) -> StronglySorted lin_lt (l ++ [e]).
Proof.
  induction 1 as [|a l Hs IH Hf]; intros Hlt; simpl.
  - constructor; constructor.
  - constructor.
    + apply IH. intros x Hx. apply Hlt. right. assumption.
    + apply Forall_app. split; [assumption|]. constructor; [|constructor]. apply Hlt. left. reflexivity.
Qed.

(* Facts shared by the two appending steps (effective Crit, Cancel). *)
Lemma inv_append tr c t op i e ev s' :
  inv tr c -> ph c t = Invoked op i ->
  e = mkEntry t op (le_res e) (le_cancel e) i (clock c) ->
  ev = ev_of_entry e ->
  legal (st c) [e] s' ->
  inv (tr ++ [ev]) (mkConfig s' (upd (ph c) t (Done e)) (lin c ++ [e]) (hist c) (S (clock c))).
Proof.
  intros I P E EV L.
  pose proof (i_phase _ _ I t) as Pt. rewrite P in Pt. destruct Pt as [Pi Pn].
  assert (Et : le_tid e = t) by (rewrite E; reflexivity).
  assert (Eo : le_op e = op) by (rewrite E; reflexivity).
  assert (Ei : le_inv e = i) by (rewrite E; reflexivity).
  assert (El : le_lin e = clock c) by (rewrite E; reflexivity).
  constructor; simpl.
  - rewrite app_length; simpl. rewrite (i_clock _ _ I). lia.
  - eapply legal_app; [apply (i_legal _ _ I)|exact L].
  - apply sorted_snoc; [apply (i_sorted _ _ I)|].
    intros x Hx. unfold lin_lt. rewrite El. apply (i_entries _ _ I x Hx).
  - intros x Hx. apply in_app_or in Hx. destruct Hx as [Hx|[Hx|[]]].
    + destruct (i_entries _ _ I x Hx) as (A & B & C & D & F).
      split; [assumption|]. split; [lia|].
      split; [apply nth_error_snoc_some; assumption|].
      split; [apply nth_error_snoc_some; assumption|].
      destruct F as [F|F]; [|right; assumption].
      destruct (Nat.eq_dec (le_tid x) t) as [Heq|Hne].
      * rewrite Heq in F. congruence.
      * left. rewrite upd_other by assumption. assumption.
    + subst x. rewrite Ei, El, Et, Eo.
      split; [assumption|]. split; [lia|].
      split; [apply nth_error_snoc_some; assumption|].
      split; [rewrite (i_clock _ _ I), EV; apply nth_error_snoc_new|].
      left. apply upd_same.
  - intros t'. destruct (Nat.eq_dec t' t) as [Heq|Hne].
    + subst t'. rewrite upd_same. split; [apply in_or_app; right; left; reflexivity|assumption].
    + rewrite upd_other by assumption.
      pose proof (i_phase _ _ I t') as Q. destruct (ph c t') as [|op' i'|e'].
      * trivial.
      * destruct Q as [Q1 Q2]. split; [lia|apply nth_error_snoc_some; assumption].
      * destruct Q as [Q1 Q2]. split; [apply in_or_app; left; assumption|assumption].
  - intros h Hh. destruct (i_hist _ _ I h Hh) as (A & B & C & D).
    split; [apply in_or_app; left; assumption|]. split; [assumption|]. split; [lia|].
    apply nth_error_snoc_some; assumption.
Qed.

Lemma step_inv tr c ev c' : inv tr c -> step c ev = Some c' -> inv (tr ++ [ev]) c'.
Proof.
  intros I S. destruct ev as [t op|t|t|t]; simpl in S.
  - (* Inv *)
    destruct (ph c t) as [|op' i'|e'] eqn:P; try discriminate. inversion S; subst c'; clear S.
    constructor; simpl.
    + rewrite app_length; simpl. rewrite (i_clock _ _ I). lia.
    + apply (i_legal _ _ I).
    + apply (i_sorted _ _ I).
    + intros x Hx. destruct (i_entries _ _ I x Hx) as (A & B & C & D & F).
      split; [assumption|]. split; [lia|].
      split; [apply nth_error_snoc_some; assumption|].
      split; [apply nth_error_snoc_some; assumption|].
      destruct F as [F|F]; [|right; assumption].
      destruct (Nat.eq_dec (le_tid x) t) as [Heq|Hne].
      * rewrite Heq in F. congruence.
      * left. rewrite upd_other by assumption. assumption.
    + intros t'. destruct (Nat.eq_dec t' t) as [Heq|Hne].
      * subst t'. rewrite upd_same. split; [lia|]. rewrite (i_clock _ _ I). apply nth_error_snoc_new.
      * rewrite upd_other by assumption.
        pose proof (i_phase _ _ I t') as Q. destruct (ph c t') as [|op'' i''|e''].
        -- trivial.
        -- destruct Q as [Q1 Q2]. split; [lia|apply nth_error_snoc_some; assumption].
        -- assumption.
    + intros h Hh. destruct (i_hist _ _ I h Hh) as (A & B & C & D).
      split; [assumption|]. split; [assumption|]. split; [lia|].
      apply nth_error_snoc_some; assumption.
  - (* Crit *)
    destruct (ph c t) as [|op i|e'] eqn:P; try discriminate.
    destruct (seq (st c) op) as [s' r] eqn:Q.
    destruct (is_blocked r) eqn:B; inversion S; subst c'; clear S.
    + (* blocked: nothing but the clock changes *)
      constructor; simpl.
      * rewrite app_length; simpl. rewrite (i_clock _ _ I). lia.
      * apply (i_legal _ _ I).
      * apply (i_sorted _ _ I).
      * intros x Hx. destruct (i_entries _ _ I x Hx) as (A & B' & C & D & F).
        split; [assumption|]. split; [lia|].
        split; [apply nth_error_snoc_some; assumption|].
        split; [apply nth_error_snoc_some; assumption|assumption].
      * intros t'. pose proof (i_phase _ _ I t') as Q'. destruct (ph c t') as [|op'' i''|e''].
        -- trivial.
        -- destruct Q' as [Q1 Q2]. split; [lia|apply nth_error_snoc_some; assumption].
        -- assumption.
      * intros h Hh. destruct (i_hist _ _ I h Hh) as (A & B' & C & D).
        split; [assumption|]. split; [assumption|]. split; [lia|].
        apply nth_error_snoc_some; assumption.
    + eapply inv_append; eauto.
      eapply legal_op; simpl; eauto. constructor.
  - (* Cancel *)
    destruct (ph c t) as [|op i|e'] eqn:P; try discriminate. inversion S; subst c'; clear S.
    eapply inv_append; eauto.
    eapply legal_cancel; simpl; eauto. constructor.
  - (* Ret *)
    destruct (ph c t) as [|op i|e] eqn:P; try discriminate. inversion S; subst c'; clear S.
    pose proof (i_phase _ _ I t) as Pt. rewrite P in Pt. destruct Pt as [Pin Ptid].
    constructor; simpl.
    + rewrite app_length; simpl. rewrite (i_clock _ _ I). lia.
    + apply (i_legal _ _ I).
    + apply (i_sorted _ _ I).
    + intros x Hx. destruct (i_entries _ _ I x Hx) as (A & B & C & D & F).
      split; [assumption|]. split; [lia|].
      split; [apply nth_error_snoc_some; assumption|].
      split; [apply nth_error_snoc_some; assumption|].
      destruct F as [F|(h & Hh & Eh)].
      * destruct (Nat.eq_dec (le_tid x) t) as [Heq|Hne].
        -- right. rewrite Heq, P in F. inversion F; subst x.
           exists (mkCompleted e (clock c)). split; [apply in_or_app; right; left; reflexivity|reflexivity].
        -- left. rewrite upd_other by assumption. assumption.
      * right. exists h. split; [apply in_or_app; left; assumption|assumption].
    + intros t'. destruct (Nat.eq_dec t' t) as [Heq|Hne].
      * subst t'. rewrite upd_same. trivial.
      * rewrite upd_other by assumption.
        pose proof (i_phase _ _ I t') as Q. destruct (ph c t') as [|op'' i''|e''].
        -- trivial.
        -- destruct Q as [Q1 Q2]. split; [lia|apply nth_error_snoc_some; assumption].
        -- assumption.
    + intros h Hh. apply in_app_or in Hh. destruct Hh as [Hh|[Hh|[]]].
      * destruct (i_hist _ _ I h Hh) as (A & B & C & D).
        split; [assumption|]. split; [assumption|]. split; [lia|].
        apply nth_error_snoc_some; assumption.
      * subst h; simpl. destruct (i_entries _ _ I e Pin) as (A & B & C & D & F).
        split; [assumption|]. split; [assumption|]. split; [lia|].
        rewrite Ptid, (i_clock _ _ I). apply nth_error_snoc_new.
Qed.

Lemma run_from_inv tr : forall tr0 c0 c, inv tr0 c0 -> run_from c0 tr = Some c -> inv (tr0 ++ tr) c.
Proof.
  induction tr as [|ev tr IH]; simpl; intros tr0 c0 c I R.
  - inversion R; subst. rewrite app_nil_r. assumption.
  - destruct (step c0 ev) as [c1|] eqn:S; [|discriminate].
    replace (tr0 ++ ev :: tr) with ((tr0 ++ [ev]) ++ tr) by (rewrite <- app_assoc; reflexivity).
    eapply IH; [eapply step_inv; eassumption|assumption].
Qed.

Lemma run_inv tr c : run tr = Some c -> inv tr c.
Proof. intros R. apply (run_from_inv tr [] init_config c inv_init R). Qed.

(* ------------------------------------------------------------------ theorems *)

(* Everything that makes the ghost list a linearization of the trace. *)
Record linearization (tr : list event) (c : config) : Prop := mkLinearization {
  (* (a) legal sequential execution of [seq] from [init], with exactly the recorded results,
         ending in the current object state *)
  lz_legal : legal init (lin c) (st c);
  (* (b) every returned operation is in the list, with the result it returned *)
  lz_complete : forall h, In h (hist c) -> In (c_entry h) (lin c);
  (* (c) nothing else is: every element is a returned operation or the pending result of a thread *)
  lz_only : forall e, In e (lin c) ->
      ph c (le_tid e) = Done e \/ exists h, In h (hist c) /\ c_entry h = e;
  (* (d) stamps are trace positions: inv < lin (< ret), at the right events *)
  lz_stamps : forall e, In e (lin c) ->
      le_inv e < le_lin e /\
      nth_error tr (le_inv e) = Some (Inv (le_tid e) (le_op e)) /\
      nth_error tr (le_lin e) = Some (ev_of_entry e);
  lz_ret_stamp : forall h, In h (hist c) ->
      le_lin (c_entry h) < c_ret h /\ nth_error tr (c_ret h) = Some (Ret (le_tid (c_entry h)));
  (* (e) the list is ordered by linearization points *)
  lz_sorted : StronglySorted lin_lt (lin c)
}.

Theorem lo_linearizable : forall tr c, run tr = Some c -> linearization tr c.
Proof.
  intros tr c R. pose proof (run_inv _ _ R) as I. constructor.
  - apply (i_legal _ _ I).
  - intros h Hh. apply (i_hist _ _ I h Hh).
  - intros e He. apply (i_entries _ _ I e He).
  - intros e He. destruct (i_entries _ _ I e He) as (A & B & C & D & F). auto.
  - intros h Hh. destruct (i_hist _ _ I h Hh) as (A & B & C & D). auto.
  - apply (i_sorted _ _ I).
Qed.

Lemma sorted_precedes l : StronglySorted lin_lt l ->
  forall a b, In a l -> In b l -> lin_lt a b -> precedes a b l.
Proof.
  induction 1 as [|x l Hs IH Hf]; intros a b Ha Hb Lt; [destruct Ha|].
  destruct Ha as [Ha|Ha], Hb as [Hb|Hb].
  - subst. unfold lin_lt in Lt. lia.
  - subst x. apply in_split in Hb. destruct Hb as (l2 & l3 & E). exists [], l2, l3. rewrite E. reflexivity.
  - subst x. rewrite Forall_forall in Hf. specialize (Hf a Ha). unfold lin_lt in *. lia.
  - destruct (IH a b Ha Hb Lt) as (l1 & l2 & l3 & E). exists (x :: l1), l2, l3. rewrite E. reflexivity.
Qed.

(* Real-time order.  [a] has returned at trace position [c_ret a]; [b] (returned or not) was invoked
   at trace position [le_inv b].  If a's Ret precedes b's Inv in the trace, a is linearized before b. *)
Theorem lo_realtime : forall tr c, run tr = Some c ->
  forall a b, In a (hist c) -> In b (lin c) -> c_ret a < le_inv b -> precedes (c_entry a) b (lin c).
Proof.
  intros tr c R a b Ha Hb Lt. pose proof (run_inv _ _ R) as I.
  destruct (i_hist _ _ I a Ha) as (A1 & A2 & A3 & A4).
  destruct (i_entries _ _ I b Hb) as (B1 & B2 & B3 & B4 & B5).
  apply sorted_precedes; [apply (i_sorted _ _ I)|assumption|assumption|]. unfold lin_lt. lia.
Qed.

(* The same statement phrased with the events themselves. *)
Corollary lo_realtime_events : forall tr c, run tr = Some c ->
  forall a b i j, In a (hist c) -> In b (lin c) ->
    nth_error tr i = Some (Ret (le_tid (c_entry a))) -> i = c_ret a ->
    nth_error tr j = Some (Inv (le_tid b) (le_op b)) -> j = le_inv b ->
    i < j -> precedes (c_entry a) b (lin c).
Proof. intros; subst; eapply lo_realtime; eauto. Qed.

(* Only an effective (non-blocked) critical section can change the object state. *)
Theorem lo_state_change_only_at_effective_crit : forall c ev c', step c ev = Some c' ->
  st c' = st c \/
  exists t op i, ev = Crit t /\ ph c t = Invoked op i /\
                 is_blocked (snd (seq (st c) op)) = false /\ st c' = fst (seq (st c) op).
Proof.
  intros c ev c' S. destruct ev as [t op|t|t|t]; simpl in S.
  - destruct (ph c t); try discriminate. inversion S; subst; simpl; auto.
  - destruct (ph c t) as [|op i|e] eqn:P; try discriminate.
    destruct (seq (st c) op) as [s' r] eqn:Q. destruct (is_blocked r) eqn:B; inversion S; subst; simpl; auto.
    right. exists t, op, i. rewrite Q; simpl. auto.
  - destruct (ph c t); try discriminate. inversion S; subst; simpl; auto.
  - destruct (ph c t); try discriminate. inversion S; subst; simpl; auto.
Qed.

(* A cancelled operation has no effect:
   (1) its Cancel step leaves the object state (and every other thread's phase) unchanged;
   (2) in the linearization it carries the result [cancelled], the state before and after it is the
       same, and deleting it leaves a legal execution from [init] to the same final state. *)
Theorem lo_cancel_step_no_effect : forall c t c', step c (Cancel t) = Some c' ->
  st c' = st c /\ (forall t', t' <> t -> ph c' t' = ph c t') /\
  exists e, ph c' t = Done e /\ le_res e = cancelled /\ le_cancel e = true.
Proof.
  intros c t c' S. simpl in S. destruct (ph c t) as [|op i|e]; try discriminate.
  inversion S; subst; simpl. split; [reflexivity|]. split.
  - intros t' Hne. apply upd_other. assumption.
  - eexists. rewrite upd_same. split; [reflexivity|]. split; reflexivity.
Qed.

Theorem lo_cancel_no_effect : forall tr c, run tr = Some c ->
  forall e, In e (lin c) -> le_cancel e = true ->
    le_res e = cancelled /\
    nth_error tr (le_lin e) = Some (Cancel (le_tid e)) /\
    exists l1 l2 s, lin c = l1 ++ e :: l2 /\
      legal init l1 s /\ legal s [e] s /\ legal s l2 (st c) /\ legal init (l1 ++ l2) (st c).
Proof.
  intros tr c R e He C. pose proof (run_inv _ _ R) as I.
  destruct (i_entries _ _ I e He) as (A & B & Cc & D & F).
  apply in_split in He. destruct He as (l1 & l2 & E).
  pose proof (i_legal _ _ I) as L. rewrite E in L.
  apply legal_app_inv in L. destruct L as (s & L1 & L2).
  apply legal_cancel_inv in L2; [|assumption]. destruct L2 as [Rc L2].
  split; [assumption|]. split; [unfold ev_of_entry in D; rewrite C in D; assumption|].
  exists l1, l2, s. split; [assumption|]. split; [assumption|].
  split; [apply legal_cancel; [assumption|assumption|constructor]|].
  split; [assumption|]. eapply legal_app; eassumption.
Qed.

(* A returned result [cancelled] flagged as such: the operation that thread [t] completes with a
   Cancel event is returned by the following Ret with exactly that entry. *)
Lemma lo_ret_returns_entry : forall c t c', step c (Ret t) = Some c' ->
  exists e, ph c t = Done e /\ hist c' = hist c ++ [mkCompleted e (clock c)] /\ st c' = st c.
Proof.
  intros c t c' S. simpl in S. destruct (ph c t) as [|op i|e]; try discriminate.
  inversion S; subst; simpl. eauto.
Qed.

(* Executable replay of a claimed linearization order (used by correspondence checks that
   re-validate, inside Coq, orders found by an untrusted search): the results of running [seq]
   over a list of operations. *)
Fixpoint seq_run (s : St) (ops : list Op) : St * list Res :=
  match ops with
  | [] => (s, [])
  | o :: ops' => let (s', r) := seq s o in let (s'', rs) := seq_run s' ops' in (s'', r :: rs)
  end.

End LockedObject.

Arguments Idle {Op Res}.
Arguments Invoked {Op Res}.
Arguments Done {Op Res}.
Arguments Inv {Op}.
Arguments Crit {Op}.
Arguments Cancel {Op}.
Arguments Ret {Op}.
Arguments mkEntry {Op Res}.
Arguments le_tid {Op Res}.
Arguments le_op {Op Res}.
Arguments le_res {Op Res}.
Arguments le_cancel {Op Res}.
Arguments le_inv {Op Res}.
Arguments le_lin {Op Res}.
Arguments mkCompleted {Op Res}.
Arguments c_entry {Op Res}.
Arguments c_ret {Op Res}.
Arguments st {St Op Res}.
Arguments ph {St Op Res}.
Arguments lin {St Op Res}.
Arguments hist {St Op Res}.
Arguments clock {St Op Res}.
Arguments ev_of_entry {Op Res}.
Arguments precedes {Op Res}.
Arguments lin_lt {Op Res}.

(* ------------------------------------------------------------------ example instance *)
(* A counter with a non-blocking increment, a read, and a decrement that blocks at zero.  Shows
   that the section hypotheses are satisfiable and the theorems apply to a concrete two-thread
   trace with a parked attempt, a cancel and overlapping operations. *)
Module CounterExample.

Inductive cop := CInc | CGet | CDecWait.
Inductive cres := CUnit | CVal (n : nat) | CBlocked | CCancelled.

Definition cseq (s : nat) (o : cop) : nat * cres :=
  match o with
  | CInc => (S s, CUnit)
  | CGet => (s, CVal s)
  | CDecWait => match s with 0 => (s, CBlocked) | S s' => (s', CUnit) end
  end.

Definition cblocked (r : cres) : bool := match r with CBlocked => true | _ => false end.

Notation crun := (run nat cop cres 0 cseq cblocked CCancelled).

(* thread 0: DecWait parks, is woken after thread 1's Inc, succeeds; thread 2's DecWait gives up;
   thread 1 then reads 0. *)
Definition ctrace : list (event cop) :=
  [Inv 0 CDecWait; Crit 0; Inv 1 CInc; Inv 2 CDecWait; Crit 2; Crit 1; Crit 0; Crit 2; Cancel 2;
   Ret 1; Ret 0; Inv 1 CGet; Crit 1; Ret 2; Ret 1].

Example ctrace_runs_compute :
  match crun ctrace with
  | Some c => st c = 0 /\
      map (fun e => (le_tid e, le_op e, le_res e)) (lin c) =
        [(1, CInc, CUnit); (0, CDecWait, CUnit); (2, CDecWait, CCancelled); (1, CGet, CVal 0)]
  | None => False
  end.
Proof. vm_compute. split; reflexivity. Qed.

Example ctrace_runs : exists c, crun ctrace = Some c /\ st c = 0 /\
  map (fun e => (le_tid e, le_op e, le_res e)) (lin c) =
    [(1, CInc, CUnit); (0, CDecWait, CUnit); (2, CDecWait, CCancelled); (1, CGet, CVal 0)].
Proof.
  pose proof ctrace_runs_compute as H. destruct (crun ctrace) as [c|]; [|contradiction].
  exists c. split; [reflexivity|exact H].
Qed.

Example ctrace_linearizable : exists c, crun ctrace = Some c /\
  linearization nat cop cres 0 cseq cblocked CCancelled ctrace c.
Proof.
  destruct ctrace_runs as (c & R & _). exists c. split; [exact R|].
  exact (lo_linearizable nat cop cres 0 cseq cblocked CCancelled ctrace c R).
Qed.

End CounterExample.
