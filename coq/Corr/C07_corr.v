(* Correspondence for C07.  A case is a *scenario* the Go driver ran on the real pubsub.Queue / pubsub.Deque
   (harness/cmd/c07) together with what it observed: for every operation its result, or "still blocked" when the
   scenario ended (decided by a stop-the-world goroutine snapshot, never by a short timeout), and the final Len.

   The model side is the operation-level reading of Model/QueueMonitor.v / Model/DequeMonitor.v — the SAME critical
   sections (`qop_run`, `dop_run`) and the SAME waiter records (`wait_w`, `badd_w`, `iter_w`, `waitpop_w`,
   `waitpush_w`) the Monitor instances are built from: an effect operation runs its critical section atomically at
   its place in the script; a blocking operation looks once when it is started (returns at once if its predicate
   holds: C07_already_true_no_block) and otherwise blocks; a blocked operation may complete at any later point at
   which its predicate holds / the container is closed / its context is cancelled (mon_safety), in any order with the
   others; and — this is the content of the no-lost-wake-up theorems — wherever the driver observed quiescence
   (`SSettle`, and the end of the script) NO blocked operation may be enabled.  `allowed` searches these
   interleavings for one that produces exactly the observed results; `mismatches` lists the cases with none. *)
From FunV Require Import Base.Tac Conc.Monitor Model.QueueMonitor Model.DequeMonitor.
From Coq Require Import PrimFloat String.

Definition err_eq := err_eqb.
Definition res_eqb (a b : res) : bool :=
  match a, b with
  | RErr x, RErr y => err_eqb x y
  | RVal x, RVal y => Z.eqb x y
  | RNone, RNone | RUnit, RUnit => true
  | _, _ => false
  end.

Inductive ores := OBlocked | ORet (r : res).

Inductive ritem := RDo (t : nat) | RSpawn (t : nat) | RCancel (t : nat).
Inductive sstep :=
| SOne (i : ritem)          (* done by the driver itself; a spawned waiter has parked or returned before the next step *)
| SRace (is : list ritem)   (* released together from separate goroutines; all done / parked before the next step *)
| SSettle.                  (* the driver waited for quiescence *)

Section Coarse.
Variable Data : Type.

Inductive centry :=
| CEff (run : Data -> Data * res)
| CWait (mk : Data -> waiter Data) (rf : Data -> res).   (* the waiter (fixed when it starts) and its success result *)

Variable table : nat -> centry.
Variable obs : list ores.
Variable fin : Data -> bool.

Definition bentry : Type := nat * waiter Data * (Data -> res).

Definition obs_is (t : nat) (r : res) : bool :=
  match nth t obs OBlocked with ORet r' => res_eqb r r' | OBlocked => false end.
Definition obs_blocked (t : nat) : bool :=
  match nth t obs (ORet RUnit) with OBlocked => true | _ => false end.

Definition memb (t : nat) (l : list nat) : bool := existsb (Nat.eqb t) l.

(* one look of a waiter at the data: P, then closed, then ctx — the order of the code's loops *)
Definition attempt (w : waiter Data) (rf : Data -> res) (d : Data) (isended : bool) : option (Data * res) :=
  if w_P w d then Some (fst (w_succ w d), rf d)
  else if w_closed w d then Some (d, RErr EClosed)
  else if isended then Some (d, RErr ECtx)
  else None.

Definition drop (t : nat) (bl : list bentry) : list bentry :=
  filter (fun e => negb (Nat.eqb (fst (fst e)) t)) bl.

Definition stuck (d : Data) (en : list nat) (e : bentry) : bool :=
  let '(t, w, rf) := e in
  match attempt w rf d (memb t en) with None => true | Some _ => false end.

(* NB: vm_compute is call-by-value, so `a || b` / `a && b` / `existsb` would evaluate both sides (the whole search
   tree); every choice below is an explicit `if`, whose branches are evaluated on demand *)
Fixpoint anyb {A} (f : A -> bool) (l : list A) : bool :=
  match l with [] => false | x :: r => if f x then true else anyb f r end.

Definition do_item (k : list sstep -> Data -> list bentry -> list nat -> bool)
           (i : ritem) (rest : list sstep) (d : Data) (bl : list bentry) (en : list nat) : bool :=
  match i with
  | RDo t =>
      match table t with
      | CEff run => let '(d', r) := run d in if obs_is t r then k rest d' bl en else false
      | CWait _ _ => false
      end
  | RSpawn t =>
      match table t with
      | CWait mk rf =>
          let w := mk d in
          match attempt w rf d (memb t en) with
          | Some (d', r) => if obs_is t r then k rest d' bl en else false
          | None => k rest d ((t, w, rf) :: bl) en
          end
      | CEff _ => false
      end
  | RCancel t => k rest d bl (t :: en)
  end.

Fixpoint remove_nth {A} (n : nat) (l : list A) : list A :=
  match n, l with
  | _, [] => []
  | O, _ :: r => r
  | S n', x :: r => x :: remove_nth n' r
  end.

Fixpoint explore (fuel : nat) (script : list sstep) (d : Data) (bl : list bentry) (en : list nat) : bool :=
  match fuel with
  | O => false
  | S fuel' =>
      (* some blocked operation completes now *)
      if anyb (fun e : bentry =>
                 let '(t, w, rf) := e in
                 match attempt w rf d (memb t en) with
                 | Some (d', r) => if obs_is t r then explore fuel' script d' (drop t bl) en else false
                 | None => false
                 end) bl
      then true
      else
      (* or the script goes on *)
      match script with
      | [] => if forallb (fun e => if stuck d en e then obs_blocked (fst (fst e)) else false) bl then fin d else false
      | SSettle :: rest => if forallb (stuck d en) bl then explore fuel' rest d bl en else false
      | SOne i :: rest => do_item (explore fuel') i rest d bl en
      | SRace [] :: rest => explore fuel' rest d bl en
      | SRace is :: rest =>
          anyb (fun n => do_item (explore fuel') (nth n is (RCancel 0)) (SRace (remove_nth n is) :: rest) d bl en)
               (seq 0 (List.length is))
      end
  end.

End Coarse.

Arguments CEff {Data}.  Arguments CWait {Data}.

(* ------------------------------------------------------------------ Queue *)

Inductive tspec := KUnlimited | KHard (cap : Z) | KQuota (hard soft : Z) (burst : float).

Definition tracker_of (k : tspec) : tracker :=
  match k with
  | KUnlimited => TNoLimit 0
  | KHard c => THard c 0
  | KQuota h s b => quota_tracker h s b
  end.

Definition qentry (o : qop) : centry qdata :=
  match o with
  | QWait => CWait (fun _ => wait_w true) (fun d => snd (qop_run true QWait d))
  | QBlockingAdd v => CWait (fun _ => badd_w true v) (fun d => snd (qop_run true (QBlockingAdd v) d))
  | QIterWait _ => CWait (fun d => iter_w true (q_ver d)) (fun _ => RErr ENil)   (* waitForNew returns nil *)
  | _ => CEff (fun d => let '(d', _, r) := qop_run true o d in (d', r))
  end.

Definition dentry (o : dop) : centry ddata :=
  match o with
  | DWaitPop f => CWait (fun _ => waitpop_w f) (fun d => snd (dop_run (DWaitPop f) d))
  | DWaitPush f v => CWait (fun _ => waitpush_w f v) (fun d => snd (dop_run (DWaitPush f v) d))
  | _ => CEff (fun d => let '(d', _, r) := dop_run o d in (d', r))
  end.

Fixpoint script_size (s : list sstep) : nat :=
  match s with
  | [] => 0
  | SRace is :: r => 2 + List.length is + script_size r
  | _ :: r => 1 + script_size r
  end.

(* ------------------------------------------------------------------ notification skeleton of the source
   The driver reads off queue.go / deque.go (go/ast, source order) which cond every function Signals ("S:") or
   Broadcasts ("B:"), "H"/"HL" = inside the per-wait helper goroutine without / with a Lock() first, "all" = a call of
   broadcastAll(), "a=c" = alias assignment.  These tables are what the signal lists of Model/QueueMonitor.v and
   Model/DequeMonitor.v were transcribed from:
     doAdd [S nempty (guarded by len == 1); B nupdates] = do_add true;   popFront [B nupdates] = pop_front;
     Close [B nupdates; B nempty] = do_close;   the three helpers broadcast under the lock = helper_locked := true,
     on the cond their waiter parks on (wait_w: nempty, badd_w / iter_w: nupdates);
     Deque: addAfter [B updates on a failed add; all] = add_at;  pop [all] = pop_at;  Close [all] = d_close;
     broadcastAll = BCAST_ALL;  the helpers of waitPushAfter / element.wait broadcast `cond` under the lock; the
     in-loop `S cond` and waitPushAfter's deferred `S updates` are the extra Signals the model leaves to LSpurious.
   A difference (Signal<->Broadcast, a dropped, added or moved notification, an unlocked helper) is a mismatch:
   the theorems were proved for these tables. *)
Definition skel := list (string * list string).
Local Open Scope string_scope.

Definition expected_queue_skel : skel :=
  [ ("doAdd", ["S:nempty"; "B:nupdates"]);
    ("BlockingAdd", ["cond=nupdates"; "HLB:cond"]);
    ("unsafeWaitWhileEmpty", ["HLB:nempty"]);
    ("waitForNew", ["HLB:nupdates"]);
    ("Close", ["B:nupdates"; "B:nempty"]);
    ("popFront", ["B:nupdates"]) ].

Definition expected_deque_skel : skel :=
  [ ("Close", ["all"]);
    ("broadcastAll", ["B:nfront"; "B:nback"; "B:updates"]);
    ("waitPushAfter", ["S:updates"; "cond=updates"; "HLB:cond"; "S:cond"]);
    ("addAfter", ["B:updates"; "all"]);
    ("pop", ["all"]);
    ("wait", ["cond=nback"; "cond=nfront"; "cond=updates"; "HLB:cond"; "S:cond"]) ].

Fixpoint list_eqb {A} (eqb : A -> A -> bool) (a b : list A) : bool :=
  match a, b with
  | [], [] => true
  | x :: a', y :: b' => if eqb x y then list_eqb eqb a' b' else false
  | _, _ => false
  end.

Local Close Scope string_scope.

Definition skel_eqb : skel -> skel -> bool :=
  list_eqb (fun x y => if String.eqb (fst x) (fst y) then list_eqb String.eqb (snd x) (snd y) else false).

Inductive case :=
| CSkel (id : Z) (file : string) (sk : skel)
| CQueue (id : Z) (k : tspec) (ops : list qop) (script : list sstep) (obs : list ores) (flen : Z)
| CDeque (id : Z) (k : tspec) (ops : list dop) (script : list sstep) (obs : list ores) (flen : Z).

Definition case_id (c : case) : Z :=
  match c with CSkel id _ _ => id | CQueue id _ _ _ _ _ | CDeque id _ _ _ _ _ => id end.

Definition check_case (c : case) : bool :=
  match c with
  | CSkel _ file sk =>
      if String.eqb file "queue"%string then skel_eqb sk expected_queue_skel
      else if String.eqb file "deque"%string then skel_eqb sk expected_deque_skel
      else false
  | CQueue _ k ops script obs flen =>
      explore qdata (fun t => qentry (nth t ops QLen)) obs (fun d => Z.eqb (t_len (q_trk d)) flen)
              (2 * (script_size script + List.length ops) + 4) script (qinit (tracker_of k)) [] []
  | CDeque _ k ops script obs flen =>
      explore ddata (fun t => dentry (nth t ops DLen)) obs (fun d => Z.eqb (t_len (d_trk d)) flen)
              (2 * (script_size script + List.length ops) + 4) script (dinit (tracker_of k)) [] []
  end.

Definition mismatches (cs : list case) : list Z :=
  map case_id (filter (fun c => negb (check_case c)) cs).

(* sanity: the model accepts a served consumer and rejects a consumer left blocked on a non-empty queue *)
Example corr_accepts :
  check_case (CQueue 1 KUnlimited [QWait; QAdd 7] [SOne (RSpawn 0); SOne (RDo 1); SSettle]
                     [ORet (RVal 7); ORet (RErr ENil)] 0) = true.
Proof. vm_compute. reflexivity. Qed.
Example corr_rejects_lost_wakeup :
  check_case (CQueue 2 KUnlimited [QWait; QAdd 7] [SOne (RSpawn 0); SOne (RDo 1); SSettle]
                     [OBlocked; ORet (RErr ENil)] 1) = false.
Proof. vm_compute. reflexivity. Qed.
