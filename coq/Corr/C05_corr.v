(* Correspondence for C05.  Cases carry the inputs and the observations made on the real
   pubsub.Queue; the model (Model/QueueHeap.v) is re-run here by vm_compute.

   CNew   constructor: NewQueue(opts) succeeded iff validate_opts accepts, and then the tracker's
          softQuota / hardLimit and the decisions "initial credit < k" (k = 1..) agree with the model's
          Validate defaults (never the float itself)
   CSeq   sequential differential: ops in try-form (blocking ops with a cancelled context);
          per step the result, Len() and tracker.cap() (= soft quota) observed on the implementation;
          at the end the implementation's item walk.  Checked against BOTH the pointer-level model
          (q_try) and the abstract specification (spec_try).  Floats are never compared: the credit
          is evaluated on the Coq side only; what is compared are decisions, lengths and quotas.
   CHist  a recorded concurrent history (per operation: op, result, invocation and response stamp)
          together with a linearization order claimed by the driver's (untrusted) search.  Coq
          re-validates: the order is a permutation, respects real-time order (no operation is placed
          before one that returned before it was invoked), and is a legal execution of [spec_step]
          with exactly the recorded results, where a context error is accepted only at a point
          where the operation is blocked (and then changes nothing). *)
From Coq Require Import List ZArith Bool PrimFloat.
From FunV Require Import Model.QueueHeap.
Import ListNotations.
Local Open Scope Z_scope.

Inductive qcfg :=
| CfgUnlimited                                  (* NewUnlimitedQueue *)
| CfgQuota (hl sq : Z) (bc : float)             (* NewQueue(QueueOptions{HardLimit, SoftQuota, BurstCredit}) *)
| CfgHard (cap : Z).                            (* queueHardLimitTracker under a Queue (verif constructor) *)

Definition cfg_tracker (c : qcfg) : option tracker :=
  match c with
  | CfgUnlimited => Some (NoLimit 0)
  | CfgQuota hl sq bc => validate_opts hl sq bc
  | CfgHard cap => Some (HardLimit cap 0)
  end.

(* one recorded operation of a concurrent history *)
Record hop := mkHop { h_op : qop; h_res : qres; h_inv : Z; h_ret : Z }.

Inductive case :=
| CNew (id : Z) (hl sq : Z) (bc : float) (accepted : bool)
       (sq_obs hl_obs : Z)            (* tracker fields after NewQueue (0 0 when rejected) *)
       (credit_lt : list bool)        (* decisions "credit < k" for k = 1, 2, ... on the initial credit *)
| CSeq (id : Z) (cfg : qcfg) (ops : list qop) (obs : list (qres * Z * Z)) (final : list Z)
| CHist (id : Z) (cfg : qcfg) (h : list hop) (order : list nat).

Definition case_id (c : case) : Z :=
  match c with CNew id _ _ _ _ _ _ _ => id | CSeq id _ _ _ _ => id | CHist id _ _ _ => id end.

Definition qerr_eqb (a b : qerr) : bool :=
  match a, b with
  | ENil, ENil | EFull, EFull | ENoCredit, ENoCredit | EClosed, EClosed | ECtx, ECtx => true
  | _, _ => false
  end.

Definition qres_eqb (a b : qres) : bool :=
  match a, b with
  | RErr x, RErr y => qerr_eqb x y
  | RItem x, RItem y => Z.eqb x y
  | RNotOk, RNotOk => true
  | RLen x, RLen y => Z.eqb x y
  | RBlocked, RBlocked => true
  | RPanic, RPanic => true
  | _, _ => false
  end.

Fixpoint list_eqb {A} (eqb : A -> A -> bool) (a b : list A) : bool :=
  match a, b with
  | [], [] => true
  | x :: a', y :: b' => eqb x y && list_eqb eqb a' b'
  | _, _ => false
  end.

(* sequential differential against a step function with observable length / cap *)
Fixpoint seq_agrees {S} (step : S -> qop -> S * qres) (len cap : S -> Z)
         (s : S) (ops : list qop) (obs : list (qres * Z * Z)) : option S :=
  match ops, obs with
  | [], [] => Some s
  | o :: ops', (r, l, c) :: obs' =>
      let (s', r') := step s o in
      if qres_eqb r r' && Z.eqb l (len s') && Z.eqb c (cap s')
      then seq_agrees step len cap s' ops' obs' else None
  | _, _ => None
  end.

(* ---- history validation *)

Definition is_ctx (r : qres) : bool := match r with RErr ECtx => true | _ => false end.

(* replay the claimed order on the specification *)
Fixpoint replay (s : qspec) (hs : list hop) : bool :=
  match hs with
  | [] => true
  | x :: hs' =>
      let (s', r) := spec_step s (h_op x) in
      if is_ctx (h_res x) then is_blocked r && replay s hs'
      else qres_eqb r (h_res x) && negb (is_blocked r) && replay s' hs'
  end.

(* real-time order: nothing later in the order returned before something earlier was invoked *)
Fixpoint rt_ok (hs : list hop) : bool :=
  match hs with
  | [] => true
  | x :: hs' => forallb (fun y => negb (h_ret y <? h_inv x)) hs' && rt_ok hs'
  end.

Definition is_perm (n : nat) (order : list nat) : bool :=
  Nat.eqb (length order) n && forallb (fun i => existsb (Nat.eqb i) order) (seq 0 n).

Definition hist_ok (t : tracker) (h : list hop) (order : list nat) : bool :=
  let dflt := mkHop OLen RPanic 0 0 in
  let hs := map (fun i => nth i h dflt) order in
  is_perm (length h) order && rt_ok hs && replay (spec_init t) hs.

Definition check_case (c : case) : bool :=
  match c with
  | CNew _ hl sq bc acc sq_obs hl_obs clt =>
      match validate_opts hl sq bc with
      | None => negb acc
      | Some (Quota sq' hl' l cr) =>
          acc && Z.eqb sq' sq_obs && Z.eqb hl' hl_obs && Z.eqb l 0 &&
          list_eqb Bool.eqb clt
            (map (fun k => PrimFloat.ltb cr (z2f (Z.of_nat k))) (seq 1 (length clt)))
      | Some _ => false
      end
  | CSeq _ cfg ops obs final =>
      match cfg_tracker cfg with
      | None => false
      | Some t =>
          match seq_agrees q_try (fun q => t_len (trk q)) (fun q => t_cap (trk q)) (make_queue t) ops obs,
                seq_agrees spec_try (fun s => t_len (strk s)) (fun s => t_cap (strk s)) (spec_init t) ops obs with
          | Some q, Some s => list_eqb Z.eqb (contents q) final && list_eqb Z.eqb (items s) final
          | _, _ => false
          end
      end
  | CHist _ cfg h order =>
      match cfg_tracker cfg with None => false | Some t => hist_ok t h order end
  end.

Definition mismatches (cs : list case) : list Z :=
  map case_id (filter (fun c => negb (check_case c)) cs).
