(* Correspondence for C20: a case is a schedule of harness-level actions together with what the driver
   observed on the real pubsub.Queue / pubsub.Deque after each of them; the model re-runs the schedule. *)
From FunV Require Import Base.Tac Model.QueueCursor Model.DequeCursor.
From FunV Require Export Model.QueueCursor Model.DequeCursor.

Inductive case :=
| CQ (id : Z) (steps : list (qact * ob))
| CD (id : Z) (vars : list variant) (steps : list (dact * ob)).

Definition optZ_eqb (a b : option Z) : bool :=
  match a, b with Some x, Some y => Z.eqb x y | None, None => true | _, _ => false end.

Definition res_eqb (a b : res) : bool :=
  match a, b with
  | RYield x, RYield y => Z.eqb x y
  | REOF, REOF | RClosed, RClosed | RCtx, RCtx | RPanic, RPanic | RWindow, RWindow
  | RParked, RParked | RNothing, RNothing | RHung, RHung => true
  | _, _ => false
  end.

Definition ob_eqb (a b : ob) : bool :=
  match a, b with
  | ObAdd x, ObAdd y => Bool.eqb x y
  | ObRem x, ObRem y => optZ_eqb x y
  | ObUnit, ObUnit => true
  | ObIt x, ObIt y => res_eqb x y
  | ObLen x, ObLen y => Z.eqb x y
  | _, _ => false
  end.

Fixpoint list_eqb {A} (eqb : A -> A -> bool) (a b : list A) : bool :=
  match a, b with
  | [], [] => true
  | x :: a', y :: b' => eqb x y && list_eqb eqb a' b'
  | _, _ => false
  end.

Definition case_id (c : case) : Z := match c with CQ id _ => id | CD id _ _ => id end.

Definition check_case (c : case) : bool :=
  match c with
  | CQ _ steps => list_eqb ob_eqb (qrun s0 (map fst steps)) (map snd steps)
  | CD _ vars steps => list_eqb ob_eqb (dqrun (ds0 vars) (map fst steps)) (map snd steps)
  end.

Definition mismatches (cs : list case) : list Z :=
  map case_id (filter (fun c => negb (check_case c)) cs).
