(* Correspondence for C14: cases carry what the real fun.WaitGroup did; the model is re-run here. *)
From FunV Require Import Base.Tac Conc.Monitor Model.WaitGroupModel.
Open Scope Z_scope.

Inductive case :=
(* sequential differential: operations and the observation made after each *)
| CSeq (id : Z) (ops : list wg_op) (obs : list wg_res) (obs_final : Z)
(* one group reused over several rounds; per round: the arguments of every Add issued (initial Add first, then worker
   by worker), the number of waiters with a live 10 s context, the counter afterwards, how many of them returned
   with a live context *)
| CRounds (id : Z) (rounds : list (list Z * Z * Z * Z))
(* cancellation: counter held at k > 0; ncancel waiters whose context is cancelled, nlong waiters with a live context;
   observed: how many cancelled waiters returned, how many long waiters returned while the counter was positive *)
| CCancel (id : Z) (k : Z) (ncancel nlong : Z) (obs_cancel_returned obs_long_returned : Z)
(* Launch / DoTimes / Operation.Add: n goroutines started through the group; observed: counter right after the
   launches (all goroutines gated), whether Wait returned before the gate opened, counter after Wait returned *)
| CLaunch (id : Z) (n : Z) (obs_after_launch : Z) (obs_wait_early : bool) (obs_final : Z)
(* DoTimes / StartGroup / loops of Launch / Operation.Add with ANY count n (negative, zero, positive) on a group on
   which k launched workers are still running (gated): did the call panic, the counter right after it, whether a Wait
   with a live context returned while all workers were still gated, the counter after everything was released *)
| CDoTimes (id : Z) (k : Z) (n : Z) (obs_panic : bool) (obs_after : Z) (obs_wait_early : bool) (obs_final : Z)
(* n goroutines launched with a launch context that is live / has ended, whose bodies end by return / recovered panic /
   runtime.Goexit: how many bodies ran, whether a Wait with a LIVE 10 s context returned, the counter afterwards *)
| CLaunchX (id : Z) (n : Z) (ctx_live : bool) (e : exit_kind) (obs_ran : Z) (obs_wait_returned : bool) (obs_final : Z)
(* `rounds` rounds of: Add(1); one goroutine calls Wait (live 10 s context) at the same moment as another calls Done *)
| CEdge (id : Z) (rounds : Z) (obs_released : Z) (obs_final : Z).

Definition res_eqb (a b : wg_res) : bool :=
  match a, b with
  | RUnit, RUnit | RPanic, RPanic | RReturned, RReturned | RBlocked, RBlocked => true
  | RNum x, RNum y => Z.eqb x y
  | RBool x, RBool y => Bool.eqb x y
  | _, _ => false
  end.

Fixpoint list_eqb {A} (eqb : A -> A -> bool) (a b : list A) : bool :=
  match a, b with
  | [], [] => true
  | x :: a', y :: b' => eqb x y && list_eqb eqb a' b'
  | _, _ => false
  end.

Definition case_id (c : case) : Z :=
  match c with CSeq id _ _ _ => id | CRounds id _ => id | CCancel id _ _ _ _ _ => id | CLaunch id _ _ _ _ => id | CDoTimes id _ _ _ _ _ _ => id | CLaunchX id _ _ _ _ _ _ => id | CEdge id _ _ _ => id end.

Definition check_case (c : case) : bool :=
  match c with
  | CSeq _ ops obs fin =>
      let '(c', rs) := wg_run 0 ops in list_eqb res_eqb rs obs && Z.eqb c' fin
  | CRounds _ rounds =>
      forallb (fun rd =>
        let '(deltas, nwait, fin, released) := rd in
        let '(c', rs) := wg_run 0 (map WAdd deltas) in      (* every round starts from zero *)
        Z.eqb c' fin
        && forallb (fun r => res_eqb r RUnit) rs            (* none of them panicked *)
        && (if c' =? 0 then Z.eqb released nwait            (* wait_released_at_zero: every waiter *)
            else Z.eqb released 0)) rounds                  (* wait_returns_only_if_zero_or_ctx *)
  | CCancel _ k ncancel nlong cret lret =>
      (* cancelled waiters return (RCancelled); waiters with a live context stay: Blocked in try-form *)
      Z.eqb cret ncancel
      && (match snd (wg_step k WWait) with RBlocked => Z.eqb lret 0 | _ => Z.eqb lret nlong end)
  | CLaunch _ n after early fin =>
      let c1 := launch_counter (Z.to_nat n) 0 in
      Z.eqb after c1
      && Bool.eqb early (match snd (wg_step c1 WWait) with RReturned => true | _ => false end)
      && Z.eqb fin 0
  | CDoTimes _ k n pan after early fin =>
      let c1 := launch_counter (Z.to_nat k) 0 in
      let c2 := dotimes_counter n c1 in
      negb pan
      && Z.eqb after c2
      && Bool.eqb early (match snd (wg_step c2 WWait) with RReturned => true | _ => false end)
      && Z.eqb fin 0
  | CLaunchX _ n live e ran returned fin =>
      let '(c1, r) := launch_all_roundtrip (Z.to_nat n) live e 0 in
      Z.eqb ran r && Z.eqb fin c1
      && Bool.eqb returned (match snd (wg_step c1 WWait) with RReturned => true | _ => false end)
  | CEdge _ rounds released fin =>
      (* every round: Add 1 then Done, in either order with the Wait: the counter ends at zero and the waiter is released *)
      let '(c1, _) := wg_run 0 [WAdd 1; WDone] in
      Z.eqb fin c1 && (if c1 =? 0 then Z.eqb released rounds else true)
  end.

Definition mismatches (cs : list case) : list Z :=
  map case_id (filter (fun c => negb (check_case c)) cs).
