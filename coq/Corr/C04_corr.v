(* Correspondence for C04 (outcome level): a case carries what was observed on the real construct
   for (construct, n, workers, cap, cut point k, stop mode): how many library goroutines were still
   alive after the stop, whether the consumer got stuck, whether a finite input ended in EOF.
   The model network of the same construct is driven through the same scenario (take k items,
   perform the stop actions, run to quiescence) and must produce the same outcome class: in
   particular leak = 0 everywhere except in the starter-abandoned case of Split, where the model's
   refutation case applies and both sides must show exactly one goroutine. *)
From FunV Require Import Base.Tac Model.Pipelines.

Inductive case := C04Case (id construct n workers cap k mode variant : Z) (leak : Z) (stuck eof : bool).

Definition case_id (c : case) : Z := match c with C04Case id _ _ _ _ _ _ _ _ _ _ => id end.

Definition input_of (n : nat) : list Z := map Z.of_nat (seq 0 n).

Definition chunk (l : list Z) (w i : nat) : list Z :=
  let n := length l in
  let lo := (i * n) / w in let hi := ((i + 1) * n) / w in
  firstn (hi - lo) (skipn lo l).

(* GenerateParallel: variant = 10 * options + behaviour of the generator after its n values
   (behaviour 2 = fails for ever, 3 = panics for ever, both ignoring the context; options 1 = ContinueOnError,
   2 = ContinueOnPanic, 3 = both). The failure is retried for ever (GSkip) when the options say so,
   otherwise it aborts the run (GFail); every other generator just ends (GEof). *)
Definition gend_of (variant : Z) : gend :=
  let o := (variant / 10)%Z in let b := (variant mod 10)%Z in
  if (Z.eqb b 2 && (Z.eqb o 1 || Z.eqb o 3)) || (Z.eqb b 3 && (Z.eqb o 2 || Z.eqb o 3)) then GSkip
  else if Z.eqb b 2 || Z.eqb b 3 then GFail else GEof.

Definition model_of (construct mode variant : Z) (w cap : nat) (input : list Z) : option (net * state) :=
  let is k := Z.eqb construct k in
  if is 1%Z then Some (split_net w, split_init w input)
  else if is 2%Z then Some (pp_net w, pp_init w input)
  else if is 3%Z then Some (map_net w, map_init w input)
  else if is 4%Z then Some (pbuf_net w, pbuf_init w input)
  else if is 5%Z then Some (buffer_net, buffer_init cap input)
  else if is 6%Z then Some (fanin_net w (fun j => j), fanin_init w 0 (map (chunk input w) (seq 0 w)))
  else if is 7%Z then Some (gen_net w (gend_of variant), gen_init w input)
  else if is 9%Z || is 10%Z || is 11%Z || is 13%Z || is 14%Z then Some (pump_net, pump_init input)
  else if is 12%Z then (if Z.eqb mode 9 then Some (range_net, range_init cap input) else Some (chan_net, chan_init cap input))
  else None.

(* the stop actions of a mode; for Split the outputs are goroutines 3.., output j has context 3+j *)
Definition stops (construct : Z) (w : nat) (mode variant : Z) : list label :=
  let split := Z.eqb construct 1 in
  let closes := if split then map (fun j => LClose (3 + j)) (seq 0 w) else [LClose 1] in
  let m k := Z.eqb mode k in
  if m 1%Z || m 5%Z then closes
  else if m 2%Z || m 6%Z then [LCancel 0]
  else if m 3%Z then closes ++ [LCancel 0]
  else if m 10%Z then (if split then [LClose 3] else closes)   (* a downstream stage failed: ReadOne's doClose - the same cancellation as Close *)
  else if m 11%Z then (let st := (variant mod 10)%Z in
                       if Z.eqb st 1 then closes else if Z.eqb st 2 then [LCancel 0] else closes ++ [LCancel 0])
  else if m 7%Z || m 8%Z then [LClose 3]       (* Split: output 0 (goroutine 3, context 3) is closed / its context cancelled *)
  else if m 9%Z then [LCancel 1]               (* the context the channel was built with *)
  else if m 4%Z then
    let ab := if Z.eqb variant 0 then 0 else w - 1 in
    LAbandon (3 + ab) :: map (fun j => LClose (3 + j)) (filter (fun j => negb (j =? ab)) (seq 0 w))
  else [].

(* the driver reads Split's outputs one after the other (output t mod w takes item t): during the
   take-k phase only the splitter (1) and the output whose turn it is are scheduled *)
Definition labels_of (allowed : list pid) : list label :=
  map (fun p => LStep p false) allowed ++ flat_map (fun p => map (fun q => LRdv p q) allowed) allowed.

Fixpoint run_only (N : net) (fuel : nat) (allowed : list pid) (target : nat) (s : state) : state :=
  match fuel with
  | O => s
  | S f => if target <=? length (s_deliv s) then s
           else match first_enabled N s (labels_of allowed) with
                | Some s' => run_only N f allowed target s'
                | None => s
                end
  end.

Fixpoint seq_take (N : net) (fuel w k t : nat) (s : state) : state :=
  match k with
  | O => s
  | S k' => seq_take N fuel w k' (S t) (run_only N fuel [1; 3 + (t mod w)] (S t) s)
  end.

Record outcome := mkOutcome { o_leak : nat; o_stuck : bool; o_eof : bool }.

Definition model_outcome (construct : Z) (n w cap k : nat) (mode variant : Z) (rot : nat) : option outcome :=
  (* a source that blocks after its n items (modes 5, 6) keeps the pump in a ctx-guarded wait; here that
     is a pump that still has items and blocks in its ctx-guarded send *)
  let blocked := Z.eqb mode 5 || Z.eqb mode 6 in
  let input := input_of (if blocked && negb (Z.eqb construct 7 && negb (Z.eqb (variant mod 10) 0)) then n + 3 else n) in
  match model_of construct mode variant w cap input with
  | None => None
  | Some (N, s0) =>
      let fuel := 60 * (n + w + 6) + 200 in
      let s := if Z.eqb mode 0 || Z.eqb mode 12 then run N fuel rot false None s0
               else if Z.eqb construct 1 && (Z.eqb mode 7 || Z.eqb mode 8 || Z.eqb mode 10)
                    then (* Split, one consumer per output: output 0 alone takes k items (it starts the splitter), is stopped,
                            and then everybody runs: the other consumers read until their output ends *)
                         run N fuel (rot + 7) false None (apply N (stops construct w mode variant) (run_only N fuel [1; 3] k s0))
               else if Z.eqb construct 1
                    then (* Split: sequential consumers; output 0 (goroutine 3) is advanced first and starts the splitter *)
                         run N fuel (rot + 7) false None (apply N (stops construct w mode variant) (seq_take N fuel w k 0 s0))
                    else scenario N s0 fuel rot false (Some k) (stops construct w mode variant) in
      Some (mkOutcome (leaks N s) (negb (stuck_users N s =? 0))
                      ((leaks N s =? 0) && (stuck_users N s =? 0) && (length (s_deliv s) =? n) && quiescentb N s))
  end.

Definition check_case (c : case) : bool :=
  match c with
  | C04Case id construct n workers cap k mode variant leak stuck eof =>
      match model_outcome construct (Z.to_nat n) (Z.to_nat workers) (Z.to_nat cap) (Z.to_nat k) mode variant (Z.to_nat id mod 5) with
      | None => false
      | Some o =>
          (Z.of_nat (o_leak o) =? leak)%Z && Bool.eqb (o_stuck o) stuck
          && (if Z.eqb mode 0 || Z.eqb mode 12 then Bool.eqb (o_eof o) eof && eof else true)
      end
  end.

Definition mismatches (cs : list case) : list Z :=
  map case_id (filter (fun c => negb (check_case c)) cs).
