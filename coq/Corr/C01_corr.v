(* Correspondence for C01 (outcome level - the property is schedule dependent, so what is compared
   is the CLASS of outcome the model allows, not one trace):
   a case carries what the real construct delivered for (construct, workers, cap, input);
   - by C01_complete a finished, un-aborted run must deliver a permutation of the input
     (the input itself when the order is fixed: Buffer, one worker);
   - the model network of the same construct is run on the same input under a schedule derived
     from the case id and must itself finish with everything delivered and nothing dropped. *)
From Coq Require Import FMapPositive.
From FunV Require Import Base.Tac Model.Pipelines.

(* C01Shared: [stages] fan-out stages drained ONE channel-backed iterator of n distinct values; what is
   carried is how many values nobody got / extra deliveries / values outside the input (the volume cases
   have 10^5 values and more: the multiset comparison itself is done by the driver) *)
Inductive case :=
| C01Case (id construct workers cap : Z) (input delivered : list Z) (ok : bool)
| C01Shared (id stages kind workers n lost dup invented : Z) (ok : bool).

Definition case_id (c : case) : Z := match c with C01Case id _ _ _ _ _ _ => id | C01Shared id _ _ _ _ _ _ _ _ => id end.

Fixpoint countZ (x : Z) (l : list Z) : nat :=
  match l with [] => 0 | y :: r => (if Z.eqb x y then 1 else 0) + countZ x r end.

(* multiset equality through a count map (O(n log n): the volume cases carry 2000 items) *)
Definition zkey (x : Z) : positive := if (x <? 0)%Z then xO (Z.to_pos (- x)) else xI (Z.to_pos (x + 1)).
Definition counts (l : list Z) : PositiveMap.t nat :=
  fold_left (fun m x => let k := zkey x in PositiveMap.add k (S (match PositiveMap.find k m with Some c => c | None => 0 end)) m) l (PositiveMap.empty nat).
Definition cnt_in (m : PositiveMap.t nat) (x : Z) : nat := match PositiveMap.find (zkey x) m with Some c => c | None => 0 end.
Definition permb (a b : list Z) : bool :=
  let ma := counts a in let mb := counts b in
  (length a =? length b) && forallb (fun x => cnt_in ma x =? cnt_in mb x) a.

Fixpoint list_eqb (a b : list Z) : bool :=
  match a, b with
  | [], [] => true
  | x :: a', y :: b' => Z.eqb x y && list_eqb a' b'
  | _, _ => false
  end.

(* contiguous chunk i of w (as the driver deals the input to MergeIterators' sources) *)
Definition chunk (l : list Z) (w i : nat) : list Z :=
  let n := length l in
  let lo := (i * n) / w in let hi := ((i + 1) * n) / w in
  firstn (hi - lo) (skipn lo l).

Definition model_of (construct : Z) (w cap : nat) (input : list Z) : option (net * state) :=
  let is k := Z.eqb construct k in
  if is 1%Z then Some (split_net w, split_init w input)
  else if is 2%Z || is 15%Z || is 16%Z then Some (pp_net w, pp_init w input)
  else if is 3%Z then Some (map_net w, map_init w input)
  else if is 4%Z then Some (pbuf_net w, pbuf_init w input)
  else if is 5%Z then Some (buffer_net, buffer_init cap input)
  else if is 6%Z then Some (fanin_net w (fun j => j), fanin_init w 0 (map (chunk input w) (seq 0 w)))
  else if is 7%Z then Some (gen_net w GEof, gen_init w input)     (* ends with io.EOF, bare or wrapped *)
  else if is 17%Z then Some (gen_net w GFail, gen_init w input)   (* ends with a real error: aborted *)
  else if is 8%Z then Some (readone_net w, readone_init w cap input)
  else None.

Definition ordered (construct : Z) (w : nat) : bool := (construct =? 5)%Z || (w =? 1).

(* the model's own run on this case: finishes, nothing dropped, nothing left, right multiset/order *)
Definition model_ok (construct : Z) (w cap : nat) (input : list Z) (rot : nat) : bool :=
  match model_of construct w cap input with
  | None => false
  | Some (N, s0) =>
      let s := run N (40 * (length input + w + 4) + 100) rot false None s0 in
      quiescentb N s && (leaks N s =? 0) && (stuck_users N s =? 0)
      && match s_drop s with [] => true | _ => false end
      && permb (s_deliv s) input
      && (if ordered construct w then list_eqb (s_deliv s) input else true)
  end.

(* every element of a occurs in b at least as often: nothing invented, nothing duplicated *)
Definition subb (a b : list Z) : bool := forallb (fun x => countZ x a <=? countZ x b) a.

(* GenerateParallel whose generator fails (construct 17): the run is aborted - the failure cancels the
   worker group and values in flight may be dropped. The model's run must still end with nothing
   running, and what it delivered + dropped + left in the input / the pipe is the input *)
Definition abort_ok (w : nat) (input : list Z) (rot : nat) : bool :=
  let N := gen_net w GFail in
  let s := run N (40 * (length input + w + 4) + 100) rot false None (gen_init w input) in
  quiescentb N s && (leaks N s =? 0) && (stuck_users N s =? 0)
  && permb (s_deliv s ++ s_drop s ++ concat (s_srcs s) ++ concat (map c_buf (s_chans s))) input.

(* the model of "several stages read one concurrency-safe input": every stage's read of the input is ONE
   atomic ReadOne, i.e. the stages are [stages] concurrent ReadOne callers on the channel-backed iterator
   (readone_net); run on a small instance it must deliver everything, dropping nothing *)
Definition shared_ok (stages n : nat) (rot : nat) : bool :=
  let input := map Z.of_nat (seq 0 (Nat.min n 12)) in
  let N := readone_net stages in
  let s := run N (60 * (length input + stages + 4) + 100) rot false None (readone_init stages 2 input) in
  quiescentb N s && (stuck_users N s =? 0) && match s_drop s with [] => true | _ => false end && permb (s_deliv s) input.

Definition check_case (c : case) : bool :=
  match c with
  | C01Shared id stages kind workers n lost dup invented ok =>
      ok && Z.eqb lost 0 && Z.eqb dup 0 && Z.eqb invented 0 && shared_ok (Z.to_nat stages) (Z.to_nat n) (Z.to_nat id mod 5)
  | C01Case id construct workers cap input delivered ok =>
      let w := Z.to_nat workers in
      if Z.eqb construct 17 then ok && subb delivered input && abort_ok w input (Z.to_nat id mod 5) else
      ok && permb delivered input
      && (if ordered construct w then list_eqb delivered input else true)
      && (if length input <=? 64 then model_ok construct w (Z.to_nat cap) input (Z.to_nat id mod 5) else true)
  end.

Definition mismatches (cs : list case) : list Z :=
  map case_id (filter (fun c => negb (check_case c)) cs).
