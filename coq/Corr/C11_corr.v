(* Correspondence for C11: a case carries the configuration, the outcome of every
   service / job / cleanup function, and the event log recorded by the Go driver on the
   real srv.Orchestrator / Group / WorkerPool / HandlerWorkerPool / Cleanup.  The log is
   replayed through the model's executable acceptor (Model/OrchestratorModel.v). *)
From FunV Require Import Base.Tac Model.OrchestratorModel.

Inductive case :=
| COrch (id : Z) (ocs : list outcome) (log : list Orch.ev)
| CGroup (id : Z) (n : nat) (ocs : list outcome) (log : list Grp.ev)
| CPool (id : Z) (cf : Pool.conf) (ocs : list outcome) (log : list Pool.ev)
| CCleanup (id : Z) (ocs : list outcome) (log : list Cln.ev).

Definition oc_of (ocs : list outcome) : nat -> outcome := fun i => nth i ocs Ok.

Definition case_id (c : case) : Z :=
  match c with COrch id _ _ | CGroup id _ _ _ | CPool id _ _ _ | CCleanup id _ _ => id end.

Definition check_case (c : case) : bool :=
  match c with
  | COrch _ ocs log => Orch.accepts (oc_of ocs) log
  | CGroup _ n ocs log => Grp.accepts n (oc_of ocs) log
  | CPool _ cf ocs log => Pool.accepts cf (oc_of ocs) log
  | CCleanup _ ocs log => Cln.accepts (oc_of ocs) log
  end.

Definition mismatches (cs : list case) : list Z :=
  map case_id (filter (fun c => negb (check_case c)) cs).
