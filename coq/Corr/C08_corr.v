(* C08 correspondence: see Broker_corr.v (shared with C09). *)
From FunV Require Export Base.Tac Model.BrokerModel Corr.Broker_corr.
Definition case := bcase.
