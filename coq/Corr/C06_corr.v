(* Correspondence for C06: cases carry what the real pubsub.Deque did; the model is re-run here.

   CSeq: a sequential operation sequence (blocking operations in try-form) with, per step, the
         result and Len() observed on the implementation, then the contents seen by the forward
         and the reverse iterator, then a drain alternating PopFront/PopBack.
   CLin: a recorded concurrent history together with the linearization found by the Go search:
         operations in linearization order with their observed results and their invocation /
         response stamps.  Checked here: the sequence is a legal sequential execution of the model
         (and of the abstract specification) producing exactly the observed results, and the order
         respects real time (no operation is placed after one that was invoked after it returned). *)
From FunV Require Import Base.Tac Model.DequeHeap.
From Coq Require Import PrimFloat.
Local Open Scope Z_scope.

Inductive case :=
| CSeq (id : Z) (o : dopts) (newok : bool) (ops : list op) (obs : list (res * Z))
       (fwd bwd : list Z) (drain : list op) (dobs : list (res * Z))
| CLin (id : Z) (o : dopts) (lin : list (op * res * (Z * Z))).

Definition case_id (c : case) : Z :=
  match c with CSeq id _ _ _ _ _ _ _ _ => id | CLin id _ _ => id end.

Definition optZ_eqb (a b : option Z) : bool :=
  match a, b with Some x, Some y => Z.eqb x y | None, None => true | _, _ => false end.

Definition res_eqb (a b : res) : bool :=
  match a, b with
  | RErr x, RErr y => err_eqb x y
  | RPop x, RPop y => optZ_eqb x y
  | RGot x, RGot y => Z.eqb x y
  | RLen x, RLen y => Z.eqb x y
  | RBlocked, RBlocked => true
  | _, _ => false
  end.

Fixpoint list_eqb {A} (eqb : A -> A -> bool) (a b : list A) : bool :=
  match a, b with
  | [], [] => true
  | x :: a', y :: b' => eqb x y && list_eqb eqb a' b'
  | _, _ => false
  end.

Definition obs_eqb (a b : res * Z) : bool := res_eqb (fst a) (fst b) && Z.eqb (snd a) (snd b).

(* results and Len after every step *)
Fixpoint run_obs (d : deque) (ops : list op) : deque * list (res * Z) :=
  match ops with
  | [] => (d, [])
  | o :: ops' => let '(d1, r) := step d o in
                 let '(d2, rs) := run_obs d1 ops' in (d2, (r, t_len (trk d1)) :: rs)
  end.

Fixpoint s_run_obs (s : spec) (ops : list op) : spec * list (res * Z) :=
  match ops with
  | [] => (s, [])
  | o :: ops' => let '(s1, r) := s_step s o in
                 let '(s2, rs) := s_run_obs s1 ops' in (s2, (r, Z.of_nat (length (items s1))) :: rs)
  end.

(* real-time order: every operation's response stamp is later than the invocation stamp of every
   operation placed before it *)
Fixpoint rt_ok (maxinv : Z) (l : list (op * res * (Z * Z))) : bool :=
  match l with
  | [] => true
  | (_, (inv, ret)) :: l' => (maxinv <? ret) && rt_ok (Z.max maxinv inv) l'
  end.

Definition check_case (c : case) : bool :=
  match c with
  | CSeq _ o newok ops obs fwd bwd drain dobs =>
      match new_deque o with
      | None => negb newok
      | Some d0 =>
          newok &&
          let '(d1, r1) := run_obs d0 ops in
          let '(d2, r2) := run_obs d1 drain in
          let s0 := spec_of_tracker (trk d0) in
          let '(s1, q1) := s_run_obs s0 ops in
          let '(s2, q2) := s_run_obs s1 drain in
          list_eqb obs_eqb r1 obs && list_eqb Z.eqb (contents d1) fwd && list_eqb Z.eqb (contents_bwd d1) bwd
          && list_eqb obs_eqb r2 dobs
          && list_eqb obs_eqb q1 obs && list_eqb Z.eqb (items s1) fwd && list_eqb Z.eqb (rev (items s1)) bwd
          && list_eqb obs_eqb q2 dobs
      end
  | CLin _ o lin =>
      match new_deque o with
      | None => false
      | Some d0 =>
          let ops := map (fun x => fst (fst x)) lin in
          let rs := map (fun x => snd (fst x)) lin in
          list_eqb res_eqb (snd (run d0 ops)) rs
          && list_eqb res_eqb (snd (s_run (spec_of_tracker (trk d0)) ops)) rs
          && rt_ok (-1) lin
      end
  end.

Definition mismatches (cs : list case) : list Z :=
  map case_id (filter (fun c => negb (check_case c)) cs).
