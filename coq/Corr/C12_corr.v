(* Correspondence for C12: a case is a program (finite tree of API applications) together with what the Go
   driver observed when it ran that program on the real ers/erc code; the model is re-run here. *)
From FunV Require Import Base.Tac Model.ErrTree.
Local Open Scope Z_scope.

Record obs := mkObs {
  o_rid : Z;                        (* registry identity of the result; -1 for nil (nil-ness and pointer identity) *)
  o_ok : bool;                      (* ers.Ok(result) *)
  o_unwind : list Z;                (* ers.Unwind(result) as identities *)
  o_sunwind : option (list Z);      (* Stack.Unwind() of the result when it is a Stack pointer *)
  o_is : list (err * bool);         (* errors.Is(result, t) for every leaf t of the universe *)
  o_as : list (askind * Z);         (* errors.As(result, &target of that type): identity found, -1 if none *)
  o_len : Z;                        (* Collector.Len() / Stack.Len() of the top-level object, -1 otherwise *)
  o_vlen : Z                        (* Len() of the result when it is a Stack pointer (0 for an inner layer), -1 otherwise *)
}.

Inductive case := CTree (id : Z) (x : expr) (o : obs).

Definition case_id (c : case) : Z := match c with CTree id _ _ => id end.

Fixpoint list_eqb {A} (eqb : A -> A -> bool) (a b : list A) : bool :=
  match a, b with
  | [], [] => true
  | x :: a', y :: b' => eqb x y && list_eqb eqb a' b'
  | _, _ => false
  end.

Definition top_len (x : expr) : Z :=
  match x with
  | XCollect _ xs => coll_len (coll_adds coll_zero (map eval xs))
  | XStack _ xs => stack_len (stack_add stack_zero (map eval xs))
  | XStackPush _ xs => stack_len (fold_left (fun s v => push v s) (map eval xs) stack_zero)
  | XConsume _ cancelled adds pre items kinds =>
      coll_len (consume (coll_adds coll_zero (map eval adds)) (map eval pre) (combine kinds (map eval items)) cancelled)
  | _ => -1
  end.

Definition model_sunwind (v : err) : option (list Z) :=
  match v with Stk _ _ es => Some (map eid (chain_unwind es)) | _ => None end.

Definition check_case (c : case) : bool :=
  match c with
  | CTree _ x o =>
      let v := eval x in
      (eid v =? o_rid o)
      && Bool.eqb (ok v) (o_ok o)
      && list_eqb Z.eqb (map eid (unwind v)) (o_unwind o)
      && match model_sunwind v, o_sunwind o with
         | Some a, Some b => list_eqb Z.eqb a b
         | None, None => true
         | _, _ => false
         end
      && forallb (fun p => Bool.eqb (go_is v (fst p)) (snd p)) (o_is o)
      && forallb (fun p => match go_as v (fst p) with Some f => eid f | None => -1 end =? snd p) (o_as o)
      && (top_len x =? o_len o)
      && (value_len v =? o_vlen o)
  end.

Definition mismatches (cs : list case) : list Z :=
  map case_id (filter (fun c => negb (check_case c)) cs).
