(* Correspondence for C08/C09: a case carries the broker configuration, a schedule of model events
   synthesised by the driver from what it observed on the real broker (event-loop order from the
   tapped distributor, control events placed at handshake points, per-subscriber delivery logs), the
   delivery logs themselves, and how the run ended.  The model is the judge: the schedule must be
   accepted step by step by `step`, must reproduce exactly the observed logs, and must end in an idle
   (live) or fully shut down (stopped) state; for lossless runs without in-flight unsubscribes every
   message the model says is owed to a subscriber must be in its observed log. *)
From FunV Require Import Base.Tac Model.BrokerModel.

Record bcase := mkCase {
  cid : Z;
  ccfg : cfg;
  cev : list event;
  cobs : list (sid * list msg);
  cstopped : bool;   (* the broker was stopped / cancelled before the end of the run *)
  cfull : bool       (* lossless configuration, no Unsubscribe with messages in flight *)
}.

Fixpoint nat_list_eqb (a b : list nat) : bool :=
  match a, b with
  | [], [] => true
  | x :: a', y :: b' => Nat.eqb x y && nat_list_eqb a' b'
  | _, _ => false
  end.

Definition idle_state (c : cfg) (st : state) : bool :=
  live st && is_nil (dist st) && is_nil (subq st) && is_nil (unsubq st)
  && match loop st with LIdle => true | _ => false end
  && forallb (fun w => match wk st w with WIdle | WParked => true | _ => false end) (seq 0 (nw c)).

Definition owed_ok (st : state) (obs : list (sid * list msg)) : bool :=
  forallb (fun p => memb (fst p) (unsubcalled st) || subset (owed st (fst p)) (rcv st (fst p))) obs.

Definition check_case (b : bcase) : bool :=
  match run (ccfg b) wake_exact init (cev b) with
  | None => false
  | Some st =>
      forallb (fun p => nat_list_eqb (rcv st (fst p)) (snd p)) (cobs b)
      && (if cstopped b then all_done (ccfg b) st else idle_state (ccfg b) st)
      && (if cfull b then owed_ok st (cobs b) else true)
  end.

Definition accepts_case (b : bcase) : bool := accepts (ccfg b) wake_exact (cev b).

Definition mismatches (cs : list bcase) : list Z :=
  map cid (filter (fun b => negb (check_case b)) cs).
