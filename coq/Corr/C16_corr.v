(* Correspondence for C16 (dt.List): a case carries an operation sequence over the two lists 0 and 1,
   with element arguments given as indexes into the handle table (every element ever returned, in
   order of first appearance), and the observations the Go driver made on the real dt.List after
   every step.  [mismatches] re-runs the model (Model/ListHeap.v) and compares. *)
From FunV Require Import Base.Tac Model.SortSpec Model.ListHeap.
Local Open Scope Z_scope.

(* handle arguments: H i = the i-th element of the handle table, NIL = nil *)
Definition H (i : nat) : ref := Some i.
Definition NIL : ref := None.

Definition lookup (t : list nat) (r : ref) : ref :=
  match r with None => None | Some i => nth_error t i end.

Definition resolve (t : list nat) (o : op) : op :=
  match o with
  | ONext e => ONext (lookup t e)
  | OPrev e => OPrev (lookup t e)
  | OAppend e n => OAppend (lookup t e) (lookup t n)
  | ORemove e => ORemove (lookup t e)
  | ODrop e => ODrop (lookup t e)
  | OSwap e x => OSwap (lookup t e) (lookup t x)
  | OSet e v => OSet (lookup t e) v
  | _ => o
  end.

Fixpoint index_from (n : nat) (t : list nat) (i : Z) : option Z :=
  match t with
  | [] => None
  | m :: t' => if Nat.eqb m n then Some i else index_from n t' (i + 1)
  end.
Definition index_of (n : nat) (t : list nat) : option Z := index_from n t 0.

Definition zlen {A} (l : list A) : Z := Z.of_nat (List.length l).

(* a returned element enters the table on first appearance *)
Definition intern (t : list nat) (r : ref) : list nat * Z :=
  match r with
  | None => (t, -1)
  | Some n => match index_of n t with Some i => (t, i) | None => (t ++ [n], zlen t) end
  end.

Definition b2z (b : bool) : Z := if b then 1 else 0.
Definition lp (vs : list Z) : list Z := zlen vs :: vs.   (* length-prefixed *)

Definition enc_out (t : list nat) (r : out) : list nat * list Z :=
  match r with
  | RUnit => (t, [])
  | RElem e => let '(t', i) := intern t e in (t', [i])
  | RBool b => (t, [b2z b])
  | RVals vs => (t, lp vs)
  | RCopy n f b => (t, n :: lp f ++ lp b)
  end.

Definition enc_ref (t : list nat) (r : ref) : Z :=
  match r with None => -1 | Some n => match index_of n t with Some i => i | None => -2 end end.

Definition enc_owner (o : option nat) : Z :=
  match o with None => -1 | Some 0%nat => 0 | Some 1%nat => 1 | Some _ => 2 end.

Definition obs_handle (w : world) (t : list nat) (n : nat) : list Z :=
  let x := nodes w n in
  [enc_owner (nowner x); b2z (nok x); nitem x; enc_ref t (nnext x); enc_ref t (nprev x)].

Definition obs_list (w : world) (l : nat) (slice_safe : bool) : list Z :=
  match lroot (lists w l) with
  | None => [llen (lists w l); 0]
  | Some _ =>
      [llen (lists w l); 1] ++ lp (fwd_vals w l) ++ lp (bwd_vals w l) ++
      (if slice_safe then match SliceL l w with Ret vs _ => 1 :: lp vs | _ => [2] end else [0])
  end.

Definition observe (w : world) (t : list nat) (slice_safe : bool) : list Z :=
  obs_list w 0 slice_safe ++ obs_list w 1 slice_safe ++ zlen t :: flat_map (obs_handle w t) t.

(* final codes: 0 = all ops ran; 1 = panic at the step after the last observation;
   2 = ended by a successful Swap (known finding #1: later library loops may not terminate);
   3 = the model ran out of fuel (never matches an implementation run) *)
Fixpoint run (ops : list op) (w : world) (t : list nat) : list (list Z) * Z :=
  match ops with
  | [] => ([], 0)
  | o :: ops' =>
      let o' := resolve t o in
      let sw := negb (avoids_swap w o') in
      match step o' w with
      | Ret r w' =>
          let '(t', enc) := enc_out t r in
          let ob := enc ++ observe w' t' (negb sw) in
          if sw then ([ob], 2)
          else let '(obs, fin) := run ops' w' t' in (ob :: obs, fin)
      | Panic => ([], 1)
      | Hang => ([], 3)
      end
  end.

Inductive case := mkCase (id : Z) (ops : list op) (obs : list (list Z)) (fin : Z).

Fixpoint list_eqb {A} (eqb : A -> A -> bool) (a b : list A) : bool :=
  match a, b with
  | [], [] => true
  | x :: a', y :: b' => eqb x y && list_eqb eqb a' b'
  | _, _ => false
  end.

Definition case_id (c : case) : Z := match c with mkCase id _ _ _ => id end.

Definition check_case (c : case) : bool :=
  match c with
  | mkCase _ ops obs fin =>
      let '(mo, mf) := run ops empty_world [] in
      list_eqb (list_eqb Z.eqb) mo obs && Z.eqb mf fin
  end.

Definition mismatches (cs : list case) : list Z :=
  map case_id (filter (fun c => negb (check_case c)) cs).

(* for replays / debugging: what the model observes *)
Definition model_obs (c : case) : list (list Z) * Z :=
  match c with mkCase _ ops _ _ => run ops empty_world [] end.
