(* Correspondence for C17: cases carry the implementation's observations; the model is re-run here. *)
From FunV Require Import Base.Tac Model.SortSpec Model.ListHeap.

Inductive case :=
| CIsSorted (id : Z) (ltk : Z) (l : list Z) (obs : bool)
| CHeap (id : Z) (ltk : Z) (ops : list hop) (obs_pops : list (option Z)) (obs_final : list Z)
(* SortMerge (alg 0) / SortQuick (alg 1), +2 = applied twice, on the pointer-level model, followed by the
   handle-identity observations and the usability probe [probe];
   obs = |fwd| fwd |bwd| bwd Len allIn ++ (value, In) of every pre-sort handle ++ Remove through two handles ++ probe *)
| CSort (id : Z) (alg ltk : Z) (l : list Z) (obs : list Z)
(* a heap built by the real NewHeapFromIterator from an iterator that completed / failed / was cancelled:
   [consumed] = the prefix of the source the returned heap holds; then push/pop ops; then a drain *)
| CHeapIter (id : Z) (ltk : Z) (consumed : list Z) (ops : list hop) (obs_pops : list (option Z)) (obs_final : list Z).

Definition optZ_eqb (a b : option Z) : bool :=
  match a, b with Some x, Some y => Z.eqb x y | None, None => true | _, _ => false end.

Fixpoint list_eqb {A} (eqb : A -> A -> bool) (a b : list A) : bool :=
  match a, b with
  | [], [] => true
  | x :: a', y :: b' => eqb x y && list_eqb eqb a' b'
  | _, _ => false
  end.

Definition case_id (c : case) : Z :=
  match c with CIsSorted id _ _ _ => id | CHeap id _ _ _ _ => id | CSort id _ _ _ _ => id | CHeapIter id _ _ _ _ _ => id end.

Definition zlp (vs : list Z) : list Z := Z.of_nat (List.length vs) :: vs.

Fixpoint push_all (l : list Z) : M unit :=
  match l with [] => ret tt | v :: l' => bind (PushBack 0 v) (fun _ => push_all l') end.

(* is the element owned by list 0 (Element.In(l)) *)
Definition in0 (e : ref) : M Z :=
  match e with
  | Some n => get (fun w => if ref_eqb (nowner (nodes w n)) (Some 0%nat) then 1 else 0)%Z
  | None => ret 0%Z
  end.
Definition b2z (b : bool) : Z := if b then 1%Z else 0%Z.
Definition walks0 : M (list Z) := get (fun w => zlp (fwd_vals w 0) ++ zlp (bwd_vals w 0)).
Definition len0 : M Z := get (fun w => llen (lists w 0)).

Fixpoint drain_front (fuel : nat) (acc : list Z) : M (list Z) :=
  match fuel with
  | O => ret (rev acc)
  | S f => bind (PopFront 0) (fun e => bind (OkE e) (fun k =>
             if k then bind (Value e) (fun v => drain_front f (v :: acc)) else ret (rev acc)))
  end.

(* the usability probe run after every sort: pushes at both ends (PushFront goes through the sentinel),
   pops at both ends, a complete drain, pushes into the drained list, a final pop *)
Definition probe (n : nat) : M (list Z) :=
  bind (PushFront 0 88) (fun _ => bind (get (fun w => zlp (fwd_vals w 0))) (fun f1 => bind len0 (fun n1 =>
  bind (Front 0) (fun fr => bind (in0 fr) (fun i1 => bind (Value fr) (fun v1 =>
  bind (PushBack 0 77) (fun _ => bind (get (fun w => zlp (fwd_vals w 0))) (fun f2 => bind len0 (fun n2 =>
  bind (Back 0) (fun bk => bind (in0 bk) (fun i2 => bind (Value bk) (fun v2 =>
  bind (PopFront 0) (fun e3 => bind (OkE e3) (fun k3 => bind (Value e3) (fun v3 => bind (in0 e3) (fun i3 => bind len0 (fun n3 =>
  bind (PopBack 0) (fun e4 => bind (OkE e4) (fun k4 => bind (Value e4) (fun v4 => bind (in0 e4) (fun i4 => bind len0 (fun n4 =>
  bind (drain_front (n + 4) []) (fun dr => bind len0 (fun n5 =>
  bind (PushBack 0 55) (fun _ => bind (PushFront 0 44) (fun _ => bind walks0 (fun w6 => bind len0 (fun n6 =>
  bind (Front 0) (fun fr6 => bind (in0 fr6) (fun i6 => bind (Back 0) (fun bk6 => bind (in0 bk6) (fun j6 =>
  bind (PopFront 0) (fun e7 => bind (OkE e7) (fun k7 => bind (Value e7) (fun v7 => bind len0 (fun n7 =>
  ret (f1 ++ [n1; i1; v1] ++ f2 ++ [n2; i2; v2] ++ [b2z k3; v3; i3; n3] ++ [b2z k4; v4; i4; n4] ++
       zlp dr ++ [n5] ++ w6 ++ [n6; i6; j6] ++ [b2z k7; v7; n7])%Z
  )))))))))))))))))))))))))))))))))))).

(* handles kept across the sort: the i-th pushed element is node i+1 (node 0 is the sentinel) *)
Definition handle_obs (n : nat) : M (list Z) :=
  get (fun w => flat_map (fun k => [nitem (nodes w k); if ref_eqb (nowner (nodes w k)) (Some 0%nat) then 1 else 0]%Z) (seq 1 n)).

Fixpoint remove_handles (ks : list nat) : M (list Z) :=
  match ks with
  | [] => ret []
  | k :: ks' => bind (Remove (Some k)) (fun b => bind (get (fun w => zlp (fwd_vals w 0))) (fun f =>
                bind (remove_handles ks') (fun r => ret (b2z b :: f ++ r))))
  end.

Definition picks (n : nat) : list nat :=
  match n with O => [] | S O => [1%nat] | _ => [1%nat; S (n / 2)] end.

(* alg: 0 SortMerge, 1 SortQuick, +2 = the sort is applied twice *)
Definition sort_obs (alg ltk : Z) (l : list Z) : option (list Z) :=
  let once := if Z.eqb (alg mod 2) 0 then SortMerge (lt_of ltk) 0%nat else SortQuick (lt_of ltk) 0%nat in
  let sort := if Z.ltb alg 2 then once else bind once (fun _ => once) in
  match bind (push_all l) (fun _ => sort) empty_world with
  | Ret _ w =>
      let f := fwd_nodes w 0 in
      let o1 := zlp (fwd_vals w 0) ++ zlp (bwd_vals w 0) ++
                [llen (lists w 0); if forallb (fun n => ref_eqb (nowner (nodes w n)) (Some 0%nat)) f then 1 else 0]%Z in
      let n := List.length l in
      match bind (handle_obs n) (fun h => bind (remove_handles (picks n)) (fun r => bind (probe n) (fun p => ret (h ++ r ++ p)))) w with
      | Ret o2 _ => Some (o1 ++ o2)
      | _ => None
      end
  | _ => None
  end.

Definition check_case (c : case) : bool :=
  match c with
  | CIsSorted _ k l obs => Bool.eqb (is_sorted (lt_of k) l) obs
  | CHeap _ k ops pops fin =>
      let '(p, f) := heap_run (lt_of k) [] ops in
      list_eqb optZ_eqb p pops && list_eqb Z.eqb f fin
  | CSort _ alg k l obs =>
      match sort_obs alg k l with Some o => list_eqb Z.eqb o obs | None => false end
  | CHeapIter _ k consumed ops pops fin =>
      let '(p, f) := heap_run (lt_of k) (heap_from_list (lt_of k) consumed) ops in
      list_eqb optZ_eqb p pops && list_eqb Z.eqb f fin
  end.

Definition mismatches (cs : list case) : list Z :=
  map case_id (filter (fun c => negb (check_case c)) cs).
