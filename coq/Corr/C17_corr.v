(* Correspondence for C17: cases carry the implementation's observations; the model is re-run here. *)
From FunV Require Import Base.Tac Model.SortSpec.

Inductive case :=
| CIsSorted (id : Z) (ltk : Z) (l : list Z) (obs : bool)
| CHeap (id : Z) (ltk : Z) (ops : list hop) (obs_pops : list (option Z)) (obs_final : list Z).

Definition optZ_eqb (a b : option Z) : bool :=
  match a, b with Some x, Some y => Z.eqb x y | None, None => true | _, _ => false end.

Fixpoint list_eqb {A} (eqb : A -> A -> bool) (a b : list A) : bool :=
  match a, b with
  | [], [] => true
  | x :: a', y :: b' => eqb x y && list_eqb eqb a' b'
  | _, _ => false
  end.

Definition case_id (c : case) : Z := match c with CIsSorted id _ _ _ => id | CHeap id _ _ _ _ => id end.

Definition check_case (c : case) : bool :=
  match c with
  | CIsSorted _ k l obs => Bool.eqb (is_sorted (lt_of k) l) obs
  | CHeap _ k ops pops fin =>
      let '(p, f) := heap_run (lt_of k) [] ops in
      list_eqb optZ_eqb p pops && list_eqb Z.eqb f fin
  end.

Definition mismatches (cs : list case) : list Z :=
  map case_id (filter (fun c => negb (check_case c)) cs).
