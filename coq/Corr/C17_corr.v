(* Correspondence for C17: cases carry the implementation's observations; the model is re-run here. *)
From FunV Require Import Base.Tac Model.SortSpec Model.ListHeap.

Inductive case :=
| CIsSorted (id : Z) (ltk : Z) (l : list Z) (obs : bool)
| CHeap (id : Z) (ltk : Z) (ops : list hop) (obs_pops : list (option Z)) (obs_final : list Z)
(* SortMerge (alg 0) / SortQuick (alg 1) on the pointer-level model, followed by PopFront and PushBack 77;
   obs = |fwd| fwd |bwd| bwd Len allIn  popOk popValue  |fwd'| fwd' |bwd'| bwd' Len' *)
| CSort (id : Z) (alg ltk : Z) (l : list Z) (obs : list Z).

Definition optZ_eqb (a b : option Z) : bool :=
  match a, b with Some x, Some y => Z.eqb x y | None, None => true | _, _ => false end.

Fixpoint list_eqb {A} (eqb : A -> A -> bool) (a b : list A) : bool :=
  match a, b with
  | [], [] => true
  | x :: a', y :: b' => eqb x y && list_eqb eqb a' b'
  | _, _ => false
  end.

Definition case_id (c : case) : Z :=
  match c with CIsSorted id _ _ _ => id | CHeap id _ _ _ _ => id | CSort id _ _ _ _ => id end.

Definition zlp (vs : list Z) : list Z := Z.of_nat (List.length vs) :: vs.

Fixpoint push_all (l : list Z) : M unit :=
  match l with [] => ret tt | v :: l' => bind (PushBack 0 v) (fun _ => push_all l') end.

Definition sort_obs (alg ltk : Z) (l : list Z) : option (list Z) :=
  let sort := if Z.eqb alg 0 then SortMerge (lt_of ltk) 0%nat else SortQuick (lt_of ltk) 0%nat in
  match bind (push_all l) (fun _ => sort) empty_world with
  | Ret _ w =>
      let f := fwd_nodes w 0 in
      let o1 := zlp (fwd_vals w 0) ++ zlp (bwd_vals w 0) ++
                [llen (lists w 0); if forallb (fun n => ref_eqb (nowner (nodes w n)) (Some 0%nat)) f then 1 else 0]%Z in
      match PopFront 0%nat w with
      | Ret e w1 =>
          match bind (OkE e) (fun k => bind (Value e) (fun v => bind (PushBack 0 77) (fun _ => ret (k, v)))) w1 with
          | Ret (k, v) w2 =>
              Some (o1 ++ [if k then 1 else 0; v]%Z ++ zlp (fwd_vals w2 0) ++ zlp (bwd_vals w2 0) ++ [llen (lists w2 0)])
          | _ => None
          end
      | _ => None
      end
  | _ => None
  end.

Definition check_case (c : case) : bool :=
  match c with
  | CIsSorted _ k l obs => Bool.eqb (is_sorted (lt_of k) l) obs
  | CHeap _ k ops pops fin =>
      let '(p, f) := heap_run (lt_of k) [] ops in
      list_eqb optZ_eqb p pops && list_eqb Z.eqb f fin
  | CSort _ alg k l obs =>
      match sort_obs alg k l with Some o => list_eqb Z.eqb o obs | None => false end
  end.

Definition mismatches (cs : list case) : list Z :=
  map case_id (filter (fun c => negb (check_case c)) cs).
