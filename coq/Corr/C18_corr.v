(* Correspondence for C18: cases carry the operations (with the oracle choices the driver observed)
   and the implementation's observations; the model is re-run here under vm_compute. *)
From FunV Require Import Base.Tac Model.SetModel.
Local Open Scope Z_scope.

Inductive case :=
| CSeq (id : Z) (steps : list (op * obs))     (* sequential: result, Len, drained iterator after every step *)
| CLin (id : Z) (steps : list (op * res)).    (* witness linearization of a recorded concurrent history: results only *)

Fixpoint list_eqb {A} (eqb : A -> A -> bool) (a b : list A) : bool :=
  match a, b with
  | [], [] => true
  | x :: a', y :: b' => eqb x y && list_eqb eqb a' b'
  | _, _ => false
  end.

Definition res_eqb (a b : res) : bool :=
  match a, b with
  | RUnit, RUnit => true
  | RBool x, RBool y => Bool.eqb x y
  | RLen x, RLen y => Z.eqb x y
  | RSeq x, RSeq y => list_eqb Z.eqb x y
  | RPanic, RPanic => true
  | _, _ => false                      (* RBad never equals anything: a rejected oracle choice is a mismatch *)
  end.

Definition obs_eqb (a b : obs) : bool :=
  let '(r1, n1, l1) := a in
  let '(r2, n2, l2) := b in
  res_eqb r1 r2 && Z.eqb n1 n2 && list_eqb Z.eqb l1 l2.

Definition case_id (c : case) : Z := match c with CSeq id _ => id | CLin id _ => id end.

Definition check_case (c : case) : bool :=
  match c with
  | CSeq _ steps => list_eqb obs_eqb (run tbl0 (map fst steps)) (map snd steps)
  | CLin _ steps => list_eqb res_eqb (map (fun o : obs => fst (fst o)) (run tbl0 (map fst steps))) (map snd steps)
  end.

Definition mismatches (cs : list case) : list Z :=
  map case_id (filter (fun c => negb (check_case c)) cs).

(* sanity: finding #6's witness on the repaired model *)
Example force_ordered_delete :
  check_case (CSeq 0 [ (OAdd 0 3, (RUnit, 1, [3])); (OAdd 0 1, (RUnit, 2, [1; 3])); (OAdd 0 2, (RUnit, 3, [1; 2; 3]));
                       (OSortQuick 0 0 [3; 1; 2], (RUnit, 3, [1; 2; 3]));
                       (ODelete 0 2, (RUnit, 2, [1; 3])); (OCheck 0 2, (RBool false, 2, [1; 3])) ]) = true.
Proof. vm_compute. reflexivity. Qed.
