(* Correspondence for C15: cases carry what the harness observed on the real wrappers of /repo;
   the models are re-run here.
   CSeq : a wrapper tree over scripted functions, the number of top-level calls, whether the
          constructors returned (Limit panics unless n > 0), the visible result of every call and
          the order log.  Errors are compared as sorted lists of leaf codes (ers.Join's internal
          order is C12's subject).
   CConc: the stamped event trace of one concurrent run, replayed through the executable step
          function of the corresponding transition system of Model/LaunchNet.v. *)
From FunV Require Import Base.Tac Model.Wrappers Model.LaunchNet.
Local Open Scope Z_scope.

Inductive net := NOnce | NAdtOnce | NLimit | NLock | NSignal | NSend | NGroup.

Inductive case :=
| CSeq (id : Z) (f : fn) (calls : nat) (constructed : bool) (obs : list result) (log : list (Z * Z))
| CConc (id : Z) (what : net) (param : Z) (serialised : bool) (evs : list cev).

Definition case_id (c : case) : Z := match c with CSeq id _ _ _ _ _ => id | CConc id _ _ _ _ => id end.

Fixpoint list_eqb {A} (eqb : A -> A -> bool) (a b : list A) : bool :=
  match a, b with
  | [], [] => true
  | x :: a', y :: b' => eqb x y && list_eqb eqb a' b'
  | _, _ => false
  end.

Fixpoint insert (x : Z) (l : list Z) : list Z :=
  match l with
  | [] => [x]
  | y :: l' => if x <=? y then x :: l else y :: insert x l'
  end.
Definition sort_codes (e : err) : list Z := fold_right insert [] (map leaf_code e).

Definition result_eqb (a b : result) : bool :=
  match a, b with
  | Ret v e, Ret v' e' => (v =? v') && list_eqb Z.eqb (sort_codes e) (sort_codes e')
  | Pan p, Pan q => p =? q
  | _, _ => false
  end.

Definition ev_eqb (a b : Z * Z) : bool := (fst a =? fst b) && (snd a =? snd b).

Definition check_case (c : case) : bool :=
  match c with
  | CSeq _ f calls constructed obs log =>
      if valid f then
        constructed &&
        (let '(rs, lg) := observe f calls in
         list_eqb result_eqb rs obs && list_eqb ev_eqb lg log)
      else negb constructed
  | CConc _ what param serialised evs =>
      match what with
      | NOnce => acc_once evs
      | NAdtOnce => acc_adt (0 <? param) evs      (* param: 1 = the callers use Resolve, 0 = Do *)
      | NLimit => if serialised then acc_limit param evs else acc_climit param evs
      | NLock => acc_lock evs
      | NSignal => acc_signal evs
      | NSend => acc_send evs
      | NGroup => acc_group (Z.to_nat param) evs
      end
  end.

Definition mismatches (cs : list case) : list Z :=
  map case_id (filter (fun c => negb (check_case c)) cs).
