(* Correspondence for C03: every case carries what the REAL code did; the model is re-run here. *)
From FunV Require Import Base.Tac Model.WorkerConf Model.WorkerGroup Model.WorkerNet.
Open Scope Z_scope.

Record fault := mkfault { f_pos : Z; f_kind : errkind; f_id : errid; f_tagged : bool }.

Inductive case :=
(* ers.ParsePanic(v): nil-ness and errors.Is-profile over reserved ++ [0;1;2;3] *)
| CParse (id : Z) (pv : option panicval) (obs : list bool)
(* one cell of the table: conf x kind, through the real WithRecover wrapper and the real
   WorkerGroupConf.CanContinueOnError with a recording ErrorHandler.
   obs_profile: nil? :: errors.Is-profile (reserved ++ [eid]) of the error WithRecover produced;
   obs_record: the handler was called (exactly once, with that error); obs_continue: the returned bool *)
| CTable (id : Z) (c : conf) (k : errkind) (eid : errid) (tagged : bool)
         (obs_profile : list bool) (obs_record obs_continue : bool)
(* end to end through ProcessParallel / ParallelForEach / Worker (construct 0), Map (1), Generate (2) *)
| CE2E (id : Z) (construct : Z) (custom_collector : bool) (c : conf) (workers : Z) (n : Z) (faults : list fault)
       (obs_nil : bool)            (* returned error / Close() error is nil *)
       (obs_found : list bool)     (* per fault: its own sentinel (or panic message) is found in the result *)
       (obs_flags : list bool)     (* errors.Is(result, s) for s in reserved *)
       (obs_processed : Z)         (* number of distinct items the user function was invoked on *)
       (obs_once : bool)           (* no item was invoked twice *)
       (obs_prefix : bool)         (* the invoked items are exactly 0..processed-1 *)
       (obs_crash : bool)          (* the call itself panicked *)
       (obs_outputs : list Z).     (* Map / Generate: the values the output iterator yielded, sorted *)

Definition case_id (x : case) : Z :=
  match x with CParse id _ _ => id | CTable id _ _ _ _ _ _ _ => id | CE2E id _ _ _ _ _ _ _ _ _ _ _ _ _ _ => id end.

Definition reserved : list errid := [id_panic; id_skip; id_eof; id_canceled; id_deadline; id_abort].

Definition profile (extra : list errid) (oe : option err) : list bool :=
  match oe with
  | None => true :: map (fun _ => false) (reserved ++ extra)
  | Some e => false :: map (is e) (reserved ++ extra)
  end.

Fixpoint bools_eqb (a b : list bool) : bool :=
  match a, b with
  | [], [] => true
  | x :: a', y :: b' => Bool.eqb x y && bools_eqb a' b'
  | _, _ => false
  end.

(* ---- end-to-end reference *)
Definition fn_of (fs : list fault) (x : Z) : outcome :=
  match find (fun ft => Z.eqb (f_pos ft) x) fs with
  | Some ft => outcome_of (f_kind ft) (f_id ft) (f_tagged ft)
  | None => ORet None
  end.

Definition dec_of (c : conf) (ft : fault) : decision := classify c (f_kind ft) (f_id ft) (f_tagged ft).

(* can the harness recognise this fault in the result? (own sentinel, or the panic's message) *)
Definition identifiable (ft : fault) : bool :=
  carries_id (f_kind ft) (f_tagged ft) ||
  match f_kind ft with PanicStr | PanicOther => true | _ => false end.

Definition fault_err (ft : fault) : err :=
  match err_of (f_kind ft) (f_id ft) (f_tagged ft) with Some e => e | None => [] end.

Definition input_of (n : Z) : list Z := map Z.of_nat (seq 0 (Z.to_nat n)).

Definition implb (a b : bool) : bool := negb a || b.

Fixpoint zlist_eqb (a b : list Z) : bool :=
  match a, b with
  | [], [] => true
  | x :: a', y :: b' => Z.eqb x y && zlist_eqb a' b'
  | _, _ => false
  end.

(* One worker: replay the case through the refined network of its construct (Model/WorkerNet.v:
   Process / Map with the unbuffered output channel / Generate with its 2N+1 buffer) along the
   canonical one-worker schedule; the run must exist, must terminate, and must agree with the
   sequential reference seq_run (C03_single_worker_deterministic). *)
Definition replay1 (construct : Z) (c : conf) (fs : list fault) (n : Z) : option (list (Z * err) * list Z * list Z) :=
  let gen := construct =? 2 in
  let has_out := negb (construct =? 0) in
  let cap := if gen then 3%nat else 0%nat in
  let f := fn_of fs in
  match WorkerNet.exec_all c gen has_out cap f (WorkerNet.init gen 1 (input_of n)) (seq_sched c gen has_out cap f (input_of n)) with
  | Some s =>
      let '(r, p) := seq_run c f (input_of n) in
      if WorkerNet.terminated s && negb (WorkerNet.crashed s) && zlist_eqb (WorkerNet.proc s) p
         && zlist_eqb (map fst (WorkerNet.res s)) (map fst r)
      then Some (WorkerNet.res s, WorkerNet.proc s, WorkerNet.delivered s) else None
  | None => None
  end.

Definition check_e2e (construct : Z) (c : conf) (workers n : Z) (fs : list fault)
           (o_nil : bool) (o_found o_flags : list bool) (o_proc : Z) (o_once o_prefix o_crash : bool) (o_outs : list Z) : bool :=
  if negb (Nat.eqb (length o_found) (length fs)) then false else
  if workers =? 1 then
    (* one worker: everything is determined *)
    match replay1 construct c fs n with None => false | Some (r, p, dl) =>
    (if construct =? 0 then true else zlist_eqb o_outs dl) &&
    let was_rec ft := existsb (fun xe => Z.eqb (fst xe) (f_pos ft)) r in
    Bool.eqb o_nil (match r with [] => true | _ => false end)
    && bools_eqb o_found (map (fun ft => identifiable ft && was_rec ft) fs)
    && bools_eqb o_flags (map (fun t => existsb (fun xe => is (snd xe) t) r) reserved)
    && (o_proc =? Z.of_nat (length p)) && o_once && o_prefix && negb o_crash
    end
  else
    (* several workers: only what every schedule agrees on.  Items start in input order, so the first
       fault that cannot continue (position p1) and everything before it is always processed. *)
    let stops := filter (fun ft => negb (continue (dec_of c ft))) fs in
    let allc := match stops with [] => true | _ => false end in
    let p1 := fold_right Z.min n (map f_pos stops) in
    let lower ft := record (dec_of c ft) && (f_pos ft <=? p1) in
    let upper ft := record (dec_of c ft) in
    forallb (fun '(ft, fnd) => implb (lower ft && identifiable ft) fnd && implb fnd (upper ft && identifiable ft)) (combine fs o_found)
    && implb o_nil (negb (existsb lower fs)) && implb (negb o_nil) (existsb upper fs)
    && forallb (fun '(t, fl) => implb (existsb (fun ft => lower ft && is (fault_err ft) t) fs) fl
                                && implb fl (existsb (fun ft => upper ft && is (fault_err ft) t) fs))
               (combine reserved o_flags)
    && (if allc then o_proc =? n else (p1 + 1 <=? o_proc) && (o_proc <=? n))
    (* continue mode (net_continue_mode_complete): the outputs are exactly the items that succeeded *)
    && (if allc && negb (construct =? 0) then zlist_eqb o_outs (filter (WorkerNet.succ (fn_of fs)) (input_of n)) else true)
    && o_once && negb o_crash.

Definition check_case (x : case) : bool :=
  match x with
  | CParse _ pv obs => bools_eqb obs (profile [0; 1; 2; 3] (parse_panic pv))
  | CTable _ c k eid tagged o_prof o_rec o_cont =>
      let oe := err_of k eid tagged in
      let d := can_continue c oe in
      bools_eqb o_prof (profile [eid] oe) && Bool.eqb o_rec (record d) && Bool.eqb o_cont (continue d)
  | CE2E _ k _ c w n fs o_nil o_found o_flags o_proc o_once o_prefix o_crash o_outs =>
      check_e2e k c w n fs o_nil o_found o_flags o_proc o_once o_prefix o_crash o_outs
  end.

Definition mismatches (cs : list case) : list Z :=
  map case_id (filter (fun x => negb (check_case x)) cs).
