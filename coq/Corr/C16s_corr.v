(* Correspondence for the dt.Stack half of C16: a case carries the operation list and, for every
   step, what the real dt.Stack returned and showed afterwards; the model is re-run here. *)
From FunV Require Import Base.Tac Model.StackHeap.
Local Open Scope Z_scope.

Inductive case := Case (id : Z) (eager : bool) (ops : list op) (obs : list stepobs).

Fixpoint list_eqb {A} (eqb : A -> A -> bool) (a b : list A) : bool :=
  match a, b with
  | [], [] => true
  | x :: a', y :: b' => eqb x y && list_eqb eqb a' b'
  | _, _ => false
  end.

Definition ret_eqb (a b : ret) : bool :=
  match a, b with
  | RUnit, RUnit => true
  | RBool x, RBool y => Bool.eqb x y
  | RZ x, RZ y => Z.eqb x y
  | RItem x, RItem y => Z.eqb x y
  | RList x, RList y => list_eqb Z.eqb x y
  | RStack x, RStack y => Z.eqb x y
  | RPanic, RPanic => true
  | RHang, RHang => true
  | _, _ => false
  end.

Definition sobs_eqb (a b : sobs) : bool :=
  list_eqb Z.eqb (o_walk a) (o_walk b) && list_eqb Z.eqb (o_iter a) (o_iter b) && Z.eqb (o_len a) (o_len b).

Definition zz_eqb (a b : Z * Z) : bool := Z.eqb (fst a) (fst b) && Z.eqb (snd a) (snd b).

Definition stepobs_eqb (a b : stepobs) : bool :=
  match a, b with
  | SObs r1 s1 h1, SObs r2 s2 h2 => ret_eqb r1 r2 && list_eqb sobs_eqb s1 s2 && list_eqb zz_eqb h1 h2
  end.

Definition case_id (c : case) : Z := match c with Case id _ _ _ => id end.

Definition check_case (c : case) : bool :=
  match c with Case _ eager ops obs => list_eqb stepobs_eqb (run eager init_sess ops) obs end.

Definition mismatches (cs : list case) : list Z :=
  map case_id (filter (fun c => negb (check_case c)) cs).

(* abbreviations used by the generated case files *)
Notation S3 := mkSobs (only parsing).
