(* Correspondence for C02: a case carries an operator tree (with its finite tables), a terminal
   consumer, and what the REAL fun.Iterator pipeline did; the operational model is re-run here. *)
From FunV Require Import Base.Tac Model.IterAlgebra.

Inductive case := Case (id : Z) (t : tree) (tm : terminal) (o : obs).

Definition case_id (c : case) : Z := match c with Case id _ _ _ => id end.

Definition out_eqb (a b : out) : bool :=
  match a, b with
  | OVal x, OVal y => Z.eqb x y
  | OSkip, OSkip | OEof, OEof | OAbort, OAbort | OCtx, OCtx => true
  | OErr x, OErr y => Z.eqb x y
  | _, _ => false
  end.

Fixpoint list_eqb {A} (eqb : A -> A -> bool) (a b : list A) : bool :=
  match a, b with
  | [], [] => true
  | x :: a', y :: b' => eqb x y && list_eqb eqb a' b'
  | _, _ => false
  end.

Definition incl_b (a b : list Z) : bool := forallb (fun x => existsb (Z.eqb x) b) a.
Definition set_eqb (a b : list Z) : bool := incl_b a b && incl_b b a.

(* values, end kind, post-end reads and results are compared exactly; error collections as sets of ids
   (the driver observes them with errors.Is against its sentinel errors) *)
Definition obs_eqb (m i : obs) : bool :=
  list_eqb Z.eqb (o_vals m) (o_vals i) && out_eqb (o_fin m) (o_fin i) &&
  list_eqb out_eqb (o_after m) (o_after i) && Z.eqb (o_res m) (o_res i) &&
  set_eqb (o_err m) (o_err i) && set_eqb (o_close m) (o_close i).

Definition model_obs (t : tree) (tm : terminal) : option obs := run (default_fuel t) tm (init t).

(* For TReadAll the denotation is evaluated as well (it must agree with the operational run). *)
Definition den_agrees (t : tree) (tm : terminal) (m : obs) : bool :=
  match tm with
  | TReadAll => list_eqb Z.eqb (o_vals m) (dvals t) && out_eqb (o_fin m) (dfin t) && set_eqb (o_close m) (derrs t)
  | _ => true
  end.

Definition check_case (c : case) : bool :=
  match c with
  | Case _ t tm o =>
      match model_obs t tm with
      | None => false                      (* out of fuel: reported as a disagreement *)
      | Some m => obs_eqb m o && den_agrees t tm m
      end
  end.

Definition mismatches (cs : list case) : list Z :=
  map case_id (filter (fun c => negb (check_case c)) cs).
