(* Correspondence for C19: a case is a histogram shape plus a script of calls; every call carries what the
   real dt/hdrhist code returned (observed by the Go driver).  [check_case] re-runs the model on the same
   script and compares.  Observations are flat lists of integers (booleans as 0/1) or a panic flag. *)
From FunV Require Import Base.Tac Model.Hdr.
From Coq Require Import PrimFloat SpecFloat FloatOps.
From Coq Require Uint63.
Local Open Scope Z_scope.

Inductive obs := OZ (l : list Z) | OPanic.

Inductive op :=
| ORecord (v n : Z)            (* RecordValues(v, n)                      -> [ok] *)
| OIndex (v : Z)               (* getBucketIndex, getSubBucketIdx, countsIndexFor -> [b; s; idx] *)
| OEquiv (v : Z)               (* lowest/highestEquivalentValue           -> [lo; hi] *)
| OTotal                       (* TotalCount                              -> [total] *)
| OQuant (m e : Z)             (* ValueAtQuantile(m * 2^e)                -> [rank the code computed; value] *)
| OMin                         (* Min                                     -> [v] *)
| OMax                         (* Max                                     -> [v] *)
| ORoundTrip                   (* i := Import(h.Export())                 -> [h.Equals(i); i.Equals(h); i.TotalCount] *)
| OMergeInto (lo hi sig : Z)   (* t := New(lo,hi,sig); d := t.Merge(h)    -> [d; t.TotalCount; t.Equals(h)] *)
| OReset.                      (* Reset                                   -> [] *)

Inductive wop :=
| WRecord (v : Z)              (* Current.RecordValue(v) -> [ok] *)
| WRotate                      (* Rotate()               -> [] *)
| WMerge.                      (* m := Merge()           -> [m.TotalCount; m.Min; m.Max] *)

(* calls on a store of several live histograms and snapshots (slot 0 = New(lo,hi,sig)) *)
Inductive mcall :=
| MCOp (o : mop)                 (* -> the op's own result: [ok] / [dropped] / [] *)
| MCQuery (i : nat) (m e : Z)    (* h[i]: TotalCount, rank and ValueAtQuantile(m*2^e), Min, Max -> [t; rank; v; min; max] *)
| MCEq (i j : nat).              (* h[i].Equals(h[j]) -> [b] *)

Inductive case :=
| CHist (id lo hi sig : Z) (geom : obs) (script : list (op * obs))
| CBitLen (id : Z) (xs : list Z) (out : list Z)
| CWin (id n lo hi sig : Z) (made : obs) (script : list (wop * obs))
| CMulti (id lo hi sig : Z) (script : list (mcall * obs)).

Definition case_id (c : case) : Z :=
  match c with CHist id _ _ _ _ _ => id | CBitLen id _ _ => id | CWin id _ _ _ _ _ _ => id | CMulti id _ _ _ _ => id end.

Fixpoint zlist_eqb (a b : list Z) : bool :=
  match a, b with
  | [], [] => true
  | x :: a', y :: b' => (x =? y) && zlist_eqb a' b'
  | _, _ => false
  end.

Definition obs_eqb (a b : obs) : bool :=
  match a, b with
  | OZ x, OZ y => zlist_eqb x y
  | OPanic, OPanic => true
  | _, _ => false
  end.

Definition b2z (b : bool) : Z := if b then 1 else 0.

Definition geom_obs (r : res hist) : obs :=
  match r with
  | Ok h => OZ [h_unit h; h_hcm h; h_shc h; h_mask h; h_sbc h; h_bc h; h_clen h; h_len h]
  | _ => OPanic
  end.

(* the model's observation of one call, and the next state *)
Definition run_op (h : hist) (o : op) : hist * obs :=
  match o with
  | ORecord v n => let '(h', ok) := record_values h v n in (h', OZ [b2z ok])
  | OIndex v => let b := get_bucket_index h v in
                (h, OZ [b; get_sub_bucket_idx h v b; counts_index_for h v])
  | OEquiv v => (h, match highest_equivalent_value h v with
                    | Some hv => OZ [lowest_equivalent_value h v; hv]
                    | None => OPanic
                    end)
  | OTotal => (h, OZ [total_count h])
  | OQuant m e =>
      let q := float_of_me m e in
      (h, match value_at_quantile h q with
          | Ok v => OZ [rank_of q (h_total h); v]
          | _ => OPanic
          end)
  | OMin => (h, match hist_min h with Ok v => OZ [v] | _ => OPanic end)
  | OMax => (h, match hist_max h with Ok v => OZ [v] | _ => OPanic end)
  | ORoundTrip =>
      (h, match import (export h) with
          | Ok i => match equals h i, equals i h with
                    | Ok a, Ok b => OZ [b2z a; b2z b; total_count i]
                    | _, _ => OPanic
                    end
          | _ => OPanic
          end)
  | OMergeInto lo hi sig =>
      (h, match new_hist lo hi sig with
          | Ok t => match merge t h with
                    | Ok (t', d) => match equals t' h with
                                    | Ok e => OZ [d; total_count t'; b2z e]
                                    | _ => OPanic
                                    end
                    | _ => OPanic
                    end
          | _ => OPanic
          end)
  | OReset => (reset h, OZ [])
  end.

Fixpoint run_script (h : hist) (s : list (op * obs)) : bool :=
  match s with
  | [] => true
  | (o, ob) :: s' => let '(h', mo) := run_op h o in obs_eqb mo ob && run_script h' s'
  end.

Definition run_wop (w : whist) (o : wop) : option whist * obs :=
  match o with
  | WRecord v => let '(w', ok) := w_record w v in (Some w', OZ [b2z ok])
  | WRotate => match w_rotate w with Ok w' => (Some w', OZ []) | _ => (None, OPanic) end
  | WMerge => match w_merge w with
              | Ok w' => (Some w', match hist_min (w_m w'), hist_max (w_m w') with
                                   | Ok a, Ok b => OZ [total_count (w_m w'); a; b]
                                   | _, _ => OPanic
                                   end)
              | _ => (None, OPanic)
              end
  end.

Fixpoint run_wscript (w : whist) (s : list (wop * obs)) : bool :=
  match s with
  | [] => true
  | (o, ob) :: s' =>
      match run_wop w o with
      | (Some w', mo) => obs_eqb mo ob && run_wscript w' s'
      | (None, mo) => obs_eqb mo ob && match s' with [] => true | _ => false end
      end
  end.

Definition query_obs (h : hist) (m e : Z) : obs :=
  let q := float_of_me m e in
  match value_at_quantile h q, hist_min h, hist_max h with
  | Ok v, Ok a, Ok b => OZ [total_count h; rank_of q (h_total h); v; a; b]
  | _, _, _ => OPanic
  end.

Definition run_mcall (lo hi sig : Z) (st : mstore) (c : mcall) : mstore * obs :=
  match c with
  | MCOp o => match mstep lo hi sig st o with
              | Ok (st', r) => (st', OZ r)
              | _ => (st, OPanic)
              end
  | MCQuery i m e => (st, match nth_error (ms_h st) i with Some h => query_obs h m e | None => OZ [] end)
  | MCEq i j => (st, match nth_error (ms_h st) i, nth_error (ms_h st) j with
                     | Some a, Some b => match equals a b with Ok r => OZ [b2z r] | _ => OPanic end
                     | _, _ => OZ []
                     end)
  end.

Fixpoint run_mscript (lo hi sig : Z) (st : mstore) (s : list (mcall * obs)) : bool :=
  match s with
  | [] => true
  | (c, ob) :: s' => let '(st', mo) := run_mcall lo hi sig st c in obs_eqb mo ob && run_mscript lo hi sig st' s'
  end.

Definition check_case (c : case) : bool :=
  match c with
  | CHist _ lo hi sig g script =>
      let r := new_hist lo hi sig in
      obs_eqb (geom_obs r) g &&
      match r with
      | Ok h => run_script h script
      | _ => match script with [] => true | _ => false end
      end
  | CBitLen _ xs out => zlist_eqb (map bitLen xs) out
  | CWin _ n lo hi sig made script =>
      match new_windowed n lo hi sig with
      | Ok w => obs_eqb (OZ [Z.of_nat (length (w_h w)); w_idx w]) made && run_wscript w script
      | _ => obs_eqb OPanic made && match script with [] => true | _ => false end
      end
  | CMulti _ lo hi sig script =>
      match new_hist lo hi sig with
      | Ok h => run_mscript lo hi sig (mkMS [h] []) script
      | _ => match script with [] => true | _ => false end
      end
  end.

Definition mismatches (cs : list case) : list Z :=
  map case_id (filter (fun c => negb (check_case c)) cs).
