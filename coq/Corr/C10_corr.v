(* Correspondence for C10: a case is the configuration (phase outcomes) and the call log recorded
   from the real srv.Service; the model must accept the log. *)
From FunV Require Import Base.Tac Model.ServiceModel Model.ServiceAccept.

Inductive case := MkCase (id : Z) (c : cfg) (log : list ev).

Definition case_id (c : case) : Z := match c with MkCase id _ _ => id end.

Definition check_case (c : case) : bool := match c with MkCase _ cf log => accepts cf log end.

Definition mismatches (cs : list case) : list Z :=
  map case_id (filter (fun c => negb (check_case c)) cs).
