(* C18 — dt.Set behaves as a mathematical set (optionally insertion-ordered).
   Property theorems only; each is closed by `exact` of a lemma proved in Proofs/SetModel_*.v.

   Model: Model/SetModel.v (code-level transcription of dt/set.go over a sequence-level element store).
   A table of sets `tbl`, operations `op` (Add AddCheck Delete DeleteCheck Check Len Populate Extend Order
   Synchronize SortQuick SortMerge Iterator Equal JSON-round-trip UnmarshalJSON New), `run` = the
   observations (result, Len, drained iterator) after every step. Reference: `rset` = duplicate-free list of
   members in first-insertion order + an `ordered` flag (Proofs/SetModel_inv.v), `rrun` its observations. *)
From FunV Require Import Conc.LockedObject.
From FunV Require Import Base.Tac Base.ListX Model.SetModel.
From FunV Require Import Proofs.SetModel_base Proofs.SetModel_inv Proofs.SetModel_ops Proofs.SetModel_refine Proofs.SetModel_sync.

(* SetInv: the hash is a proper map and, for an ordered set, hash keys and list elements are in bijection
   (each key maps to Some e, e attached, item e = key; handles and items duplicate-free).
   It is preserved by every operation on any table of sets, for every operation ... *)
Theorem C18_set_inv_preserved :
  forall (T : tbl) (o : op), (forall i : nat, SetInv (T i)) -> forall i : nat, SetInv (fst (step T o) i).
Proof. exact set_inv_step. Qed.
Print Assumptions C18_set_inv_preserved.

(* ... hence it holds of every set after every operation list from zero-value sets. *)
Theorem C18_set_inv_reachable : forall (ops : list op) (i : nat), SetInv (exec tbl0 ops i).
Proof. exact set_inv_reachable. Qed.
Print Assumptions C18_set_inv_reachable.

(* Refinement: over every operation list, each return value (AddCheck/DeleteCheck/Check/Len/Equal/Order's
   panic/...), Len and the iterator output agree with the reference set: equal results; the iterator of an
   ordered set is exactly the reference's first-insertion order (sorted order after a Sort, later additions
   at the end, re-adding a present value changes nothing), that of an unordered set is a permutation of the
   reference's members. *)
Theorem C18_refines : forall ops : list op, Forall2 obs_agree (run tbl0 ops) (rrun rtbl0 ltbl0 ops).
Proof. exact refines_from_empty. Qed.
Print Assumptions C18_refines.

(* The same from any related pair of tables (not only the empty one). *)
Theorem C18_refines_from :
  forall (ops : list op) (T : tbl) (R : rtbl) (L : ltbl),
    TR T R -> LK T L -> Forall2 obs_agree (run T ops) (rrun R L ops).
Proof. exact run_refines. Qed.
Print Assumptions C18_refines_from.

(* What the reference does on add / delete: a present value is left where it is; an absent one goes last. *)
Theorem C18_reference_add :
  forall (r : rset) (v : Z),
    (r_mem r v = true -> r_add r v = (r, true)) /\
    (r_mem r v = false -> r_add r v = (mkR (r_elems r ++ [v]) (r_ordered r), false)).
Proof. exact r_add_spec. Qed.
Print Assumptions C18_reference_add.

(* After a Sort with a strict weak order the reference (hence, by C18_refines, the set) is ordered, has no
   element that is lt its predecessor, and has the same members. *)
Theorem C18_sort_sorted :
  forall (lt : Z -> Z -> bool) (choice : list Z) (r r' : rset),
    strict_weak_order lt -> r_sort lt choice r = Some r' ->
    r_ordered r' = true /\ v_sorted lt (r_elems r') /\ Permutation (r_elems r') (r_elems r).
Proof. exact r_sort_sorted. Qed.
Print Assumptions C18_sort_sorted.

(* Equal is true exactly for sets of the same kind with the same members (and the same order when ordered). *)
Theorem C18_equal_iff :
  forall s o : set, SetInv s -> SetInv o ->
    (snd (equal s o) = true <->
     is_ordered s = is_ordered o /\
     (if is_ordered s then order_of s = order_of o else forall v, h_check (hm s) v = h_check (hm o) v)).
Proof. exact equal_iff_model. Qed.
Print Assumptions C18_equal_iff.

(* MarshalJSON then UnmarshalJSON into a fresh set of the same kind (decoded-sequence level): the result
   compares Equal, has the same members and, when ordered, the same order. `choice` is the order in which
   the map delivered the keys of an unordered set. *)
Theorem C18_json_roundtrip :
  forall (s : set) (choice : list Z) (s' : set) (vs : list Z),
    SetInv s -> iterate s choice = (s', Some vs) ->
    let t := populate (fresh_like s) vs in
    snd (equal s' t) = true /\ SetInv t /\ Permutation (members t) (members s) /\
    (is_ordered s = true -> order_of t = order_of s).
Proof. exact json_roundtrip_model. Qed.
Print Assumptions C18_json_roundtrip.

(* The mutex slot behind Synchronize()/WithLock() is write-once: no operation replaces an installed mutex
   (only New discards the set together with its mutex) ... *)
Theorem C18_mutex_write_once_step :
  forall (T : tbl) (o : op) (i : nat) (l : lockid),
    s_mtx (T i) = Some l -> (forall ord l', o <> OReset i ord l') -> s_mtx (fst (step T o) i) = Some l.
Proof. exact mutex_write_once_step. Qed.
Print Assumptions C18_mutex_write_once_step.

(* ... so after any operation list the lock every method takes is the FIRST mutex installed since the set
   was created (`lrun`/`lstep`/`first_wins`: later Synchronize()/WithLock() calls change nothing; WithLock's
   panic and the lock probe's answer are those of that reference, by C18_refines). *)
Theorem C18_mutex_write_once :
  forall (ops : list op) (i : nat), s_mtx (exec tbl0 ops i) = lrun ltbl0 ops i.
Proof. exact mutex_first_installed. Qed.
Print Assumptions C18_mutex_write_once.

(* Synchronized set = instance of Conc/LockedObject.v: for every trace of any number of goroutines calling
   Add/AddCheck/Delete/DeleteCheck/Check/Len/Order/Sort* and further Synchronize()/WithLock(), the calls ordered
   by their critical sections are a legal sequential execution with exactly the returned results, consistent
   with real time; that same sequence is an execution of the reference set ending in a state that abstracts
   the final set; and the premise's single lock is named: the mutex l installed at the start is still the
   installed mutex in every reachable state. *)
Theorem C18_sync :
  forall (init : set) (r0 : rset) (l : lockid) (tr : list (event sop)) (c : config set sop res),
    abs init r0 -> s_mtx init = Some l ->
    LockedObject.run set sop res init sseq never_blocked RBad tr = Some c ->
    linearization set sop res init sseq never_blocked RBad tr c /\
    (forall a b, In a (hist c) -> In b (lin c) -> (c_ret a < le_inv b)%nat -> precedes (c_entry a) b (lin c)) /\
    (exists r', legal rstate sop res rseq never_blocked RBad (r0, Some l) (lin c) (r', Some l) /\ abs (st c) r') /\
    s_mtx (st c) = Some l.
Proof. exact sync_linearizable. Qed.
Print Assumptions C18_sync.
