(* C07 — blocking queue/deque operations never miss a wake-up.  Property theorems only; each is closed by `exact` of a
   lemma proved in Proofs/QueueMonitor_proofs.v / Proofs/DequeMonitor_proofs.v on top of Conc/Monitor.v.

   Reading guide.  `queue_prog true prog` / `deque_prog prog`: thread t runs the operation prog t — ANY assignment of
   Queue (Deque) operations to unboundedly many threads.  `reach ... hl ok s`: s is reachable from the initial state
   by a schedule of the monitor's atomic steps (invoke, lock acquisition, critical section incl. its
   Signal/Broadcast calls with any choice of the signalled thread, decision to park, registration in cond.Wait,
   context end, helper broadcast, spurious wake-up) all of whose steps satisfy `ok`; `hl` says whether the per-wait
   helper goroutine broadcasts under the mutex.  `ctx_guard hl ok`: hl = true, or no context ends between a waiter's
   `select` and its registration inside cond.Wait (Monitor.v, no_ctx_race).  `true` in `queue_prog true` selects the
   code as repaired by fixes_pending/C20-nupdates-broadcast.diff (doAdd Broadcasts nupdates).
   THE CODE AS IT IS NOW (after fixes_pending/C07-helper-broadcast-locked.diff every helper goroutine is
   `<-ctx.Done(); mu.Lock(); cond.Broadcast(); mu.Unlock()`) is the instance hl = true, and for it the theorems below
   hold for EVERY schedule (`any_step`); the old shape (hl = false) is kept as refuted lemmas. *)
From FunV Require Import Base.Tac Conc.Monitor Model.QueueMonitor Model.DequeMonitor
                         Proofs.QueueMonitor_exec Proofs.QueueMonitor_proofs Proofs.DequeMonitor_proofs.

(* Queue consumers (Wait, Distributor.Receive) on nempty — Signal on 0->1 plus the exit-broadcast cascade: in every
   reachable state a consumer parked while the queue is non-empty or closed has a wake-up pending (a released helper
   that has yet to broadcast nempty, or a woken consumer that will release its helper when it leaves); at quiescence
   no consumer is parked unless the queue is empty and open.  Any number of consumers, any burst pattern, any
   schedule. *)
Theorem C07_queue_consumers : queue_consumers_stmt true true any_step.
Proof. exact (queue_consumers true true any_step (or_introl eq_refl)). Qed.
Print Assumptions C07_queue_consumers.

(* the same for either helper shape under Monitor.v's guard (locked helper, or no context ending inside the window) *)
Theorem C07_queue_consumers_guarded :
  forall hl ok, ctx_guard qdata hl ok -> queue_consumers_stmt true hl ok.
Proof. exact (queue_consumers true). Qed.
Print Assumptions C07_queue_consumers_guarded.

(* ... and the guard is needed: for the OLD helper shape (broadcast without the lock) a concrete schedule (the
   cancellation race) after which a consumer stays parked on a non-empty queue, nothing runnable, nothing pending. *)
Theorem C07_queue_consumers_unlocked_helper_refuted :
  ~ queue_consumers_stmt true false any_step.
Proof. exact (queue_consumers_needs_guard true). Qed.
Print Assumptions C07_queue_consumers_unlocked_helper_refuted.

(* Queue producers and iterators, ANY mix of them on the shared cond nupdates, any tracker (the predicate of
   BlockingAdd is the code's cap() > len(), cap() = soft quota): in EVERY reachable state of EVERY schedule a thread
   parked or about to park on nupdates has a false predicate — in particular at quiescence no BlockingAdd is parked
   while there is room and no iterator is parked while an unseen entry exists. *)
Theorem C07_queue_producers : queue_nupdates_stmt.
Proof. exact queue_nupdates. Qed.
Print Assumptions C07_queue_producers.

Theorem C07_nupdates_mixed : ~ starved_iterator true.
Proof. exact nupdates_broadcast_variant_ok. Qed.
Print Assumptions C07_nupdates_mixed.

(* the code BEFORE the repair (doAdd only Signals nupdates; DESIGN section 9 #20): quota tracker, an Add on burst
   credit while a BlockingAdd is parked, the single Signal wakes the producer, which re-parks; the iterator starves —
   a quiescent reachable state of a race-free run *)
Theorem C07_nupdates_mixed_refuted_before_fix : starved_iterator false.
Proof. exact nupdates_signal_variant_refuted. Qed.
Print Assumptions C07_nupdates_mixed_refuted_before_fix.

(* why only the quota tracker is affected: for the other trackers no add() succeeds while a capacity waiter has to wait *)
Theorem C07_no_add_while_full :
  forall t, not_quota t = true -> (t_len t < max_int)%Z -> has_room t = false -> snd (t_add t) <> ENil.
Proof. exact no_add_while_full. Qed.
Print Assumptions C07_no_add_while_full.

(* Deque (as repaired by C06-deque-wakeups.diff): Broadcast discipline for nfront, nback and updates *)
Theorem C07_deque : deque_stmt.
Proof. exact deque_all. Qed.
Print Assumptions C07_deque.

(* a call made while its condition holds does not block (WaitFront on a non-empty deque, Wait on a non-empty queue,
   BlockingAdd / WaitPush* with room) *)
Theorem C07_already_true_no_block : queue_no_block_stmt true /\ deque_no_block_stmt.
Proof. exact (conj (queue_no_block true) deque_no_block). Qed.
Print Assumptions C07_already_true_no_block.

(* Close: in every reachable state of every schedule in which the container is closed, no blocking operation of any
   kind is parked or about to park ... *)
Theorem C07_close_wakes_all : queue_close_stmt true /\ deque_close_stmt.
Proof. exact (conj (queue_close true) deque_close). Qed.
Print Assumptions C07_close_wakes_all.

(* ... and consumers return with the right verdict: an item only if there was one, ErrQueueClosed only if closed
   (Queue: and empty), the context error only if their context ended — and nothing else changes the data *)
Theorem C07_verdicts : queue_verdicts_stmt true /\ deque_verdicts_stmt.
Proof. exact (conj (queue_verdicts true) deque_verdicts). Qed.
Print Assumptions C07_verdicts.

(* cancellation: in every reachable state of every schedule a parked operation whose context has ended has its
   helper's broadcast pending, and at quiescence no parked operation's context has ended *)
Theorem C07_ctx_wakes : queue_ctx_stmt true true any_step /\ deque_ctx_stmt true any_step.
Proof. exact (conj (queue_ctx true true any_step (or_introl eq_refl)) (deque_ctx true any_step (or_introl eq_refl))). Qed.
Print Assumptions C07_ctx_wakes.

Theorem C07_ctx_wakes_guarded :
  forall hl, (forall ok, ctx_guard qdata hl ok -> queue_ctx_stmt true hl ok) /\
             (forall ok, ctx_guard ddata hl ok -> deque_ctx_stmt hl ok).
Proof. exact (fun hl => conj (queue_ctx true hl) (deque_ctx hl)). Qed.
Print Assumptions C07_ctx_wakes_guarded.

(* the old helper shape: a waiter parked for ever with a dead context (Deque), a consumer parked on a non-empty queue *)
Theorem C07_ctx_wakes_unlocked_helper_refuted : lost_cancel_deque false /\ lost_consumer true false.
Proof. exact (conj deque_ctx_unlocked_helper_refuted (queue_consumers_unlocked_helper_refuted true)). Qed.
Print Assumptions C07_ctx_wakes_unlocked_helper_refuted.

(* The exit broadcast of a waiter is part of the cascade WHATEVER its context (seeded change C07-ind2-3 skipped the
   watcher for context.Background()/TODO()).  The cascade theorem covers consumers whose context never ends: it
   holds for all runs without any context-end step, for either helper shape ... *)
Theorem C07_cascade_noncancellable : forall hl, queue_consumers_stmt true hl never_ctx_end.
Proof. exact queue_consumers_noncancellable. Qed.
Print Assumptions C07_cascade_noncancellable.

(* ... and the variant whose (non-cancellable) waiters have no watcher - runs in which no context ends and no released
   helper ever broadcasts - violates it: two parked consumers, a burst of two Adds, one Signal; the woken consumer
   takes one item and leaves silently; the other stays parked on a non-empty queue with nothing runnable. *)
Theorem C07_cascade_needs_exit_broadcast_refuted : lost_consumer_without_exit_broadcast.
Proof. exact cascade_needs_exit_broadcast. Qed.
Print Assumptions C07_cascade_needs_exit_broadcast_refuted.

(* The capacity must be re-read at every re-check (seeded change C07-ind3-1 hoisted `dq.tracker.cap()` out of
   waitPushAfter's loop): for a deque built with QueueOptions cap() is the dynamic soft quota.  The code's waiter,
   whose predicate reads cap() from the current data, is never parked while there is room ... *)
Theorem C07_deque_reread_capacity :
  forall prog d0 hl ok s t f v, deque_prog prog -> reach ddata prog d0 hl ok s ->
    prog t = OWaiter (waitpush_w f v) -> thr s t = Parked -> has_room (d_trk (dat s)) = false.
Proof. exact deque_reread_capacity_ok. Qed.
Print Assumptions C07_deque_reread_capacity.

(* ... while the variant that captures cap() when the call starts is refuted: a quiescent state of a race-free run in
   which it is parked although cap() > len() and the deque is open. *)
Theorem C07_deque_captured_capacity_refuted : captured_capacity_stuck.
Proof. exact deque_captured_capacity_refuted. Qed.
Print Assumptions C07_deque_captured_capacity_refuted.
