(* C16, dt.Stack half — property theorems only. Each is closed by `exact` of a lemma proved in Proofs/StackHeap_*.v.

   Model  : Model/StackHeap.v  (pointer-level transcription of /repo/dt/stack.go, tied to the code by Corr/C16s_corr.v)
   Spec   : Proofs/StackHeap_ref.v (each stack a plain list, top first; Push = cons, Pop = tail, Len = length, ...)
   `run eager init_sess ops` / `rrun eager rsinit ops` = what model / reference return at every step and show
   AFTER every step: per stack the Head/Next walk, the iterator output and Len; per handle Ok, In(stack 0), In(stack 1),
   Value; returned items as indices into the table of every item ever returned. *)
From FunV Require Import Base.Tac Model.StackHeap Proofs.StackHeap_ref Proofs.StackHeap_wf Proofs.StackHeap_sim Proofs.StackHeap_thms Proofs.StackHeap_vals.
Local Open Scope Z_scope.

(* For every operation list from two zero-value stacks — any handles (top, middle, bottom, sentinel, detached, nil,
   out of range), Push Pop Head Len Append(...) Iterator PopIterator Head/Next walk MarshalJSON UnmarshalJSON NewItem
   &Item{} Item.Next/Ok/In/Value/Set/Append/Remove/Attach — that never Removes the item currently on top of its stack
   (known finding) and never calls Detach: every result and every observation after every step equal the list
   reference's; in particular no hang, and a panic exactly where the reference has a nil receiver. *)
Theorem C16_stack :
  forall (eager : bool) (ops : list op), avoids_remove_head eager rsinit ops = true ->
    run eager init_sess ops = rrun eager rsinit ops.
Proof. exact C16_stack_proof. Qed.
Print Assumptions C16_stack.

(* Without the guard the statement is false: Push 1; Push 2; Head; Remove(head) leaves both items on the walk with Len 1. *)
Theorem C16_item_remove_refuted : ~ (forall eager ops, run eager init_sess ops = rrun eager rsinit ops).
Proof. exact C16_item_remove_refuted_proof. Qed.
Print Assumptions C16_item_remove_refuted.

(* Consequence spelled out on the model's own observations: after every step of every guarded run, for every stack,
   Len = number of values the iterator yields, and (when the walk is observed) Head/Next walk = iterator output. *)
Theorem C16_stack_walk_iter_len :
  forall eager ops, avoids_remove_head eager rsinit ops = true ->
    Forall (stepobs_ok eager) (run eager init_sess ops).
Proof. exact C16_stack_walk_iter_len_proof. Qed.
Print Assumptions C16_stack_walk_iter_len.

(* One step: related states (R = the heap is well formed with exactly the reference's lists as chains, same values,
   flags, stale next pointers and counters; RS adds the handle and stack tables) stay related and return the same
   result, for every operation and every handle classification, rejected and panicking cases included. *)
Theorem stack_refines_seq :
  forall ss rs o, RS ss rs -> rguard rs o = true ->
    match step ss o, rstep rs o with
    | Ok (ss', x), Ok (rs', x') => x = x' /\ RS ss' rs'
    | Panic, Panic => True
    | _, _ => False
    end.
Proof. exact step_sim. Qed.
Print Assumptions stack_refines_seq.

Theorem stack_refines_seq_init : RS init_sess rsinit.
Proof. exact RS_init. Qed.
Print Assumptions stack_refines_seq_init.

Theorem stack_observe_refines :
  forall eager ss rs, RS ss rs ->
    snd (observe eager ss) = snd (robserve eager rs) /\ RS (fst (observe eager ss)) (fst (robserve eager rs)).
Proof. exact observe_sim. Qed.
Print Assumptions stack_observe_refines.

(* The invariant by itself (no reference): WFs w = some assignment of chains and sentinels makes the heap well formed —
   each stack's head chain is duplicate free, ends at its sentinel (ok = false, next = nil), every chain item has
   stack = s and ok = true, length = chain length, every item that claims a stack is on its chain or is its sentinel
   (so chains of distinct stacks are disjoint), nothing points outside the allocated part.  It is preserved by every
   operation with every handle, unless the operation is Remove of a head item or Detach; no operation hangs. *)
Theorem stack_wf_preserved :
  forall ss o, WFsess ss -> avoids_remove_head_step ss o = true ->
    match step ss o with
    | Ok (ss', _) => WFsess ss'
    | Panic => True
    | Hang => False
    end.
Proof. exact stack_wf_preserved_proof. Qed.
Print Assumptions stack_wf_preserved.

Theorem stack_wf_init : WFsess init_sess.
Proof. exact WFsess_init. Qed.
Print Assumptions stack_wf_init.

(* ... and Remove of the head item does destroy it. *)
Theorem stack_wf_lost_by_remove_head : ~ WFs (world_after remove_head_witness).
Proof. exact stack_wf_lost_by_remove_head_proof. Qed.
Print Assumptions stack_wf_lost_by_remove_head.

(* In(s) answers membership: true exactly for the items on s's list (and for s's own sentinel); popped and removed
   items are on no list. *)
Theorem C16_stack_in_iff_member :
  forall ss rs i s, RS ss rs ->
    (i_in (sw ss) (Some i) s = Ok true <-> (In i (rseq (rsr rs) s) \/ rsen (rsr rs) s = Some i)).
Proof. exact in_iff_member_proof. Qed.
Print Assumptions C16_stack_in_iff_member.

(* Rejected Item.Append: the reference state is unchanged and the receiver is returned, and this happens exactly when the
   argument is nil, or the receiver belongs to no stack, or the argument belongs to a stack or is not valid;
   otherwise the argument is consed on the receiver's stack. *)
Theorem C16_stack_append_rejected_iff :
  forall r it n r' y, r_append r it n = Ok (r', y) ->
    (r' = r /\ y = it /\
       (n = None \/ (exists i, it = Some i /\ r_owner r i = None) \/
        (exists n', n = Some n' /\ (r_owner r n' <> None \/ rok r n' = false)))) \/
    (exists i s n', it = Some i /\ n = Some n' /\ r_owner r i = Some s /\ r_owner r n' = None /\ rok r n' = true /\
                    r' = r_cons r s n' /\ y = Some n').
Proof. exact r_append_spec_proof. Qed.
Print Assumptions C16_stack_append_rejected_iff.

(* ------------------------------------------------------------------------------------------------------------
   The reference read on plain sequences of VALUES (`r_values r s : list Z`, top first) — "the same operations on a
   plain slice".  `R w r` (some well-formed heap realises r) holds of every state of a guarded run by
   stack_refines_seq_init / stack_refines_seq / stack_observe_refines. *)

(* Push = cons; nothing else moves *)
Theorem C16_stack_push_is_cons :
  forall w r s v, R w r -> (s < sfresh w)%nat ->
    r_values (r_push r s v) s = v :: r_values r s /\ (forall t, t <> s -> r_values (r_push r s v) t = r_values r t).
Proof. exact r_push_values. Qed.
Print Assumptions C16_stack_push_is_cons.

(* Pop = head/tail: a non-empty stack returns the item carrying the first value and keeps the rest; an empty one
   returns its (not Ok) sentinel and stays empty; nothing else moves *)
Theorem C16_stack_pop_is_tail :
  forall w r s, R w r ->
    match rseq r s with
    | [] => r_values (fst (r_pop r s)) s = [] /\ (forall x, snd (r_pop r s) = Some x -> rok (fst (r_pop r s)) x = false)
    | x :: _ => snd (r_pop r s) = Some x /\ r_values r s = rval r x :: r_values (fst (r_pop r s)) s
    end /\ (forall t, t <> s -> r_values (fst (r_pop r s)) t = r_values r t).
Proof. exact r_pop_values. Qed.
Print Assumptions C16_stack_pop_is_tail.

(* Append(vs...) pushes each value in turn *)
Theorem C16_stack_appendv_values :
  forall vs w r s, R w r -> (s < sfresh w)%nat ->
    r_values (r_appendv r s vs) s = rev vs ++ r_values r s /\ (forall t, t <> s -> r_values (r_appendv r s vs) t = r_values r t).
Proof. exact r_appendv_values. Qed.
Print Assumptions C16_stack_appendv_values.

(* PopIterator yields the sequence and leaves the stack empty; other stacks keep their items *)
Theorem C16_stack_popiter_values :
  forall w r s, R w r -> (s < sfresh w)%nat ->
    snd (r_popiter r s) = r_values r s /\ rseq (fst (r_popiter r s)) s = [] /\
    (forall t, t <> s -> rseq (fst (r_popiter r s)) t = rseq r t).
Proof. exact r_popiter_values. Qed.
Print Assumptions C16_stack_popiter_values.

(* UnmarshalJSON(vs) puts vs, in order, in front of what the stack held; other stacks keep their values *)
Theorem C16_stack_unmarshal_values :
  forall w r s vs, R w r -> (s < sfresh w)%nat ->
    exists r', r_unmarshal r s vs = Ok r' /\ r_values r' s = vs ++ r_values r s /\
      (forall u, (u < rsf r)%nat -> u <> s -> r_values r' u = r_values r u).
Proof. exact r_unmarshal_values. Qed.
Print Assumptions C16_stack_unmarshal_values.

(* MarshalJSON encodes the sequence, and decoding that into an empty stack reproduces it (JSON round trip) *)
Theorem C16_stack_marshal_values : forall w r s, R w r -> snd (r_walk r s) = r_values r s.
Proof. exact r_walk_values. Qed.
Print Assumptions C16_stack_marshal_values.

Theorem C16_stack_json_roundtrip :
  forall w r s t, R w r -> (t < sfresh w)%nat -> rseq r t = [] ->
    exists r', r_unmarshal r t (snd (r_walk r s)) = Ok r' /\ r_values r' t = snd (r_walk r s).
Proof. exact r_json_roundtrip. Qed.
Print Assumptions C16_stack_json_roundtrip.

(* Item.Attach(t) through an item (or the sentinel) of another stack s: t's values arrive reversed on top of s, t is
   left empty, every other stack keeps its values *)
Theorem C16_stack_attach_values :
  forall w r i s t, R w r -> (t < sfresh w)%nat -> r_owner r i = Some s -> s <> t -> rseq r t <> [] ->
    exists r', r_attach r (Some i) (Some t) = Ok (r', true) /\
      r_values r' s = rev (r_values r t) ++ r_values r s /\ r_values r' t = [] /\
      (forall u, u <> s -> u <> t -> r_values r' u = r_values r u).
Proof. exact r_attach_values. Qed.
Print Assumptions C16_stack_attach_values.
