(* C17 — property theorems only. Each is closed by `exact` of a lemma proved elsewhere. *)
From FunV Require Import Base.Tac Base.ListX Model.SortSpec Proofs.SortSpec_proofs.

(* IsSorted(lt) is true exactly when no adjacent pair is out of order (any lt, any list). *)
Theorem C17_is_sorted_iff :
  forall (lt : Z -> Z -> bool) (l : list Z),
    is_sorted lt l = true <-> no_adjacent_out_of_order lt l.
Proof. exact is_sorted_iff. Qed.
Print Assumptions C17_is_sorted_iff.

Theorem C17_is_sorted_short :
  forall (lt : Z -> Z -> bool) (l : list Z), (length l <= 1)%nat -> is_sorted lt l = true.
Proof. exact is_sorted_short. Qed.
Print Assumptions C17_is_sorted_short.

(* Heap: over every sequence of pushes and pops, popped values plus what remains are a permutation of
   what was pushed (each pushed value comes out exactly once) ... *)
Theorem C17_heap_conserves :
  forall (lt : Z -> Z -> bool) (ops : list hop),
    Permutation (somes (fst (heap_run lt [] ops)) ++ snd (heap_run lt [] ops)) (pushed ops).
Proof. exact heap_conserves_from_empty. Qed.
Print Assumptions C17_heap_conserves.

(* ... and, for every strict weak order, each pop returns a value that nothing still inside is lt
   (and reports not-ok only when the heap is empty). *)
Theorem C17_heap_pops_minimal :
  forall (lt : Z -> Z -> bool), strict_weak_order lt -> forall ops, pops_minimal lt [] ops.
Proof. exact heap_pops_minimal_from_empty. Qed.
Print Assumptions C17_heap_pops_minimal.
