(* C17 — property theorems only. Each is closed by `exact` of a lemma proved elsewhere. *)
From FunV Require Import Base.Tac Base.ListX Model.SortSpec Proofs.SortSpec_proofs.
From FunV Require Import Model.ListHeap Proofs.ListHeap_wf Proofs.ListHeap_loops Proofs.ListHeap_c17.

(* IsSorted(lt) is true exactly when no adjacent pair is out of order (any lt, any list). *)
Theorem C17_is_sorted_iff :
  forall (lt : Z -> Z -> bool) (l : list Z),
    is_sorted lt l = true <-> no_adjacent_out_of_order lt l.
Proof. exact is_sorted_iff. Qed.
Print Assumptions C17_is_sorted_iff.

Theorem C17_is_sorted_short :
  forall (lt : Z -> Z -> bool) (l : list Z), (length l <= 1)%nat -> is_sorted lt l = true.
Proof. exact is_sorted_short. Qed.
Print Assumptions C17_is_sorted_short.

(* Heap: over every sequence of pushes and pops, popped values plus what remains are a permutation of
   what was pushed (each pushed value comes out exactly once) ... *)
Theorem C17_heap_conserves :
  forall (lt : Z -> Z -> bool) (ops : list hop),
    Permutation (somes (fst (heap_run lt [] ops)) ++ snd (heap_run lt [] ops)) (pushed ops).
Proof. exact heap_conserves_from_empty. Qed.
Print Assumptions C17_heap_conserves.

(* ... and, for every strict weak order, each pop returns a value that nothing still inside is lt
   (and reports not-ok only when the heap is empty). *)
Theorem C17_heap_pops_minimal :
  forall (lt : Z -> Z -> bool), strict_weak_order lt -> forall ops, pops_minimal lt [] ops.
Proof. exact heap_pops_minimal_from_empty. Qed.
Print Assumptions C17_heap_pops_minimal.

(* NewHeapFromIterator pushes every value the iterator delivers: whatever prefix of the source was
   consumed (the iterator completed, failed at some position, or the context was cancelled), the
   returned heap is sorted and holds exactly that prefix ... *)
Theorem C17_heap_from_iterator :
  forall (lt : Z -> Z -> bool), strict_weak_order lt ->
  forall consumed, sorted lt (heap_from_list lt consumed) /\ Permutation (heap_from_list lt consumed) consumed.
Proof. exact heap_from_list_sorted_perm. Qed.
Print Assumptions C17_heap_from_iterator.

(* ... and under every later push/pop sequence each pop is minimal and nothing is lost or invented. *)
Theorem C17_heap_from_iterator_pops_minimal :
  forall (lt : Z -> Z -> bool), strict_weak_order lt -> forall consumed ops, pops_minimal lt (heap_from_list lt consumed) ops.
Proof. exact heap_from_list_pops_minimal. Qed.
Print Assumptions C17_heap_from_iterator_pops_minimal.

Theorem C17_heap_from_iterator_conserves :
  forall (lt : Z -> Z -> bool), strict_weak_order lt -> forall consumed ops,
    Permutation (somes (fst (heap_run lt (heap_from_list lt consumed) ops)) ++ snd (heap_run lt (heap_from_list lt consumed) ops))
                (pushed ops ++ consumed).
Proof. exact heap_from_list_conserves. Qed.
Print Assumptions C17_heap_from_iterator_conserves.

(* ---------------------------------------------------------------- sorting on the pointer-level model of dt.List
   (Model/ListHeap.v; WF w E is the C16 invariant with ghost element lists E; abs w E l = the values of list l) *)

(* the pointer-level IsSorted computes the list-level is_sorted of the list's values and changes nothing *)
Theorem C17_is_sorted_model :
  forall lt w E l, WF w E -> (l < lfresh w)%nat -> IsSorted lt l w = Ret (is_sorted lt (abs w E l)) w.
Proof. exact IsSorted_spec. Qed.
Print Assumptions C17_is_sorted_model.

(* SortMerge (as fixed), for EVERY comparison function: it terminates without panic, the list holds a
   permutation of its previous elements (same element handles, same values) ... *)
Theorem sort_merge_perm :
  forall lt w E l, WF w E -> (l < lfresh w)%nat ->
    exists w' E', SortMerge lt l w = Ret tt w' /\ WF w' E' /\
      Permutation (E' l) (E l) /\ Permutation (abs w' E' l) (abs w E l).
Proof. exact sort_merge_perm_l. Qed.
Print Assumptions sort_merge_perm.

(* ... in which no element is lt its predecessor (only asymmetry of lt is needed) ... *)
Theorem sort_merge_sorted :
  forall lt, (forall a b, lt a b = true -> lt b a = false) ->
  forall w E l, WF w E -> (l < lfresh w)%nat ->
    exists w' E', SortMerge lt l w = Ret tt w' /\ WF w' E' /\ sorted lt (abs w' E' l).
Proof. exact sort_merge_sorted_l. Qed.
Print Assumptions sort_merge_sorted.

(* ... and the list stays fully usable: the result is well-formed (so every C16 theorem applies to
   what follows), every element is owned by the receiver (In(l) holds), other lists are untouched.
   WF INCLUDES THE SENTINEL: wf_own (Proofs/ListHeap_wf.v) says owner n = Some l exactly for the nodes
   of cyc_of w E l = root :: E l, so `owner root = l` is part of the conclusion -- a SortMerge that
   adopts the merged chain and leaves the sentinel owned by a temporary list (after which PushFront,
   or any push into the drained list, is booked on the dead list) does not satisfy this theorem. *)
Theorem sort_merge_usable :
  forall lt w E l, WF w E -> (l < lfresh w)%nat ->
    exists w' E', SortMerge lt l w = Ret tt w' /\ WF w' E' /\ (l < lfresh w')%nat /\ owned_by w' l (E' l) /\
      (forall l0, (l0 < lfresh w)%nat -> l0 <> l -> E' l0 = E l0 /\ abs w' E' l0 = abs w E l0).
Proof. exact sort_merge_usable_l. Qed.
Print Assumptions sort_merge_usable.

(* Termination.  On every well-formed world (every world reachable by valid operations) the model's
   SortMerge returns: it never yields Hang -- the outcome a fuel-bounded loop gives when the code's loop
   would not stop, such as the Extend(l, l) that a mergeSort returning its argument for a list of two or
   more elements would cause -- and never panics.  Likewise SortQuick. *)
Theorem sort_merge_terminates :
  forall lt w E l, WF w E -> (l < lfresh w)%nat ->
    SortMerge lt l w <> Hang /\ SortMerge lt l w <> Panic /\ exists w', SortMerge lt l w = Ret tt w'.
Proof. exact sort_merge_terminates_l. Qed.
Print Assumptions sort_merge_terminates.

Theorem sort_quick_terminates :
  forall lt w E l, WF w E -> (l < lfresh w)%nat -> exists w', SortQuick lt l w = Ret tt w'.
Proof. exact sort_quick_terminates_l. Qed.
Print Assumptions sort_quick_terminates.

(* SortQuick = pop all; sort.SliceStable; re-append.  For every sorter meeting the stable-sort contract
   (permutation, sorted, equal keys keep their relative order): permutation of the same elements,
   sorted, STABLE on element handles, well-formed, owned by the receiver, other lists untouched. *)
Theorem sort_quick_perm_sorted_stable :
  forall lt sorter, stable_sort_contract lt sorter ->
  forall w E l, WF w E -> (l < lfresh w)%nat ->
    exists w' E', SortQuickWith sorter l w = Ret tt w' /\ WF w' E' /\ (l < lfresh w')%nat /\
      Permutation (E' l) (E l) /\ Permutation (abs w' E' l) (abs w E l) /\
      sorted lt (abs w' E' l) /\
      stable_wrt lt (fun n => nitem (nodes w n)) (E l) (E' l) /\
      owned_by w' l (E' l) /\
      (forall l0, (l0 < lfresh w)%nat -> l0 <> l -> E' l0 = E l0 /\ abs w' E' l0 = abs w E l0).
Proof. exact SortQuick_outcome. Qed.
Print Assumptions sort_quick_perm_sorted_stable.

(* the executable sorter of the model (the one compared with the real sort.SliceStable on every run)
   meets the contract for every strict weak order *)
Theorem sort_quick_model_sorter_ok :
  forall lt, strict_weak_order lt -> stable_sort_contract lt (stable_sort lt).
Proof. exact stable_sort_meets_contract. Qed.
Print Assumptions sort_quick_model_sorter_ok.
