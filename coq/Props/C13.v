(* C13 — concurrency-safe types are free of data races.  Property theorems only.

   For every covered type T the skeleton prog_T (coq/Gen/Skel_T.v) is RE-EXTRACTED FROM THE GO
   SOURCE by /verif/translator on every check run.  Each theorem says: for any number of client
   threads calling the public entries of prog_T (exported methods and every closure / method
   value that escapes to the caller) in any order and any interleaving, no reachable state has
   two threads about to access the same field plainly with one of them writing.

   Each proof is `lockset_sound` (Skel/LocksetSound.v, proved once for all programs and all guard
   maps) applied to the reflective check `lockset_ok guards prog_T = true`, evaluated by
   vm_compute on the regenerated term: a dropped Lock, an access moved out of its critical section
   or an unlocked closure that escapes makes this file fail to compile. *)
From FunV Require Import Skel.Syntax Skel.Lockset Skel.LocksetSound Skel.Guards.
From FunV Require Import Gen.Skel_WaitGroup Gen.Skel_Collector Gen.Skel_Synchronized Gen.Skel_Atomic
  Gen.Skel_Once Gen.Skel_Map Gen.Skel_Pool Gen.Skel_Queue Gen.Skel_Deque Gen.Skel_Set
  Gen.Skel_limitExec Gen.Skel_ttlExec Gen.Skel_Wrappers Gen.Skel_Broker.

Theorem C13_race_free_WaitGroup : forall s, reachable prog_WaitGroup s -> ~ race s.
Proof. exact (lockset_sound guards prog_WaitGroup (eq_refl true <: lockset_ok guards prog_WaitGroup = true)). Qed.
Print Assumptions C13_race_free_WaitGroup.

(* erc.Collector, except the escape of &ec.stack from Resolve (known finding C13:Collector.Resolve:live-stack) *)
Theorem C13_race_free_Collector : forall s, reachable prog_Collector s -> ~ race s.
Proof. exact (lockset_sound guards prog_Collector (eq_refl true <: lockset_ok guards prog_Collector = true)). Qed.
Print Assumptions C13_race_free_Collector.

Theorem C13_race_free_Synchronized : forall s, reachable prog_Synchronized s -> ~ race s.
Proof. exact (lockset_sound guards prog_Synchronized (eq_refl true <: lockset_ok guards prog_Synchronized = true)). Qed.
Print Assumptions C13_race_free_Synchronized.

Theorem C13_race_free_Atomic : forall s, reachable prog_Atomic s -> ~ race s.
Proof. exact (lockset_sound guards prog_Atomic (eq_refl true <: lockset_ok guards prog_Atomic = true)). Qed.
Print Assumptions C13_race_free_Atomic.

Theorem C13_race_free_Once : forall s, reachable prog_Once s -> ~ race s.
Proof. exact (lockset_sound guards prog_Once (eq_refl true <: lockset_ok guards prog_Once = true)). Qed.
Print Assumptions C13_race_free_Once.

Theorem C13_race_free_Map : forall s, reachable prog_Map s -> ~ race s.
Proof. exact (lockset_sound guards prog_Map (eq_refl true <: lockset_ok guards prog_Map = true)). Qed.
Print Assumptions C13_race_free_Map.

Theorem C13_race_free_Pool : forall s, reachable prog_Pool s -> ~ race s.
Proof. exact (lockset_sound guards prog_Pool (eq_refl true <: lockset_ok guards prog_Pool = true)). Qed.
Print Assumptions C13_race_free_Pool.

(* pubsub.Queue with its iterator/producer closures and the closures of its Distributor *)
Theorem C13_race_free_Queue : forall s, reachable prog_Queue s -> ~ race s.
Proof. exact (lockset_sound guards prog_Queue (eq_refl true <: lockset_ok guards prog_Queue = true)). Qed.
Print Assumptions C13_race_free_Queue.

(* pubsub.Deque with its (WithLock-wrapped) producers and both Distributors *)
Theorem C13_race_free_Deque : forall s, reachable prog_Deque s -> ~ race s.
Proof. exact (lockset_sound guards prog_Deque (eq_refl true <: lockset_ok guards prog_Deque = true)). Qed.
Print Assumptions C13_race_free_Deque.

(* a synchronised dt.Set; two instances, because Equal/Extend take another set *)
Theorem C13_race_free_Set : forall s, reachable prog_Set s -> ~ race s.
Proof. exact (lockset_sound guards prog_Set (eq_refl true <: lockset_ok guards prog_Set = true)). Qed.
Print Assumptions C13_race_free_Set.

(* limitExec and the Worker/Producer/Processor/Future Limit wrappers built on it.  SLOW PATH ONLY:
   everything from mtx.Lock to the (deferred) Unlock, including the read of the cached result
   for the return value, is checked by the lockset argument.  The lock-free FAST PATH
   (`if counter.CompareAndSwap(n, n) { return output }`) appears in the skeleton as an
   `Atomic` instruction marked TRUSTED by the translator (rule 11): that read is ordered after
   the last write by the atomic store of the counter, because the slow path stops writing once
   the counter holds n - a value-dependent argument outside lockset reasoning, listed in the
   trusted base of checks/c13.py and exercised by the -race driver. *)
Theorem C13_race_free_limitExec_slow_path : forall s, reachable prog_limitExec s -> ~ race s.
Proof. exact (lockset_sound guards prog_limitExec (eq_refl true <: lockset_ok guards prog_limitExec = true)). Qed.
Print Assumptions C13_race_free_limitExec_slow_path.

Theorem C13_race_free_ttlExec : forall s, reachable prog_ttlExec s -> ~ race s.
Proof. exact (lockset_sound guards prog_ttlExec (eq_refl true <: lockset_ok guards prog_ttlExec = true)). Qed.
Print Assumptions C13_race_free_ttlExec.

(* the Lock / WithLock / Once / TTL wrappers of Worker, Operation, Producer, Processor, Handler, Future and Operation.Limit *)
Theorem C13_race_free_Wrappers : forall s, reachable prog_Wrappers s -> ~ race s.
Proof. exact (lockset_sound guards prog_Wrappers (eq_refl true <: lockset_ok guards prog_Wrappers = true)). Qed.
Print Assumptions C13_race_free_Wrappers.

(* pubsub.Broker: its own shared state (channels, sync.Map of subscribers, WaitGroup, immutable options) *)
Theorem C13_race_free_Broker : forall s, reachable prog_Broker s -> ~ race s.
Proof. exact (lockset_sound guards prog_Broker (eq_refl true <: lockset_ok guards prog_Broker = true)). Qed.
Print Assumptions C13_race_free_Broker.
