(* C06 - pubsub.Deque is a linearizable bounded double-ended queue.  Property theorems only.
   Model: Model/DequeHeap.v (pointer-level ring with root sentinel, the three trackers of
   tracker.go, DequeOptions.Validate/NewDeque).  `reach d` = d is the state after an arbitrary
   operation list on a deque built by NewDeque from arbitrary valid options.  `contents d` = the
   items found by following next pointers from the root. *)
From FunV Require Import Base.Tac Model.DequeHeap Proofs.DequeHeap_ring Proofs.DequeHeap_refine Proofs.DequeHeap_props.
From FunV Require Conc.LockedObject.
Local Open Scope Z_scope.

(* The ring stays well formed: no address twice, next/prev agree along the cycle through the root,
   every address allocated - for all valid options and all operation lists. *)
Theorem deque_ring_wf_preserved :
  forall o d0 ops, new_deque o = Some d0 -> exists l, wf (fst (run d0 ops)) l.
Proof. exact ring_wf_preserved. Qed.
Print Assumptions deque_ring_wf_preserved.

(* Refinement: the pointer ring behaves as the two-ended list specification - same results for
   every operation list, related final states; following next from the root yields the list,
   following prev yields its reverse. *)
Theorem deque_refines :
  forall o d0 ops, new_deque o = Some d0 ->
    let s0 := spec_of_tracker (trk d0) in
    snd (run d0 ops) = snd (s_run s0 ops) /\
    refines (fst (run d0 ops)) (fst (s_run s0 ops)) /\
    contents (fst (run d0 ops)) = items (fst (s_run s0 ops)) /\
    contents_bwd (fst (run d0 ops)) = rev (items (fst (s_run s0 ops))).
Proof. exact refines_list. Qed.
Print Assumptions deque_refines.

(* Len is exactly the number of items and never exceeds the capacity. *)
Theorem len_le_cap :
  forall o d0 ops, new_deque o = Some d0 ->
    let d := fst (run d0 ops) in
    t_len (trk d) = Z.of_nat (length (contents d)) /\
    0 <= t_len (trk d) /\
    match hard_cap (trk d0) with Some c => t_len (trk d) <= c | None => True end.
Proof. exact len_le_capacity. Qed.
Print Assumptions len_le_cap.

(* A plain push that fails (full, no credit, closed) leaves the whole state unchanged ... *)
Theorem push_full_no_effect :
  forall d o d' e, is_plain_push o = true -> step d o = (d', RErr e) -> e <> ENil -> d' = d.
Proof. exact push_fail_no_effect. Qed.
Print Assumptions push_full_no_effect.

(* ... and on a full open deque it does fail with ErrQueueFull. *)
Theorem push_on_full_fails :
  forall d o c, reach d -> closed d = false -> hard_cap (trk d) = Some c -> t_len (trk d) = c ->
    is_plain_push o = true -> step d o = (d, RErr EFull).
Proof. exact push_full_fails. Qed.
Print Assumptions push_on_full_fails.

(* A Force push at capacity evicts exactly the item at the opposite end and then succeeds. *)
Theorem force_push_evicts_exactly_one_opposite :
  forall d v, reach d -> closed d = false -> t_cap (trk d) = t_len (trk d) ->
    contents d <> [] /\
    (exists d', step d (ForcePushFront v) = (d', RErr ENil) /\
                contents d' = v :: removelast (contents d) /\ t_len (trk d') = t_len (trk d)) /\
    (exists d', step d (ForcePushBack v) = (d', RErr ENil) /\
                contents d' = tl (contents d) ++ [v] /\ t_len (trk d') = t_len (trk d)).
Proof. exact force_push_evicts. Qed.
Print Assumptions force_push_evicts_exactly_one_opposite.

Theorem force_push_below_capacity_is_push :
  forall d v, t_cap (trk d) <> t_len (trk d) ->
    step d (ForcePushFront v) = step d (PushFront v) /\ step d (ForcePushBack v) = step d (PushBack v).
Proof. exact force_push_below_capacity. Qed.
Print Assumptions force_push_below_capacity_is_push.

(* Pops return the item currently at the requested end (and remove exactly it). *)
Theorem pops_return_requested_end :
  forall d, reach d -> closed d = false ->
    match contents d with
    | [] => step d PopFront = (d, RPop None) /\ step d PopBack = (d, RPop None)
    | x :: r =>
        (exists d', step d PopFront = (d', RPop (Some x)) /\ contents d' = r) /\
        (exists d', step d PopBack = (d', RPop (Some (last (contents d) 0))) /\ contents d' = removelast (contents d))
    end.
Proof. exact pop_returns_end. Qed.
Print Assumptions pops_return_requested_end.

(* After Close every push fails with ErrQueueClosed, every pop reports not-ok, every Wait fails
   with ErrQueueClosed, and the state never changes again. *)
Theorem closed_all_fail :
  forall d ops, closed d = true -> run d ops = (d, map (closed_res d) ops).
Proof. exact closed_all_fail_run. Qed.
Print Assumptions closed_all_fail.

Theorem close_sets_closed :
  forall d, closed (fst (step d Close)) = true /\ contents (fst (step d Close)) = contents d /\ snd (step d Close) = RErr ENil.
Proof. exact close_closes. Qed.
Print Assumptions close_sets_closed.

(* Linearizability: the deque as a monitor (Conc/LockedObject.v) - any number of threads, any
   overlap, any interleaving of critical sections, parked attempts and cancellations. *)
Theorem C06_linearizable :
  forall o d0, new_deque o = Some d0 ->
  forall tr c, LockedObject.run deque op res d0 step is_blocked cancelled tr = Some c ->
    LockedObject.linearization deque op res d0 step is_blocked cancelled tr c.
Proof. intros o d0 _. exact (LockedObject.lo_linearizable deque op res d0 step is_blocked cancelled). Qed.
Print Assumptions C06_linearizable.

Theorem C06_realtime_order :
  forall o d0, new_deque o = Some d0 ->
  forall tr c, LockedObject.run deque op res d0 step is_blocked cancelled tr = Some c ->
  forall a b, In a (LockedObject.hist c) -> In b (LockedObject.lin c) ->
    (LockedObject.c_ret a < LockedObject.le_inv b)%nat ->
    LockedObject.precedes (LockedObject.c_entry a) b (LockedObject.lin c).
Proof. intros o d0 _. exact (LockedObject.lo_realtime deque op res d0 step is_blocked cancelled). Qed.
Print Assumptions C06_realtime_order.

(* ... and that linearization is a legal execution of the abstract two-ended list, ending in a
   state whose items are the ring's contents. *)
Theorem C06_linearizable_to_list_spec :
  forall o d0 tr c, new_deque o = Some d0 ->
    LockedObject.run deque op res d0 step is_blocked cancelled tr = Some c ->
    exists s', LockedObject.legal spec op res s_step is_blocked cancelled (spec_of_tracker (trk d0)) (LockedObject.lin c) s' /\
               refines (LockedObject.st c) s' /\ contents (LockedObject.st c) = items s'.
Proof. exact linearizable_spec. Qed.
Print Assumptions C06_linearizable_to_list_spec.

(* Operations that return a context error have no effect. *)
Theorem C06_ctx_error_no_effect :
  forall o d0, new_deque o = Some d0 ->
  forall tr c, LockedObject.run deque op res d0 step is_blocked cancelled tr = Some c ->
  forall e, In e (LockedObject.lin c) -> LockedObject.le_cancel e = true ->
    LockedObject.le_res e = cancelled /\
    nth_error tr (LockedObject.le_lin e) = Some (LockedObject.Cancel (LockedObject.le_tid e)) /\
    exists l1 l2 s, LockedObject.lin c = l1 ++ e :: l2 /\
      LockedObject.legal deque op res step is_blocked cancelled d0 l1 s /\
      LockedObject.legal deque op res step is_blocked cancelled s [e] s /\
      LockedObject.legal deque op res step is_blocked cancelled s l2 (LockedObject.st c) /\
      LockedObject.legal deque op res step is_blocked cancelled d0 (l1 ++ l2) (LockedObject.st c).
Proof. intros o d0 _. exact (LockedObject.lo_cancel_no_effect deque op res d0 step is_blocked cancelled). Qed.
Print Assumptions C06_ctx_error_no_effect.
