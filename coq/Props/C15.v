(* C15 — property theorems only. Each is closed by `exact` of a lemma proved elsewhere.
   Models: Model/Wrappers.v (sequential, executable, transcribed from worker.go / operation.go / producer.go /
   process.go / handler.go / future.go / ft/ft.go / adt/atomics.go) and Model/LaunchNet.v (transition systems).
   "full" = for ALL outcome scripts, all n, all call counts on the code-level model;
   "partial" = for every reachable state (any number of threads, every interleaving of the modelled atomic steps)
   of a net whose primitives (sync.Once, sync.Mutex, atomics, channels, fun.WaitGroup) are modelled, not verified. *)
From FunV Require Import Base.Tac Model.Wrappers Model.LaunchNet.
From FunV Require Import Proofs.Wrappers_retry Proofs.Wrappers_limit Proofs.Wrappers_order Proofs.Wrappers_joinp.
From FunV Require Import Proofs.Wrappers_lock Proofs.Wrappers_once_net Proofs.Wrappers_adt_once Proofs.Wrappers_limit_net Proofs.Wrappers_launch_net.
Local Open Scope Z_scope.

(* ================================================================== sequential, full *)

(* Retry(n) (Worker / Processor): one call, from any point `rest` of any script, makes a attempts where
   a <= n, every attempt before the last failed retryably (it never goes on after a success, a terminating error or
   a panic), and it stops before n attempts only because the last attempt was not retryable. *)
Theorem retry_at_most_n_stops_first_success :
  forall k id sc n rest w, errkind k = true ->
  exists r w' a,
    run (FRetryW n (FBase k id sc)) (SOne (SBase rest)) w = (r, SOne (SBase (skipn a rest)), w') /\
    invocations id (wlog w') = invocations id (wlog w) + Z.of_nat a /\
    attempts_ok n rest a.
Proof. exact retryW_attempts. Qed.
Print Assumptions retry_at_most_n_stops_first_success.

Theorem retry_at_most_n_stops_first_success_producer :
  forall id sc n rest w,
  exists r w' a,
    run (FRetryP n (FBase KProducer id sc)) (SOne (SBase rest)) w = (r, SOne (SBase (skipn a rest)), w') /\
    invocations id (wlog w') = invocations id (wlog w) + Z.of_nat a /\
    attempts_ok n rest a.
Proof. exact retryP_attempts. Qed.
Print Assumptions retry_at_most_n_stops_first_success_producer.

(* Retry(n) reports failures only if no attempt succeeded: a successful attempt yields nil whatever failed before; a
   non-nil result implies that no attempt succeeded; and when all n attempts failed, exactly those failures are
   reported (newest first, ErrIteratorSkip is not a failure). *)
Theorem retry_reports_only_if_no_success :
  forall k id sc n rest w, errkind k = true ->
  let m := leading_retryable rest in
  let a := Nat.min (Z.to_nat n) (S m) in
  let r := fst (fst (run (FRetryW n (FBase k id sc)) (SOne (SBase rest)) w)) in
  ((exists j, (j < a)%nat /\ is_success (outcome_at rest j) = true) -> r = Ret 0 []) /\
  (forall v e, r = Ret v e -> e <> [] -> forall j, (j < a)%nat -> is_success (outcome_at rest j) = false) /\
  ((Z.to_nat n <= m)%nat -> r = Ret 0 (fails (firstn (Z.to_nat n) rest) [])).
Proof. exact retryW_result. Qed.
Print Assumptions retry_reports_only_if_no_success.

Theorem retry_reports_only_if_no_success_producer :
  forall id sc n rest w,
  let m := leading_retryable rest in
  let a := Nat.min (Z.to_nat n) (S m) in
  let r := fst (fst (run (FRetryP n (FBase KProducer id sc)) (SOne (SBase rest)) w)) in
  (forall j, (j < a)%nat -> is_success (outcome_at rest j) = true ->
             exists v, (outcome_at rest j = OOk v \/ outcome_at rest j = OCancel v) /\ r = Ret v []) /\
  (forall v e, r = Ret v e -> e <> [] -> forall j, (j < a)%nat -> is_success (outcome_at rest j) = false) /\
  ((Z.to_nat n <= m)%nat -> r = Ret 0 (fails (firstn (Z.to_nat n) rest) [])).
Proof. exact retryP_result. Qed.
Print Assumptions retry_reports_only_if_no_success_producer.

(* Limit(n) (limitExec: Worker/Producer/Processor/Future): c calls execute the function min(n, c - p) + p times, where
   p is the number of calls in which it panicked (a panicking execution is not counted against the limit); for a
   script without panics that is min(n, c). *)
Theorem limit_runs_min_n_calls :
  forall k id sc n c, 0 < n ->
  let F := FLimitExec n (FBase k id sc) in
  let '(rs, _, w) := run_calls F (init F) w0 0 c in
  invocations id (wlog w) = Z.min n (Z.of_nat c - Z.of_nat (count_pan rs)) + Z.of_nat (count_pan rs)
  /\ (forallb (fun o => negb (outcome_panics o)) sc = true -> invocations id (wlog w) = Z.min n (Z.of_nat c)).
Proof. intros k id sc n c Hn. exact (limit_exec_runs k id sc n Hn c). Qed.
Print Assumptions limit_runs_min_n_calls.

(* Operation.Limit(n): exactly min(n, c) executions, for every script *)
Theorem limit_runs_min_n_calls_operation :
  forall k id sc n c, 0 < n ->
  let F := FLimitCAS n (FBase k id sc) in
  let '(_, _, w) := run_calls F (init F) w0 0 c in
  invocations id (wlog w) = Z.min n (Z.of_nat c).
Proof. exact limit_cas_runs. Qed.
Print Assumptions limit_runs_min_n_calls_operation.

(* ... and thereafter returns the last result: once n executions have completed, each of any number of further calls
   returns the result of the last completed execution, runs nothing and changes nothing. *)
Theorem limit_then_last_result :
  forall k id sc n c1 c2, 0 < n ->
  let F := FLimitExec n (FBase k id sc) in
  let '(rs1, s1, w1) := run_calls F (init F) w0 0 c1 in
  n <= Z.of_nat (count_ret rs1) ->
  let '(rs2, s2, w2) := run_calls F s1 w1 (Z.of_nat c1) c2 in
  rs2 = repeat (last_ret rs1 (Ret 0 [])) c2 /\ s2 = s1 /\ wlog w2 = wlog w1.
Proof. intros k id sc n c1 c2 Hn. exact (limit_exec_last_result k id sc n Hn c1 c2). Qed.
Print Assumptions limit_then_last_result.

(* Limit(n) over an ARBITRARY wrapped stack f (all stackings): as long as no panic reaches the caller, c calls execute f
   exactly min(c, n) times — f's state, the order log and the context afterwards are those of min(c, n) direct calls of f —
   the first min(c, n) callers see f's results and every later caller the last of them. *)
Theorem limit_runs_min_n_calls_any_stack :
  forall n f c s w i, 0 < n ->
  forall rs_in s_in w_in,
  run_calls f s w i (Nat.min c (Z.to_nat n)) = (rs_in, s_in, w_in) ->
  Forall (fun r => is_pan r = false) rs_in ->
  exists cv' ce' w',
    run_calls (FLimitExec n f) (SLimit 0 0 [] s) w i c
      = (rs_in ++ repeat (last rs_in (Ret 0 [])) (c - Z.to_nat n), SLimit (Z.min n (Z.of_nat c)) cv' ce' s_in, w')
    /\ wlog w' = wlog w_in /\ wcancelled w' = wcancelled w_in.
Proof. exact limit_general. Qed.
Print Assumptions limit_runs_min_n_calls_any_stack.

(* Once over an ARBITRARY wrapped stack f (all stackings): of c+1 calls only the first executes f; every later caller
   sees that execution's result (the zero value if it panicked: sync.Once), and neither f's state nor the order log
   nor the context changes after the first call. *)
Theorem once_runs_once_all_see_result :
  forall f s w i c,
  let '(r, s1, w1) := run f s (set_call i w) in
  exists w' cv ce,
    run_calls (FOnce f) (SOnce false 0 [] s) w i (S c) = (r :: repeat (once_cached r) c, SOnce true cv ce s1, w')
    /\ wlog w' = wlog w1 /\ wcancelled w' = wcancelled w1.
Proof. exact once_general. Qed.
Print Assumptions once_runs_once_all_see_result.

Theorem once_runs_once_scripted :
  forall k id sc c,
  let F := FOnce (FBase k id sc) in
  let '(rs, _, w) := run_calls F (init F) w0 0 c in
  invocations id (wlog w) = Z.min 1 (Z.of_nat c) /\
  rs = match c with
       | O => []
       | S c' => outcome_result k (head_outcome sc) :: repeat (once_cached (outcome_result k (head_outcome sc))) c'
       end.
Proof. exact once_base. Qed.
Print Assumptions once_runs_once_scripted.

(* Join: one call of wf.Join(p1, ..., pk) on a live context executes the parts in the order in which they were joined,
   each once, up to and including the first part that returns an error, cancels the context or panics; the result
   is that part's. *)
Theorem join_order :
  forall k p0 ps w, errkind k = true -> wcancelled w = false ->
  let '(r, _, w') := run (join_fn FJoinW k p0 ps) (join_st p0 ps) w in
  wlog w' = rev (evs (wcall w) (run_prefix contW (p0 :: ps))) ++ wlog w /\
  r = outcome_result k (part_outcome (last (run_prefix contW (p0 :: ps)) p0)).
Proof. exact join_order_worker. Qed.
Print Assumptions join_order.

Theorem join_order_of_operations :
  forall p0 ps w, wcancelled w = false ->
  let '(_, _, w') := run (join_fn FJoinO KOperation p0 ps) (join_st p0 ps) w in
  wlog w' = rev (evs (wcall w) (run_prefix contO (p0 :: ps))) ++ wlog w.
Proof. exact join_order_operation. Qed.
Print Assumptions join_order_of_operations.

(* Producer.Join: over any number of calls, all executions of the first producer precede all executions of the second *)
Theorem join_order_of_producers :
  forall k1 k2 id1 id2 sc1 sc2 c,
  let F := FJoinP (FBase k1 id1 sc1) (FBase k2 id2 sc2) in
  exists A B, snd (observe F c) = A ++ B /\ only id1 A /\ only id2 B.
Proof. exact join_order_producer. Qed.
Print Assumptions join_order_of_producers.

(* PreHook / PostHook: the order log of one call, and what a panic of either part does *)
Theorem hook_order :
  forall hk fk hi fi hs fs hr fr w,
  let H := FBase hk hi hs in
  let F := FBase fk fi fs in
  (* Worker/Processor/Producer.PreHook: hook, then function, always both *)
  (let '(r, _, w') := run (FPreRec H F) (STwo (SBase hr) (SBase fr)) w in
   wlog w' = (fi, wcall w) :: (hi, wcall w) :: wlog w /\
   r = match outcome_result fk (head_outcome fr) with
       | Pan p => Pan p
       | Ret v e => Ret v (join (hook_err (outcome_result hk (head_outcome hr))) e)
       end) /\
  (* Operation/Future.PreHook: hook, then function; a panicking hook stops the call *)
  (let '(r, _, w') := run (FPreProp H F) (STwo (SBase hr) (SBase fr)) w in
   match outcome_result hk (head_outcome hr) with
   | Pan p => wlog w' = (hi, wcall w) :: wlog w /\ r = Pan p
   | Ret _ _ => wlog w' = (fi, wcall w) :: (hi, wcall w) :: wlog w /\ r = outcome_result fk (head_outcome fr)
   end) /\
  (* Worker/Processor/Producer.PostHook: function, then hook; the hook is skipped if the function panics *)
  (let '(r, _, w') := run (FPostRec H F) (STwo (SBase hr) (SBase fr)) w in
   match outcome_result fk (head_outcome fr) with
   | Pan p => wlog w' = (fi, wcall w) :: wlog w /\ r = Pan p
   | Ret v e => wlog w' = (hi, wcall w) :: (fi, wcall w) :: wlog w /\
                r = Ret v (join (hook_err (outcome_result hk (head_outcome hr))) e)
   end) /\
  (* Operation/Future.PostHook: function, then hook, unconditionally (deferred) *)
  (let '(r, _, w') := run (FPostDefer H F) (STwo (SBase hr) (SBase fr)) w in
   wlog w' = (hi, wcall w) :: (fi, wcall w) :: wlog w /\
   r = match outcome_result hk (head_outcome hr) with
       | Pan q => Pan q
       | Ret _ _ => outcome_result fk (head_outcome fr)
       end).
Proof.
  intros. split; [exact (pre_rec_order hk fk hi fi hs fs hr fr w)|].
  split; [exact (pre_prop_order hk fk hi fi hs fs hr fr w)|].
  split; [exact (post_rec_order hk fk hi fi hs fs hr fr w)|exact (post_defer_order hk fk hi fi hs fs hr fr w)].
Qed.
Print Assumptions hook_order.

(* ================================================================== concurrent, partial *)

(* Once under any number of concurrent callers: the function is started at most once, at most one caller is inside it,
   and a caller that has returned did so after the execution finished, the function ran exactly once, and the caller
   saw its result. *)
Theorem once_exactly_once_all_see_result :
  forall R s, oreach R s ->
  (o_execs s <= 1)%nat /\
  (forall t1 t2, in_do (o_pc s t1) -> in_do (o_pc s t2) -> t1 = t2) /\
  (forall t v, o_pc s t = ODone v -> o_done s = true /\ o_execs s = 1%nat /\ v = R).
Proof. exact once_net_proof. Qed.
Print Assumptions once_exactly_once_all_see_result.

(* adt.Once (Do / Resolve / Called transcribed; `called` is set before the constructor runs): a Do or Resolve return
   step is enabled only after the body's completion step — whoever has returned did so after the single execution
   finished, and Resolve returned its result. *)
Theorem adt_once_do_waits :
  forall R s, areach false R s ->
  (a_execs s <= 1)%nat /\
  (forall t, a_pc s t = ADoneDo -> a_done s = true /\ a_execs s = 1%nat) /\
  (forall t v, a_pc s t = ADoneRes v -> a_done s = true /\ a_execs s = 1%nat /\ v = R).
Proof. exact adt_once_do_waits_proof. Qed.
Print Assumptions adt_once_do_waits.

(* a Do with an `if o.Called() { return }` fast path: a second caller returns while the first is inside the constructor *)
Theorem adt_once_do_waits_fast_path_refuted :
  areach true 7 adt_fast_state /\ a_pc adt_fast_state 2 = ADoneDo /\ a_done adt_fast_state = false /\
  a_pc adt_fast_state 1 = AMarked false.
Proof. exact adt_once_fast_path_refuted. Qed.
Print Assumptions adt_once_do_waits_fast_path_refuted.

(* limitExec under contention: op runs at most n times and never twice at once; at quiescence it has run exactly
   min(n, calls) times; cached-output invariant: a call that did not run op returned the n-th execution's result (the
   fast path is taken only after the counter reached n, which is stored after the output), a call that ran op
   returned its own execution's result. *)
Theorem limit_concurrent_runs_min_n_calls :
  forall n val, 0 < n -> forall s, lreach n val s ->
  Z.of_nat (l_runs s) <= n /\
  (lquiescent s -> Z.of_nat (l_runs s) = Z.min n (Z.of_nat (l_calls s))) /\
  (forall t v, l_pc s t = LDone v false -> v = val (Z.to_nat n) /\ l_counter s = n) /\
  (forall t v, l_pc s t = LDone v true -> exists k, (1 <= k)%nat /\ Z.of_nat k <= n /\ v = val k) /\
  (forall t1 t2 a b, (l_pc s t1 = LRunning a \/ l_pc s t1 = LWrote a) -> (l_pc s t2 = LRunning b \/ l_pc s t2 = LWrote b) -> t1 = t2).
Proof. exact limit_net_proof. Qed.
Print Assumptions limit_concurrent_runs_min_n_calls.

(* Operation.Limit with its Load / CompareAndSwap RETRY loop (Load and CAS are separate steps; a lost CAS re-reads) *)
Theorem limit_concurrent_runs_min_n_calls_operation :
  forall n, 0 < n -> forall s, creach true n s ->
  Z.of_nat (c_runs s) <= n /\ (c_active s = [] -> Z.of_nat (c_runs s) = Z.min n (Z.of_nat (c_calls s))).
Proof. exact limit_cas_net_proof. Qed.
Print Assumptions limit_concurrent_runs_min_n_calls_operation.

(* without the retry (`current < n && CAS(current, current+1)`) a caller that loses the CAS is turned away: a quiescent
   reachable state with 2 calls, limit 2 and 1 execution *)
Theorem limit_concurrent_operation_noretry_refuted :
  creach false 2 cas_noretry_state /\ c_active cas_noretry_state = [] /\
  c_calls cas_noretry_state = 2%nat /\ c_runs cas_noretry_state = 1%nat.
Proof. exact limit_cas_noretry_refuted. Qed.
Print Assumptions limit_concurrent_operation_noretry_refuted.

(* Lock / WithLock never run two executions at once *)
Theorem lock_mutual_exclusion :
  forall s, mreach s -> forall t1 t2, m_pc s t1 = MIn -> m_pc s t2 = MIn -> t1 = t2.
Proof. exact lock_mutual_exclusion_proof. Qed.
Print Assumptions lock_mutual_exclusion.

(* Operation.Launch (as fixed) / Operation.Signal: a waiter that returned other than through its own context did so
   after the background operation finished and the channel was closed; while the channel is open and its context live
   neither return step is enabled. *)
Theorem launch_waiter_waits :
  forall s, sreach true s ->
  forall t, (s_pc s t = WReturned false -> s_bg s = BClosed) /\ (s_pc s t = WReturned true -> s_cancelled s t = true).
Proof. exact launch_waiter_waits_proof. Qed.
Print Assumptions launch_waiter_waits.

(* the Launch of the tree before fix C15-operation-launch: the waiter can return while the operation has not even started *)
Theorem launch_waiter_waits_unfixed_refuted :
  exists s, sreach false s /\ s_pc s 0 = WReturned false /\ s_bg s = BReady.
Proof. exact launch_unfixed_refuted. Qed.
Print Assumptions launch_waiter_waits_unfixed_refuted.

(* Worker.Launch / Worker.Signal / Background (WorkerFuture with its `pipe.ch` state): the waiter gets the worker's
   result, after the worker finished; a call that sees the channel closed, or finds the future disarmed and returns nil
   at once, does so only after the worker finished and the channel was closed *)
Theorem worker_launch_waiter_waits :
  forall R s, vreach false R s ->
  forall t, (forall v, v_pc s t = RGot v -> v = R /\ v_finished s = true) /\
            (v_pc s t = RClosed -> v_bg s = VClosed) /\
            (v_pc s t = RNil -> v_bg s = VClosed) /\
            (v_pc s t = RCtx -> v_cancelled s t = true).
Proof. exact worker_launch_waits_proof. Qed.
Print Assumptions worker_launch_waiter_waits.

(* a wait that gives up because its own context ended leaves the waiter unchanged (re-waitable): the step changes only
   that caller's program counter, and a later wait with a live context, made while the background worker has not
   finished, blocks — none of its return steps is enabled *)
Theorem launch_waiter_rewaitable_after_timeout :
  (forall R s t s', vstep_exec false R s (VWCtx t) = Some s' ->
     v_armed s' = v_armed s /\ v_bg s' = v_bg s /\ v_closed s' = v_closed s /\ v_lctx s' = v_lctx s /\
     v_cancelled s' = v_cancelled s /\ (forall x, x <> t -> v_pc s' x = v_pc s x)) /\
  (forall R s t, vreach false R s -> v_finished s = false -> v_cancelled s t = false -> v_pc s t = RIdle ->
     exists s1, vstep_exec false R s (VWCall t) = Some s1 /\ v_pc s1 t = RWaiting /\
                vstep_exec false R s1 (VWRecv t) = None /\ vstep_exec false R s1 (VWClosed t) = None /\
                vstep_exec false R s1 (VWCtx t) = None).
Proof. split; [exact launch_rewaitable_proof|exact launch_later_wait_blocks]. Qed.
Print Assumptions launch_waiter_rewaitable_after_timeout.

(* the shape in which a context error also disarms the future (pipe.ch = nil): after one timed-out wait a second wait
   returns nil at once while the background worker is still running *)
Theorem launch_waiter_rewaitable_after_timeout_refuted :
  vreach true 7 launch_clear_state /\ v_pc launch_clear_state 1 = RCtx /\ v_pc launch_clear_state 2 = RNil /\
  v_bg launch_clear_state = VRunning.
Proof. exact launch_rewaitable_refuted. Qed.
Print Assumptions launch_waiter_rewaitable_after_timeout_refuted.

(* StartGroup / Add: the waiter returns only after all n background executions have finished *)
Theorem startgroup_waiter_waits :
  forall n s, greach n s ->
  forall t, (g_pc s t = WReturned false -> g_completed s = n) /\ (g_pc s t = WReturned true -> g_cancelled s t = true).
Proof. exact startgroup_waiter_waits_proof. Qed.
Print Assumptions startgroup_waiter_waits.

(* the trace replays used by the correspondence check only take steps of the nets: an accepted trace ends in a
   reachable state, so every theorem above applies to what was observed *)
Theorem trace_replays_are_runs :
  (forall R evs s, replay (once_tr R) oinit evs = Some s -> oreach R s) /\
  (forall n evs s, replay (limit_tr n) linit evs = Some s -> lreach n idval s) /\
  (forall n all evs s, replay (climit_tr n all) cinit evs = Some s -> creach true n s) /\
  (forall R res evs s, replay (adt_tr R res) ainit evs = Some s -> areach false R s) /\
  (forall evs s, replay lock_tr minit evs = Some s -> mreach s) /\
  (forall evs s, replay signal_tr sinit evs = Some s -> sreach true s) /\
  (forall R evs s, replay (send_tr R) vinit evs = Some s -> vreach false R s) /\
  (forall n evs s0 s, launch_all n n (ginit n) = Some s0 -> replay (group_tr n) s0 evs = Some s -> greach n s).
Proof.
  repeat split.
  - exact once_replay_sound.
  - exact limit_replay_sound.
  - exact climit_replay_sound.
  - exact adt_replay_sound.
  - exact lock_replay_sound.
  - exact signal_replay_sound.
  - exact send_replay_sound.
  - exact group_replay_sound.
Qed.
Print Assumptions trace_replays_are_runs.
