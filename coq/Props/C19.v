(* C19 — property theorems only. Each is closed by `exact` of a lemma proved in Proofs/Hdr_*.v.

   The model (Model/Hdr.v) is the Go code of dt/hdrhist statement by statement, in Z with explicit
   int32/int64 wraps.  [shape_ok lo hi sig] = 1 <= sig <= 5, 1 <= lo <= hi < 2^62 and
   floor(log2 lo) + subBucketCountMagnitude(sig) <= 62: the shapes for which New does not overflow int64
   (outside them its bucket loop may not terminate; that is a hypothesis of every theorem below).
   [run_hops h0 ops] = the histogram after an arbitrary list of RecordValues(v, n) (any v, n >= 0) and Reset calls;
   [record_all h0 l] = after recording the (value, count) list l; [weight P l] = number of recorded occurrences whose
   value satisfies P; [is_kth lo hi l k e] = e is in range, fewer than k occurrences are < e and at least k are <= e,
   i.e. e is the k-th order statistic of the recorded data. *)
From FunV Require Import Base.Tac Model.Hdr Proofs.Hdr_bits Proofs.Hdr_geom Proofs.Hdr_walk Proofs.Hdr_data Proofs.Hdr_main Proofs.Hdr_store Proofs.Hdr_window Proofs.Hdr_newloop.
Local Open Scope Z_scope.

(* bitLen is the bit length of every positive int64 (unbounded proof from Z.log2/shift facts, no sweep) *)
Theorem C19_bitlen_spec : forall x, 0 < x < 2 ^ 63 -> bitLen x = Z.log2 x + 1.
Proof. exact bitlen_spec. Qed.
Print Assumptions C19_bitlen_spec.

(* New returns (no panic, loop terminates) with this geometry; the last bucket ends above max *)
Theorem C19_new_geometry :
  forall lo hi sig, shape_ok lo hi sig ->
  exists h, new_hist lo hi sig = Ok h /\
    h_unit h = Z.log2 lo /\ h_sbc h = 2 ^ scm_of sig /\ h_shc h = 2 ^ (scm_of sig - 1) /\
    h_mask h = (2 ^ scm_of sig - 1) * 2 ^ Z.log2 lo /\
    1 <= h_bc h /\ hi < h_sbc h * 2 ^ (h_unit h + h_bc h - 1) /\
    h_clen h = (h_bc h + 1) * h_shc h /\ h_len h = h_clen h.
Proof. exact new_total. Qed.
Print Assumptions C19_new_geometry.

(* recording any value in [min, max] always succeeds: its counts index is valid *)
Theorem C19_record_in_range_succeeds :
  forall lo hi sig h0, shape_ok lo hi sig -> new_hist lo hi sig = Ok h0 ->
  forall v, lo <= v <= hi ->
  0 <= counts_index_for h0 v < h_clen h0 /\ (forall n, snd (record_values h0 v n) = true).
Proof. exact record_in_range_succeeds. Qed.
Print Assumptions C19_record_in_range_succeeds.

(* equivalent range: lowestEq v <= v <= highestEq v (no invariant panic), its size is 2^(unit+bucket v),
   and that is at most max(2^floor(log2 min), v / 10^sigfigs) *)
Theorem C19_equiv_range :
  forall lo hi sig h0, shape_ok lo hi sig -> new_hist lo hi sig = Ok h0 ->
  forall v, lo <= v <= hi ->
  exists hv, highest_equivalent_value h0 v = Some hv /\
    lowest_equivalent_value h0 v <= v <= hv /\
    hv - lowest_equivalent_value h0 v + 1 = 2 ^ (h_unit h0 + get_bucket_index h0 v) /\
    hv - lowest_equivalent_value h0 v + 1 <= Z.max (2 ^ Z.log2 lo) (v / 10 ^ sig).
Proof. exact equiv_range. Qed.
Print Assumptions C19_equiv_range.

(* both ends of v's equivalent range have v's counts index *)
Theorem C19_index_roundtrip :
  forall lo hi sig h0, shape_ok lo hi sig -> new_hist lo hi sig = Ok h0 ->
  forall v, lo <= v <= hi ->
  counts_index_for h0 (lowest_equivalent_value h0 v) = counts_index_for h0 v /\
  (forall hv, highest_equivalent_value h0 v = Some hv -> counts_index_for h0 hv = counts_index_for h0 v).
Proof. exact index_roundtrip_range. Qed.
Print Assumptions C19_index_roundtrip.

(* after ANY list of RecordValues/Reset calls: totalCount = occurrences accepted since the last Reset = sum of counts *)
Theorem C19_total_conserved :
  forall lo hi sig h0, shape_ok lo hi sig -> new_hist lo hi sig = Ok h0 ->
  forall ops, ops_nonneg ops -> ops_weight ops < 2 ^ 63 ->
  h_total (run_hops h0 ops) = spec_total h0 0 ops /\
  h_total (run_hops h0 ops) = cum (h_counts (run_hops h0 ops)) (h_clen (run_hops h0 ops) - 1).
Proof. exact total_conserved. Qed.
Print Assumptions C19_total_conserved.

(* recording in-range values: every call succeeds and TotalCount = number of recorded occurrences *)
Theorem C19_records_succeed_and_count :
  forall lo hi sig h0, shape_ok lo hi sig -> new_hist lo hi sig = Ok h0 ->
  forall l, valid_recs lo hi l -> w_all l < 2 ^ 63 ->
  all_true (record_oks h0 l) /\ total_count (record_all h0 l) = w_all l.
Proof. exact records_succeed_and_count. Qed.
Print Assumptions C19_records_succeed_and_count.

(* for every rank 1 <= k <= total the exact order statistic e exists and value_at_rank returns v with
   e <= v and v - e < bucket width at e <= max(2^floor(log2 min), e / 10^sigfigs) *)
Theorem C19_quantile_bound :
  forall lo hi sig h0, shape_ok lo hi sig -> new_hist lo hi sig = Ok h0 ->
  forall l, valid_recs lo hi l -> w_all l < 2 ^ 63 ->
  forall k, 1 <= k <= w_all l ->
  exists e v, is_kth lo hi l k e /\ value_at_rank (record_all h0 l) k = Ok v /\ e <= v /\
    v - e < 2 ^ (h_unit h0 + get_bucket_index h0 e) /\
    2 ^ (h_unit h0 + get_bucket_index h0 e) <= Z.max (2 ^ Z.log2 lo) (e / 10 ^ sig).
Proof. exact quantile_bound_all. Qed.
Print Assumptions C19_quantile_bound.

(* ... and the answer is exactly highestEquivalent(e) for every k-th order statistic e *)
Theorem C19_quantile_exact :
  forall lo hi sig, shape_ok lo hi sig ->
  forall h0 l, new_hist lo hi sig = Ok h0 -> valid_recs lo hi l -> w_all l < 2 ^ 63 ->
  forall k e, is_kth lo hi l k e ->
  value_at_rank (record_all h0 l) k = Ok (highest (Z.log2 lo) (scm_of sig) e).
Proof. exact quantile_exact. Qed.
Print Assumptions C19_quantile_exact.

(* Min brackets the smallest recorded value (positive count) from below with the same precision *)
Theorem C19_min_bracket :
  forall lo hi sig h0, shape_ok lo hi sig -> new_hist lo hi sig = Ok h0 ->
  forall l, valid_recs lo hi l -> w_all l < 2 ^ 63 ->
  forall e, lo <= e <= hi -> weight (fun v => v <? e) l = 0 -> 0 < weight (fun v => v =? e) l ->
  exists v, hist_min (record_all h0 l) = Ok v /\ v <= e /\
    e - v < 2 ^ (h_unit h0 + get_bucket_index h0 e) /\
    2 ^ (h_unit h0 + get_bucket_index h0 e) <= Z.max (2 ^ Z.log2 lo) (e / 10 ^ sig).
Proof. exact min_bracket_model. Qed.
Print Assumptions C19_min_bracket.

(* Max brackets the largest recorded value from above with the same precision *)
Theorem C19_max_bracket :
  forall lo hi sig h0, shape_ok lo hi sig -> new_hist lo hi sig = Ok h0 ->
  forall l, valid_recs lo hi l -> w_all l < 2 ^ 63 ->
  forall e, lo <= e <= hi -> weight (fun v => e <? v) l = 0 -> 0 < weight (fun v => v =? e) l ->
  exists v, hist_max (record_all h0 l) = Ok v /\ e <= v /\
    v - e < 2 ^ (h_unit h0 + get_bucket_index h0 e) /\
    2 ^ (h_unit h0 + get_bucket_index h0 e) <= Z.max (2 ^ Z.log2 lo) (e / 10 ^ sig).
Proof. exact max_bracket_model. Qed.
Print Assumptions C19_max_bracket.

(* no valid sequence of calls trips the internal invariant panics *)
Theorem C19_iterator_never_panics :
  forall lo hi sig h0, shape_ok lo hi sig -> new_hist lo hi sig = Ok h0 ->
  forall ops, ops_nonneg ops -> ops_weight ops < 2 ^ 63 ->
  (forall n, iter_run n (run_hops h0 ops) iter_init <> SPanic) /\
  (forall k, exists r, value_at_rank (run_hops h0 ops) k = Ok r) /\
  (exists r, hist_min (run_hops h0 ops) = Ok r) /\ (exists r, hist_max (run_hops h0 ops) = Ok r).
Proof. exact no_invariant_panic. Qed.
Print Assumptions C19_iterator_never_panics.

(* Export followed by Import gives a histogram Equal to the original (both directions), same TotalCount *)
Theorem C19_export_import_equal :
  forall lo hi sig h0, shape_ok lo hi sig -> new_hist lo hi sig = Ok h0 ->
  forall ops, ops_nonneg ops -> ops_weight ops < 2 ^ 63 ->
  exists h', import (export (run_hops h0 ops)) = Ok h' /\
    equals (run_hops h0 ops) h' = Ok true /\ equals h' (run_hops h0 ops) = Ok true /\
    total_count h' = total_count (run_hops h0 ops).
Proof. exact reach_export_import_equal. Qed.
Print Assumptions C19_export_import_equal.

(* Merge into an empty histogram of the same shape: nothing dropped, result Equal to the original *)
Theorem C19_merge_into_empty_equal :
  forall lo hi sig h0, shape_ok lo hi sig -> new_hist lo hi sig = Ok h0 ->
  forall ops, ops_nonneg ops -> ops_weight ops < 2 ^ 63 ->
  exists t', merge h0 (run_hops h0 ops) = Ok (t', 0) /\ equals t' (run_hops h0 ops) = Ok true /\
    total_count t' = total_count (run_hops h0 ops).
Proof. exact reach_merge_into_empty_equal. Qed.
Print Assumptions C19_merge_into_empty_equal.

(* window.go: WindowedHistogram.Merge returns a histogram whose counts and TotalCount are the sums over all
   windows (nothing dropped, no panic), for windows that are arbitrary reachable histograms of one shape *)
Theorem C19_window_merge_total :
  forall lo hi sig h0, shape_ok lo hi sig -> new_hist lo hi sig = Ok h0 ->
  forall idx opss mops, Forall ops_ok opss -> ops_ok mops -> sum_totals (map (run_hops h0) opss) < 2 ^ 63 ->
  exists w', w_merge (mkW idx (map (run_hops h0) opss) (run_hops h0 mops)) = Ok w' /\
    w_h w' = map (run_hops h0) opss /\ w_idx w' = idx /\
    h_total (w_m w') = sum_totals (map (run_hops h0) opss) /\
    (forall i, h_counts (w_m w') i = sum_counts (map (run_hops h0) opss) i).
Proof. exact window_merge_total. Qed.
Print Assumptions C19_window_merge_total.

(* several live histograms (source, snapshots, imported copies, merge targets): an operation on one store
   entry leaves every other histogram and snapshot unchanged; Export/Import/New only append.  Trivial in the
   functional model -- the implementation is held to it by the multi-histogram correspondence cases and the
   per-histogram oracles (signatures C19:Export:aliased / C19:Import:aliased). *)
Theorem C19_export_import_independent :
  forall lo hi sig st o st' r, mstep lo hi sig st o = Ok (st', r) ->
  (forall j, (j < length (ms_h st))%nat -> mop_target o <> Some j ->
             nth_error (ms_h st') j = nth_error (ms_h st) j) /\
  (length (ms_h st) <= length (ms_h st'))%nat /\
  (forall k, (k < length (ms_s st))%nat -> (forall j d, o <> MScribble k j d) ->
             nth_error (ms_s st') k = nth_error (ms_s st) k) /\
  (length (ms_s st) <= length (ms_s st'))%nat.
Proof. exact export_import_independent. Qed.
Print Assumptions C19_export_import_independent.

(* window.go over arbitrary call lists (WcRecord v = Current.RecordValue(v) with v in range, WcRotate, WcMerge).
   [periods ops] = occurrences per rotation period, newest first; [win_tot n P] = the newest n periods (padded with
   empty ones); [merged_view lo hi sig n ops] = NewWindowed(n,..); ops; Merge(). *)
Theorem C19_window_conserves :
  forall lo hi sig, shape_ok lo hi sig ->
  forall n ops, 1 <= n -> wops_ok lo hi ops -> Z.of_nat (length ops) < 2 ^ 62 ->
  exists m, merged_view lo hi sig n ops = Ok m /\
            h_total m = sumz (win_tot (Z.to_nat n) (periods ops)) /\ wf lo hi sig m.
Proof. exact window_conserves. Qed.
Print Assumptions C19_window_conserves.

(* two Merges with no call in between return the same view; it is Equal to itself *)
Theorem C19_window_merge_idempotent :
  forall lo hi sig, shape_ok lo hi sig ->
  forall n ops, 1 <= n -> wops_ok lo hi ops -> Z.of_nat (length ops) < 2 ^ 62 ->
  exists m, merged_view lo hi sig n ops = Ok m /\ merged_view lo hi sig n (ops ++ [WcMerge]) = Ok m /\
            equals m m = Ok true.
Proof. exact window_merge_idempotent. Qed.
Print Assumptions C19_window_merge_idempotent.

(* Rotate removes from the merged view exactly the period n-1 rotations back (the oldest section) *)
Theorem C19_window_rotate_drops_oldest :
  forall lo hi sig, shape_ok lo hi sig ->
  forall n ops, 1 <= n -> wops_ok lo hi ops -> Z.of_nat (length ops) < 2 ^ 62 ->
  exists m m', merged_view lo hi sig n ops = Ok m /\ merged_view lo hi sig n (ops ++ [WcRotate]) = Ok m' /\
    h_total m' = h_total m - nth (Z.to_nat n - 1) (periods ops ++ repeat 0 (Z.to_nat n)) 0.
Proof. exact window_rotate_drops_oldest. Qed.
Print Assumptions C19_window_rotate_drops_oldest.

(* the exact boundary of New's termination for sigfigs 1..5, 1 <= min <= max < 2^63: inside shape_ok it returns;
   outside, the bucket-count loop never ends (the fuelled model loop is out of fuel for every fuel) *)
Theorem C19_new_rejects_or_terminates :
  forall lo hi sig, 1 <= sig <= 5 -> 1 <= lo -> lo <= hi -> hi < 2 ^ 63 ->
  (hi < 2 ^ 62 /\ Z.log2 lo + scm_of sig <= 62 -> exists h, new_hist lo hi sig = Ok h) /\
  (2 ^ 62 <= hi \/ 62 < Z.log2 lo + scm_of sig -> new_hist lo hi sig = Diverge) /\
  (2 ^ 62 <= hi \/ 62 < Z.log2 lo + scm_of sig ->
   forall fuel, bucket_loop fuel hi (wrap64 (2 ^ (scm_of sig + Z.log2 lo))) 1 = None).
Proof. exact new_terminates_iff. Qed.
Print Assumptions C19_new_rejects_or_terminates.
