(* C20 — property theorems only. Each is closed by `exact` of a lemma proved in Proofs/Cursor_*.v.
   The transition systems (Model/QueueCursor.v, Model/DequeCursor.v) have unboundedly many iterator
   goroutines; `reach` / `dreach` quantify over every schedule of their atomic segments interleaved with
   Add/Push, Remove/Pop, Close and cancellation.  `yielded` is the list of values an iterator's Next calls
   have returned so far (theorem iter_history_is_events ties it to the emitted events). *)
From FunV Require Import Base.Tac Model.QueueCursor Model.DequeCursor
  Proofs.Cursor_queue Proofs.Cursor_ring Proofs.Cursor_deque Proofs.Cursor_monitor.

(* ------------------------------------------------------------------ pubsub.Queue iterator *)

(* No schedule makes an iterator (or Remove) dereference nil: the cursor always stands on an entry of the
   one chain that the repaired popFront maintains. *)
Theorem iter_never_panics :
  forall s, reach s ->
    (forall i, ipc (its s i) <> Crashed) /\
    (forall l, snd (step s l) <> EvPanicOp /\ forall i, snd (step s l) <> EvRes i RPanic).
Proof. intros s H. split; [intros i; apply no_crash|intros l; apply step_no_panic]; apply reach_inv, H. Qed.
Print Assumptions iter_never_panics.

(* In order, each exactly once, nothing skipped - for EVERY schedule (also with concurrent Remove): what an
   iterator has yielded is the contiguous run of the added values that begins at the front it saw in S0. *)
Theorem iter_no_removal_in_order_once :
  forall s i, reach s ->
    let t := its s i in
    yielded t = firstn (pos t - start t) (skipn (start t) (added (sq s))).
Proof. intros s i H. apply yielded_segment, reach_inv, H. Qed.
Print Assumptions iter_no_removal_in_order_once.

(* ... where the queue's contents are the added values from the front on, and S0 records that front. *)
Theorem iter_starts_at_contents :
  forall s, reach s ->
    contents (sq s) = skipn (front (sq s)) (added (sq s)) /\
    forall i, ipc (its s i) = Called -> cur (its s i) = None ->
      start (its (fst (step s (LRun i))) i) = front (sq s).
Proof. intros s H. split; [apply contents_eq, reach_inv, H|intros i; apply start_is_front]. Qed.
Print Assumptions iter_starts_at_contents.

Theorem iter_history_is_events :
  forall ls s i, yielded (its (fst (run s ls)) i) = yielded (its s i) ++ flat_map (yields_of i) (snd (run s ls)).
Proof. exact run_history. Qed.
Print Assumptions iter_history_is_events.

Theorem iter_never_invents :
  forall s i v, reach s -> In v (yielded (its s i)) -> In v (added (sq s)).
Proof. intros s i v H. apply yielded_in_added, reach_inv, H. Qed.
Print Assumptions iter_never_invents.

(* A Next call made while an unseen item is linked in returns exactly the next one (never waits, never
   skips); a call that went to wait continues the same way when it is resumed or woken. *)
Theorem iter_continues_with_later_adds :
  forall s i, reach s ->
    let q := sq s in
    (ipc (its s i) = Ready ->
       let p := here q (its s i) in
       snd (qstep s (QCall i)) =
         ObIt (if S p <? nxt q then RYield (item (heap q (S p))) else if closed q then REOF else RWindow)) /\
    (forall c, ipc (its s i) = Window \/ ipc (its s i) = Woken -> cur (its s i) = Some c ->
       snd (qstep s (QGo i)) =
         ObIt (if S c <? nxt q then RYield (item (heap q (S c)))
               else if closed q then RClosed else if cancelled (its s i) then RCtx else RParked)).
Proof.
  intros s i H. split; [intros E; apply call_result; [apply reach_inv, H|exact E]|].
  intros c E Ec. apply go_result; [apply reach_inv, H|exact E|exact Ec].
Qed.
Print Assumptions iter_continues_with_later_adds.

(* An iterator on the wait list with no wake-up pending (Parked, i.e. at quiescence) has seen everything:
   its cursor is the newest entry, it has yielded every value from its start on, the queue is open and its
   context alive. *)
Theorem iter_not_blocked_with_unseen_item :
  forall s i, reach s -> ipc (its s i) = Parked ->
    cur (its s i) = Some (back (sq s)) /\ closed (sq s) = false /\ cancelled (its s i) = false /\
    yielded (its s i) = skipn (start (its s i)) (added (sq s)).
Proof. intros s i H. apply parked_seen_all, reach_inv, H. Qed.
Print Assumptions iter_not_blocked_with_unseen_item.

(* After Close nothing is added any more, no iterator stays parked, every call returns the next unseen
   item or EOF, and a waiting call returns the next unseen item or ErrQueueClosed (which wraps io.EOF). *)
Theorem iter_eof_after_close :
  forall s i, reach s -> closed (sq s) = true ->
    let q := sq s in
    (forall l, closed (sq (fst (step s l))) = true /\ added (sq (fst (step s l))) = added q) /\
    ipc (its s i) <> Parked /\
    (ipc (its s i) = Ready ->
       snd (qstep s (QCall i)) =
         ObIt (let p := here q (its s i) in if S p <? nxt q then RYield (item (heap q (S p))) else REOF)) /\
    (forall c, ipc (its s i) = Window \/ ipc (its s i) = Woken -> cur (its s i) = Some c ->
       snd (qstep s (QGo i)) = ObIt (if S c <? nxt q then RYield (item (heap q (S c))) else RClosed)).
Proof.
  intros s i H Hc. split; [intros l; apply closed_stable; [apply reach_inv, H|exact Hc]|].
  apply eof_after_close; [apply reach_inv, H|exact Hc].
Qed.
Print Assumptions iter_eof_after_close.

(* A rejected Add (tracker error, or closed queue) changes nothing at all - in particular no entry becomes
   reachable from any cursor; with iter_never_invents: its value is never yielded. *)
Theorem iter_rejected_add_invisible :
  forall s v, step s (LAddRej v) = (s, EvAdd false) /\
              (closed (sq s) = true -> step s (LAdd v) = (s, EvAdd false)).
Proof. exact rejected_add_invisible. Qed.
Print Assumptions iter_rejected_add_invisible.

Theorem iter_does_not_modify_queue :
  forall s i, sq (fst (step s (LCall i))) = sq s /\ sq (fst (step s (LRun i))) = sq s.
Proof. exact iter_steps_keep_queue. Qed.
Print Assumptions iter_does_not_modify_queue.

(* The same wake-up statement in the finer generic monitor model of Conc/Monitor.v (separate lock acquisition,
   the Parking window before cond.Wait registers the waiter, helper broadcasts as later steps), for every
   program of Add / Remove / Close / waitForNew(cursor) threads: *)
Theorem iter_waitForNew_parked_sees_all :
  forall prog hl ok s t c,
    iter_prog prog -> M.reach queue prog q0 hl ok s -> prog t = M.OWaiter (w_iter c) ->
    (M.thr s t = M.Parking \/ M.thr s t = M.Parked) ->
    has_next c (M.dat s) = false /\ closed (M.dat s) = false.
Proof. exact waitForNew_parked_sees_all. Qed.
Print Assumptions iter_waitForNew_parked_sees_all.

Theorem iter_waitForNew_no_lost_cancel :
  forall prog hl ok s t c,
    M.ctx_guard queue hl ok -> M.reach queue prog q0 hl ok s -> M.quiescent s ->
    prog t = M.OWaiter (w_iter c) -> M.thr s t = M.Parked -> M.ended s t = false.
Proof. exact waitForNew_no_lost_cancel. Qed.
Print Assumptions iter_waitForNew_no_lost_cancel.

(* ------------------------------------------------------------------ pubsub.Deque iterators *)

Theorem deque_iter_never_panics :
  forall vars s, dreach vars s ->
    (forall i, dipc (dits s i) <> DCrashed) /\
    (forall l, snd (dstep s l) <> EvPanicOp /\ forall i, snd (dstep s l) <> EvRes i RPanic).
Proof.
  intros vars s H. pose proof (dreach_inv _ _ H) as Hi.
  split; [intros i; apply d_no_crash, Hi|intros l; apply (dstep_ok s l Hi)].
Qed.
Print Assumptions deque_iter_never_panics.

Theorem deque_iter_never_invents :
  forall vars s i v, dreach vars s -> In v (dyielded (dits s i)) -> In v (dpushed (sd s)).
Proof. intros vars s i v H. apply d_yielded_pushed, (dreach_inv _ _ H). Qed.
Print Assumptions deque_iter_never_invents.

(* Every schedule: an iterator whose cursor is on the ring (its element has not been popped) returns the
   element that follows it in container order (reverse order for the reverse variants); at the end a
   non-blocking iterator reports EOF and a blocking one parks / reports Close / reports cancellation. *)
Theorem deque_iter_follows_container_order :
  forall vars s i l, dreach vars s -> ring (sd s) l -> dipc (dits s i) = DReady -> In (cursor (dits s i)) (0 :: l) ->
    let t := dits s i in
    exists n, next_after (cursor t) (order (v_rev (dvar t)) l) = Some n /\
              snd (dqstep s (DCall i)) = ObIt (call_result_of (sd s) t n).
Proof. intros vars s i l H. apply dcall_result, (dreach_inv _ _ H). Qed.
Print Assumptions deque_iter_follows_container_order.

(* Absent removals (no Pop in the schedule) every cursor is on the ring, so the above holds outright. *)
Theorem deque_iter_no_removal_in_order_once :
  forall vars s i, dreach_np vars s -> dipc (dits s i) = DReady ->
    let t := dits s i in
    exists l n, ring (sd s) l /\ next_after (cursor t) (order (v_rev (dvar t)) l) = Some n /\
                snd (dqstep s (DCall i)) = ObIt (call_result_of (sd s) t n).
Proof. exact np_call_result. Qed.
Print Assumptions deque_iter_no_removal_in_order_once.

(* The non-blocking iterators, run to the end on contents l, yield exactly l (reversed for the reverse
   variant), each element once, and then report EOF: they finish at the end. *)
Theorem deque_nonblocking_iter_ends_at_end :
  forall s i l, ring (sd s) l ->
    let t := dits s i in
    dipc t = DReady -> v_blocking (dvar t) = false -> dcur t = None ->
    dqrun s (repeat (DCall i) (S (length l))) =
      map (fun k => ObIt (RYield (eitem (dheap (sd s) k)))) (if v_rev (dvar t) then rev l else l) ++ [ObIt REOF].
Proof. exact solo_run. Qed.
Print Assumptions deque_nonblocking_iter_ends_at_end.

(* A blocking producer that is parked with no wake-up pending has no successor in its direction (absent
   removals), the deque is open and its context alive. *)
Theorem deque_iter_not_blocked_with_unseen_item :
  forall vars s i cap, dreach_np vars s -> dipc (dits s i) = DParked cap ->
    let t := dits s i in
    exists l, ring (sd s) l /\ next_after (cursor t) (order (v_rev (dvar t)) l) = Some root /\
              v_blocking (dvar t) = true /\ dclosed (sd s) = false /\ dcancelled t = false.
Proof. exact np_parked_no_successor. Qed.
Print Assumptions deque_iter_not_blocked_with_unseen_item.

(* Every schedule, also with concurrent Pop: once the deque is closed no producer stays parked. *)
Theorem deque_iter_returns_after_close :
  forall vars s i cap, dreach vars s -> dclosed (sd s) = true -> dipc (dits s i) <> DParked cap.
Proof. intros vars s i cap H. apply d_closed_not_parked, (dreach_inv _ _ H). Qed.
Print Assumptions deque_iter_returns_after_close.

(* element.wait in the finer generic monitor model of Conc/Monitor.v (Parking window, watcher broadcast as a
   separate step), for every program of Push / Pop / Close / element.wait threads. *)
Theorem deque_iter_wait_parked_unchanged :
  forall prog hl ok s t k c rv cap,
    dwait_prog prog -> k = NFRONT \/ k = NBACK \/ k = UPDATES ->
    M.reach deque prog d0 hl ok s -> prog t = M.OWaiter (w_dwait k c rv cap) ->
    (M.thr s t = M.Parking \/ M.thr s t = M.Parked) ->
    get rv (dheap (M.dat s) c) = cap /\ dclosed (M.dat s) = false.
Proof. exact deque_wait_parked_unchanged. Qed.
Print Assumptions deque_iter_wait_parked_unchanged.

(* "still returns on cancellation": with the watcher broadcasting under the deque's mutex (hl = true) no
   schedule leaves a producer parked at quiescence with an ended context; ctx_guard names exactly what a
   watcher that broadcasts WITHOUT the mutex loses (the window between the ctx check and cond.Wait). *)
Theorem deque_iter_wait_no_lost_cancel :
  forall prog hl ok s t k c rv cap,
    M.ctx_guard deque hl ok -> M.reach deque prog d0 hl ok s -> M.quiescent s ->
    prog t = M.OWaiter (w_dwait k c rv cap) -> M.thr s t = M.Parked -> M.ended s t = false.
Proof. exact deque_wait_no_lost_cancel. Qed.
Print Assumptions deque_iter_wait_no_lost_cancel.

(* ForcePushFront/ForcePushBack (evict at the opposite end when at capacity, then insert, the insertion point
   read after the eviction) keep the ring well-formed - as every step does (dreach -> ring), so every theorem
   above holds on deques filled or changed by Force pushes. *)
Theorem deque_force_push_keeps_ring :
  forall vars s v back full, dreach vars s ->
    exists l, ring (sd (fst (dstep s (LForcePush v back full)))) l.
Proof. intros vars s v back full H. apply force_push_ring, (dreach_inv _ _ H). Qed.
Print Assumptions deque_force_push_keeps_ring.
