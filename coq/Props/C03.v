(* C03 — property theorems only. Each is closed by `exact` of a lemma proved elsewhere.
   Decision table: Model/WorkerConf.v (full: all configurations, ExcludedErrors arbitrary).
   Network: Model/WorkerGroup.v (partial in DESIGN's sense: all interleavings of the modelled atomic
   steps, any number of workers, any input, any user function; channel hand-off, context and wait
   group are model primitives). *)
From FunV Require Import Base.Tac Base.ListX Model.WorkerConf Model.WorkerGroup
  Proofs.WorkerConf_table Proofs.WorkerGroup_inv Proofs.WorkerGroup_seq.

(* ---------------------------------------------------------------- the decision table *)

(* every cell (all option bits, arbitrary ExcludedErrors, every kind except the known finding) equals
   the contract; ErrRecoveredPanic is found for a panic; the original error is found *)
Theorem C03_classify_table :
  forall c k id tagged, well_formed c k id -> avoids_error_slice k = true -> table_cell c k id tagged.
Proof. exact classify_table. Qed.
Print Assumptions C03_classify_table.

(* known finding C03:ParsePanic:error-slice — the unguarded table is false of the code ... *)
Theorem C03_classify_table_refuted : ~ classify_table_statement.
Proof. exact classify_table_refuted. Qed.
Print Assumptions C03_classify_table_refuted.

(* ... and this is what the code does instead: recorded, not marked, governed by ContinueOnError *)
Theorem C03_classify_error_slice :
  forall c id tagged, (0 <= id)%Z -> ~ In id (excluded c) ->
    classify c PanicErrSlice id tagged = mkdec true (continue_on_error c) /\
    (forall e, err_of PanicErrSlice id tagged = Some e -> is e id_panic = false /\ is e id = true).
Proof. exact classify_error_slice. Qed.
Print Assumptions C03_classify_error_slice.

(* the switch, arm by arm, for EVERY error (as an errors.Is-profile) and every configuration *)
Theorem C03_can_continue_arms :
  forall (c : conf) (e : err),
  let d := can_continue c (Some e) in
  (is e id_panic = true -> record d = true /\ continue d = continue_on_panic c) /\
  (is e id_panic = false -> is e id_skip = true -> record d = false /\ continue d = true) /\
  (is e id_panic = false -> is e id_skip = false -> is e id_eof = true -> record d = false /\ continue d = false) /\
  (is e id_panic = false -> is e id_skip = false -> is e id_eof = false ->
     is e id_canceled || is e id_deadline = true -> record d = include_ctx c /\ continue d = false) /\
  (is e id_panic = false -> is e id_skip = false -> is e id_eof = false ->
     is e id_canceled || is e id_deadline = false ->
       (is_any e (excluded c) = true -> record d = false /\ continue d = true) /\
       (is_any e (excluded c) = false -> record d = true /\ continue d = continue_on_error c)).
Proof. exact can_continue_arms. Qed.
Print Assumptions C03_can_continue_arms.

(* panics are always recorded and governed by ContinueOnPanic, whatever else their value matches:
   every configuration, EVERY error profile containing ErrRecoveredPanic (io.EOF, ErrIteratorSkip,
   ErrCurrentOpAbort, context errors, excluded sentinels ... may all be present as well) *)
Theorem C03_panic_always_recorded :
  forall (c : conf) (e : err), is e id_panic = true ->
    can_continue c (Some e) = mkdec true (continue_on_panic c).
Proof. exact panic_always_recorded. Qed.
Print Assumptions C03_panic_always_recorded.

(* ... hence for every value a user function can panic with (panic(io.EOF), panic(ctx error), ...),
   through WithRecover; the []error value is the known finding *)
Theorem C03_recovered_panic_always_recorded :
  forall (c : conf) (v : panicval),
    match v with
    | PVErrSlice _ => True
    | _ => can_continue c (with_recover (OPanic v)) = mkdec true (continue_on_panic c)
    end.
Proof. exact recovered_panic_always_recorded. Qed.
Print Assumptions C03_recovered_panic_always_recorded.

(* ParsePanic attaches ErrRecoveredPanic to every panic value except []error *)
Theorem C03_parse_panic_marked :
  forall v, match v with PVErrSlice _ => True | _ => exists e, parse_panic (Some v) = Some e /\ is e id_panic = true end.
Proof. exact parse_panic_marked. Qed.
Print Assumptions C03_parse_panic_marked.

Theorem C03_parse_panic_error_slice_unmarked :
  forall es, Forall (fun e => is e id_panic = false) es ->
    match parse_panic (Some (PVErrSlice es)) with None => es = [] | Some e => is e id_panic = false end.
Proof. exact parse_panic_error_slice_unmarked. Qed.
Print Assumptions C03_parse_panic_error_slice_unmarked.

(* ---------------------------------------------------------------- the worker network *)

(* never_escapes_as_panic: in no reachable state has a panic left a worker un-recovered, and the step
   that consumes the user function's outcome is enabled for every outcome *)
Theorem C03_never_escapes_as_panic :
  forall c eofc f n input s, reach c eofc f (init n input) s -> crashed s = false.
Proof. exact never_escapes_as_panic. Qed.
Print Assumptions C03_never_escapes_as_panic.

Theorem C03_finish_enabled :
  forall c eofc f s i x, nth_error (wk s) i = Some (WBusy x) ->
    exists s', exec c eofc f s (LFinish i) = Some s' /\ crashed s' = crashed s.
Proof. exact finish_enabled. Qed.
Print Assumptions C03_finish_enabled.

(* token conservation (DESIGN Appendix B item 8), every reachable state *)
Theorem C03_token_conservation :
  forall c eofc f n input s, reach c eofc f (init n input) s ->
    Permutation (proc s ++ busy (wk s) ++ hand (spl s) ++ inp s ++ drop s) input.
Proof. exact token_conservation. Qed.
Print Assumptions C03_token_conservation.

(* continue mode: every item exactly once, every reportable failure in the result, nothing else *)
Theorem C03_continue_mode_complete :
  forall c eofc f n input,
    (forall x, In x input -> continue (decision_of c f x) = true) ->
    forall s, reach c eofc f (init n input) s -> terminated s = true ->
      Permutation (proc s) input /\
      canc s = false /\ drop s = [] /\
      (forall x xe, In x input -> In xe (recorded c f x) -> In xe (res s)) /\
      (forall xe, In xe (res s) -> In (fst xe) input /\ In xe (recorded c f (fst xe))) /\
      (res s = [] <-> forall x, In x input -> reportable c f x = false).
Proof. exact continue_mode_complete. Qed.
Print Assumptions C03_continue_mode_complete.

Theorem C03_continue_mode_exactly_once :
  forall c eofc f n input,
    (forall x, In x input -> continue (decision_of c f x) = true) ->
    forall s, NoDup input -> reach c eofc f (init n input) s -> terminated s = true ->
      NoDup (proc s) /\ (forall x, In x input <-> In x (proc s)).
Proof. exact continue_mode_exactly_once. Qed.
Print Assumptions C03_continue_mode_exactly_once.

(* the premise of the two theorems above holds when ContinueOnError and ContinueOnPanic are set and
   no failure is a terminating signal (io.EOF / context error outside a panic or skip) *)
Theorem C03_continue_flags_continue :
  forall c oe, continue_on_error c = true -> continue_on_panic c = true -> terminating_signal oe = false ->
    continue (can_continue c oe) = true.
Proof. exact continue_flags_continue. Qed.
Print Assumptions C03_continue_flags_continue.

(* the result is nil exactly when no reportable failure occurred (every reachable state, every mode) *)
Theorem C03_result_nil_iff_no_reportable_failure :
  forall c eofc f n input s, reach c eofc f (init n input) s ->
    (res s = [] <-> forall x, In x (proc s) -> reportable c f x = false).
Proof. exact result_nil_iff_no_reportable_failure. Qed.
Print Assumptions C03_result_nil_iff_no_reportable_failure.

Theorem C03_result_contains_exactly_processed_failures :
  forall c eofc f n input s, reach c eofc f (init n input) s ->
    forall xe, In xe (res s) <-> (In (fst xe) (proc s) /\ In xe (recorded c f (fst xe))).
Proof. exact result_contains_exactly_processed_failures. Qed.
Print Assumptions C03_result_contains_exactly_processed_failures.

(* abort mode. PARTIAL with respect to the property's wording ("at most NumWorkers items start after
   the first failure returned"): what holds for every schedule is  started <= N + finished-in-window,
   where the window is the time between the failing function's return and its worker's cancel();
   abort_bound_statement itself is refuted by a descheduled failing worker (next theorem). *)
Theorem C03_abort_bound_partial :
  forall c eofc f n input s, reach c eofc f (init n input) s -> failed s = true -> h_after s <= n + f_win s.
Proof. exact abort_bound. Qed.
Print Assumptions C03_abort_bound_partial.

Theorem C03_abort_bound_atomic :
  forall c eofc f n input s, reach c eofc f (init n input) s -> failed s = true -> f_win s = 0 -> h_after s <= n.
Proof. exact abort_bound_atomic. Qed.
Print Assumptions C03_abort_bound_atomic.

Theorem C03_abort_bound_statement_needs_prompt_cancel : ~ abort_bound_statement.
Proof. exact abort_bound_statement_needs_prompt_cancel. Qed.
Print Assumptions C03_abort_bound_statement_needs_prompt_cancel.

(* the failing worker handles no further item *)
Theorem C03_finish_noncontinue_stops :
  forall c eofc f s i x s', nth_error (wk s) i = Some (WBusy x) -> continue (decision_of c f x) = false ->
    exec c eofc f s (LFinish i) = Some s' -> exists w, nth_error (wk s') i = Some w /\ stopped w.
Proof. exact finish_noncontinue_stops. Qed.
Print Assumptions C03_finish_noncontinue_stops.

Theorem C03_failing_worker_stops :
  forall c eofc f s ls s' i w, run c eofc f s ls s' -> nth_error (wk s) i = Some w -> stopped w ->
    ~ In (LHandoff i) ls /\ exists w', nth_error (wk s') i = Some w' /\ stopped w'.
Proof. exact failing_worker_stops. Qed.
Print Assumptions C03_failing_worker_stops.

(* no cancellation before a failure; after cancellation the network winds down completely *)
Theorem C03_no_cancel_without_failure :
  forall c eofc f n input s, reach c eofc f (init n input) s -> failed s = false -> canc s = false /\ h_after s = 0.
Proof. exact no_cancel_without_failure. Qed.
Print Assumptions C03_no_cancel_without_failure.

Theorem C03_cancelled_quiescent_all_done :
  forall c eofc f s, canc s = true -> (forall l, exec c eofc f s l = None) -> terminated s = true.
Proof. exact cancelled_quiescent_all_done. Qed.
Print Assumptions C03_cancelled_quiescent_all_done.

(* one worker: every terminated run ends exactly where the sequential reference of the
   correspondence run (seq_run) says *)
Theorem C03_single_worker_deterministic :
  forall c eofc f input s, reach c eofc f (init 1 input) s -> terminated s = true ->
    (res s, proc s) = seq_run c f input.
Proof. exact single_worker_deterministic. Qed.
Print Assumptions C03_single_worker_deterministic.

(* ================================================================ the refined networks
   Model/WorkerNet.v: Process / Map (output channel, closer, consumer) / Generate (no splitter,
   buffered pipe) as committed in /repo (8c4cd9f), with every worker's top-of-loop ctx test, the
   result send, the consumer and the closer as steps.  `gen has_out cap` select the construct; all
   theorems hold for every value of them (in particular (false,false,_) = ProcessParallel,
   (false,true,0) = Map, (true,true,2N+1) = GenerateParallel). *)
From FunV Require Model.WorkerNet Proofs.WorkerNet_inv Proofs.WorkerNet_cont.

Theorem C03_net_never_escapes_as_panic :
  forall c gen has_out cap f n input s,
    WorkerNet_inv.reach c gen has_out cap f (WorkerNet.init gen n input) s -> WorkerNet.crashed s = false.
Proof. exact WorkerNet_inv.net_never_escapes_as_panic. Qed.
Print Assumptions C03_net_never_escapes_as_panic.

(* what the output iterator's Close() / the returned error contains: exactly the reportable failures
   of the items whose user function has returned *)
Theorem C03_net_result_contains_exactly_processed_failures :
  forall c gen has_out cap f n input s,
    WorkerNet_inv.reach c gen has_out cap f (WorkerNet.init gen n input) s ->
    forall xe, In xe (WorkerNet.res s) <-> (In (fst xe) (WorkerNet.proc s) /\ In xe (recorded c f (fst xe))).
Proof. exact WorkerNet_inv.net_result_contains_exactly_processed_failures. Qed.
Print Assumptions C03_net_result_contains_exactly_processed_failures.

Theorem C03_net_result_nil_iff_no_reportable_failure :
  forall c gen has_out cap f n input s,
    WorkerNet_inv.reach c gen has_out cap f (WorkerNet.init gen n input) s ->
    (WorkerNet.res s = [] <-> forall x, In x (WorkerNet.proc s) -> reportable c f x = false).
Proof. exact WorkerNet_inv.net_result_nil_iff_no_reportable_failure. Qed.
Print Assumptions C03_net_result_nil_iff_no_reportable_failure.

Theorem C03_net_token_conservation :
  forall c gen has_out cap f n input s,
    WorkerNet_inv.reach c gen has_out cap f (WorkerNet.init gen n input) s ->
    Permutation (WorkerNet.proc s ++ WorkerNet_inv.vbusy (WorkerNet.wk s) ++ hand (WorkerNet.spl s) ++ WorkerNet.inp s ++ WorkerNet.drop s) input.
Proof. exact WorkerNet_inv.net_token_conservation. Qed.
Print Assumptions C03_net_token_conservation.

(* Map / Generate: every output value is in exactly one place, and the values are exactly the items
   on which the user function succeeded *)
Theorem C03_net_output_conservation :
  forall c gen has_out cap f n input s,
    has_out = true -> WorkerNet_inv.reach c gen has_out cap f (WorkerNet.init gen n input) s ->
    Permutation (WorkerNet_inv.vsending (WorkerNet.wk s) ++ WorkerNet.out s ++ WorkerNet.delivered s ++ WorkerNet.lost s)
                (filter (WorkerNet.succ f) (WorkerNet.proc s)).
Proof. exact WorkerNet_inv.net_output_conservation. Qed.
Print Assumptions C03_net_output_conservation.

(* continue mode, all three constructs: each item exactly once, exactly the reportable failures in
   the result, nothing dropped or abandoned, and the consumer received exactly the successes *)
Theorem C03_net_continue_mode_complete :
  forall c gen has_out cap f n input, n >= 1 ->
    (forall x, In x input -> continue (decision_of c f x) = true) ->
    forall s, WorkerNet_inv.reach c gen has_out cap f (WorkerNet.init gen n input) s -> WorkerNet.terminated s = true ->
      Permutation (WorkerNet.proc s) input /\
      WorkerNet.drop s = [] /\ WorkerNet.lost s = [] /\ WorkerNet.failed s = false /\
      (forall x xe, In x input -> In xe (recorded c f x) -> In xe (WorkerNet.res s)) /\
      (forall xe, In xe (WorkerNet.res s) -> In (fst xe) input /\ In xe (recorded c f (fst xe))) /\
      (WorkerNet.res s = [] <-> forall x, In x input -> reportable c f x = false) /\
      (has_out = true -> Permutation (WorkerNet.delivered s) (filter (WorkerNet.succ f) input)).
Proof. exact WorkerNet_cont.net_continue_mode_complete. Qed.
Print Assumptions C03_net_continue_mode_complete.

(* THE abort bound (full for the refined model; all constructs, N, inputs, user functions, schedules):
   items started after the first failing user function returned
     <= (N - 1) + ctx tests passed by other workers between that return and the failing worker's cancel().
   The cancel() is called by the failing goroutine inside the error filter, a few instructions after
   the function returns; other goroutines run in parallel, so the second term cannot be dropped
   (C03_abort_bound_statement_needs_prompt_cancel), and it is 0 when the cancel lands first. *)
Theorem C03_abort_bound :
  forall c gen has_out cap f n input s,
    WorkerNet_inv.reach c gen has_out cap f (WorkerNet.init gen n input) s -> WorkerNet.failed s = true ->
    WorkerNet.h_after s + 1 <= n + WorkerNet.r_win s.
Proof. exact WorkerNet_inv.net_abort_bound. Qed.
Print Assumptions C03_abort_bound.

Theorem C03_abort_bound_prompt :
  forall c gen has_out cap f n input s,
    WorkerNet_inv.reach c gen has_out cap f (WorkerNet.init gen n input) s -> WorkerNet.failed s = true ->
    WorkerNet.r_win s = 0 -> WorkerNet.h_after s <= n - 1.
Proof. exact WorkerNet_inv.net_abort_bound_prompt. Qed.
Print Assumptions C03_abort_bound_prompt.

Theorem C03_net_finish_noncontinue_stops :
  forall c gen has_out cap f s i x s',
    nth_error (WorkerNet.wk s) i = Some (WorkerNet.VBusy x) -> continue (decision_of c f x) = false ->
    WorkerNet.exec c gen has_out cap f s (WorkerNet.KFinish i) = Some s' ->
    exists w, nth_error (WorkerNet.wk s') i = Some w /\ WorkerNet_inv.vstopped w.
Proof. exact WorkerNet_inv.net_finish_noncontinue_stops. Qed.
Print Assumptions C03_net_finish_noncontinue_stops.

Theorem C03_net_failing_worker_stops :
  forall c gen has_out cap f s ls s' i w,
    WorkerNet_inv.run c gen has_out cap f s ls s' -> nth_error (WorkerNet.wk s) i = Some w -> WorkerNet_inv.vstopped w ->
    ~ In (WorkerNet.KHandoff i) ls /\ exists w', nth_error (WorkerNet.wk s') i = Some w' /\ WorkerNet_inv.vstopped w'.
Proof. exact WorkerNet_inv.net_failing_worker_stops. Qed.
Print Assumptions C03_net_failing_worker_stops.
