(* C10 — srv.Service lifecycle.  Property theorems only; each is closed by `exact` of a lemma proved in
   Proofs/Service_props.v from the inductive invariants SInv (Proofs/Service_inv.v) and TInv
   (Proofs/Service_trace.v) of the step relation of Model/ServiceModel.v.

   Every theorem quantifies over: every configuration c (Run/Shutdown/Cleanup/ErrorHandler each absent,
   ok, error or panic), every run `ls` of the transition system from `init` (any number of Start / Wait /
   Close / Running callers, created by LInv at any time; every interleaving of the atomic steps of the
   callers and of the three service goroutines; the parent context cancelled at any time or never).
   "partial" in DESIGN.md's sense: sync.Once, atomics, channels, context, WaitGroup and the Collector are
   primitives of the model (one atomic step each). *)
From FunV Require Import Base.Tac Model.ServiceModel Proofs.Service_inv Proofs.Service_trace Proofs.Service_props.

(* Run is invoked at most once. *)
Theorem run_at_most_once :
  forall c ls s, reach c ls s -> cntl (is_begin PRun) ls <= 1.
Proof. exact run_at_most_once. Qed.
Print Assumptions run_at_most_once.

(* At most one Start returns nil (the only other results the model's Start can produce are
   ErrServiceAlreadyStarted and ErrServiceReturned); ErrServiceReturned only once Run, Shutdown and Cleanup
   have returned; and as soon as any Start has returned, exactly one call has returned nil or is the one
   that ran the sync.Once body and will return nil. *)
Theorem exactly_one_start_nil :
  forall c ls s, reach c ls s ->
    cntl is_nilret ls <= 1 /\
    (forall pre i post, ls = pre ++ LRet i (RStart SReturned) :: post -> all_returned c pre) /\
    (1 <= cntl is_startret ls ->
     cntl is_nilret ls + cnt is_retnil (callers s) + cnt is_sbody (callers s) = 1).
Proof. exact exactly_one_start_nil. Qed.
Print Assumptions exactly_one_start_nil.

(* ... hence, when every call has returned and at least one of them was a Start, exactly one nil. *)
Theorem exactly_one_start_nil_quiescent :
  forall c ls s, reach c ls s ->
    Forall (fun pc => pc = Gone) (callers s) -> 1 <= cntl is_startret ls -> cntl is_nilret ls = 1.
Proof. exact exactly_one_start_nil_quiescent. Qed.
Print Assumptions exactly_one_start_nil_quiescent.

(* Shutdown runs at most once, only after the service context ended (Run returned — a nil Run panics at
   once and counts as returned —, Close was called, or the parent context was cancelled), and exactly once
   (and has returned) when the service has finished. *)
Theorem shutdown_once_after_ctx_end :
  forall c ls s, reach c ls s ->
    cntl (is_begin PSd) ls <= 1 /\
    (forall pre post, ls = pre ++ LBegin PSd :: post -> ctx_ended c pre) /\
    (fFin s = true -> is_absent (oSd c) = false -> cntl (is_begin PSd) ls = 1 /\ In (LEnd PSd) ls).
Proof. exact shutdown_once_after_ctx_end. Qed.
Print Assumptions shutdown_once_after_ctx_end.

(* Cleanup runs at most once, after both Run and Shutdown have returned, and exactly once when finished. *)
Theorem cleanup_once_after_run_and_shutdown :
  forall c ls s, reach c ls s ->
    cntl (is_begin PCl) ls <= 1 /\
    (forall pre post, ls = pre ++ LBegin PCl :: post -> returned c PRun pre /\ returned c PSd pre) /\
    (fFin s = true -> is_absent (oCl c) = false -> cntl (is_begin PCl) ls = 1 /\ In (LEnd PCl) ls).
Proof. exact cleanup_once_after_run_and_shutdown. Qed.
Print Assumptions cleanup_once_after_run_and_shutdown.

(* The ErrorHandler runs at most once, after Run, Shutdown and Cleanup returned, with a non-nil aggregate. *)
Theorem error_handler_once_after_cleanup_nonnil :
  forall c ls s, reach c ls s ->
    cntl (is_begin PEh) ls <= 1 /\
    (forall pre post, ls = pre ++ LBegin PEh :: post ->
       all_returned c pre /\ (forall s1, reach c pre s1 -> ec_is_empty (ec s1) = false)).
Proof. exact error_handler_once_after_cleanup_nonnil. Qed.
Print Assumptions error_handler_once_after_cleanup_nonnil.

(* Wait returns (anything but ErrServiceNotStarted) only after Run, Shutdown and Cleanup have returned. *)
Theorem wait_blocks_until_all_returned :
  forall c ls s, reach c ls s ->
    forall pre i r post, ls = pre ++ LRet i (RWait r) :: post -> r <> WNotStarted -> all_returned c pre.
Proof. exact wait_blocks_until_all_returned. Qed.
Print Assumptions wait_blocks_until_all_returned.

(* Wait's result (wres_ok): nil iff no phase failed; otherwise an aggregate that contains exactly the error
   of every phase that returned one, the panic value of every phase that panicked, and ErrRecoveredPanic
   if any phase panicked (errors.Is = membership in the collector's token set). *)
Theorem wait_error_complete :
  forall c ls s, reach c ls s ->
    forall pre i r post, ls = pre ++ LRet i (RWait r) :: post -> wres_ok c r.
Proof. exact wait_error_complete. Qed.
Print Assumptions wait_error_complete.

(* After a Wait returned (anything but ErrServiceNotStarted), every Running() call invoked afterwards
   (caller j is not among the callers invoked before that return) reports false. *)
Theorem running_false_after_wait :
  forall c ls s, reach c ls s ->
    forall pre i r mid j b post,
      ls = pre ++ LRet i (RWait r) :: mid ++ LRet j (RRunning b) :: post ->
      r <> WNotStarted -> cntl is_inv pre <= j -> b = false.
Proof. exact running_false_after_wait. Qed.
Print Assumptions running_false_after_wait.

(* No signal overtakes a Recover: when shutdownSignal is closed, every outcome of Shutdown — its error,
   or its panic together with ErrRecoveredPanic — is already in the collector (the Shutdown goroutine's
   deferred chain is Recover, close(shutdownSignal), wg.Done in that LIFO order in the model, as in the code). *)
Theorem shutdown_panic_recorded_before_signal :
  forall c ls s, reach c ls s -> sdSig s = true -> sd_recorded c (ec s).
Proof. exact shutdown_panic_recorded_before_signal. Qed.
Print Assumptions shutdown_panic_recorded_before_signal.

(* The same for the main goroutine: ehSignal is closed only after Run's (and Shutdown's) outcome is recorded;
   isFinished is stored and mainSignal closed only after Run's, Shutdown's and Cleanup's are.  This is what
   Wait's isFinished fast path and the ErrorHandler goroutine rely on. *)
Theorem run_recorded_before_eh_signal :
  forall c ls s, reach c ls s -> ehSig s = true -> run_recorded c (ec s) /\ sd_recorded c (ec s).
Proof. exact run_recorded_before_eh_signal. Qed.
Print Assumptions run_recorded_before_eh_signal.

Theorem all_recorded_before_finished :
  forall c ls s, reach c ls s -> fFin s = true \/ mainSig s = true ->
    run_recorded c (ec s) /\ sd_recorded c (ec s) /\ cl_recorded c (ec s).
Proof. exact all_recorded_before_finished. Qed.
Print Assumptions all_recorded_before_finished.

(* With the two defers of the Shutdown goroutine swapped (close before Recover) both statements are false:
   concrete run in which Wait returns nil although Shutdown panicked. *)
Theorem wait_error_complete_swapped_refuted :
  exists s, run_swapped cfg_sd_panic init swapped_log = Some s /\
            In (LRet 1 (RWait WNil)) swapped_log /\ ~ wres_ok cfg_sd_panic WNil.
Proof. exact wait_error_complete_swapped_refuted. Qed.
Print Assumptions wait_error_complete_swapped_refuted.

Theorem shutdown_panic_recorded_before_signal_swapped_refuted :
  exists ls s, run_swapped cfg_sd_panic init ls = Some s /\ sdSig s = true /\ ~ sd_recorded cfg_sd_panic (ec s).
Proof. exact shutdown_panic_recorded_before_signal_swapped_refuted. Qed.
Print Assumptions shutdown_panic_recorded_before_signal_swapped_refuted.
