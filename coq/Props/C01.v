(* C01 - parallel iterator stages deliver every item exactly once. Property theorems only.
   Networks: Model/Pipelines.v. "Partial" in DESIGN.md's sense: channel hand-off, WaitGroup,
   context cancellation and goroutine exit are primitives of the model. *)
From FunV Require Import Base.Tac Base.ListX Model.Pipelines
  Proofs.Pipelines_conserve Proofs.Pipelines_quiesce Proofs.Pipelines_nets Proofs.Pipelines_complete Proofs.Pipelines_closer
  Proofs.Pipelines_release Proofs.Pipelines_nodrop Proofs.Pipelines_shared Proofs.Pipelines_completeness
  Proofs.Pipelines_completeness_merge Proofs.Pipelines_completeness_split Proofs.Pipelines_completeness_pp Proofs.Pipelines_completeness_map Proofs.Pipelines_completeness_pbuf Proofs.Pipelines_completeness_chan Proofs.Pipelines_completeness_all.

(* every step of every network permutes
   remaining input ++ items in goroutines' hands ++ channel buffers ++ delivered ++ dropped *)
Theorem C01_conservation_step :
  forall N s l s', step N s l = Some s' -> Permutation (tokens s') (tokens s).
Proof. exact step_conserves. Qed.
Print Assumptions C01_conservation_step.

(* hence, for every construct, input, worker count, buffer size and schedule, in every reachable state *)
Theorem C01_conservation :
  forall K srcs s,
    reach (net_of K) (init_of K srcs) s ->
    Permutation (concat (s_srcs s) ++ hands (s_procs s) ++ bufs (s_chans s) ++ s_deliv s ++ s_drop s) (concat srcs).
Proof. exact conservation_constructs. Qed.
Print Assumptions C01_conservation.

(* C01_complete, stated for every construct: a terminated un-aborted run delivered a permutation of the input *)
Definition C01_complete_statement : Prop :=
  forall K srcs s,
    reach (net_of K) (init_of K srcs) s -> s_stopped s = false -> all_done s ->
    Permutation (s_deliv s) (concat srcs).

(* what is proved of it for EVERY construct: in a terminated run the only items missing from the output are
   those still in the input, still in a channel buffer, or explicitly dropped by a goroutine that gave up
   (ctx.Done arm / send on a closed channel) - nothing is duplicated or invented, ever *)
Theorem C01_complete_partial :
  forall K srcs s,
    reach (net_of K) (init_of K srcs) s ->
    (forall p pr, nth_error (s_procs s) p = Some pr -> p_hand pr = None) ->
    Permutation (s_deliv s ++ concat (s_srcs s) ++ bufs (s_chans s) ++ s_drop s) (concat srcs).
Proof. exact complete_up_to_drops. Qed.
Print Assumptions C01_complete_partial.

(* ... and the full statement for Buffer and the other single-pump constructs (Chain, MergeSlices,
   MergeSliceIterators, dt.Map, adt.Map): any buffer size, any input, any schedule *)
Theorem C01_complete_single_pump :
  forall b cap input s,
    reach (sp_net b) (sp_init cap input) s -> s_stopped s = false -> consumer_done s ->
    Permutation (s_deliv s) input.
Proof. exact sp_complete. Qed.
Print Assumptions C01_complete_single_pump.

(* C01_order_single: Buffer (sp_net true = buffer_net) delivers the input LIST: what was delivered so far is
   always a prefix of the input, nothing is dropped, and at the end it is the input *)
Theorem C01_order_single :
  forall cap input s,
    reach buffer_net (buffer_init cap input) s -> s_stopped s = false ->
    s_drop s = [] /\ (exists rest, s_deliv s ++ rest = input) /\ (consumer_done s -> s_deliv s = input).
Proof. exact (sp_order true). Qed.
Print Assumptions C01_order_single.

(* C01_no_early_close: Map (any number of workers, any input, any schedule): the output channel is closed
   only when the wait group is zero and every worker has returned - or the iterator's own context was
   cancelled (Close / cancel, i.e. an aborted run: wg.Wait(ctx) returns early by design) *)
Theorem C01_no_early_close :
  forall n input s,
    reach (map_net n) (map_init n input) s -> closedb s 1 = true ->
    cancelledb (map_net n) s 1 = true \/ (s_wg s = 0 /\ forall j, j < n -> isdone s (3 + j)).
Proof. exact map_no_early_close. Qed.
Print Assumptions C01_no_early_close.

(* the same for MergeIterators (f = identity, one source per goroutine) *)
Theorem C01_no_early_close_fanin :
  forall n f cap srcs s,
    reach (fanin_net n f) (fanin_init n cap srcs) s -> closedb s 0 = true ->
    cancelledb (fanin_net n f) s 1 = true \/ (s_wg s = 0 /\ forall j, j < n -> isdone s (3 + j)).
Proof. exact fanin_no_early_close. Qed.
Print Assumptions C01_no_early_close_fanin.

(* ... and for GenerateParallel (the worker with the explicit ctx.Err() test), however the generator ends *)
Theorem C01_no_early_close_generate :
  forall n e input s,
    reach (gen_net n e) (gen_init n input) s -> closedb s 0 = true ->
    cancelledb (gen_net n e) s 1 = true \/ (s_wg s = 0 /\ forall j, j < n -> isdone s (3 + j)).
Proof. exact gen_no_early_close. Qed.
Print Assumptions C01_no_early_close_generate.

(* who can drop an item: in every network that passes the static check hand_disc (a goroutine that takes
   an item continues at a send or at the user's function) the ONLY step that drops an item is a send that
   gives up - its context is cancelled or its channel is closed *)
Theorem C01_drop_only_by_a_send_that_gives_up :
  forall N s l s',
    hinv N s -> step N s l = Some s' ->
    s_drop s' = s_drop s \/
    exists p pr d ch g ko ke kr, cur_instr N s p = Some (pr, d, ISend ch g ko ke kr) /\
                                 (cancelledb N s (resolve pr g) = true \/ closedb s ch = true).
Proof. exact drop_cause. Qed.
Print Assumptions C01_drop_only_by_a_send_that_gives_up.

(* GenerateParallel, generator ending with the end-of-stream signal (io.EOF, bare or wrapped; GEof), any
   number of workers, any input, any interleaving: in a run that nothing aborted NOTHING IS DROPPED ... *)
Theorem C01_generate_eof_no_drop :
  forall n input s,
    reach (gen_net n GEof) (gen_init n input) s -> s_stopped s = false -> s_drop s = [].
Proof. exact gen_eof_no_drop. Qed.
Print Assumptions C01_generate_eof_no_drop.

(* ... because the end of the stream cancels nothing: while some worker has not returned, no context is
   cancelled and the pipe is open, so no send can give up *)
Theorem C01_generate_eof_cancels_nothing :
  forall n input s,
    reach (gen_net n GEof) (gen_init n input) s -> s_stopped s = false -> (exists j, j < n /\ ~ isdone s (3 + j)) ->
    s_canc s = [] /\ closedb s 0 = false.
Proof. exact gen_eof_no_cancel. Qed.
Print Assumptions C01_generate_eof_cancels_nothing.

(* the contrast (what treating the end of the stream as a failure does): with GFail the same schedule drops
   the value worker 3 has generated and not sent yet, in a run that nothing else aborted; with GEof the
   last step of that schedule - the ctx.Done arm of worker 3's send - is not enabled *)
Theorem C01_generate_failure_drops_in_flight :
  (exists s, run_labels (gen_net 2 GFail) gen_fail_labels (gen_init 2 [1]%Z) = Some s /\
             s_stopped s = false /\ s_drop s = [1]%Z /\ s_deliv s = []) /\
  run_labels (gen_net 2 GEof) gen_fail_labels (gen_init 2 [1]%Z) = None.
Proof. split; [exact gen_fail_drops_in_flight|exact gen_eof_cannot_drop_in_flight]. Qed.
Print Assumptions C01_generate_failure_drops_in_flight.

(* several fan-out stages over ONE concurrency-safe input. In the networks the read of the input is ISrc:
   Iterator.ReadOne, one atomic step. m stages over a channel-backed iterator are m concurrent ReadOne
   callers (readone_net): conservation, for every m, buffer size, input, interleaving *)
Theorem C01_shared_input_conservation :
  forall m cap input s,
    reach (readone_net m) (readone_init m cap input) s ->
    Permutation (concat (s_srcs s) ++ hands (s_procs s) ++ bufs (s_chans s) ++ s_deliv s ++ s_drop s) input.
Proof. exact shared_input_conservation. Qed.
Print Assumptions C01_shared_input_conservation.

(* what the atomicity of ReadOne is for: any number of readers, any interleaving of atomic reads - what was
   delivered (in order of delivery) followed by what is left IS the input *)
Theorem C01_atomic_reads_exactly_once :
  forall input ls s,
    atomic_only ls -> sh_run ls (sh_init input) = Some s -> map snd (sh_out s) ++ sh_src s = input.
Proof. exact atomic_reads_exactly_once. Qed.
Print Assumptions C01_atomic_reads_exactly_once.

(* ... whereas two readers that walk the input with Next(ctx) ; Value() - the hand-off goes through the
   iterator's unsynchronised value field - lose one item and deliver another twice *)
Theorem C01_next_value_hand_off_refuted :
  exists s, sh_run [SNext 0; SNext 1; SValue 0; SValue 1] (sh_init [1; 2]%Z) = Some s /\
            sh_src s = [] /\ sh_out s = [(0, 2%Z); (1, 2%Z)].
Proof. exact next_value_loses_and_duplicates. Qed.
Print Assumptions C01_next_value_hand_off_refuted.

(* C01_no_abort_no_drop, generic: in ANY network that respects the hand discipline, as long as no context is
   cancelled and no channel is closed no step drops anything *)
Theorem C01_no_abort_no_drop :
  forall N s l s',
    hinv N s -> s_canc s = [] -> (forall ch, closedb s ch = false) -> step N s l = Some s' -> s_drop s' = s_drop s.
Proof. exact no_cancel_no_close_no_drop. Qed.
Print Assumptions C01_no_abort_no_drop.

(* C01_complete, in full, for GenerateParallel (any n >= 1 workers, any input, any interleaving; generator
   ending with the end-of-stream signal): a terminated run that nothing aborted delivered a permutation of
   what the generator produced. This is C01_complete_statement at K = KGenerate n GEof.
   (n = 0 workers and a generator that ends with a failure are excluded for a reason: with no worker nothing
   is read, and a failure aborts the run - C01_generate_failure_drops_in_flight.) *)
Theorem C01_complete_generate :
  forall n input s,
    0 < n -> reach (gen_net n GEof) (gen_init n input) s -> s_stopped s = false -> all_done s ->
    Permutation (s_deliv s) input.
Proof. exact gen_eof_complete. Qed.
Print Assumptions C01_complete_generate.

(* C01_complete for MergeIterators: any number n of inputs, any inputs, any interleaving *)
Theorem C01_complete_merge :
  forall n srcs s,
    length srcs = n -> reach (fanin_net n (fun j => j)) (fanin_init n 0 srcs) s -> s_stopped s = false -> all_done s ->
    Permutation (s_deliv s) (concat srcs).
Proof. exact merge_complete. Qed.
Print Assumptions C01_complete_merge.

(* C01_complete for Split(n), n >= 1: the outputs together deliver a permutation of the input *)
Theorem C01_complete_split :
  forall n input s,
    0 < n -> reach (split_net n) (split_init n input) s -> s_stopped s = false -> all_done s -> Permutation (s_deliv s) input.
Proof. exact split_complete. Qed.
Print Assumptions C01_complete_split.

(* C01_complete for Iterator.ProcessParallel / itertool.ParallelForEach / itertool.Worker, n >= 1 workers *)
Theorem C01_complete_process_parallel :
  forall n, 0 < n -> forall input s,
    reach (pp_net n) (pp_init n input) s -> s_stopped s = false -> all_done s -> Permutation (s_deliv s) input.
Proof. exact pp_complete. Qed.
Print Assumptions C01_complete_process_parallel.

(* C01_complete for fun.Map / Transform.ProcessParallel, n >= 1 workers *)
Theorem C01_complete_map :
  forall n, 0 < n -> forall input s,
    reach (map_net n) (map_init n input) s -> s_stopped s = false -> all_done s -> Permutation (s_deliv s) input.
Proof. exact map_complete. Qed.
Print Assumptions C01_complete_map.

(* C01_complete for Iterator.ParallelBuffer *)
Theorem C01_complete_parallel_buffer :
  forall n input s,
    reach (pbuf_net n) (pbuf_init n input) s -> s_stopped s = false -> all_done s -> Permutation (s_deliv s) input.
Proof. exact pbuf_complete. Qed.
Print Assumptions C01_complete_parallel_buffer.

(* C01_complete for Iterator.BufferedChannel / Channel, any capacity *)
Theorem C01_complete_buffered_channel :
  forall cap input s,
    reach chan_net (chan_init cap input) s -> s_stopped s = false -> all_done s -> Permutation (s_deliv s) input.
Proof. exact chan_complete. Qed.
Print Assumptions C01_complete_buffered_channel.

(* C01_complete: C01_complete_statement for EVERY construct family, under the side conditions complete_ok - at least
   one worker / output where the construct has them, one input per goroutine for MergeIterators, and for
   GenerateParallel a generator ending with the end-of-stream signal (the failure-ending one is refuted above) *)
Theorem C01_complete :
  forall K srcs s,
    complete_ok K srcs -> reach (net_of K) (init_of K srcs) s -> s_stopped s = false -> all_done s ->
    Permutation (s_deliv s) (concat srcs).
Proof. exact complete_all. Qed.
Print Assumptions C01_complete.
