(* C01 - parallel iterator stages deliver every item exactly once. Property theorems only.
   Networks: Model/Pipelines.v. "Partial" in DESIGN.md's sense: channel hand-off, WaitGroup,
   context cancellation and goroutine exit are primitives of the model. *)
From FunV Require Import Base.Tac Base.ListX Model.Pipelines
  Proofs.Pipelines_conserve Proofs.Pipelines_quiesce Proofs.Pipelines_nets.

(* every step of every network permutes
   remaining input ++ items in goroutines' hands ++ channel buffers ++ delivered ++ dropped *)
Theorem C01_conservation_step :
  forall N s l s', step N s l = Some s' -> Permutation (tokens s') (tokens s).
Proof. exact step_conserves. Qed.
Print Assumptions C01_conservation_step.

(* hence, for every construct, input, worker count, buffer size and schedule, in every reachable state *)
Theorem C01_conservation :
  forall K srcs s,
    reach (net_of K) (init_of K srcs) s ->
    Permutation (concat (s_srcs s) ++ hands (s_procs s) ++ bufs (s_chans s) ++ s_deliv s ++ s_drop s) (concat srcs).
Proof. exact conservation_constructs. Qed.
Print Assumptions C01_conservation.
