(* C14 — fun.WaitGroup.  Property theorems only; each is closed by `exact` of a lemma proved in Proofs/WaitGroup_*.v
   on the model of Model/WaitGroupModel.v (an instance of Conc/Monitor.v).

   Quantification: `p : tid -> wg_op` is ANY assignment of operations (Add n / Inc / Done / Num / IsDone / Wait) to
   unboundedly many threads — any number of waiters and workers, any number of rounds; `wg_reachable p s` ranges over
   every schedule of the modelled atomic steps (lock acquisition, critical section, park, wake, re-acquire, context
   end, helper broadcast, even spurious wake-ups), with contexts ending at any point. *)
From FunV Require Import Base.Tac Conc.Monitor Model.WaitGroupModel
  Proofs.WaitGroup_seq Proofs.WaitGroup_monitor Proofs.WaitGroup_spawn.
Open Scope Z_scope.

(* Wait never returns while the counter is positive and its context is live: the step by which a Wait returns is
   taken under the lock, changes nothing, and either the counter is zero at that instant (verdict ROk) or the
   counter is non-zero and its context has ended (verdict RCancelled). *)
Theorem wait_returns_only_if_zero_or_ctx :
  forall (p : tid -> wg_op) (s : wg_state) (l : label) (s' : wg_state) (t : tid) (r : verdict),
    wg_reachable p s -> wg_mstep p s l s' -> is_wait (p t) = true ->
    thr s t <> Done r -> thr s' t = Done r ->
    lock s = Some t /\ dat s' = dat s /\
    ((r = ROk /\ dat s = 0) \/ (r = RCancelled /\ dat s <> 0 /\ ended s t = true)).
Proof. exact wait_returns_only_if_zero_or_ctx_lemma. Qed.
Print Assumptions wait_returns_only_if_zero_or_ctx.

(* Every waiter is released when the counter reaches zero: in every reachable state no thread is parked (or about
   to park) in Wait while the counter is zero — each has been taken off the wait list by Add's Broadcast. *)
Theorem wait_released_at_zero :
  forall (p : tid -> wg_op) (s : wg_state) (t : tid),
    wg_reachable p s -> is_wait (p t) = true -> (thr s t = Parking \/ thr s t = Parked) -> dat s <> 0.
Proof. exact wait_released_at_zero_lemma. Qed.
Print Assumptions wait_released_at_zero.

(* ... hence, once nothing can run any more and the counter is zero, every Wait that was called has returned. *)
Theorem wait_all_returned_when_quiescent_at_zero :
  forall (p : tid -> wg_op) (s : wg_state) (t : tid),
    wg_reachable p s -> quiescent s -> dat s = 0 -> is_wait (p t) = true ->
    thr s t = Idle \/ exists r, thr s t = Done r.
Proof. exact wait_all_returned_at_quiescence. Qed.
Print Assumptions wait_all_returned_when_quiescent_at_zero.

(* A Wait that performs its check while the counter is zero does not park: its only step is to return. *)
Theorem wait_at_zero_does_not_block :
  forall (p : tid -> wg_op) (s : wg_state) (l : label) (s' : wg_state) (t : tid) (b : bool),
    wg_reachable p s -> wg_mstep p s l s' -> is_wait (p t) = true -> thr s t = InCrit b -> dat s = 0 ->
    (thr s' t = InCrit b /\ dat s' = 0) \/ (l = LBody t /\ thr s' t = Done ROk).
Proof. exact wait_at_zero_does_not_block_lemma. Qed.
Print Assumptions wait_at_zero_does_not_block.

(* The counter equals the sum of the completed, non-panicking Add/Inc/Done calls: along any schedule ... *)
Theorem counter_is_sum_of_adds :
  forall (p : tid -> wg_op) (tr : list (wg_state * label)) (s : wg_state),
    wg_run_tr p tr s -> dat s = sum_deltas p tr.
Proof. exact counter_is_sum_of_adds_lemma. Qed.
Print Assumptions counter_is_sum_of_adds.

(* ... and for any sequential operation list (the form compared with the implementation on every run). *)
Theorem counter_is_sum_of_adds_seq :
  forall (ops : list wg_op) (c : Z), fst (wg_run c ops) = c + sum_completed c ops.
Proof. exact wg_run_counter_sum. Qed.
Print Assumptions counter_is_sum_of_adds_seq.

Theorem counter_never_negative :
  forall (p : tid -> wg_op) (s : wg_state), wg_reachable p s -> 0 <= dat s.
Proof. exact counter_never_negative. Qed.
Print Assumptions counter_never_negative.

(* An Add that would make the counter negative panics and changes nothing (and wakes nobody). *)
Theorem negative_add_panics_unchanged :
  forall c n : Z, c + n < 0 -> wg_step c (WAdd n) = (c, RPanic) /\ add_body n c = (c, []).
Proof. exact negative_add_panics_unchanged_seq. Qed.
Print Assumptions negative_add_panics_unchanged.

Theorem negative_add_unchanged_in_any_schedule :
  forall (p : tid -> wg_op) (s : wg_state) (t : tid) (s' : wg_state) (n : Z),
    wg_mstep p s (LBody t) s' -> delta_of (p t) = Some n -> dat s + n < 0 -> dat s' = dat s.
Proof. exact negative_add_unchanged_conc. Qed.
Print Assumptions negative_add_unchanged_in_any_schedule.

(* Launch / DoTimes / Operation.Add / StartGroup (spawn model): while a goroutine started through the group is
   anywhere between "Launch has incremented" and "its deferred Done has returned", the counter is positive, so a
   Wait with a live context does not return (try-form: Blocked). *)
Theorem launch_covered :
  forall (s : spawn_state) (i : nat) (j : jstate),
    spawn_reach s -> nth_error (sp_jobs s) i = Some j -> j_live j = true ->
    0 < sp_counter s /\ wg_step (sp_counter s) WWait = (sp_counter s, RBlocked).
Proof. exact launch_covered_lemma. Qed.
Print Assumptions launch_covered.

Theorem launch_done_never_panics :
  forall s : spawn_state, spawn_reach s -> ~ In JPanicked (sp_jobs s).
Proof. exact spawn_no_panic. Qed.
Print Assumptions launch_done_never_panics.

Theorem launch_all_done_counter_zero :
  forall s : spawn_state,
    spawn_reach s -> sp_ext s = 0 -> (forall j, In j (sp_jobs s) -> j_live j = false) -> sp_counter s = 0.
Proof. exact spawn_all_done_zero. Qed.
Print Assumptions launch_all_done_counter_zero.

(* DoTimes / Operation.StartGroup (the loop `for i := 0; i < n; i++ { wg.Launch(ctx, op) }`, any n : Z): after
   DoTimes n the counter has grown by exactly max 0 n, exactly that many new goroutines are counted, the other users'
   share is untouched, the result is again a reachable state (so the steps of the started goroutines may interleave
   in any way), and every goroutine that is live in it is covered (counter positive: Wait does not return). *)
Theorem dotimes_accounts_exactly :
  forall (n : Z) (s s' : spawn_state),
    spawn_reach s -> spawn_dotimes n s s' ->
    spawn_reach s' /\
    sp_counter s' = sp_counter s + Z.max 0 n /\
    sp_ext s' = sp_ext s /\
    sp_jobs s' = sp_jobs s ++ repeat JCounted (Z.to_nat n) /\
    (forall i j, nth_error (sp_jobs s') i = Some j -> j_live j = true -> 0 < sp_counter s').
Proof. exact dotimes_accounts_exactly_lemma. Qed.
Print Assumptions dotimes_accounts_exactly.

(* a non-positive count is a no-op (it neither panics nor changes the counter), and the loop can always run *)
Theorem dotimes_nonpositive_is_noop :
  forall (n : Z) (s s' : spawn_state), n <= 0 -> spawn_dotimes n s s' -> s' = s.
Proof. exact dotimes_nonpositive_noop. Qed.
Print Assumptions dotimes_nonpositive_is_noop.

Theorem dotimes_never_panics :
  forall (k : nat) (s : spawn_state), spawn_reach s -> exists s', launch_times k s s'.
Proof. exact launch_times_total. Qed.
Print Assumptions dotimes_never_panics.

(* the executable form compared with the implementation on every run *)
Theorem dotimes_counter_is_max :
  forall n c : Z, 0 <= c -> dotimes_counter n c = c + Z.max 0 n.
Proof. exact dotimes_counter_spec. Qed.
Print Assumptions dotimes_counter_is_max.

(* The goroutine started by Launch calls Done on EVERY exit path of the operation — normal return, panic,
   runtime.Goexit — because PostHook puts the hook in a deferred position ... *)
Theorem launch_done_on_every_exit :
  forall (ctx_live : bool) (e : exit_kind) (c : Z),
    0 < c -> launch_goroutine ctx_live e c = (c - 1, RUnit).
Proof. exact launch_done_on_every_exit_lemma. Qed.
Print Assumptions launch_done_on_every_exit.

(* ... and Launch is balanced whatever the state of the context it is given (live or already ended): the goroutine is
   started, the body is called, Done runs — the counter comes back to where it was. *)
Theorem launch_cancelled_ctx_balanced :
  forall (ctx_live : bool) (e : exit_kind) (c : Z),
    0 <= c -> launch_roundtrip ctx_live e c = (c, RUnit) /\ launch_body_runs ctx_live = true.
Proof. exact launch_cancelled_ctx_balanced_lemma. Qed.
Print Assumptions launch_cancelled_ctx_balanced.

(* Wait's zero-check and its park are one critical section: between finding the counter non-zero and being
   registered on the wait list the waiter holds the mutex and no step of any thread changes the counter. *)
Theorem wait_check_and_park_atomic :
  forall (p : tid -> wg_op) (s : wg_state) (t : tid),
    wg_reachable p s -> is_wait (p t) = true -> thr s t = Parking ->
    lock s = Some t /\ dat s <> 0 /\
    (forall l s', wg_mstep p s l s' -> dat s' = dat s /\ (thr s' t = Parking \/ (l = LPark t /\ thr s' t = Parked))).
Proof. exact wait_check_and_park_atomic_lemma. Qed.
Print Assumptions wait_check_and_park_atomic.

(* Why: with the check outside the mutex (model `ustep`) four steps — Add 1; check; Done; lock-and-park — leave the
   waiter asleep on a zero counter with a live context. *)
Theorem wait_check_outside_lock_refuted :
  exists s, ureach s /\ u_counter s = 0 /\ u_waiter s = UParked.
Proof. exact wait_check_outside_lock_refuted_lemma. Qed.
Print Assumptions wait_check_outside_lock_refuted.

(* Wait returns once its context is cancelled: in every reachable state, a waiter that is parked although its
   context has ended has its helper's Broadcast pending (it will be taken off the wait list, re-check and return
   RCancelled) — for ALL schedules, contexts ending at any point. *)
Theorem wait_ctx_wake_pending :
  forall (p : tid -> wg_op) (s : wg_state) (t : tid),
    wg_reachable p s -> is_wait (p t) = true -> thr s t = Parked -> ended s t = true ->
    In wg_cond (pendingB s).
Proof. exact wait_ctx_wake_pending_lemma. Qed.
Print Assumptions wait_ctx_wake_pending.

(* ... hence, once nothing can run any more, no Wait whose context has ended is still parked. *)
Theorem wait_no_lost_cancel :
  forall (p : tid -> wg_op) (s : wg_state) (t : tid),
    wg_reachable p s -> quiescent s -> is_wait (p t) = true -> thr s t = Parked -> ended s t = false.
Proof. exact wait_no_lost_cancel_lemma. Qed.
Print Assumptions wait_no_lost_cancel.

(* Why the helper goroutine must take the mutex (sync.go:134-137): for the shape the code had before the repair —
   `go func(){ <-ctx.Done(); wg.cond.Broadcast() }()`, helper_locked = false — the same statement is FALSE: a context
   that ends between the waiter's `select` on ctx.Done and the registration inside cond.Wait is missed and the waiter
   sleeps until the counter reaches zero (9-step schedule; reproduced on the implementation before the repair). *)
Theorem wait_ctx_wake_unlocked_helper_refuted : ~ wait_ctx_wake_pending_unlocked_statement.
Proof. exact wait_ctx_wake_unlocked_helper_refuted_lemma. Qed.
Print Assumptions wait_ctx_wake_unlocked_helper_refuted.

(* A variant of Add that calls Signal instead of Broadcast loses no wake-up either (cascade discipline: every
   waiter that leaves the loop re-broadcasts through its helper) — so that mutation is not a violation. *)
Theorem signal_variant_no_lost_wakeup :
  forall (p : tid -> wg_op) (s : state Z) (t : tid),
    reachable Z (fun t => compile_sig (p t)) 0 wg_helper_locked s -> quiescent s ->
    is_wait (p t) = true -> thr s t = Parked -> dat s <> 0.
Proof. exact signal_variant_no_lost_wakeup. Qed.
Print Assumptions signal_variant_no_lost_wakeup.

(* Instance with two waiters: both parked while the counter is 2; after Done, Done both have returned ROk. *)
Example two_waiters_instance :
  (exists s, wg_reachable p_two s /\ thr s 0%nat = Parked /\ thr s 1%nat = Parked /\ dat s = 2 /\ lock s = None) /\
  (exists s, wg_reachable p_two s /\ thr s 0%nat = Done ROk /\ thr s 1%nat = Done ROk /\ dat s = 0 /\ quiescent s).
Proof. exact (conj two_waiters_parked two_waiters_released). Qed.
Print Assumptions two_waiters_instance.
