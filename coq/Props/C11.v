(* C11 - property theorems only. Each is closed by `exact` of a lemma proved in Proofs/Orchestrator_*.v.

   All of them are inductive invariants over EVERY reachable state ([reach] = reachable from [init] by
   any trace of [step]) of the transition systems of Model/OrchestratorModel.v: any number of
   services / jobs / cleanup functions (ids are arbitrary naturals added at any time), any outcome
   assignment [oc : nat -> outcome] (ok / error / panic / blocks-until-cancel), any number of workers,
   and every interleaving of the modelled atomic steps.  "Partial" in the sense of DESIGN.md: queue,
   context, wait groups, error collector, goroutines and the Service life cycle are model primitives;
   liveness (a runnable goroutine eventually runs) is trusted, so "awaited" is "Wait cannot return
   before ..." and "exactly once" is "never lost, never duplicated, and exactly once at quiescence". *)
From FunV Require Import Base.Tac Model.OrchestratorModel Proofs.Orchestrator_base
  Proofs.Orchestrator_orch Proofs.Orchestrator_group Proofs.Orchestrator_pool Proofs.Orchestrator_cleanup
  Proofs.Orchestrator_accept.

(* Orchestrator: Run of every service is entered at most once; and whenever Orchestrator.Wait() returns
   (event EWaitRet), every service whose Add returned nil before the context was cancelled ([acc]) - added
   before or after the orchestrator started, fresh, already running or already finished - has run exactly
   once and has finished. *)
Theorem orch_started_at_most_once_and_awaited :
  forall (oc : nat -> outcome) (s : Orch.st), Orch.reach oc s ->
    (forall i, Orch.runs s i <= 1) /\
    (forall obs s', Orch.step oc s (Orch.EWaitRet obs) = Some s' ->
       forall i, In i (Orch.acc s) -> Orch.sv s i = SFinished /\ Orch.runs s i = 1).
Proof. exact orch_started_at_most_once_and_awaited_lemma. Qed.
Print Assumptions orch_started_at_most_once_and_awaited.

(* ... and the error Wait returns ([obs] = the services for which errors.Is holds) contains the failure of
   every such service, and nothing else. *)
Theorem orch_wait_error_complete :
  forall (oc : nat -> outcome) (s : Orch.st), Orch.reach oc s ->
    forall obs s', Orch.step oc s (Orch.EWaitRet obs) = Some s' ->
      (forall i, In i (Orch.acc s) -> fails (oc i) = true -> In i obs) /\
      (forall i, In i obs -> fails (oc i) = true).
Proof. exact orch_wait_error_complete_lemma. Qed.
Print Assumptions orch_wait_error_complete.

(* Group: no member is run twice, nothing outside the iterator is run; when the group service's Wait returns,
   every member was handed to a starter unless the group's own context ended first, every member that was
   handed to a starter has run exactly once and has finished, and Wait's error contains exactly their failures. *)
Theorem group_all_started_and_awaited :
  forall (n : nat) (oc : nat -> outcome) (s : Grp.st), Grp.reach n oc s ->
    (forall i, Grp.runs s i <= 1) /\
    (forall k, Grp.nsp s <= k -> Grp.runs s k = 0) /\
    (forall obs s', Grp.step n oc s (Grp.EWaitRet obs) = Some s' ->
       (Grp.nsp s = n \/ Grp.ctxend s = true) /\
       (forall k, k < Grp.nsp s ->
          Grp.sv s k = SFinished /\ Grp.runs s k = 1 /\ (fails (oc k) = true -> In k obs)) /\
       (forall k, In k obs -> fails (oc k) = true)).
Proof. exact group_all_started_and_awaited_lemma. Qed.
Print Assumptions group_all_started_and_awaited.

(* Group: the context the members run under ([mctx]) is done only if the group's own context has ended or
   all n members have returned; in particular a member that blocks until its context is cancelled returns
   only after the group's own context ended.  (False for the code before C11-group-run-blocks.diff.) *)
Theorem group_members_run_until_return_or_ctx :
  forall (n : nat) (oc : nat -> outcome) (s : Grp.st), Grp.reach n oc s ->
    (Grp.mctx s = true ->
       Grp.ctxend s = true \/ (Grp.nsp s = n /\ forall k, k < n -> Grp.sv s k = SFinished)) /\
    (forall k, blocking (oc k) = true -> Grp.sv s k = SFinished -> Grp.ctxend s = true).
Proof. exact group_members_run_until_return_or_ctx_lemma. Qed.
Print Assumptions group_members_run_until_return_or_ctx.

(* WorkerPool / HandlerWorkerPool, any configuration (workers, continue-on-error/panic, queue limits,
   handler): a job is run at most once and only if its Add returned nil. *)
Theorem pool_job_at_most_once :
  forall (cf : Pool.conf) (oc : nat -> outcome) (s : Pool.st), Pool.reach cf oc s ->
    forall j, Pool.ran s j <= 1 /\ (Pool.ran s j = 1 -> In j (Pool.accepted s)).
Proof. exact pool_job_at_most_once_lemma. Qed.
Print Assumptions pool_job_at_most_once.

(* Token conservation over the job queue: an accepted job is in exactly one of queue / splitter / received /
   running / finished / abandoned; it has run exactly once iff it is running or finished; it is abandoned
   only after the pool stopped (external cancel, or the pool's own cancel() which only follows an abort or
   the return of Run).  So while the pool keeps running every accepted job is pending or has run exactly
   once, and when nothing is pending or running every accepted job has run exactly once. *)
Theorem pool_job_exactly_once_while_running :
  forall (cf : Pool.conf) (oc : nat -> outcome) (s : Pool.st), Pool.reach cf oc s ->
    (forall j, In j (Pool.accepted s) ->
       cnt j (pending s) + cnt j (Pool.running s) + cnt j (Pool.finished s) + cnt j (Pool.dropped s) = 1 /\
       Pool.ran s j = cnt j (Pool.running s) + cnt j (Pool.finished s)) /\
    (Pool.cancelled s = false -> Pool.icancel s = false -> Pool.dropped s = []) /\
    (Pool.cancelled s = false -> Pool.icancel s = false -> forall j, In j (Pool.accepted s) ->
       (In j (pending s) /\ Pool.ran s j = 0) \/
       ((In j (Pool.running s) \/ In j (Pool.finished s)) /\ Pool.ran s j = 1)) /\
    (Pool.cancelled s = false -> Pool.icancel s = false -> pending s = [] -> Pool.running s = [] ->
       forall j, In j (Pool.accepted s) -> Pool.ran s j = 1 /\ In j (Pool.finished s)) /\
    (Pool.icancel s = true ->
       (exists j, In j (Pool.finished s) /\ Pool.continues cf oc j = false)
       \/ Pool.pc s = Pool.PReturned \/ Pool.pc s = Pool.PFinished).
Proof. exact pool_job_exactly_once_while_running_lemma. Qed.
Print Assumptions pool_job_exactly_once_while_running.

(* Progress half of "exactly once while the pool keeps running": a pending job is never stuck for a reason
   inside the pool - some pipeline step (splitter check / take / hand-off, a job beginning or ending) is
   enabled unless every worker is occupied by a job that blocks until the cancellation.  That an enabled
   step is eventually taken is scheduler fairness (trusted, see LEVEL_NOTE). *)
Theorem pool_pending_job_can_progress :
  forall (cf : Pool.conf) (oc : nat -> outcome) (s : Pool.st), Pool.reach cf oc s ->
    Pool.pc s = Pool.PRunning -> Pool.cancelled s = false -> Pool.icancel s = false -> pending s <> [] ->
    (exists e s', pipeline_step e /\ Pool.step cf oc s e = Some s') \/
    (Pool.idle s = 0 /\ Pool.recv s = [] /\ forall j, In j (Pool.running s) -> blocking (oc j) = true).
Proof. exact pool_pending_progress_lemma. Qed.
Print Assumptions pool_pending_job_can_progress.

(* Every failure (error or panic) of a job that ran is in the error returned by Wait or was passed to the
   handler, and nothing else is reported - PROVIDED the failure is not a control-valued error (one that is or
   wraps io.EOF, context.Canceled, context.DeadlineExceeded or ErrIteratorSkip) returned by a job of the
   plain WorkerPool: ProcessParallel consumes those as signals (known finding
   C11:WorkerPool:control-error-dropped).  The HandlerWorkerPool hands them to the observer like any error. *)
Theorem pool_job_errors_surfaced :
  forall (cf : Pool.conf) (oc : nat -> outcome) (s : Pool.st), Pool.reach cf oc s ->
    forall w h s', Pool.step cf oc s (Pool.EWaitRet w h) = Some s' ->
      (forall j, In j (Pool.finished s) -> fails (oc j) = true ->
         is_ctl (oc j) = false \/ Pool.handler cf = true -> In j w \/ In j h) /\
      (forall j, In j w \/ In j h -> fails (oc j) = true /\ Pool.ran s j = 1).
Proof. exact pool_job_errors_surfaced_lemma. Qed.
Print Assumptions pool_job_errors_surfaced.

(* ... and without that proviso the statement is false of the code-level model: a plain WorkerPool, even with
   ContinueOnError and ContinueOnPanic, whose job returns io.EOF stops and reports the error nowhere. *)
Theorem pool_job_errors_surfaced_refuted : ~ pool_job_errors_surfaced_statement.
Proof. exact pool_job_errors_surfaced_refuted_lemma. Qed.
Print Assumptions pool_job_errors_surfaced_refuted.

(* Cleanup: a function runs at most once, only if it was accepted and only after the service was shut down;
   when the service's Wait returns every accepted function has run exactly once.
   (False for the code before C11-cleanup-drain.diff.) *)
Theorem cleanup_runs_all_accepted_once :
  forall (oc : nat -> outcome) (s : Cln.st), Cln.reach oc s ->
    (forall c, Cln.ran s c <= 1 /\
               (1 <= Cln.ran s c -> In c (Cln.accepted s) /\ Cln.cancelled s = true /\ Cln.closed s = true)) /\
    (forall obs s', Cln.step oc s (Cln.EWaitRet obs) = Some s' ->
       forall c, In c (Cln.accepted s) -> Cln.ran s c = 1 /\ In c (Cln.finished s)).
Proof. exact cleanup_runs_all_accepted_once_lemma. Qed.
Print Assumptions cleanup_runs_all_accepted_once.

(* ... for every outcome assignment (any number of failing or panicking functions); Wait's error contains
   exactly the failures; and taking / entering the next function never depends on earlier errors. *)
Theorem cleanup_failure_does_not_block_others :
  forall (oc : nat -> outcome) (s : Cln.st), Cln.reach oc s ->
    (forall obs s', Cln.step oc s (Cln.EWaitRet obs) = Some s' ->
       (forall c, In c (Cln.accepted s) -> Cln.ran s c = 1) /\
       (forall c, In c (Cln.accepted s) -> fails (oc c) = true -> In c obs) /\
       (forall c, In c obs -> fails (oc c) = true /\ Cln.ran s c = 1)) /\
    (Cln.cp s = Cln.CExec -> Cln.cache s <> [] -> exists s', Cln.step oc s Cln.ECPop = Some s') /\
    (forall c, In c (Cln.popped s) -> exists s', Cln.step oc s (Cln.EFnBegin c) = Some s').
Proof. exact cleanup_failure_does_not_block_others_lemma. Qed.
Print Assumptions cleanup_failure_does_not_block_others.

(* The tie to the recorded logs: a log accepted by the executable acceptors used in Corr/C11_corr.v is the
   observable projection of a trace of the corresponding system from its initial state. *)
Theorem c11_accepted_logs_are_model_traces :
  (forall oc log, Orch.accepts oc log = true ->
     exists tr s, run (Orch.step oc) Orch.init tr = Some s /\ filter Orch.observable tr = log) /\
  (forall n oc log, Grp.accepts n oc log = true ->
     exists tr s, run (Grp.step n oc) Grp.init tr = Some s /\ filter Grp.observable tr = log) /\
  (forall cf oc log, Pool.accepts cf oc log = true ->
     exists tr s, run (Pool.step cf oc) Pool.init tr = Some s /\ filter Pool.observable tr = log) /\
  (forall oc log, Cln.accepts oc log = true ->
     exists tr s, run (Cln.step oc) Cln.init tr = Some s /\ filter Cln.observable tr = log).
Proof.
  exact (conj orch_accepts_sound (conj group_accepts_sound (conj pool_accepts_sound cleanup_accepts_sound))).
Qed.
Print Assumptions c11_accepted_logs_are_model_traces.
