(* C04 - pipelines terminate: no stuck consumer, no leaked goroutine. Property theorems only.
   Networks: Model/Pipelines.v. "Partial" in DESIGN.md's sense: channel hand-off, WaitGroup,
   context cancellation and goroutine exit are primitives of the model. *)
From FunV Require Import Base.Tac Base.ListX Model.Pipelines
  Proofs.Pipelines_conserve Proofs.Pipelines_quiesce Proofs.Pipelines_nets Proofs.Pipelines_complete.

(* (iii) a goroutine blocked at a ctx-guarded select whose context is cancelled can take a step *)
Theorem C04_ctx_guarded_enabled :
  forall N s p pr d i,
    cur_instr N s p = Some (pr, d, i) -> unguarded_wait i = false ->
    (forall g, In g (instr_guards i) -> cancelledb N s (resolve pr g) = true) ->
    exists arm s', step N s (LStep p arm) = Some s'.
Proof. exact ctx_guarded_enabled. Qed.
Print Assumptions C04_ctx_guarded_enabled.

(* any network at all: the static check on the network term (wf_net: wait-group members never wait
   unguarded, once.Do parks only on the pump, jump targets in range) + all guards cancelled
   => at quiescence nothing runs *)
Theorem C04_quiescent_all_done_any_network :
  forall N s, wf_net N = true -> ginv N s -> quiescent N s -> guards_cancelled N s ->
    (forall p pr, nth_error (s_procs s) p = Some pr -> p_st pr <> PRun) /\ s_oncew s = 0.
Proof. exact quiescent_all_done. Qed.
Print Assumptions C04_quiescent_all_done_any_network.

(* every construct (Map, ProcessParallel, ParallelBuffer, Buffer, Chain/MergeSlices/MergeSliceIterators/
   dt.Map/adt.Map, BufferedChannel, MergeIterators, GenerateParallel, Split), every input, worker count,
   buffer size, cut point and interleaving; stop = cancel | Close | Close-then-cancel *)
Theorem C04_quiescent_all_done :
  forall K srcs s,
    reach (net_of K) (init_of K srcs) s -> stop_happened K s -> quiescent (net_of K) s -> all_done s.
Proof. exact quiescent_all_done_constructs. Qed.
Print Assumptions C04_quiescent_all_done.

(* Split(n): closing outputs suffices only if the output that started the splitter is among them *)
Theorem C04_split :
  forall n l s,
    reach (split_net n) (split_init n l) s -> quiescent (split_net n) s ->
    (forall j pr, j < n -> nth_error (s_procs s) (3 + j) = Some pr -> p_st pr = PRun -> In (3 + j) (s_canc s) \/ In 0 (s_canc s)) ->
    (forall pr, nth_error (s_procs s) 1 = Some pr -> p_st pr = PRun -> In (p_ctx pr) (s_canc s) \/ In 0 (s_canc s)) ->
    all_done s.
Proof. exact split_quiescent. Qed.
Print Assumptions C04_split.

Theorem C04_split_starter_abandoned_refuted :
  exists s, reach (split_net 2) (split_init 2 [1; 2]%Z) s /\ quiescent (split_net 2) s /\
            (forall j pr, j < 2 -> nth_error (s_procs s) (3 + j) = Some pr -> p_st pr <> PRun) /\
            In 4 (s_canc s) /\ ~ In 0 (s_canc s) /\ ~ all_done s.
Proof. exact split_starter_abandoned_refuted. Qed.
Print Assumptions C04_split_starter_abandoned_refuted.

Theorem C04_close_idempotent :
  forall N s c, exists s1 s2,
    step N s (LClose c) = Some s1 /\ step N s1 (LClose c) = Some s2 /\
    s_procs s2 = s_procs s1 /\ s_chans s2 = s_chans s1 /\ s_srcs s2 = s_srcs s1 /\ s_wg s2 = s_wg s1 /\
    s_oncew s2 = s_oncew s1 /\ s_deliv s2 = s_deliv s1 /\ s_drop s2 = s_drop s1 /\
    (forall x, cancelledb N s2 x = cancelledb N s1 x).
Proof. exact close_idempotent. Qed.
Print Assumptions C04_close_idempotent.

(* C04_finite_input_eof, stated for every construct: an un-aborted run that can go no further has finished:
   the consumer returned (it saw io.EOF) after the whole input and no goroutine is left *)
Definition C04_finite_input_eof_statement : Prop :=
  forall K srcs s,
    reach (net_of K) (init_of K srcs) s -> s_stopped s = false -> quiescent (net_of K) s ->
    all_done s /\ Permutation (s_deliv s) (concat srcs).

(* proved (deadlock freedom) for the single-pump constructs - Buffer (any buffer size), Chain, MergeSlices,
   MergeSliceIterators, dt.Map, adt.Map; for the multi-worker constructs the statement is exercised on every
   harness case by the executable model (Corr/C04_corr.v: exhaust runs must end all-done with n delivered)
   and on the real code by the exhaust scenarios; it is NOT proved for them. *)
Theorem C04_finite_input_eof_partial :
  forall b cap input s,
    reach (sp_net b) (sp_init cap input) s -> s_stopped s = false -> quiescent (sp_net b) s ->
    all_done s /\ consumer_done s /\ s_deliv s = input.
Proof. exact sp_quiescent_done. Qed.
Print Assumptions C04_finite_input_eof_partial.
