(* C04 - pipelines terminate: no stuck consumer, no leaked goroutine. Property theorems only.
   Networks: Model/Pipelines.v. "Partial" in DESIGN.md's sense: channel hand-off, WaitGroup,
   context cancellation and goroutine exit are primitives of the model. *)
From FunV Require Import Base.Tac Base.ListX Model.Pipelines
  Proofs.Pipelines_conserve Proofs.Pipelines_quiesce Proofs.Pipelines_nets Proofs.Pipelines_complete Proofs.Pipelines_closer
  Proofs.Pipelines_loops Proofs.Pipelines_release Proofs.Pipelines_nodrop Proofs.Pipelines_completeness Proofs.Pipelines_progress
  Proofs.Pipelines_completeness_merge Proofs.Pipelines_completeness_split Proofs.Pipelines_completeness_pp Proofs.Pipelines_completeness_map Proofs.Pipelines_completeness_pbuf Proofs.Pipelines_completeness_chan Proofs.Pipelines_completeness_all.

(* (iii) a goroutine blocked at a ctx-guarded select whose context is cancelled can take a step *)
Theorem C04_ctx_guarded_enabled :
  forall N s p pr d i,
    cur_instr N s p = Some (pr, d, i) -> unguarded_wait i = false ->
    (forall g, In g (instr_guards i) -> cancelledb N s (resolve pr g) = true) ->
    exists arm s', step N s (LStep p arm) = Some s'.
Proof. exact ctx_guarded_enabled. Qed.
Print Assumptions C04_ctx_guarded_enabled.

(* any network at all: the static check on the network term (wf_net: wait-group members never wait
   unguarded, once.Do parks only on the pump, jump targets in range) + all guards cancelled
   => at quiescence nothing runs *)
Theorem C04_quiescent_all_done_any_network :
  forall N s, wf_net N = true -> ginv N s -> quiescent N s -> guards_cancelled N s ->
    (forall p pr, nth_error (s_procs s) p = Some pr -> p_st pr <> PRun) /\ s_oncew s = 0.
Proof. exact quiescent_all_done. Qed.
Print Assumptions C04_quiescent_all_done_any_network.

(* every construct (Map, ProcessParallel, ParallelBuffer, Buffer, Chain/MergeSlices/MergeSliceIterators/
   dt.Map/adt.Map, BufferedChannel, MergeIterators, GenerateParallel, Split), every input, worker count,
   buffer size, cut point and interleaving; stop = cancel | Close | Close-then-cancel *)
Theorem C04_quiescent_all_done :
  forall K srcs s,
    reach (net_of K) (init_of K srcs) s -> stop_happened K s -> quiescent (net_of K) s -> all_done s.
Proof. exact quiescent_all_done_constructs. Qed.
Print Assumptions C04_quiescent_all_done.

(* Split(n): closing outputs suffices only if the output that started the splitter is among them *)
Theorem C04_split :
  forall n l s,
    reach (split_net n) (split_init n l) s -> quiescent (split_net n) s ->
    (forall j pr, j < n -> nth_error (s_procs s) (3 + j) = Some pr -> p_st pr = PRun -> In (3 + j) (s_canc s) \/ In 0 (s_canc s)) ->
    (forall pr, nth_error (s_procs s) 1 = Some pr -> p_st pr = PRun -> In (p_ctx pr) (s_canc s) \/ In 0 (s_canc s)) ->
    all_done s.
Proof. exact split_quiescent. Qed.
Print Assumptions C04_split.

Theorem C04_split_starter_abandoned_refuted :
  exists s, reach (split_net 2) (split_init 2 [1; 2]%Z) s /\ quiescent (split_net 2) s /\
            (forall j pr, j < 2 -> nth_error (s_procs s) (3 + j) = Some pr -> p_st pr <> PRun) /\
            In 4 (s_canc s) /\ ~ In 0 (s_canc s) /\ ~ all_done s.
Proof. exact split_starter_abandoned_refuted. Qed.
Print Assumptions C04_split_starter_abandoned_refuted.

Theorem C04_close_idempotent :
  forall N s c, exists s1 s2,
    step N s (LClose c) = Some s1 /\ step N s1 (LClose c) = Some s2 /\
    s_procs s2 = s_procs s1 /\ s_chans s2 = s_chans s1 /\ s_srcs s2 = s_srcs s1 /\ s_wg s2 = s_wg s1 /\
    s_oncew s2 = s_oncew s1 /\ s_deliv s2 = s_deliv s1 /\ s_drop s2 = s_drop s1 /\
    (forall x, cancelledb N s2 x = cancelledb N s1 x).
Proof. exact close_idempotent. Qed.
Print Assumptions C04_close_idempotent.

(* C04_finite_input_eof, stated for every construct: an un-aborted run that can go no further has finished:
   the consumer returned (it saw io.EOF) after the whole input and no goroutine is left *)
Definition C04_finite_input_eof_statement : Prop :=
  forall K srcs s,
    reach (net_of K) (init_of K srcs) s -> s_stopped s = false -> quiescent (net_of K) s ->
    all_done s /\ Permutation (s_deliv s) (concat srcs).

(* proved (deadlock freedom) for the single-pump constructs - Buffer (any buffer size), Chain, MergeSlices,
   MergeSliceIterators, dt.Map, adt.Map; for the multi-worker constructs the statement is exercised on every
   harness case by the executable model (Corr/C04_corr.v: exhaust runs must end all-done with n delivered)
   and on the real code by the exhaust scenarios; it is NOT proved for them. *)
Theorem C04_finite_input_eof_partial :
  forall b cap input s,
    reach (sp_net b) (sp_init cap input) s -> s_stopped s = false -> quiescent (sp_net b) s ->
    all_done s /\ consumer_done s /\ s_deliv s = input.
Proof. exact sp_quiescent_done. Qed.
Print Assumptions C04_finite_input_eof_partial.

(* loops that can retry without blocking (GenerateParallel's worker: generator fails, ContinueOnError /
   ContinueOnPanic -> skip -> call again): the static check loops_guarded - every jump of an instruction
   that does not consult a context goes forward or lands on one that does (a select with ctx.Done,
   wg.Wait(ctx), an explicit ctx.Err() test; a call of user code does NOT count) - holds for every
   construct and every n ... *)
Theorem C04_loops_ctx_guarded_constructs : forall K, loops_guarded (net_of K) = true.
Proof. exact loops_guarded_constructs. Qed.
Print Assumptions C04_loops_ctx_guarded_constructs.

(* ... and in any network that passes it a goroutine executes at most |its program| instructions between
   two consultations of a context *)
Theorem C04_loops_ctx_guarded :
  forall N p arms s s',
    wf_net N = true -> loops_guarded N = true -> ginv N s -> own_blind_run N p arms s = Some s' ->
    length arms <= match nth_error (n_procs N) p with Some d => length (d_prog d) | None => 0 end.
Proof. exact blind_run_bounded. Qed.
Print Assumptions C04_loops_ctx_guarded.

(* the worker WITHOUT the ctx.Err() test of the wrapper is rejected by the check, and rightly: after the
   consumer took both values and called Close its two workers are still going round 3000 steps later,
   while with the test the same scenario ends with nothing left *)
Theorem C04_unguarded_retry_loop_refuted :
  loops_guarded (gen_nocheck_net 2 GSkip) = false /\
  (let N := gen_nocheck_net 2 GSkip in
   let s := scenario N (gen_init 2 [1; 2]%Z) 3000 0 true (Some 2) [LClose 1] in leaks N s = 2 /\ quiescentb N s = false) /\
  (let N := gen_net 2 GSkip in
   let s := scenario N (gen_init 2 [1; 2]%Z) 3000 0 true (Some 2) [LClose 1] in
   leaks N s = 0 /\ stuck_users N s = 0 /\ quiescentb N s = true /\ s_deliv s = [1; 2]%Z).
Proof. split; [exact nocheck_rejected|split; [exact nocheck_spins|exact check_stops_the_retry_loop]]. Qed.
Print Assumptions C04_unguarded_retry_loop_refuted.

(* Split(n), one consumer per output, each with its own context: once the splitter has been started and the
   context it runs under (that of the output advanced first) has ended - the output was closed or its context
   cancelled - at quiescence NOTHING runs: the consumers of the other outputs, whose contexts are live, have
   returned (the splitter's deferred pipe.Close is on its cancellation path too) *)
Theorem C04_split_others_released :
  forall n l s,
    reach (split_net n) (split_init n l) s -> quiescent (split_net n) s ->
    (exists pr, nth_error (s_procs s) 1 = Some pr /\ p_st pr <> PNotStarted /\ (In (p_ctx pr) (s_canc s) \/ In 0 (s_canc s))) ->
    all_done s.
Proof. exact split_others_released. Qed.
Print Assumptions C04_split_others_released.

(* BufferedChannel / Channel with a receiver that ranges over the channel (no context of its own): once the
   context the channel was built with is cancelled, at quiescence the pump has gone, the receiver has left
   its loop, and the channel is closed *)
Theorem C04_range_receiver_released :
  forall cap input s,
    reach range_net (range_init cap input) s -> quiescent range_net s -> In 1 (s_canc s) ->
    all_done s /\ closedb s 0 = true.
Proof. exact range_receiver_released. Qed.
Print Assumptions C04_range_receiver_released.

(* what a PostHook that runs its hook only when the worker returned nil does (the error exits of the pump go
   straight to the return): Split(2) - the consumer of output 1 is parked for ever after output 0 was closed;
   the ranging receiver never leaves its loop. With the close on every exit path both are released. *)
Theorem C04_close_skipped_on_error_path_refuted :
  (let N := split_noclose_net 2 in
   let s := run N 500 0 true None (apply N [LClose 3] (apply N [LStep 3 false; LStep 3 false; LStep 1 false; LRdv 1 3; LStep 3 false] (split_init 2 [1; 2; 3]%Z))) in
   quiescentb N s = true /\ stuck_users N s = 1 /\ leaks N s = 0 /\ In 3 (s_canc s)) /\
  (let N := range_noclose_net in
   let s := scenario N (range_init 1 [1; 2; 3; 4]%Z) 500 0 true (Some 2) [LCancel 1] in
   quiescentb N s = true /\ stuck_users N s = 1 /\ closedb s 0 = false).
Proof. split; [exact split_noclose_stuck|exact range_noclose_stuck]. Qed.
Print Assumptions C04_close_skipped_on_error_path_refuted.

(* a lazy stage downstream fails with an ordinary error: ReadOne reports io.EOF and closes the iterator
   (doClose on ANY error) - the cancellation LClose 1, to which C04_quiescent_all_done applies. Without it the
   consumer has just walked away and the pump stays parked in its send for ever; with it nothing is left *)
Theorem C04_eof_without_close_refuted :
  (let N := pump_net in
   let s := scenario N (pump_init [1; 2; 3; 4; 5]%Z) 500 0 true (Some 2) [LAbandon 0] in
   quiescentb N s = true /\ leaks N s = 1 /\ s_canc s = []) /\
  (let N := pump_net in
   let s := scenario N (pump_init [1; 2; 3; 4; 5]%Z) 500 0 true (Some 2) [LClose 1; LAbandon 0] in
   quiescentb N s = true /\ leaks N s = 0).
Proof. split; [exact eof_without_close_leaks|exact eof_with_doclose_releases]. Qed.
Print Assumptions C04_eof_without_close_refuted.

(* ChanSend.Consume (the pump of MergeIterators / Buffer) over an input that is itself goroutine-backed and was
   already running under a live application context: its deferred close of the input is on EVERY exit, so the
   input's own pump goes away when the consumer Closes; closing only after a clean run leaves it parked *)
Theorem C04_consume_closes_input_on_every_exit :
  (let N := nested_net true in
   let s := scenario N (nested_init [1; 2; 3; 4; 5; 6]%Z) 500 0 true (Some 1) [LClose 1] in
   quiescentb N s = true /\ leaks N s = 0 /\ stuck_users N s = 0 /\ ~ In 5 (s_canc s)) /\
  (let N := nested_net false in
   let s := scenario N (nested_init [1; 2; 3; 4; 5; 6]%Z) 500 0 true (Some 1) [LClose 1] in
   quiescentb N s = true /\ leaks N s = 1).
Proof. split; [exact consume_closes_input_on_every_exit|exact consume_close_only_on_success_leaks]. Qed.
Print Assumptions C04_consume_closes_input_on_every_exit.

(* the limit of the library as it is (root cause of finding C04:Split:starter-abandoned): an iterator keeps the
   context of its FIRST advance; a goroutine parked inside the read of an input that was first advanced under
   another, live context is not released by Close / cancellation on the consumer's side *)
Theorem C04_first_advance_context_limit :
  let N := nested_blocked_net in
  let s := scenario N nested_blocked_init 500 0 true (Some 1) [LClose 1; LCancel 0] in
  quiescentb N s = true /\ stuck_users N s = 0 /\ leaks N s = 2 /\ In 1 (s_canc s) /\ In 0 (s_canc s) /\ ~ In 6 (s_canc s).
Proof. exact reader_parked_in_first_advance_context_not_released. Qed.
Print Assumptions C04_first_advance_context_limit.

(* C04_finite_input_eof, in full, for a multi-worker construct: GenerateParallel (any n >= 1 workers, any input,
   any interleaving, generator ending with the end-of-stream signal). This is C04_finite_input_eof_statement at
   K = KGenerate n GEof: an un-aborted run that can go no further has finished - no goroutine runs, nobody is
   parked in once.Do - and the consumer saw io.EOF after a permutation of the whole input. *)
Theorem C04_finite_input_eof_generate :
  forall n input s,
    0 < n -> reach (gen_net n GEof) (gen_init n input) s -> s_stopped s = false -> quiescent (gen_net n GEof) s ->
    all_done s /\ Permutation (s_deliv s) input.
Proof. exact gen_eof_finite_input_eof. Qed.
Print Assumptions C04_finite_input_eof_generate.

(* C04_progress_exhaust for the same family: in every reachable NON-terminal state of an exhaust run some step
   is enabled (deadlock freedom). What is still NOT proved, for any construct: that a fair scheduler reaches the
   terminal state - termination under fairness needs a fairness notion that this development does not have;
   what bounds the runs is C04_loops_ctx_guarded (at most |program| instructions between two consultations of a
   context) and the finiteness of the input. For Map / ProcessParallel / ParallelBuffer / Split / MergeIterators
   the statement remains a Definition exercised by the executable model and the real exhaust runs. *)
Theorem C04_progress_exhaust_generate :
  forall n input s,
    reach (gen_net n GEof) (gen_init n input) s -> s_stopped s = false -> ~ all_done s -> ~ quiescent (gen_net n GEof) s.
Proof. exact gen_eof_progress. Qed.
Print Assumptions C04_progress_exhaust_generate.

(* C04_finite_input_eof / C04_progress_exhaust for MergeIterators *)
Theorem C04_finite_input_eof_merge :
  forall n srcs s,
    length srcs = n -> reach (fanin_net n (fun j => j)) (fanin_init n 0 srcs) s -> s_stopped s = false ->
    quiescent (fanin_net n (fun j => j)) s -> all_done s /\ Permutation (s_deliv s) (concat srcs).
Proof. exact merge_finite_input_eof. Qed.
Print Assumptions C04_finite_input_eof_merge.
Theorem C04_progress_exhaust_merge :
  forall n srcs s,
    length srcs = n -> reach (fanin_net n (fun j => j)) (fanin_init n 0 srcs) s -> s_stopped s = false ->
    ~ all_done s -> ~ quiescent (fanin_net n (fun j => j)) s.
Proof. exact merge_progress. Qed.
Print Assumptions C04_progress_exhaust_merge.

(* C04_finite_input_eof / C04_progress_exhaust for Split(n), n >= 1 *)
Theorem C04_finite_input_eof_split :
  forall n input s,
    0 < n -> reach (split_net n) (split_init n input) s -> s_stopped s = false -> quiescent (split_net n) s ->
    all_done s /\ Permutation (s_deliv s) input.
Proof. exact split_finite_input_eof. Qed.
Print Assumptions C04_finite_input_eof_split.
Theorem C04_progress_exhaust_split :
  forall n input s,
    0 < n -> reach (split_net n) (split_init n input) s -> s_stopped s = false -> ~ all_done s -> ~ quiescent (split_net n) s.
Proof. exact split_progress. Qed.
Print Assumptions C04_progress_exhaust_split.

(* C04_finite_input_eof / C04_progress_exhaust for Iterator.ProcessParallel, n >= 1 workers *)
Theorem C04_finite_input_eof_process_parallel :
  forall n, 0 < n -> forall input s,
    reach (pp_net n) (pp_init n input) s -> s_stopped s = false -> quiescent (pp_net n) s ->
    all_done s /\ Permutation (s_deliv s) input.
Proof. exact pp_finite_input_eof. Qed.
Print Assumptions C04_finite_input_eof_process_parallel.
Theorem C04_progress_exhaust_process_parallel :
  forall n, 0 < n -> forall input s,
    reach (pp_net n) (pp_init n input) s -> s_stopped s = false -> ~ all_done s -> ~ quiescent (pp_net n) s.
Proof. exact pp_progress. Qed.
Print Assumptions C04_progress_exhaust_process_parallel.

(* C04_finite_input_eof / C04_progress_exhaust for fun.Map / Transform.ProcessParallel, n >= 1 workers *)
Theorem C04_finite_input_eof_map :
  forall n, 0 < n -> forall input s,
    reach (map_net n) (map_init n input) s -> s_stopped s = false -> quiescent (map_net n) s ->
    all_done s /\ Permutation (s_deliv s) input.
Proof. exact map_finite_input_eof. Qed.
Print Assumptions C04_finite_input_eof_map.
Theorem C04_progress_exhaust_map :
  forall n, 0 < n -> forall input s,
    reach (map_net n) (map_init n input) s -> s_stopped s = false -> ~ all_done s -> ~ quiescent (map_net n) s.
Proof. exact map_progress. Qed.
Print Assumptions C04_progress_exhaust_map.

(* C04_finite_input_eof / C04_progress_exhaust for Iterator.ParallelBuffer *)
Theorem C04_finite_input_eof_parallel_buffer :
  forall n input s,
    reach (pbuf_net n) (pbuf_init n input) s -> s_stopped s = false -> quiescent (pbuf_net n) s ->
    all_done s /\ Permutation (s_deliv s) input.
Proof. exact pbuf_finite_input_eof. Qed.
Print Assumptions C04_finite_input_eof_parallel_buffer.
Theorem C04_progress_exhaust_parallel_buffer :
  forall n input s,
    reach (pbuf_net n) (pbuf_init n input) s -> s_stopped s = false -> ~ all_done s -> ~ quiescent (pbuf_net n) s.
Proof. exact pbuf_progress. Qed.
Print Assumptions C04_progress_exhaust_parallel_buffer.

(* C04_finite_input_eof for Iterator.BufferedChannel / Channel, any capacity *)
Theorem C04_finite_input_eof_buffered_channel :
  forall cap input s,
    reach chan_net (chan_init cap input) s -> s_stopped s = false -> quiescent chan_net s ->
    all_done s /\ Permutation (s_deliv s) input.
Proof. exact chan_finite_input_eof. Qed.
Print Assumptions C04_finite_input_eof_buffered_channel.

(* C04_finite_input_eof and C04_progress_exhaust: C04_finite_input_eof_statement for EVERY construct family, under the
   side conditions complete_ok (see C01_complete). What is still not proved: that a fair scheduler reaches the
   terminal state (no fairness notion here); runs are bounded by C04_loops_ctx_guarded and the finite input. *)
Theorem C04_finite_input_eof :
  forall K srcs s,
    complete_ok K srcs -> reach (net_of K) (init_of K srcs) s -> s_stopped s = false -> quiescent (net_of K) s ->
    all_done s /\ Permutation (s_deliv s) (concat srcs).
Proof. exact finite_input_eof_all. Qed.
Print Assumptions C04_finite_input_eof.
Theorem C04_progress_exhaust :
  forall K srcs s,
    complete_ok K srcs -> reach (net_of K) (init_of K srcs) s -> s_stopped s = false -> ~ all_done s -> ~ quiescent (net_of K) s.
Proof. exact progress_exhaust_all. Qed.
Print Assumptions C04_progress_exhaust.
