(* C09 - broker makes progress while subscribers read, and shuts down cleanly.
   Property theorems only.  "Eventually"/"promptly" are rendered as statements about quiescent states
   (no internal step enabled) of Model/BrokerModel.v and about enabledness; scheduler fairness is
   trusted.  The model is the repaired code (sigbuf = true: Stats' signal channel is buffered; Wait does
   not hold the mutex Stop needs, so Stop is the single step ECancel). *)
From FunV Require Import Base.Tac Model.BrokerModel Proofs.Broker_base Proofs.Broker_safety
  Proofs.Broker_order Proofs.Broker_live Proofs.Broker_once Proofs.Broker_exact.

(* live context, subscribers willing to receive: whenever nothing more can happen, the distributor is
   empty, the event loop is back at its select with empty request buffers, every Publish / Subscribe /
   Unsubscribe / Stats call has returned, every worker is waiting in Receive, and every message the
   distributor accepted has been dispatched completely (or was evicted by a load-shedding back-end, or rejected by the
   distributor's output filter).
   Bursts of any size, every back-end; the back-end's no-lost-wake-up property (C07) is the premise. *)
Theorem C09_progress :
  forall c wake, wf_cfg c -> sigbuf c = true -> skipstop c = false ->
    (forall st w, wk st w = WParked -> (dist st <> [] \/ live st = false) -> wake st w = true) ->
    forall st, reach c wake st -> quiescent c wake st -> live st = true ->
      dist st = [] /\ loop st = LIdle /\ subq st = [] /\ unsubq st = [] /\
      (forall k, call st k = CIdle) /\
      (forall w, w < nw c -> wk st w = WIdle \/ wk st w = WParked) /\
      (forall m, In m (acc st) -> In m (done st) \/ In m (evicted st) \/ In m (skipped st)).
Proof. intros c wake WF SB SK WS st. exact (quiescent_live c wake SK WS st WF SB). Qed.
Print Assumptions C09_progress.

(* after Stop / cancellation: whenever nothing more can happen, the event loop and every dispatch
   worker have called wg.Done, i.e. Broker.Wait returns; Stop at any point (idle, mid-dispatch,
   mid-publish, with backlog) is covered because the statement is about every reachable state *)
Theorem C09_shutdown :
  forall c wake, sigbuf c = true -> skipstop c = false ->
    (forall st w, wk st w = WParked -> (dist st <> [] \/ live st = false) -> wake st w = true) ->
    forall st, reach c wake st -> quiescent c wake st -> live st = false -> all_done c st = true.
Proof. intros c wake SB SK WS st. exact (quiescent_dead c wake SK WS st SB). Qed.
Print Assumptions C09_shutdown.

(* every blocking point of Publish / Subscribe / Unsubscribe / Stats is a select with a ctx.Done arm:
   in every state (reachable or not, broker running, stopped or wedged) a call whose own context is
   cancelled can return at once *)
Theorem C09_api_ctx_bounded :
  forall c wake st k, call st k <> CIdle -> cctx st k = false ->
    exists st', step c wake st (ECallerAbort k) = Some st' /\ call st' k = CIdle.
Proof. exact api_ctx_bounded. Qed.
Print Assumptions C09_api_ctx_bounded.

(* the original code (unbuffered signal channel in Stats) violates C09_shutdown: defect #23 *)
Theorem C09_stats_unbuffered_refuted :
  exists st, reach unbuffered_cfg wake_exact st /\ quiescent unbuffered_cfg wake_exact st /\
             live st = false /\ all_done unbuffered_cfg st = false.
Proof.
  exists stats_wedge_final. destruct stats_unbuffered_wedges as (R & Q & L & D).
  split; [eapply run_reach; [constructor|exact R]|]. auto.
Qed.
Print Assumptions C09_stats_unbuffered_refuted.

(* the original worker returned on ErrCurrentOpSkip: over an output-filtered distributor it is gone after
   the first rejected message and C09_progress fails (accepted message 3 is never dispatched) *)
Theorem C09_output_filter_skip_refuted :
  exists st, reach outfilter_orig_cfg wake_exact st /\ quiescent outfilter_orig_cfg wake_exact st /\
             live st = true /\ dist st <> [].
Proof.
  exists outfilter_final. destruct output_filter_original_stalls as (R & Q & L & D & _).
  split; [eapply run_reach; [constructor|exact R]|]. repeat split; auto. rewrite D; discriminate.
Qed.
Print Assumptions C09_output_filter_skip_refuted.
