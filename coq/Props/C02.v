(* C02 — property theorems only. Each is closed by `exact` of a lemma proved in Proofs/IterAlgebra_*.v.

   Model: coq/Model/IterAlgebra.v.  [init t] is the state of the real pipeline built for the operator
   tree t; [rd n s] is one call of a producer closure (Iterator.ReadOne for an [SIter]) with fuel n for
   the retry loops ([None] = out of fuel); [run n tm s] is a terminal consumer; [den]/[denote] is the
   functional specification (filter, map, concat, identity, fold, dedupe-first, enumerate, flatten, each
   iterator truncated at its own first non-skip error).  User functions are arbitrary Coq functions
   [nat -> Z -> out] (call index and input), predicates arbitrary [Z -> bool]: the theorems quantify
   over all of them, over all trees and all inputs.

   Fuel: every statement of the form "exists n0, forall n >= n0, run n ... = Some ..." says that the
   retry loops terminate and that the result does not depend on the fuel. *)
From FunV Require Import Base.Tac Model.IterAlgebra Proofs.IterAlgebra_base Proofs.IterAlgebra_ops
  Proofs.IterAlgebra_main Proofs.IterAlgebra_thms.

(* Draining ReadOne from the initial state of ANY tree yields fst (denote t), ends with the terminating
   error dfin t, the two further ReadOne calls return io.EOF, and Close reports exactly the set of error
   ids snd (denote t). *)
Theorem C02_run_eq_denote :
  forall t : tree, exists n0, forall n, n0 <= n -> exists es,
    run n TReadAll (init t) = Some (mkObs (fst (denote t)) (dfin t) [OEof; OEof] 0 [] es) /\
    (forall e, In e es <-> In e (snd (denote t))).
Proof. exact run_eq_denote. Qed.
Print Assumptions C02_run_eq_denote.

(* the same through Next/Value *)
Theorem C02_next_eq_denote :
  forall t : tree, exists n0, forall n, n0 <= n -> exists es,
    run n TNext (init t) = Some (mkObs (fst (denote t)) OEof [OEof; OEof] 0 [] es) /\
    (forall e, In e es <-> In e (snd (denote t))).
Proof. exact run_next_eq_denote. Qed.
Print Assumptions C02_next_eq_denote.

(* Slice: the values, and an error made of Close's errors plus a context error that ended the iteration *)
Theorem C02_slice_eq_denote :
  forall t : tree, exists n0, forall n, n0 <= n -> exists es,
    run n TSlice (init t) = Some (mkObs (fst (denote t)) OEof [] 0 (es ++ ctx_err (dfin t)) es) /\
    (forall e, In e es <-> In e (snd (denote t))).
Proof. exact slice_eq_denote. Qed.
Print Assumptions C02_slice_eq_denote.

(* ErrIteratorSkip removes exactly that element: the REAL run of Transform(g) over a tree whose values
   are l1 ++ x :: l2, with g x = ErrIteratorSkip, yields what the functional map yields on l1 ++ l2. *)
Theorem C02_skip_removes_exactly_one :
  forall (g : Z -> out) (t : tree) (l1 : list Z) (x : Z) (l2 : list Z),
    dvals t = l1 ++ x :: l2 -> g x = OSkip ->
    exists n0, forall n, n0 <= n -> exists fin es,
      run n TReadAll (init (Transform (pure g) t)) =
      Some (mkObs (fst (tvals (pure g) 0 (l1 ++ l2))) fin [OEof; OEof] 0 [] es).
Proof. exact skip_removes_exactly_one. Qed.
Print Assumptions C02_skip_removes_exactly_one.

(* for a user function that depends on its call index: the skipped element contributes nothing and every
   other element is processed under its own call index *)
Theorem C02_skip_removes_exactly_one_indexed :
  forall (f : ufun) (t : tree) (l1 : list Z) (x : Z) (l2 : list Z),
    dvals t = l1 ++ x :: l2 -> f (length l1) x = OSkip -> snd (tvals f 0 l1) = None ->
    dvals (Transform f t) = fst (tvals f 0 l1) ++ fst (tvals f (S (length l1)) l2).
Proof. exact skip_removes_exactly_one_indexed. Qed.
Print Assumptions C02_skip_removes_exactly_one_indexed.

Theorem C02_gen_skip_removed :
  forall pre post : list out, den (Gen (pre ++ OSkip :: post)) = den (Gen (pre ++ post)).
Proof. exact gen_skip_removed. Qed.
Print Assumptions C02_gen_skip_removed.

(* Once ReadOne has returned an error the iterator yields nothing further: for EVERY iterator state
   (any closed flag, collector, hook, producer), if a ReadOne returns anything but a value then that
   outcome is a terminating error and every later ReadOne returns io.EOF and changes nothing. *)
Theorem C02_after_error_nothing :
  forall (c : bool) (es : list Z) (h : hook) (p : st) (n : nat) (o : out) (s' : st),
    rd n (SIter c es h p) = Some (o, s') -> is_val o = false ->
    term o /\ forall m, rd (S m) s' = Some (OEof, s').
Proof. exact after_error_nothing. Qed.
Print Assumptions C02_after_error_nothing.

(* Reduce over any tree = the fold (with the reducer's early exits) over the tree's value sequence *)
Theorem C02_reduce_is_fold :
  forall (r : rfun) (t : tree), exists n0, forall n, n0 <= n ->
    run n (TReduce r) (init t) =
    Some (mkObs [] OEof [] (fst (fold_den r 0 0 (dvals t))) (snd (fold_den r 0 0 (dvals t))) []).
Proof. exact reduce_is_fold. Qed.
Print Assumptions C02_reduce_is_fold.

(* ... which for a reducer that never fails is List.fold_left from the zero value *)
Theorem C02_reduce_is_fold_left :
  forall (g : Z -> Z -> Z) (t : tree), exists n0, forall n, n0 <= n ->
    run n (TReduce (fun _ x a => OVal (g x a))) (init t) =
    Some (mkObs [] OEof [] (fold_left (fun a x => g x a) (dvals t) 0%Z) [] []).
Proof. exact reduce_is_fold_left. Qed.
Print Assumptions C02_reduce_is_fold_left.

Theorem C02_count_is_length :
  forall t : tree, exists n0, forall n, n0 <= n -> exists es,
    run n TCount (init t) = Some (mkObs [] OEof [] (Z.of_nat (length (dvals t))) [] es) /\
    (forall e, In e es <-> In e (derrs t)).
Proof. exact count_is_length. Qed.
Print Assumptions C02_count_is_length.

(* itertool.Contains over any tree = membership in the tree's value sequence *)
Theorem C02_contains_spec :
  forall (x : Z) (t : tree), exists n0, forall n, n0 <= n ->
    run n (TContains x) (init t) =
    Some (mkObs [] OEof [] (if existsb (fun v => (v =? x)%Z) (dvals t) then 1 else 0)%Z [] []).
Proof. exact contains_spec. Qed.
Print Assumptions C02_contains_spec.

(* the dedupe of the denotation keeps exactly one copy of every value (the scan order makes it the first) *)
Theorem C02_dedupe_nodup : forall l : list Z, NoDup (dedupe [] l).
Proof. exact (fun l => dedupe_nodup l []). Qed.
Print Assumptions C02_dedupe_nodup.

Theorem C02_dedupe_in : forall (l : list Z) (x : Z), In x (dedupe [] l) <-> In x l.
Proof. intros l x. rewrite dedupe_in. simpl. tauto. Qed.
Print Assumptions C02_dedupe_in.

(* more fuel never changes a result *)
Theorem C02_fuel_monotone :
  forall (n m : nat) (s : st) (r : out * st), n <= m -> rd n s = Some r -> rd m s = Some r.
Proof. exact (fun n m s r H => rd_mono n m H s r). Qed.
Print Assumptions C02_fuel_monotone.
