(* C16 (dt.List) -- property theorems only. Each is closed by `exact` of a lemma proved elsewhere.
   Model: coq/Model/ListHeap.v (heap of Element nodes + heap of List records, every method
   transcribed statement by statement).  Invariant: Proofs/ListHeap_wf.v (WF w E, E = ghost element
   lists).  A world is [reach]able if it arises from two zero-value lists by operations whose handle
   arguments are allocated elements or nil and none of which is a *successful* Swap. *)
From FunV Require Import Base.Tac Model.SortSpec Model.ListHeap
  Proofs.ListHeap_swap Proofs.ListHeap_ring Proofs.ListHeap_wf Proofs.ListHeap_ops Proofs.ListHeap_step Proofs.ListHeap_all
  Proofs.ListHeap_refine Proofs.ListHeap_examples.
Local Open Scope Z_scope.

(* WF is preserved by every operation, for every handle classification (attached, detached, root,
   nil argument; accepted and rejected cases), under the decidable guard avoids_swap.  The only
   operations without a successor world are method calls on a nil receiver (next theorem). *)
Theorem list_wf_preserved :
  forall w E o, WF w E -> op_valid w o -> avoids_swap w o = true -> nil_receiver w o = false ->
    exists out w' E', step o w = Ret out w' /\ WF w' E' /\ ext w w'.
Proof. exact step_WF. Qed.
Print Assumptions list_wf_preserved.

Theorem list_nil_receiver_panics :
  forall w o, nil_receiver w o = true -> step o w = Panic.
Proof. exact nil_receiver_panics. Qed.
Print Assumptions list_nil_receiver_panics.

(* Refinement to plain sequences: every operation returns what, and changes abs (the value sequence
   of each list) as, the same operation on a plain slice does -- cons / snoc / tl / removelast /
   insert after the position of the receiver / delete at its position / update at its position /
   append-and-clear / stable insertion sort / merge sort / no change; see [seq_effect] in
   Proofs/ListHeap_refine.v for the table.  Rejected operations: world unchanged, "rejected" value. *)
Theorem list_refines_seq :
  forall w E o, WF w E -> op_valid w o -> avoids_swap w o = true -> nil_receiver w o = false ->
    exists r w' E', step o w = Ret r w' /\ WF w' E' /\ seq_effect o w E r w' E'.
Proof. exact refines_all. Qed.
Print Assumptions list_refines_seq.

(* From two zero-value lists, every sequence of valid operations keeps the invariant ... *)
Theorem list_reach_wf : forall w, reach w -> exists E, WF w E.
Proof. exact reach_WF. Qed.
Print Assumptions list_reach_wf.

(* ... never hangs, and panics only on a nil receiver ... *)
Theorem list_progress :
  forall w o, reach w -> op_valid w o -> avoids_swap w o = true ->
    (nil_receiver w o = true /\ step o w = Panic) \/ (exists out w', step o w = Ret out w' /\ reach w').
Proof. exact reach_progress. Qed.
Print Assumptions list_progress.

(* ... and after every step, for every list: forward walk = reversed backward walk = Slice() =
   Iterator() = reversed Reverse(); Len = its length; an element reports In(l) exactly when it is
   the sentinel of l or on l's forward walk. *)
Theorem C16_list :
  forall w l, reach w -> (l < lfresh w)%nat -> observably_consistent w l.
Proof. exact reach_consistent. Qed.
Print Assumptions C16_list.

(* Operations the documentation rejects return the "rejected" value and leave the whole world
   (hence both lists) unchanged. *)
Theorem list_rejected_unchanged :
  forall w o, rejected w o = true -> step o w = Ret (reject_value o) w.
Proof. exact rejected_unchanged. Qed.
Print Assumptions list_rejected_unchanged.

(* Known finding #1: on the faithful model a successful Swap of two adjacent elements of [1;2;3;4]
   leaves a list whose forward walk is [1;3;4], whose backward walk is [4;3;2;2;1] and whose Len is 4. *)
Theorem C16_swap_refuted :
  exists w, run_ops swap_witness_ops empty_world = Some w /\
            fwd_vals w 0 = [1; 3; 4] /\ bwd_vals w 0 = [4; 3; 2; 2; 1] /\ llen (lists w 0) = 4 /\
            ~ walks_agree w 0.
Proof. exact swap_breaks_walks. Qed.
Print Assumptions C16_swap_refuted.

(* ... and that world is not well-formed for any ghost element lists: after a successful Swap no later
   operation is covered by the theorems above (which is why avoids_swap is a hypothesis of all of them). *)
Theorem C16_swap_breaks_wf :
  exists w, run_ops swap_witness_ops empty_world = Some w /\ ~ (exists E, WF w E) /\
            avoids_swap (match run_ops (firstn 4 swap_witness_ops) empty_world with Some w0 => w0 | None => empty_world end)
                        (OSwap (Some 2%nat) (Some 3%nat)) = false.
Proof. exact swap_breaks_WF. Qed.
Print Assumptions C16_swap_breaks_wf.
