(* C08 - broker delivers each message exactly once, in order, to every subscriber.
   Property theorems only; each is closed by `exact` of a lemma proved in Proofs/Broker_*.v.
   All are invariants of Model/BrokerModel.v over every reachable state: any number of API callers,
   publishers, subscribers, messages and dispatch workers, every configuration `c`, every interleaving
   of the modelled steps, every wake-up discipline `wake` of the back-end. *)
From FunV Require Import Base.Tac Model.BrokerModel Proofs.Broker_base Proofs.Broker_safety
  Proofs.Broker_order Proofs.Broker_live Proofs.Broker_once Proofs.Broker_exact.

(* every configuration (load-shedding back-ends, input/output filters on the distributor included):
   publications are distinct, a subscriber's log
   contains only published messages, and no publication twice *)
Theorem C08_only_published_no_dup :
  forall c wake st s, reach c wake st ->
    NoDup (pubd st) /\ incl (rcv st s) (pubd st) /\ NoDup (rcv st s).
Proof. exact only_published_no_dup. Qed.
Print Assumptions C08_only_published_no_dup.

(* one dispatch worker (WorkerPoolSize <= 1): every subscriber's log is in the order in which the
   worker took the messages from the distributor, which is the order of the Publish rendezvous with the
   event loop (`pubd`; a publisher's successive Publish calls appear there in program order); hence no
   two subscribers disagree on the relative order of two messages.  Holds for every back-end of the
   model (all are FIFO), lossless or not. *)
Theorem C08_single_worker_order :
  forall c wake, nw c = 1 -> forall st, reach c wake st ->
    (forall s a b, before (rcv st s) a b -> before (taken st) a b /\ before (pubd st) a b) /\
    (forall s s' a b, before (rcv st s) a b -> before (rcv st s') b a -> False).
Proof. exact single_worker_order. Qed.
Print Assumptions C08_single_worker_order.

(* lossless broker, subscriber s never calls Unsubscribe: every message whose Publish rendezvous
   happened while s was subscribed (`owed st s`) has been delivered or is still on its way to s while
   the context is live, and at quiescence it is in s's log exactly once.  `wake` must satisfy the
   back-end's no-lost-wake-up property (C07). *)
Theorem C08_subscribed_throughout_exactly_once :
  forall c wake, lossless c -> stalebreak c = false -> wf_cfg c -> sigbuf c = true -> skipstop c = false ->
    (forall st w, wk st w = WParked -> (dist st <> [] \/ live st = false) -> wake st w = true) ->
    forall st s m, reach c wake st -> live st = true ->
      ~ In s (unsubcalled st) -> In m (owed st s) ->
      (In m (rcv st s) \/ pend_for st s m) /\
      (quiescent c wake st -> count_occ Nat.eq_dec (rcv st s) m = 1).
Proof.
  intros c wake LL NB WF SB SK WS st s m R LV Hn Ho. split.
  - exact (owed_delivered_or_pending c wake LL NB st s m R LV Hn Ho).
  - intros Q. exact (exactly_once c wake LL NB SK WS st s m WF SB R Q LV Hn Ho).
Qed.
Print Assumptions C08_subscribed_throughout_exactly_once.

(* the clause "...and before its Unsubscribe was called" is false of the code (known finding
   C08:broker:unsubscribe-before-dispatch): Proofs/Broker_exact.v, inflight_schedule *)
Theorem C08_unsubscribe_inflight_refuted : ~ inflight_statement.
Proof. exact unsubscribe_inflight_refuted. Qed.
Print Assumptions C08_unsubscribe_inflight_refuted.

(* a dispatch loop that `break`s at a key the Range yielded but that has been unsubscribed meanwhile
   (stalebreak = true; not the code in /repo) loses a message owed to a subscriber that stayed: the key
   must be skipped *)
Theorem C08_stale_key_break_refuted :
  exists st, reach stalebreak_cfg wake_exact st /\ quiescent stalebreak_cfg wake_exact st /\
             live st = true /\ ~ In 2 (unsubcalled st) /\ In 7 (owed st 2) /\ ~ In 7 (rcv st 2).
Proof.
  exists stalebreak_final. destruct stale_key_break_refuted as (R & Q & L & _ & U & O & V & _).
  split; [eapply run_reach; [constructor|exact R]|]. split; auto. split; auto. split; auto.
  split; [rewrite O; simpl; auto | rewrite V; auto].
Qed.
Print Assumptions C08_stale_key_break_refuted.

(* an API call that returns through its ctx.Done arm (and a Subscribe entered with a dead context) leaves
   the broker exactly as it was: no ghost subscription, nothing enqueued *)
Theorem C08_cancelled_call_no_effect :
  (forall c wake st k st', step c wake st (ECallerAbort k) = Some st' -> same_broker st st') /\
  (forall c wake st k s st', cctx st k = false -> step c wake st (ECall k (OpSub s)) = Some st' ->
     same_broker st st' /\ call st' k = call st k).
Proof. split; [exact cancelled_call_no_effect | exact dead_ctx_subscribe_no_effect]. Qed.
Print Assumptions C08_cancelled_call_no_effect.
