(* C12 — error aggregation is lossless and errors.Is / errors.As / Unwind-consistent.
   Property theorems only; each is closed by `exact` of a lemma proved in Proofs/ErrTree_*.v.

   Vocabulary (Model/ErrTree.v, Proofs/ErrTree_base.v):
     err            finite error trees over nil, ers.Error constants, pointer errors, typed errors,
                    fmt.Errorf("%w") wrappers, Unwrap() []error values (errors.Join), *ers.Stack values
     join           ers.Join        go_is / go_as   errors.Is / errors.As       unwind   ers.Unwind
     supplied es    the constituents the operands es contribute (stacks and multis flattened in the order Push
                    visits them, nils dropped), oldest first
     plain e        e is kept as one constituent (not nil, not a stack, not a multi)
     wf e           e can be built by the API (no nil inside a stack's chain); every program's value is wf
     expr / eval    programs = finite trees of Join / Wrap / Errorf / errors.Join / Stack / Collector / ParsePanic /
                    errors.Unwrap (inner layers) / RemoveOk / Append
     ok / unwrap1   ers.Ok / errors.Unwrap;   remove_ok   ers.RemoveOk = ers.Append(nil, ...) *)
From FunV Require Import Base.Tac Base.ListX Model.ErrTree Proofs.ErrTree_base Proofs.ErrTree_agg Proofs.ErrTree_conc.
From FunV Require Import Conc.LockedObject.
Local Open Scope Z_scope.

(* every value a program can build is well-formed (so the wf premises below hold for all programs) *)
Theorem C12_programs_wf : forall x : expr, wf (eval x) = true.
Proof. exact wf_eval. Qed.
Print Assumptions C12_programs_wf.

(* the result is nil exactly when no non-nil constituent was supplied; nils anywhere are ignored *)
Theorem C12_join_nil_iff : forall tag es, join tag es = Nil <-> supplied es = [].
Proof. exact join_nil_iff. Qed.
Print Assumptions C12_join_nil_iff.

Theorem C12_join_all_nil : forall tag es, Forall (fun e => e = Nil) es -> join tag es = Nil.
Proof. exact join_all_nil. Qed.
Print Assumptions C12_join_all_nil.

Theorem C12_join_not_nil : forall tag es e, In e es -> plain e = true -> join tag es <> Nil.
Proof. exact join_not_nil. Qed.
Print Assumptions C12_join_not_nil.

(* Join of a single constituent returns that constituent itself *)
Theorem C12_join_single_identity : forall tag es c, supplied es = [c] -> join tag es = c.
Proof. exact join_single_identity. Qed.
Print Assumptions C12_join_single_identity.

Theorem C12_join_single_plain :
  forall tag e n m, plain e = true -> join tag (repeat Nil n ++ e :: repeat Nil m) = e.
Proof. exact join_single_plain. Qed.
Print Assumptions C12_join_single_plain.

(* Unwind of the result lists each supplied constituent exactly once, most recent first
   (with one constituent the result is that constituent and Unwind unwinds it) *)
Theorem C12_unwind_join :
  forall tag es, length (supplied es) <> 1%nat -> unwind (join tag es) = rev (supplied es).
Proof. exact unwind_join. Qed.
Print Assumptions C12_unwind_join.

Theorem C12_unwind_join_perm :
  forall tag es, length (supplied es) <> 1%nat -> Permutation (unwind (join tag es)) (supplied es).
Proof. exact unwind_join_perm. Qed.
Print Assumptions C12_unwind_join_perm.

Theorem C12_unwind_join_single : forall tag es c, supplied es = [c] -> unwind (join tag es) = unwind c.
Proof. exact unwind_join_single. Qed.
Print Assumptions C12_unwind_join_single.

Theorem C12_stack_unwind_add : forall es, chain_unwind (s_chain (stack_add stack_zero es)) = rev (supplied es).
Proof. exact stack_unwind_add. Qed.
Print Assumptions C12_stack_unwind_add.

(* errors.Is on the result succeeds exactly when it succeeds on an operand — both directions, every target
   that is not itself flattened away (constants, pointer errors, typed errors, %w wrappers) *)
Theorem C12_is_join_iff :
  forall tag es t, plain t = true -> Forall (fun e => wf e = true) es ->
    go_is (join tag es) t = existsb (fun e => go_is e t) es.
Proof. exact is_join_iff. Qed.
Print Assumptions C12_is_join_iff.

Theorem C12_is_join_iff_programs :
  forall tag xs t, plain t = true ->
    go_is (eval (XJoin tag xs)) t = existsb (fun x => go_is (eval x) t) xs.
Proof. exact is_join_iff_programs. Qed.
Print Assumptions C12_is_join_iff_programs.

(* ... and errors.Is never invents a match: a leaf target is found iff it is a node of the tree
   (eqv: Go's == for comparable targets; same type and contents, via the type's Is method, for the uncomparable
   slice-/map-based user types TypedU, on which == would panic and is never evaluated) *)
Theorem C12_is_exactly_nodes :
  forall t e, leaf t = true -> wf e = true -> go_is e t = existsb (fun n => eqv n t) (nodes e).
Proof. exact is_exactly_nodes. Qed.
Print Assumptions C12_is_exactly_nodes.

(* errors.As on the result: the first success among the constituents, most recent first; it succeeds exactly
   when it succeeds on an operand; what it stores is a node of the tree of the requested type *)
Theorem C12_as_join :
  forall tag es k, go_as (join tag es) k = first_some (fun c => go_as c k) (rev (supplied es)).
Proof. exact as_join. Qed.
Print Assumptions C12_as_join.

Theorem C12_as_join_iff :
  forall tag es k, Forall (fun e => wf e = true) es ->
    is_some (go_as (join tag es) k) = existsb (fun e => is_some (go_as e k)) es.
Proof. exact as_join_iff. Qed.
Print Assumptions C12_as_join_iff.

Theorem C12_as_genuine : forall k e v, as_ k e = Some v -> assignable k v = true /\ In v (nodes e).
Proof. exact as_genuine. Qed.
Print Assumptions C12_as_genuine.

(* Ok / Wrap / RemoveOk / Append and inner layers (errors.Unwrap of an aggregate): nothing that still holds a
   constituent is ever treated as nil *)
Theorem C12_ok_holds_nothing : forall e, ok e = true -> constituents e = [].
Proof. exact ok_no_constituents. Qed.
Print Assumptions C12_ok_holds_nothing.

Theorem C12_wrap_nil_iff : forall tag ann e, wrap tag ann e = Nil <-> ok e = true.
Proof. exact wrap_nil_iff. Qed.
Print Assumptions C12_wrap_nil_iff.

Theorem C12_wrap_keeps :
  forall tag ann e, constituents e <> [] ->
    wrap tag ann e <> Nil /\ unwind (wrap tag ann e) = Ptr ann :: rev (constituents e).
Proof. exact wrap_keeps. Qed.
Print Assumptions C12_wrap_keeps.

Theorem C12_wrap_is :
  forall tag ann e t, plain t = true -> wf e = true -> ok e = false ->
    go_is (wrap tag ann e) t = go_is e t || same (Ptr ann) t.
Proof. exact wrap_is. Qed.
Print Assumptions C12_wrap_is.

Theorem C12_join_remove_ok : forall tag es, join tag (remove_ok es) = join tag es.
Proof. exact join_remove_ok. Qed.
Print Assumptions C12_join_remove_ok.

Theorem C12_remove_ok_keeps : forall es e, In e es -> constituents e <> [] -> In e (remove_ok es).
Proof. exact remove_ok_keeps. Qed.
Print Assumptions C12_remove_ok_keeps.

Theorem C12_inner_layer_kept :
  forall tag g n es, wf (Stk g n es) = true -> (2 <= length es)%nat ->
    let inner := unwrap1 tag (Stk g n es) in
    value_len inner = 0 /\ ok inner = false /\ unwind inner = tl es /\ supplied [inner] = tl es
    /\ (forall tag' ann, wrap tag' ann inner <> Nil /\ unwind (wrap tag' ann inner) = Ptr ann :: rev (tl es))
    /\ (forall tag', join tag' [inner] <> Nil).
Proof. exact inner_layer_kept. Qed.
Print Assumptions C12_inner_layer_kept.

(* ParsePanic marks every recovered panic with ErrRecoveredPanic — except a []error panic value
   (known finding C12:ParsePanic:error-slice; TestPanics/ParsePanic/ErrorSlice pins the behaviour) *)
Theorem C12_parse_panic_marked :
  forall tag p, panics p = true -> avoids_error_slice p = true ->
    go_is (parse_panic tag p) ErrRecoveredPanic = true.
Proof. exact parse_panic_marked. Qed.
Print Assumptions C12_parse_panic_marked.

Theorem C12_parse_panic_marked_refuted : ~ parse_panic_marked_statement.
Proof. exact parse_panic_marked_refuted. Qed.
Print Assumptions C12_parse_panic_marked_refuted.

Theorem C12_parse_panic_nil : forall tag p, panics p = false -> parse_panic tag p = Nil.
Proof. exact parse_panic_nil. Qed.
Print Assumptions C12_parse_panic_nil.

(* Collector, sequentially: after any list of Adds it holds exactly the supplied constituents *)
Theorem C12_collector_holds_exactly :
  forall tag es,
    let c := coll_adds coll_zero es in
    coll_len c = Z.of_nat (length (supplied es))
    /\ (coll_resolve tag c = Nil <-> supplied es = [])
    /\ unwind (coll_resolve tag c) = rev (supplied es)
    /\ (forall t, plain t = true -> Forall (fun e => wf e = true) es ->
          go_is (coll_resolve tag c) t = existsb (fun e => go_is e t) es).
Proof. exact collector_holds_exactly. Qed.
Print Assumptions C12_collector_holds_exactly.

Theorem C12_collector_counts_non_nil :
  forall tag es, Forall (fun e => is_nil e = true \/ plain e = true) es ->
    let c := coll_adds coll_zero es in
    coll_len c = Z.of_nat (length (filter (fun e => negb (is_nil e)) es))
    /\ (coll_resolve tag c = Nil <-> Forall (fun e => e = Nil) es)
    /\ unwind (coll_resolve tag c) = rev (filter (fun e => negb (is_nil e)) es).
Proof. exact collector_counts_non_nil. Qed.
Print Assumptions C12_collector_counts_non_nil.

(* FilterExclude is all-or-nothing (ers/filter.go): it returns nil or its operand, and one excluded constituent
   drops the whole aggregate — which is why filtering the result of Iterator.Observe loses the iterator's errors *)
Theorem C12_filter_exclude_result : forall excl e, filter_exclude excl e = Nil \/ filter_exclude excl e = e.
Proof. exact filter_exclude_result. Qed.
Print Assumptions C12_filter_exclude_result.

Theorem C12_filter_exclude_aggregate :
  forall tag es t, plain t = true -> Forall (fun e => wf e = true) es ->
    existsb (fun e => go_is e t) es = true -> filter_exclude [t] (join tag es) = Nil.
Proof. exact filter_exclude_aggregate. Qed.
Print Assumptions C12_filter_exclude_aggregate.

(* erc.Consume / erc.Stream into a collector (after any Adds through Add / Handler / Check / Collect / When /
   Recover): it holds exactly what was added, what the stream delivered, what the iterator carried and, when the
   loop was cancelled, the context error; nothing is lost, nothing is invented *)
Theorem C12_consume_holds_exactly :
  forall tag adds pre steps cancelled,
    let c := consume (coll_adds coll_zero adds) pre steps cancelled in
    let held := supplied adds ++ consumed pre steps cancelled in
    coll_len c = Z.of_nat (length held)
    /\ (coll_resolve tag c = Nil <-> held = [])
    /\ unwind (coll_resolve tag c) = rev held
    /\ (forall t, plain t = true -> Forall (fun e => wf e = true) held ->
          go_is (coll_resolve tag c) t = existsb (fun e => go_is e t) held).
Proof. exact consume_holds_exactly. Qed.
Print Assumptions C12_consume_holds_exactly.

Theorem C12_consume_never_loses :
  forall adds pre steps cancelled d f cn x c,
    observe_spec steps cancelled = (d, f, cn) ->
    In x adds \/ In x pre \/ In x d \/ In x f -> In c (constituents x) ->
    In c (supplied adds ++ consumed pre steps cancelled).
Proof. exact consume_never_loses. Qed.
Print Assumptions C12_consume_never_loses.

Theorem C12_consume_never_invents :
  forall adds pre steps cancelled d f cn c,
    observe_spec steps cancelled = (d, f, cn) ->
    In c (supplied adds ++ consumed pre steps cancelled) ->
    (cn = true /\ c = ctx_canceled) \/
    exists x, (In x adds \/ In x pre \/ In x d \/ In x f) /\ In c (constituents x).
Proof. exact consume_never_invents. Qed.
Print Assumptions C12_consume_never_invents.

(* Collector from many goroutines (instance of Conc/LockedObject): for every trace — any number of goroutines,
   any overlap — the history is linearizable and the collector holds exactly what the linearized Adds supplied *)
Theorem C12_collector_concurrent :
  forall tr c,
    run coll cop cres coll_zero cseq cblocked RCancelled tr = Some c ->
    let adds := adds_of (lin c) in
    linearization coll cop cres coll_zero cseq cblocked RCancelled tr c
    /\ st c = coll_adds coll_zero adds
    /\ coll_len (st c) = Z.of_nat (length (supplied adds))
    /\ (forall tag, coll_resolve tag (st c) = Nil <-> supplied adds = [])
    /\ (forall tag, unwind (coll_resolve tag (st c)) = rev (supplied adds))
    /\ (forall tag t, plain t = true -> Forall (fun e => wf e = true) adds ->
          go_is (coll_resolve tag (st c)) t = existsb (fun e => go_is e t) adds).
Proof. exact collector_concurrent. Qed.
Print Assumptions C12_collector_concurrent.

Theorem C12_collector_concurrent_results :
  forall tr c l1 e l2,
    run coll cop cres coll_zero cseq cblocked RCancelled tr = Some c ->
    lin c = l1 ++ e :: l2 -> le_cancel e = false ->
    match le_op e with
    | CAdd _ => le_res e = RUnit
    | CLen => le_res e = RLen (Z.of_nat (length (supplied (adds_of l1))))
    | CResolve tag => le_res e = RErr (coll_resolve tag (coll_adds coll_zero (adds_of l1)))
    | CIter => le_res e = RList (rev (supplied (adds_of l1)))
    end.
Proof. exact collector_concurrent_results. Qed.
Print Assumptions C12_collector_concurrent_results.
