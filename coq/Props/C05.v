(* C05 — pubsub.Queue is a linearizable bounded FIFO.  Property theorems only; each is closed by
   `exact` of a lemma proved in Proofs/QueueHeap_*.v or Conc/LockedObject.v.

   Model: Model/QueueHeap.v (pointer-level queue: entries, links, front sentinel, back, closed flag,
   the three trackers with the quota tracker's float64 credit as a Coq primitive float).
   [t_fresh t] = a tracker as built by the constructors (NewUnlimitedQueue, NewQueue after Validate,
   the Deque's fixed-capacity tracker); [qreach t q] = q is reachable from the empty queue by ANY
   list of operations (blocked attempts included: they change nothing).
   Primitive floats / 63-bit integers appear under Print Assumptions as kernel primitives
   (names under PrimFloat and PrimInt63); no axiom is used. *)
From FunV Require Import Base.Tac Conc.LockedObject Model.QueueHeap
     Proofs.QueueHeap_tracker Proofs.QueueHeap_spec Proofs.QueueHeap_refine
     Proofs.QueueHeap_props Proofs.QueueHeap_conc.
Local Open Scope Z_scope.

(* The constructors produce fresh trackers; Validate accepts exactly the documented options. *)
Theorem C05_valid_options :
  forall hl sq bc,
    ((exists t, validate_opts hl sq bc = Some t) <-> (0 < hl /\ sq <= hl /\ PrimFloat.ltb bc f_zero = false)) /\
    (forall t, validate_opts hl sq bc = Some t -> t_fresh t /\ t_bound t = Some hl).
Proof. exact valid_options. Qed.
Print Assumptions C05_valid_options.

(* Pointer structure <-> list, any operation list: same results as the FIFO specification, the walk
   over the links is the specification's item list, handed-out ++ still-linked = accepted (in order,
   each once, only if added), the representation invariant holds, popFront never dereferences nil. *)
Theorem C05_queue_refines_fifo :
  forall t ops, t_fresh t ->
    let q := fst (run_ops q_step (make_queue t) ops) in
    let rs := snd (run_ops q_step (make_queue t) ops) in
    let s := fst (run_ops spec_step (spec_init t) ops) in
    rs = snd (run_ops spec_step (spec_init t) ops) /\
    contents q = items s /\ trk q = strk s /\ closed q = sclosed s /\
    taken rs ++ contents q = added ops rs /\
    wfq q /\ (forall r, In r rs -> r <> RPanic).
Proof. exact queue_refines_fifo. Qed.
Print Assumptions C05_queue_refines_fifo.

(* the same refinement for the try-form (blocking operations called with a cancelled context),
   which is what the sequential correspondence run executes *)
Theorem C05_queue_refines_fifo_try :
  forall t ops, t_fresh t ->
    snd (run_ops q_try (make_queue t) ops) = snd (run_ops spec_try (spec_init t) ops) /\
    abs (fst (run_ops q_try (make_queue t) ops)) = fst (run_ops spec_try (spec_init t) ops).
Proof. exact queue_refines_fifo_try. Qed.
Print Assumptions C05_queue_refines_fifo_try.

(* Len = number of linked items = tracker.length; invariant 0 <= length <= softQuota <= hardLimit
   (t_ok); never more items than the hard limit / capacity. *)
Theorem C05_len_exact_and_bounded :
  forall t q, t_fresh t -> qreach t q ->
    q_step q OLen = (q, RLen (Z.of_nat (length (contents q)))) /\
    q_step q ODLen = (q, RLen (Z.of_nat (length (contents q)))) /\
    t_len (trk q) = Z.of_nat (length (contents q)) /\
    t_ok (trk q) /\
    (forall b, t_bound t = Some b -> Z.of_nat (length (contents q)) <= b).
Proof. exact len_exact_and_bounded. Qed.
Print Assumptions C05_len_exact_and_bounded.

(* Add (and Distributor.Send) fails exactly when the sequential rules say so. *)
Theorem C05_add_error_iff :
  forall t q v, t_fresh t -> qreach t q ->
    let r := snd (q_step q (OAdd v)) in
    (closed q = true -> r = RErr EClosed) /\
    (closed q = false ->
       match trk q with
       | Quota sq hl l cr =>
           (r = RErr EFull <-> (l >= sq /\ l = hl)) /\
           (r = RErr ENoCredit <-> (sq <= l < hl /\ credit_lt_1 cr = true)) /\
           (r = RErr ENil <-> (l < sq \/ (l < hl /\ credit_lt_1 cr = false))) /\
           r <> RErr EClosed
       | HardLimit c l =>
           (r = RErr EFull <-> l >= c) /\ (r = RErr ENil <-> l < c) /\ r <> RErr ENoCredit /\ r <> RErr EClosed
       | NoLimit _ => r = RErr ENil
       end) /\
    (r <> RErr ENil -> fst (q_step q (OAdd v)) = q) /\
    snd (q_step q (OSend v)) = r.
Proof. exact add_error_iff. Qed.
Print Assumptions C05_add_error_iff.

(* Quota dynamics: cost of an over-quota add; effect of a take on quota and credit. *)
Theorem C05_quota_dynamics :
  forall t q v, t_fresh t -> qreach t q ->
    forall sq hl l cr, trk q = Quota sq hl l cr -> closed q = false ->
    (l >= sq -> l <> hl -> credit_lt_1 cr = false ->
       trk (fst (q_step q (OAdd v))) = Quota (l + 1) hl (l + 1) (PrimFloat.sub cr f_one)) /\
    (l < sq -> trk (fst (q_step q (OAdd v))) = Quota sq hl (l + 1) cr) /\
    (0 < l -> exists sq',
       trk (fst (q_step q ORemove)) =
         Quota sq' hl (l - 1)
           (cap_credit (z2f (hl - sq')) (PrimFloat.add cr (PrimFloat.div (z2f (sq' - (l - 1))) (z2f sq')))) /\
       sq - 1 <= sq' <= sq /\ (sq' = sq - 1 <-> (sq > 1 /\ l - 1 < sq / 2)) /\ 1 <= sq' /\ 0 < sq' - (l - 1)).
Proof. exact quota_dynamics. Qed.
Print Assumptions C05_quota_dynamics.

(* Close: flag only; monotone; adds fail with ErrQueueClosed; queued items remain removable oldest
   first; Wait/Receive on closed-and-empty report ErrQueueClosed (open-and-empty: block). *)
Theorem C05_close_semantics :
  forall t q, t_fresh t -> qreach t q ->
    (let q' := fst (q_step q OClose) in
     snd (q_step q OClose) = RErr ENil /\ closed q' = true /\ contents q' = contents q /\ trk q' = trk q) /\
    (closed q = true -> forall o, closed (fst (q_step q o)) = true) /\
    (closed q = true -> forall v,
       q_step q (OAdd v) = (q, RErr EClosed) /\ q_step q (OBlockingAdd v) = (q, RErr EClosed) /\
       q_step q (OSend v) = (q, RErr EClosed)) /\
    (forall v rest, contents q = v :: rest ->
       forall o, (o = ORemove \/ o = OWait \/ o = OReceive) ->
         snd (q_step q o) = RItem v /\ contents (fst (q_step q o)) = rest /\ closed (fst (q_step q o)) = closed q) /\
    (contents q = [] ->
       q_step q ORemove = (q, RNotOk) /\
       q_step q OWait = (q, if closed q then RErr EClosed else RBlocked) /\
       q_step q OReceive = (q, if closed q then RErr EClosed else RBlocked)).
Proof. exact close_semantics. Qed.
Print Assumptions C05_close_semantics.

(* Linearizability: every trace of the concurrent system over the queue model — any number of
   threads, operations, overlaps, cancellation times. *)
Theorem C05_linearizable :
  forall t tr c,
    run queue qop qres (make_queue t) q_step is_blocked cancelled tr = Some c ->
    linearization queue qop qres (make_queue t) q_step is_blocked cancelled tr c.
Proof. exact c05_linearizable. Qed.
Print Assumptions C05_linearizable.

(* real-time order: Ret of a before Inv of b in the trace => a before b in the linearization *)
Theorem C05_realtime :
  forall t tr c,
    run queue qop qres (make_queue t) q_step is_blocked cancelled tr = Some c ->
    forall a b, In a (hist c) -> In b (lin c) -> (c_ret a < le_inv b)%nat -> precedes (c_entry a) b (lin c).
Proof. exact c05_realtime. Qed.
Print Assumptions C05_realtime.

(* ... and the linearization is a legal execution of the FIFO-with-tracker specification from the
   empty queue; items come out in the order their adds took effect, each at most once and only if
   added; Len is exact and bounded in every reachable concurrent state. *)
Theorem C05_linearizable_fifo :
  forall t tr c, t_fresh t ->
    run queue qop qres (make_queue t) q_step is_blocked cancelled tr = Some c ->
    legal qspec qop qres spec_step is_blocked cancelled (spec_init t) (lin c) (abs (st c)) /\
    wfq (st c) /\
    e_taken (lin c) ++ contents (st c) = e_added (lin c) /\
    t_len (trk (st c)) = Z.of_nat (length (contents (st c))) /\
    t_ok (trk (st c)) /\
    (forall b, t_bound t = Some b -> Z.of_nat (length (contents (st c))) <= b).
Proof. exact c05_linearizable_fifo. Qed.
Print Assumptions C05_linearizable_fifo.

(* An operation that returns a context error has no effect (concurrent: it is a Cancel event). *)
Theorem C05_ctx_error_no_effect :
  forall t tr c,
    run queue qop qres (make_queue t) q_step is_blocked cancelled tr = Some c ->
    forall e, In e (lin c) -> le_cancel e = true ->
      le_res e = RErr ECtx /\
      nth_error tr (le_lin e) = Some (Cancel (le_tid e)) /\
      exists l1 l2 s, lin c = l1 ++ e :: l2 /\
        legal queue qop qres q_step is_blocked cancelled (make_queue t) l1 s /\
        legal queue qop qres q_step is_blocked cancelled s [e] s /\
        legal queue qop qres q_step is_blocked cancelled s l2 (st c) /\
        legal queue qop qres q_step is_blocked cancelled (make_queue t) (l1 ++ l2) (st c).
Proof. exact c05_ctx_error_no_effect. Qed.
Print Assumptions C05_ctx_error_no_effect.

(* a context error is returned only by a Cancel event, never by an effective critical section *)
Theorem C05_ctx_error_only_from_cancel :
  forall t tr c, t_fresh t ->
    run queue qop qres (make_queue t) q_step is_blocked cancelled tr = Some c ->
    forall e, In e (lin c) -> le_res e = RErr ECtx -> le_cancel e = true.
Proof. exact c05_ctx_only_from_cancel. Qed.
Print Assumptions C05_ctx_error_only_from_cancel.

(* sequential form (blocking operation called with a cancelled context): the context error is
   reported exactly when the wait predicate is false, and then nothing changed *)
Theorem C05_ctx_error_no_effect_seq :
  forall t q o, t_fresh t -> qreach t q ->
    (snd (q_try q o) = RErr ECtx <-> is_blocked (snd (q_step q o)) = true) /\
    (snd (q_try q o) = RErr ECtx -> fst (q_try q o) = q) /\
    (snd (q_try q o) = RErr ECtx ->
       match o with
       | OBlockingAdd _ => closed q = false /\ t_cap (trk q) <= t_len (trk q)
       | OWait | OReceive => closed q = false /\ contents q = []
       | _ => False
       end).
Proof. exact ctx_error_no_effect_seq. Qed.
Print Assumptions C05_ctx_error_no_effect_seq.
