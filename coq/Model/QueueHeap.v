(* Model/QueueHeap.v — code-level executable model of pubsub.Queue (queue.go), its limit trackers
   (tracker.go) and the Queue-backed Distributor (buffer.go / queue.go:Distributor).

   Transcribed statement by statement from the Go source.  No proofs here.

   Representation
     entry[T]           ent {item; link : option nat}   (nil pointer = None); addresses are nat,
                        allocation is a bump counter [nalloc] (Go's `new` never returns a live address)
     Queue              queue {heap; nalloc; front; back; closed; trk}
     queueLimitTracker  tracker = NoLimit len | HardLimit cap len | Quota softQuota hardLimit len credit
                        - Go `int` is modelled by Z (no 64-bit wrap-around: lengths are bounded by memory)
                        - the quota tracker's credit is a Go float64: modelled by Coq primitive floats
                          (IEEE binary64, evaluated natively by vm_compute, bit-identical to Go)
     not modelled here  the two sync.Cond (nempty, nupdates) and the mutex: wake-ups are C07's subject,
                        the lock discipline C13's.  A Signal/Broadcast writes no queue field.

   Blocking operations.  [q_step] is the "one critical section attempt" semantics used as the [seq]
   of Conc/LockedObject.v: when the wait predicate of BlockingAdd / Wait / Receive is false the result
   is [RBlocked] and the state is unchanged (the thread parks).  [q_try] is the try-form = the same
   operation called with an already-cancelled context: a blocked attempt returns the context error.
   NOTE (DESIGN.md section 9, modelling note): BlockingAdd waits while `tracker.cap() <= tracker.len()`;
   for the quota tracker cap() is the SOFT quota, so BlockingAdd blocks in states where Add would be
   admitted on burst credit.  The model uses the code's predicate, not Add's admission rule. *)
From Coq Require Import List ZArith Bool PrimFloat Uint63.
Import ListNotations.
Local Open Scope Z_scope.

(* ------------------------------------------------------------------ errors, results, operations *)

(* error kinds, the enum shared with the Go driver: nil full nocredit closed ctx *)
Inductive qerr := ENil | EFull | ENoCredit | EClosed | ECtx.

Inductive qop :=
| OAdd (v : Z) | OBlockingAdd (v : Z) | ORemove | OWait | OLen | OClose
| OSend (v : Z) | OReceive | ODLen.     (* Distributor.{Send,Receive,Len} *)

Inductive qres :=
| RErr (e : qerr)     (* Add/BlockingAdd/Send/Close: the error (ENil = success); Wait/Receive: the error *)
| RItem (v : Z)       (* Remove: (v, true); Wait/Receive: (v, nil) *)
| RNotOk              (* Remove on an empty queue: (zero, false) *)
| RLen (n : Z)
| RBlocked            (* wait predicate false: the caller parks (state unchanged) *)
| RPanic.             (* nil-pointer dereference in popFront (unreachable: Proofs/QueueHeap_refine.v) *)

Definition is_blocked (r : qres) : bool := match r with RBlocked => true | _ => false end.
Definition cancelled : qres := RErr ECtx.

(* ------------------------------------------------------------------ tracker.go *)

Definition z2f (z : Z) : float :=          (* float64(int) *)
  if z <? 0 then PrimFloat.opp (PrimFloat.of_uint63 (Uint63.of_Z (- z)))
  else PrimFloat.of_uint63 (Uint63.of_Z z).

Definition f_one : float := 1%float.
Definition f_zero : float := 0%float.
Definition credit_lt_1 (c : float) : bool := PrimFloat.ltb c f_one.       (* q.credit < 1 *)

Inductive tracker :=
| NoLimit (length : Z)                                            (* queueNoLimitTrackerImpl *)
| HardLimit (capacity length : Z)                                 (* queueHardLimitTracker *)
| Quota (softQuota hardLimit length : Z) (credit : float).        (* queueLimitTrackerImpl *)

Definition max_int : Z := 9223372036854775807.                    (* math.MaxInt *)

Definition t_len (t : tracker) : Z :=
  match t with NoLimit l => l | HardLimit _ l => l | Quota _ _ l _ => l end.

Definition t_cap (t : tracker) : Z :=
  match t with NoLimit _ => max_int | HardLimit c _ => c | Quota sq _ _ _ => sq end.

(* add() error; on error the tracker is unchanged *)
Definition t_add (t : tracker) : tracker * qerr :=
  match t with
  | NoLimit l => (NoLimit (l + 1), ENil)                              (* q.length++; return nil *)
  | HardLimit c l =>
      if l >=? c then (t, EFull)                                       (* if q.length >= q.capacity *)
      else (HardLimit c (l + 1), ENil)
  | Quota sq hl l cr =>
      if l >=? sq then                                                 (* if q.length >= q.softQuota *)
        if l =? hl then (t, EFull)                                     (*   if q.length == q.hardLimit *)
        else if credit_lt_1 cr then (t, ENoCredit)                     (*   else if q.credit < 1 *)
        else (Quota (l + 1) hl (l + 1) (PrimFloat.sub cr f_one), ENil) (*   q.credit--; q.softQuota = q.length+1; q.length++ *)
      else (Quota sq hl (l + 1) cr, ENil)                              (* q.length++ *)
  end.

Definition t_remove (t : tracker) : tracker :=
  match t with
  | NoLimit l => if l =? 0 then t else NoLimit (l - 1)
  | HardLimit c l => if l =? 0 then t else HardLimit c (l - 1)
  | Quota sq hl l cr =>
      let l1 := l - 1 in                                               (* q.length-- *)
      if l1 <? sq then                                                 (* if q.length < q.softQuota *)
        let sq1 := if (sq >? 1) && (l1 <? sq / 2) then sq - 1 else sq in   (* Go's / truncates; operands > 0 *)
        let cr1 := PrimFloat.add cr (PrimFloat.div (z2f (sq1 - l1)) (z2f sq1)) in
        let lenCap := z2f (hl - sq1) in
        let cr2 := if PrimFloat.ltb lenCap cr1 then lenCap else cr1 in   (* if q.credit > lenCap *)
        Quota sq1 hl l1 cr2
      else Quota sq hl l1 cr
  end.

(* QueueOptions.Validate + newQueueLimitTracker.  None = errHardLimit / errBurstCredit. *)
Definition validate_opts (hl sq : Z) (bc : float) : option tracker :=
  if (hl <=? 0) || (hl <? sq) then None
  else if PrimFloat.ltb bc f_zero then None
  else
    let sq' := if sq <=? 0 then hl else sq in
    let bc' := if PrimFloat.eqb bc f_zero then z2f sq' else bc in
    Some (Quota sq' hl 0 bc').

(* ------------------------------------------------------------------ queue.go *)

Record ent := mkEnt { item : Z; link : option nat }.

Definition heap := nat -> ent.
Definition hupd (h : heap) (a : nat) (e : ent) : heap := fun b => if Nat.eqb b a then e else h b.
Definition set_link (e : ent) (l : option nat) : ent := mkEnt (item e) l.

Record queue := mkQ {
  qheap : heap; nalloc : nat;
  front : nat; back : nat;
  closed : bool;
  trk : tracker
}.

(* makeQueue: sentinel := new(entry[T]); back = front = sentinel *)
Definition make_queue (t : tracker) : queue :=
  mkQ (fun _ => mkEnt 0 None) 1%nat 0%nat 0%nat false t.

Definition set_trk (q : queue) (t : tracker) : queue :=
  mkQ (qheap q) (nalloc q) (front q) (back q) (closed q) t.

(* doAdd *)
Definition do_add (q : queue) (v : Z) : queue * qerr :=
  if closed q then (q, EClosed)                                        (* if q.closed *)
  else
    let (t', err) := t_add (trk q) in                                  (* if err := q.tracker.add(); err != nil *)
    match err with
    | ENil =>
        let e := nalloc q in
        let h1 := hupd (qheap q) e (mkEnt v None) in                   (* e := &entry[T]{item: item} *)
        let h2 := hupd h1 (back q) (set_link (h1 (back q)) (Some e)) in   (* q.back.link = e *)
        (mkQ h2 (S e) (front q) e (closed q) t', ENil)                 (* q.back = e; (signals) *)
    | _ => (set_trk q t', err)
    end.

(* popFront (the removed entry becomes the new sentinel and stays linked; when the queue empties
   e == q.back, so front and back coincide again without a reset).
   None = nil-pointer panic at `e.item` when front.link == nil (unreachable: Proofs/QueueHeap_refine.v;
   the Go code would already have stored the nil into q.front — the run ends there). *)
Definition pop_front (q : queue) : queue * option Z :=
  match link (qheap q (front q)) with                                  (* e := q.front.link *)
  | None => (q, None)
  | Some e =>
      let t' := t_remove (trk q) in                                    (* q.front = e; q.tracker.remove(); (broadcast) *)
      (mkQ (qheap q) (nalloc q) e (back q) (closed q) t', Some (item (qheap q e)))   (* return e.item *)
  end.

Definition res_of_pop (p : queue * option Z) : queue * qres :=
  match p with (q', Some v) => (q', RItem v) | (q', None) => (q', RPanic) end.

(* Wait's critical section: unsafeWaitWhileEmpty's loop head, then popFront *)
Definition wait_step (q : queue) : queue * qres :=
  if t_len (trk q) =? 0 then                                           (* for q.tracker.len() == 0 *)
    if closed q then (q, RErr EClosed)                                 (*   if q.closed *)
    else (q, RBlocked)                                                 (*   select ctx.Done / cond.Wait *)
  else res_of_pop (pop_front q).

Definition remove_step (q : queue) : queue * qres :=
  if t_len (trk q) =? 0 then (q, RNotOk) else res_of_pop (pop_front q).

Definition add_step (q : queue) (v : Z) : queue * qres :=
  let (q', e) := do_add q v in (q', RErr e).

(* One critical-section attempt of each public operation. *)
Definition q_step (q : queue) (o : qop) : queue * qres :=
  match o with
  | OAdd v | OSend v => add_step q v                                    (* Send = MakeProcessor(q.Add) *)
  | OBlockingAdd v =>
      if closed q then (q, RErr EClosed)                               (* if q.closed *)
      else if t_cap (trk q) >? t_len (trk q) then add_step q v         (* if cap > len { return doAdd } *)
      else (q, RBlocked)                                               (* for cap <= len { ... cond.Wait } *)
  | ORemove => remove_step q
  | OWait => wait_step q
  | OReceive =>                                                        (* pop: Remove(); if !ok { Wait(ctx) } *)
      match remove_step q with
      | (q', RNotOk) => wait_step q'
      | r => r
      end
  | OLen | ODLen => (q, RLen (t_len (trk q)))                          (* size: q.tracker.len *)
  | OClose => (mkQ (qheap q) (nalloc q) (front q) (back q) true (trk q), RErr ENil)
  end.

(* try-form: the operation called with an already-cancelled context *)
Definition try_of {S} (step : S -> qop -> S * qres) (s : S) (o : qop) : S * qres :=
  let (s', r) := step s o in if is_blocked r then (s, cancelled) else (s', r).

Definition q_try := try_of q_step.

(* contents, oldest first, by walking the links from the sentinel (fuel = number of allocations) *)
Fixpoint walk (h : heap) (fuel : nat) (p : nat) : list Z :=
  match fuel with
  | O => []
  | S f => match link (h p) with None => [] | Some e => item (h e) :: walk h f e end
  end.

Definition contents (q : queue) : list Z := walk (qheap q) (nalloc q) (front q).

(* ------------------------------------------------------------------ abstract specification *)

Record qspec := mkS { items : list Z; strk : tracker; sclosed : bool }.

Definition spec_init (t : tracker) : qspec := mkS [] t false.

Definition s_add (s : qspec) (v : Z) : qspec * qres :=
  if sclosed s then (s, RErr EClosed)
  else let (t', err) := t_add (strk s) in
       match err with
       | ENil => (mkS (items s ++ [v]) t' (sclosed s), RErr ENil)
       | _ => (mkS (items s) t' (sclosed s), RErr err)
       end.

Definition s_pop (s : qspec) : qspec * qres :=
  match items s with
  | [] => (s, RPanic)
  | v :: rest => (mkS rest (t_remove (strk s)) (sclosed s), RItem v)
  end.

Definition s_wait (s : qspec) : qspec * qres :=
  if t_len (strk s) =? 0 then (if sclosed s then (s, RErr EClosed) else (s, RBlocked)) else s_pop s.

Definition s_remove (s : qspec) : qspec * qres :=
  if t_len (strk s) =? 0 then (s, RNotOk) else s_pop s.

Definition spec_step (s : qspec) (o : qop) : qspec * qres :=
  match o with
  | OAdd v | OSend v => s_add s v
  | OBlockingAdd v =>
      if sclosed s then (s, RErr EClosed)
      else if t_cap (strk s) >? t_len (strk s) then s_add s v
      else (s, RBlocked)
  | ORemove => s_remove s
  | OWait => s_wait s
  | OReceive => match s_remove s with (s', RNotOk) => s_wait s' | r => r end
  | OLen | ODLen => (s, RLen (t_len (strk s)))
  | OClose => (mkS (items s) (strk s) true, RErr ENil)
  end.

Definition spec_try := try_of spec_step.

(* running op lists; results in order *)
Fixpoint run_ops {S} (step : S -> qop -> S * qres) (s : S) (ops : list qop) : S * list qres :=
  match ops with
  | [] => (s, [])
  | o :: ops' => let (s', r) := step s o in let (s'', rs) := run_ops step s' ops' in (s'', r :: rs)
  end.

(* abstraction function *)
Definition abs (q : queue) : qspec := mkS (contents q) (trk q) (closed q).
