(* Code-level executable model of the non-destructive iterator of pubsub.Queue
   (/repo/pubsub/queue.go: doAdd, Remove/popFront, Close, waitForNew, Producer), as repaired by
   fixes_pending/C20-queue-cursor.diff and C20-nupdates-broadcast.diff.  Model only - no proofs here.

   Heap: a total function from addresses (nat) to entries {item; link}; address 0 is the sentinel
   allocated by makeQueue; doAdd allocates address `nxt`.  A nil pointer is `None`; dereferencing it
   is a panic (`Crashed` / `RPanic` / `EvPanicOp`).

       doAdd      e := &entry{item}; q.back.link = e; q.back = e; tracker.add; nupdates.Broadcast
       popFront   e := q.front.link; q.front = e; tracker.remove; nupdates.Broadcast; return e.item
                  (the removed entry becomes the sentinel and KEEPS its link; no link is rewritten,
                   back is not reset: when the queue empties e = back, so front = back again)
       Close      closed = true; nupdates.Broadcast
       Producer   closure state `next` (= cur below), one call split at its REAL atomic segments:
         S0   (only when next == nil)  lock; next = q.front; unlock
         S1   lock; if next.link == next -> EOF;  if next.link != nil -> next = next.link, yield next.item;
                    else if q.closed -> EOF;  else unlock                      -> the unlocked WINDOW
         W    waitForNew(ctx, next): lock; loop { if next.link != nil -> return nil;
                    if q.closed -> ErrQueueClosed;  if ctx ended -> ctx.Err();  nupdates.Wait() }
              every return runs the deferred cancel(): the helper goroutine broadcasts nupdates
         S3   lock; next = next.link; unlock; yield next.item          (nil dereference = panic)

   The tracker: `qlen` is tracker.len().  tracker.add()'s verdict is an INPUT of the step: `LAdd v` is an Add
   that the tracker accepts (always so for the unlimited tracker), `LAddRej v` one that it rejects
   (ErrQueueFull / ErrQueueNoCredit of the hard-limit and quota trackers; the arithmetic of that decision is
   C05's model).  doAdd returns the tracker's error BEFORE it allocates or links anything, so a rejected Add
   is a no-op; the iterator never reads the tracker.
   The helper goroutine `go func(){ <-ctx.Done(); q.nupdates.Broadcast() }()` is modelled as a
   broadcast performed at the cancellation / at the return of waitForNew (see checks/c20.py, trusted base).

   Ghost fields (never read by the code): `start` = the front the iterator saw in S0, `yielded` = the
   values its Next calls have returned so far, oldest first. *)
From FunV Require Import Base.Tac.

Record entry := mkEntry { item : Z; link : option nat }.

Definition upd {A} (f : nat -> A) (k : nat) (v : A) : nat -> A := fun x => if Nat.eqb x k then v else f x.

Record queue := mkQ {
  heap : nat -> entry;
  nxt : nat;            (* next fresh address *)
  front : nat;          (* q.front: the sentinel *)
  back : nat;           (* q.back: the newest entry *)
  closed : bool;
  qlen : nat;           (* tracker.len() *)
}.

Definition q0 : queue := mkQ (fun _ => mkEntry 0%Z None) 1 0 0 false 0.

(* doAdd: None = ErrQueueClosed *)
Definition do_add (q : queue) (v : Z) : option queue :=
  if closed q then None else
  let e := nxt q in
  let h1 := upd (heap q) e (mkEntry v None) in                                   (* e := &entry{item: item} *)
  let h2 := upd h1 (back q) (mkEntry (item (h1 (back q))) (Some e)) in           (* q.back.link = e *)
  Some (mkQ h2 (S e) (front q) e (closed q) (S (qlen q))).                       (* q.back = e; tracker.add() *)

(* popFront: None = nil dereference (e == nil) *)
Definition pop_front (q : queue) : option (queue * Z) :=
  match link (heap q (front q)) with
  | None => None
  | Some e => Some (mkQ (heap q) (nxt q) e (back q) (closed q) (pred (qlen q)), item (heap q e))
  end.

(* ---------------------------------------------------------------- iterator goroutines *)

Inductive pc :=
| Ready        (* no call in progress *)
| Called       (* Next invoked: before S0 (cur = None) or before S1 *)
| Window       (* S1 found no successor: unlocked, before waitForNew *)
| Parked       (* inside waitForNew, on nupdates' wait list *)
| Woken        (* taken off the wait list; must re-acquire the lock and re-check *)
| AfterWait    (* waitForNew returned nil; before S3 *)
| Crashed.     (* nil dereference *)

Record iter := mkIt {
  cur : option nat;        (* the closure variable `next` *)
  ipc : pc;
  cancelled : bool;        (* the context given to its calls has ended *)
  start : nat;             (* ghost *)
  yielded : list Z;        (* ghost *)
}.

Definition it0 : iter := mkIt None Ready false 0 [].

Definition set_pc (t : iter) (p : pc) : iter := mkIt (cur t) p (cancelled t) (start t) (yielded t).

Record state := mkS { sq : queue; its : nat -> iter }.

Definition s0 : state := mkS q0 (fun _ => it0).

(* sync.Cond.Broadcast on nupdates *)
Definition wake_all (f : nat -> iter) : nat -> iter :=
  fun i => let t := f i in match ipc t with Parked => set_pc t Woken | _ => t end.

Inductive res :=
| RYield (v : Z) | REOF | RClosed | RCtx | RPanic     (* what a Next call returned *)
| RWindow | RParked                                  (* where a step stopped without returning *)
| RNothing | RHung.                                  (* no step possible / harness only *)

Inductive label :=
| LAdd (v : Z) | LRemove | LClose | LCancel (i : nat)
| LCall (i : nat)        (* iterator i: Next is invoked *)
| LRun (i : nat)         (* iterator i: its next atomic segment *)
| LAddRej (v : Z).       (* an Add whose tracker.add() reports an error *)

Inductive event :=
| EvNone | EvAdd (ok : bool) | EvRem (o : option Z) | EvRes (i : nat) (r : res) | EvPanicOp.

(* the loop of waitForNew, entered from the window or after a wake-up: one lock hold *)
Definition check (q : queue) (f : nat -> iter) (i : nat) : (nat -> iter) * event :=
  let t := f i in
  match cur t with
  | None => (upd f i (set_pc t Crashed), EvRes i RPanic)                      (* head.link with head == nil *)
  | Some c =>
      match link (heap q c) with
      | Some _ => (wake_all (upd f i (set_pc t AfterWait)), EvNone)             (* return nil (+ deferred cancel) *)
      | None =>
          if closed q then (wake_all (upd f i (set_pc t Ready)), EvRes i RClosed)
          else if cancelled t then (wake_all (upd f i (set_pc t Ready)), EvRes i RCtx)
          else (upd f i (set_pc t Parked), EvRes i RParked)                     (* nupdates.Wait() *)
      end
  end.

Definition advance (q : queue) (t : iter) (n : nat) : iter :=
  mkIt (Some n) Ready (cancelled t) (start t) (yielded t ++ [item (heap q n)]).

Definition run_iter (q : queue) (f : nat -> iter) (i : nat) : (nat -> iter) * event :=
  let t := f i in
  match ipc t with
  | Called =>
      match cur t with
      | None => (upd f i (mkIt (Some (front q)) Called (cancelled t) (front q) (yielded t)), EvNone)      (* S0 *)
      | Some c =>                                                                                         (* S1 *)
          match link (heap q c) with
          | Some n =>
              if Nat.eqb n c then (upd f i (set_pc t Ready), EvRes i REOF)
              else (upd f i (advance q t n), EvRes i (RYield (item (heap q n))))
          | None =>
              if closed q then (upd f i (set_pc t Ready), EvRes i REOF)
              else (upd f i (set_pc t Window), EvRes i RWindow)
          end
      end
  | Window | Woken => check q f i
  | AfterWait =>                                                                                          (* S3 *)
      match cur t with
      | None => (upd f i (set_pc t Crashed), EvRes i RPanic)
      | Some c =>
          match link (heap q c) with
          | None => (upd f i (mkIt None Crashed (cancelled t) (start t) (yielded t)), EvRes i RPanic)     (* next = nil; next.item *)
          | Some n => (upd f i (advance q t n), EvRes i (RYield (item (heap q n))))
          end
      end
  | Ready | Parked | Crashed => (f, EvNone)
  end.

Definition step (s : state) (l : label) : state * event :=
  let q := sq s in
  match l with
  | LAdd v =>
      match do_add q v with
      | None => (s, EvAdd false)
      | Some q' => (mkS q' (wake_all (its s)), EvAdd true)
      end
  | LRemove =>
      if Nat.eqb (qlen q) 0 then (s, EvRem None)
      else match pop_front q with
           | None => (s, EvPanicOp)
           | Some (q', v) => (mkS q' (wake_all (its s)), EvRem (Some v))
           end
  | LClose => (mkS (mkQ (heap q) (nxt q) (front q) (back q) true (qlen q)) (wake_all (its s)), EvNone)
  | LCancel i =>
      let t := its s i in
      (mkS q (wake_all (upd (its s) i (mkIt (cur t) (ipc t) true (start t) (yielded t)))), EvNone)
  | LCall i =>
      match ipc (its s i) with
      | Ready => (mkS q (upd (its s) i (set_pc (its s i) Called)), EvNone)
      | _ => (s, EvNone)
      end
  | LRun i => let '(f, ev) := run_iter q (its s) i in (mkS q f, ev)
  | LAddRej _ => (s, EvAdd false)     (* closed -> ErrQueueClosed; else `if err := q.tracker.add(); err != nil { return err }` *)
  end.

Fixpoint run (s : state) (ls : list label) : state * list event :=
  match ls with
  | [] => (s, [])
  | l :: r => let '(s1, e) := step s l in let '(s2, es) := run s1 r in (s2, e :: es)
  end.

(* ---------------------------------------------------------------- harness-level actions (macro steps) *)

Inductive qact := QAdd (v : Z) | QRemove | QClose | QCancel (i : nat) | QCall (i : nat) | QGo (i : nat) | QLen
                | QAddRej (v : Z).
Inductive ob := ObAdd (ok : bool) | ObRem (o : option Z) | ObUnit | ObIt (r : res) | ObLen (n : Z).

(* run iterator i until it returns, stops in the window, parks, or cannot move *)
Fixpoint drive (fuel : nat) (s : state) (i : nat) : state * res :=
  match fuel with
  | 0 => (s, RHung)
  | S fuel' =>
      match ipc (its s i) with
      | Parked => (s, RParked)
      | Ready | Crashed => (s, RNothing)
      | _ =>
          let '(s', ev) := step s (LRun i) in
          match ev with
          | EvRes _ r => (s', r)
          | _ => drive fuel' s' i
          end
      end
  end.

Definition ev_ob (e : event) : ob :=
  match e with
  | EvAdd b => ObAdd b
  | EvRem o => ObRem o
  | EvPanicOp => ObIt RPanic
  | _ => ObUnit
  end.

Definition qstep (s : state) (a : qact) : state * ob :=
  match a with
  | QAdd v => let '(s', e) := step s (LAdd v) in (s', ev_ob e)
  | QRemove => let '(s', e) := step s LRemove in (s', ev_ob e)
  | QClose => let '(s', e) := step s LClose in (s', ev_ob e)
  | QCancel i => let '(s', e) := step s (LCancel i) in (s', ev_ob e)
  | QCall i =>
      match ipc (its s i) with
      | Ready => let '(s', r) := drive 4 (fst (step s (LCall i))) i in (s', ObIt r)
      | _ => (s, ObIt RNothing)
      end
  | QGo i => let '(s', r) := drive 4 s i in (s', ObIt r)
  | QLen => (s, ObLen (Z.of_nat (qlen (sq s))))
  | QAddRej v => let '(s', e) := step s (LAddRej v) in (s', ev_ob e)
  end.

Fixpoint qrun (s : state) (acts : list qact) : list ob :=
  match acts with
  | [] => []
  | a :: r => let '(s', o) := qstep s a in o :: qrun s' r
  end.
