(* BrokerModel — executable transition system transcribing pubsub/broker.go (with buffer.go distributors).

   Processes (one Gallina step per atomic action of the Go code; channels, select, context, sync.Map and
   the distributor back-ends are model primitives):

   * event loop (broker.go startQueueWorkers, first goroutine): `loop` is LIdle at the `select`;
     a rendezvous on publishCh moves it to `LSend m` (inside dist.Send); subCh/unsubCh/stats arms are
     handled atomically (subs.Ensure / subs.Delete / fn(stats)); ctx.Done -> LDone.
   * distributor: FIFO list `dist` with optional capacity and a full-policy
       PBlock   Deque.Distributor (WaitPushBack) / unlimited Queue, unlimited Deque (cap None)
       PDropNew Queue.Add with limits: ErrQueueFull at the hard limit, ErrQueueNoCredit below it
                (quota refusal is nondeterministic in the model: ELoopDrop whenever the queue is non-empty)
       PEvict   Deque.DistributorNonBlocking = ForcePushBack + WaitFront (NewLIFOBroker): drops the OLDEST,
                delivers in FIFO order (the code, not its doc comment)
     or `chanb`: an unbuffered channel (rendezvous between the loop's Send and a worker's Receive).
     Distributor.WithInputFilter / WithOutputFilter (inmod / outmod: ids divisible by the modulus are
     rejected): a rejected Send returns nil without enqueueing (ELoopFilter); a rejected Receive
     consumes the item and yields ErrCurrentOpSkip (ESkip w) - the worker then takes the next item
     (skipstop = false, the repaired code) or returns (skipstop = true, the original).
   * nw = max 1 WorkerPoolSize dispatch workers: WIdle (calling dist.Receive) / WParked (inside the
     back-end's cond.Wait; EWake is enabled according to the parameter `wake`, the back-end's wake-up
     discipline) / WBusy m ranging visited must pending (inside dispatchMessage) / WDone.
     subs.Keys() is a lazy sync.Map.Range: ERangeNext w s yields a key that is in the map *now* and was
     not yielded before; ERangeEnd is possible once every key that has been present since the Range
     started (`must`, pruned by every Delete) has been yielded - "each present key at most once; keys
     deleted (or added) concurrently may or may not appear".  Sequential dispatch has at most one
     pending send; ParallelDispatch spawns one goroutine per key and waits (EEnd needs pending = []).
   * subscribers: `ch s` is the subscription channel's buffer (capacity BufferSize; 0 = rendezvous,
     the message goes straight to the delivery log `rcv s`), ERecv s receives.
   * API callers k (any number): Publish/Subscribe/Unsubscribe/Stats, each blocked at a select with a
     ctx.Done arm (ECallerAbort once ECallerCtx k cancelled the caller's own context).
   * ECancel = Broker.Stop or cancellation of the parent context.

   Ghost fields (never read by `step` except the freshness guards of ECall): pubd (publications in
   rendezvous order), owed s (published while s subscribed and its Unsubscribe not yet called), acc, taken,
   done, evicted, dropped. *)
From FunV Require Import Base.Tac.

Definition sid := nat.
Definition msg := nat.

Inductive policy := PBlock | PDropNew | PEvict.

Record cfg := mkCfg {
  W : nat;            (* BrokerOptions.WorkerPoolSize *)
  par : bool;         (* BrokerOptions.ParallelDispatch *)
  bufsz : nat;        (* BrokerOptions.BufferSize: subCh, unsubCh and every subscription channel *)
  chanb : bool;       (* DistributorChannel(make(chan T)) *)
  dcap : option nat;  (* capacity of the buffer back-end; None = unlimited *)
  dpol : policy;
  sigbuf : bool;      (* Stats' signal channel is buffered (the repaired code); false = the original *)
  inmod : nat;        (* Distributor.WithInputFilter: ids divisible by inmod are rejected (0 = no filter) *)
  outmod : nat;       (* Distributor.WithOutputFilter: likewise on the Receive side *)
  skipstop : bool;    (* a worker returns when Receive yields ErrCurrentOpSkip (the original code);
                         false = it continues with the next Receive (the repaired code) *)
  stalebreak : bool   (* NOT the code in /repo (false there): a variant of the sequential dispatch loop that
                         re-checks each key the Range yielded and leaves the loop (`break`) at the first key
                         that is no longer subscribed; only used to show why such a key must be skipped *)
}.

Definition passes (k : nat) (m : nat) : bool := Nat.eqb k 0 || negb (Nat.eqb (Nat.modulo m k) 0).

Definition nw (c : cfg) : nat := Nat.max 1 (W c).

Inductive lpc := LIdle | LSend (m : msg) | LStats (k : nat) | LDone.
Inductive wpc := WIdle | WParked | WBusy (m : msg) (ranging : bool) (vis must pend : list sid) | WDone.
Inductive op := OpPub (m : msg) | OpSub (s : sid) | OpUnsub (s : sid) | OpStats.
Inductive cpc := CIdle | CPub (m : msg) | CSub (s : sid) | CUnsub (s : sid) | CStats1 | CStats2.

Record state := mkState {
  live : bool;
  loop : lpc;
  subs : list sid;
  subq : list sid;
  unsubq : list sid;
  dist : list msg;
  wk : nat -> wpc;
  ch : sid -> list msg;
  rcv : sid -> list msg;
  call : nat -> cpc;
  cctx : nat -> bool;
  sigready : nat -> bool;
  pubd : list msg;
  issued : list msg;
  created : list sid;
  unsubcalled : list sid;
  owed : sid -> list msg;
  acc : list msg;
  taken : list msg;
  done : list msg;
  evicted : list msg;
  dropped : list msg;
  skipped : list msg
}.

Definition set_live (x : bool) (st : state) : state :=
  mkState x (loop st) (subs st) (subq st) (unsubq st) (dist st) (wk st) (ch st) (rcv st) (call st) (cctx st) (sigready st) (pubd st) (issued st) (created st) (unsubcalled st) (owed st) (acc st) (taken st) (done st) (evicted st) (dropped st) (skipped st).
Definition set_loop (x : lpc) (st : state) : state :=
  mkState (live st) x (subs st) (subq st) (unsubq st) (dist st) (wk st) (ch st) (rcv st) (call st) (cctx st) (sigready st) (pubd st) (issued st) (created st) (unsubcalled st) (owed st) (acc st) (taken st) (done st) (evicted st) (dropped st) (skipped st).
Definition set_subs (x : list sid) (st : state) : state :=
  mkState (live st) (loop st) x (subq st) (unsubq st) (dist st) (wk st) (ch st) (rcv st) (call st) (cctx st) (sigready st) (pubd st) (issued st) (created st) (unsubcalled st) (owed st) (acc st) (taken st) (done st) (evicted st) (dropped st) (skipped st).
Definition set_subq (x : list sid) (st : state) : state :=
  mkState (live st) (loop st) (subs st) x (unsubq st) (dist st) (wk st) (ch st) (rcv st) (call st) (cctx st) (sigready st) (pubd st) (issued st) (created st) (unsubcalled st) (owed st) (acc st) (taken st) (done st) (evicted st) (dropped st) (skipped st).
Definition set_unsubq (x : list sid) (st : state) : state :=
  mkState (live st) (loop st) (subs st) (subq st) x (dist st) (wk st) (ch st) (rcv st) (call st) (cctx st) (sigready st) (pubd st) (issued st) (created st) (unsubcalled st) (owed st) (acc st) (taken st) (done st) (evicted st) (dropped st) (skipped st).
Definition set_dist (x : list msg) (st : state) : state :=
  mkState (live st) (loop st) (subs st) (subq st) (unsubq st) x (wk st) (ch st) (rcv st) (call st) (cctx st) (sigready st) (pubd st) (issued st) (created st) (unsubcalled st) (owed st) (acc st) (taken st) (done st) (evicted st) (dropped st) (skipped st).
Definition set_wk (x : nat -> wpc) (st : state) : state :=
  mkState (live st) (loop st) (subs st) (subq st) (unsubq st) (dist st) x (ch st) (rcv st) (call st) (cctx st) (sigready st) (pubd st) (issued st) (created st) (unsubcalled st) (owed st) (acc st) (taken st) (done st) (evicted st) (dropped st) (skipped st).
Definition set_ch (x : sid -> list msg) (st : state) : state :=
  mkState (live st) (loop st) (subs st) (subq st) (unsubq st) (dist st) (wk st) x (rcv st) (call st) (cctx st) (sigready st) (pubd st) (issued st) (created st) (unsubcalled st) (owed st) (acc st) (taken st) (done st) (evicted st) (dropped st) (skipped st).
Definition set_rcv (x : sid -> list msg) (st : state) : state :=
  mkState (live st) (loop st) (subs st) (subq st) (unsubq st) (dist st) (wk st) (ch st) x (call st) (cctx st) (sigready st) (pubd st) (issued st) (created st) (unsubcalled st) (owed st) (acc st) (taken st) (done st) (evicted st) (dropped st) (skipped st).
Definition set_call (x : nat -> cpc) (st : state) : state :=
  mkState (live st) (loop st) (subs st) (subq st) (unsubq st) (dist st) (wk st) (ch st) (rcv st) x (cctx st) (sigready st) (pubd st) (issued st) (created st) (unsubcalled st) (owed st) (acc st) (taken st) (done st) (evicted st) (dropped st) (skipped st).
Definition set_cctx (x : nat -> bool) (st : state) : state :=
  mkState (live st) (loop st) (subs st) (subq st) (unsubq st) (dist st) (wk st) (ch st) (rcv st) (call st) x (sigready st) (pubd st) (issued st) (created st) (unsubcalled st) (owed st) (acc st) (taken st) (done st) (evicted st) (dropped st) (skipped st).
Definition set_sigready (x : nat -> bool) (st : state) : state :=
  mkState (live st) (loop st) (subs st) (subq st) (unsubq st) (dist st) (wk st) (ch st) (rcv st) (call st) (cctx st) x (pubd st) (issued st) (created st) (unsubcalled st) (owed st) (acc st) (taken st) (done st) (evicted st) (dropped st) (skipped st).
Definition set_pubd (x : list msg) (st : state) : state :=
  mkState (live st) (loop st) (subs st) (subq st) (unsubq st) (dist st) (wk st) (ch st) (rcv st) (call st) (cctx st) (sigready st) x (issued st) (created st) (unsubcalled st) (owed st) (acc st) (taken st) (done st) (evicted st) (dropped st) (skipped st).
Definition set_issued (x : list msg) (st : state) : state :=
  mkState (live st) (loop st) (subs st) (subq st) (unsubq st) (dist st) (wk st) (ch st) (rcv st) (call st) (cctx st) (sigready st) (pubd st) x (created st) (unsubcalled st) (owed st) (acc st) (taken st) (done st) (evicted st) (dropped st) (skipped st).
Definition set_created (x : list sid) (st : state) : state :=
  mkState (live st) (loop st) (subs st) (subq st) (unsubq st) (dist st) (wk st) (ch st) (rcv st) (call st) (cctx st) (sigready st) (pubd st) (issued st) x (unsubcalled st) (owed st) (acc st) (taken st) (done st) (evicted st) (dropped st) (skipped st).
Definition set_unsubcalled (x : list sid) (st : state) : state :=
  mkState (live st) (loop st) (subs st) (subq st) (unsubq st) (dist st) (wk st) (ch st) (rcv st) (call st) (cctx st) (sigready st) (pubd st) (issued st) (created st) x (owed st) (acc st) (taken st) (done st) (evicted st) (dropped st) (skipped st).
Definition set_owed (x : sid -> list msg) (st : state) : state :=
  mkState (live st) (loop st) (subs st) (subq st) (unsubq st) (dist st) (wk st) (ch st) (rcv st) (call st) (cctx st) (sigready st) (pubd st) (issued st) (created st) (unsubcalled st) x (acc st) (taken st) (done st) (evicted st) (dropped st) (skipped st).
Definition set_acc (x : list msg) (st : state) : state :=
  mkState (live st) (loop st) (subs st) (subq st) (unsubq st) (dist st) (wk st) (ch st) (rcv st) (call st) (cctx st) (sigready st) (pubd st) (issued st) (created st) (unsubcalled st) (owed st) x (taken st) (done st) (evicted st) (dropped st) (skipped st).
Definition set_taken (x : list msg) (st : state) : state :=
  mkState (live st) (loop st) (subs st) (subq st) (unsubq st) (dist st) (wk st) (ch st) (rcv st) (call st) (cctx st) (sigready st) (pubd st) (issued st) (created st) (unsubcalled st) (owed st) (acc st) x (done st) (evicted st) (dropped st) (skipped st).
Definition set_done (x : list msg) (st : state) : state :=
  mkState (live st) (loop st) (subs st) (subq st) (unsubq st) (dist st) (wk st) (ch st) (rcv st) (call st) (cctx st) (sigready st) (pubd st) (issued st) (created st) (unsubcalled st) (owed st) (acc st) (taken st) x (evicted st) (dropped st) (skipped st).
Definition set_evicted (x : list msg) (st : state) : state :=
  mkState (live st) (loop st) (subs st) (subq st) (unsubq st) (dist st) (wk st) (ch st) (rcv st) (call st) (cctx st) (sigready st) (pubd st) (issued st) (created st) (unsubcalled st) (owed st) (acc st) (taken st) (done st) x (dropped st) (skipped st).
Definition set_dropped (x : list msg) (st : state) : state :=
  mkState (live st) (loop st) (subs st) (subq st) (unsubq st) (dist st) (wk st) (ch st) (rcv st) (call st) (cctx st) (sigready st) (pubd st) (issued st) (created st) (unsubcalled st) (owed st) (acc st) (taken st) (done st) (evicted st) x (skipped st).
Definition set_skipped (x : list msg) (st : state) : state :=
  mkState (live st) (loop st) (subs st) (subq st) (unsubq st) (dist st) (wk st) (ch st) (rcv st) (call st) (cctx st) (sigready st) (pubd st) (issued st) (created st) (unsubcalled st) (owed st) (acc st) (taken st) (done st) (evicted st) (dropped st) x.

Definition upd {A} (f : nat -> A) (k : nat) (v : A) : nat -> A := fun x => if Nat.eqb x k then v else f x.
Definition memb (x : nat) (l : list nat) : bool := existsb (Nat.eqb x) l.
Fixpoint rem (x : nat) (l : list nat) : list nat :=
  match l with [] => [] | y :: r => if Nat.eqb x y then rem x r else y :: rem x r end.
Definition sadd (x : nat) (l : list nat) : list nat := if memb x l then l else l ++ [x].
Definition subset (a b : list nat) : bool := forallb (fun x => memb x b) a.
Definition is_nil {A} (l : list A) : bool := match l with [] => true | _ => false end.

Definition del_must (s : sid) (w : wpc) : wpc :=
  match w with WBusy m r v mu p => WBusy m r v (rem s mu) p | _ => w end.

Definition room (c : cfg) (d : list msg) : bool :=
  match dcap c with None => true | Some k => Nat.ltb (length d) k end.

Definition blocking_backend (c : cfg) : bool :=
  chanb c || match dpol c with PBlock => true | _ => false end.

Inductive event :=
| ECall (k : nat) (o : op)      (* an API call reaches its (first) select *)
| ECallerCtx (k : nat)          (* the caller's own context is cancelled *)
| ECallerAbort (k : nat)        (* ... and the call returns through its ctx.Done arm *)
| EPub (k : nat)                (* rendezvous on publishCh *)
| ESubSend (k : nat)            (* send on subCh (rendezvous when BufferSize = 0) *)
| EUnsubSend (k : nat)
| ELoopSub                      (* loop receives from the buffered subCh: subs.Ensure *)
| ELoopUnsub                    (*                               unsubCh: subs.Delete *)
| EStats1 (k : nat)             (* loop receives the closure and runs it up to `signal <- stats` *)
| EStats2 (k : nat)             (* caller receives the answer *)
| ELoopPush                     (* dist.Send completes (accept / ErrQueueFull / eviction) *)
| ELoopDrop                     (* dist.Send refuses on quota (ErrQueueNoCredit) *)
| ELoopAbort                    (* blocking dist.Send returns the context error *)
| ELoopExit
| ECancel                       (* Stop, or the parent context ends *)
| ETake (w : nat)               (* dist.Receive returns a message; subs.Keys() *)
| EPark (w : nat)
| EWake (w : nat)
| ERangeNext (w : nat) (s : sid)
| ERangeEnd (w : nat)
| ESend (w : nat) (s : sid)     (* sendMsg: ch <- m *)
| EDropSend (w : nat) (s : sid) (* sendMsg: <-ctx.Done() *)
| EEnd (w : nat)                (* dispatchMessage returns *)
| EWExit (w : nat)              (* dist.Receive returns an error *)
| ERecv (s : sid)               (* the subscriber receives from its (buffered) channel *)
| ELoopFilter                   (* dist.Send: the input filter rejects the message (Send returns nil) *)
| ESkip (w : nat)               (* dist.Receive: the output filter rejects the item (ErrCurrentOpSkip) *)
| ERangeStale (w : nat) (s : sid). (* stalebreak variant: the Range yielded s, s has been deleted meanwhile: break *)

(* environment events; everything else is a step of the broker or of a call already in progress *)
Definition internal (e : event) : bool :=
  match e with ECall _ _ | ECallerCtx _ | ECancel => false | _ => true end.

Definition init : state :=
  mkState true LIdle [] [] [] [] (fun _ => WIdle) (fun _ => []) (fun _ => []) (fun _ => CIdle)
          (fun _ => true) (fun _ => false) [] [] [] [] (fun _ => []) [] [] [] [] [] [].

Definition owe (st : state) (m : msg) : sid -> list msg :=
  fun s => if memb s (subs st) && negb (memb s (unsubcalled st)) then owed st s ++ [m] else owed st s.

Definition do_unsub (s : sid) (st : state) : state :=
  set_subs (rem s (subs st)) (set_wk (fun w => del_must s (wk st w)) st).

Section Step.
Variable c : cfg.
Variable wake : state -> nat -> bool.   (* the back-end's wake-up discipline (C07) *)

Definition step (st : state) (e : event) : option state :=
  match e with
  | ECall k o =>
      match call st k with
      | CIdle =>
          match o with
          | OpPub m => if memb m (issued st) then None
                       else Some (set_call (upd (call st) k (CPub m)) (set_issued (issued st ++ [m]) st))
          | OpSub s => if memb s (created st) then None
                       else if cctx st k   (* Subscribe: `if ctx.Err() != nil { return nil }` *)
                            then Some (set_call (upd (call st) k (CSub s)) (set_created (created st ++ [s]) st))
                            else Some (set_created (created st ++ [s]) st)
          | OpUnsub s => Some (set_call (upd (call st) k (CUnsub s)) (set_unsubcalled (unsubcalled st ++ [s]) st))
          | OpStats => Some (set_call (upd (call st) k CStats1) (set_sigready (upd (sigready st) k false) st))
          end
      | _ => None
      end
  | ECallerCtx k => Some (set_cctx (upd (cctx st) k false) st)
  | ECallerAbort k =>
      if cctx st k then None
      else match call st k with CIdle => None | _ => Some (set_call (upd (call st) k CIdle) st) end
  | EPub k =>
      match call st k, loop st with
      | CPub m, LIdle =>
          Some (set_loop (LSend m) (set_call (upd (call st) k CIdle)
               (set_pubd (pubd st ++ [m]) (set_owed (owe st m) st))))
      | _, _ => None
      end
  | ESubSend k =>
      match call st k with
      | CSub s =>
          if Nat.eqb (bufsz c) 0
          then match loop st with
               | LIdle => Some (set_subs (sadd s (subs st)) (set_call (upd (call st) k CIdle) st))
               | _ => None
               end
          else if Nat.ltb (length (subq st)) (bufsz c)
               then Some (set_subq (subq st ++ [s]) (set_call (upd (call st) k CIdle) st))
               else None
      | _ => None
      end
  | EUnsubSend k =>
      match call st k with
      | CUnsub s =>
          if Nat.eqb (bufsz c) 0
          then match loop st with
               | LIdle => Some (do_unsub s (set_call (upd (call st) k CIdle) st))
               | _ => None
               end
          else if Nat.ltb (length (unsubq st)) (bufsz c)
               then Some (set_unsubq (unsubq st ++ [s]) (set_call (upd (call st) k CIdle) st))
               else None
      | _ => None
      end
  | ELoopSub =>
      match loop st, subq st with
      | LIdle, s :: q => Some (set_subs (sadd s (subs st)) (set_subq q st))
      | _, _ => None
      end
  | ELoopUnsub =>
      match loop st, unsubq st with
      | LIdle, s :: q => Some (do_unsub s (set_unsubq q st))
      | _, _ => None
      end
  | EStats1 k =>
      match call st k, loop st with
      | CStats1, LIdle =>
          if sigbuf c
          then Some (set_call (upd (call st) k CStats2) (set_sigready (upd (sigready st) k true) st))
          else Some (set_loop (LStats k) (set_call (upd (call st) k CStats2) st))
      | _, _ => None
      end
  | EStats2 k =>
      match call st k with
      | CStats2 =>
          if sigbuf c
          then if sigready st k
               then Some (set_call (upd (call st) k CIdle) (set_sigready (upd (sigready st) k false) st))
               else None
          else match loop st with
               | LStats k' => if Nat.eqb k' k then Some (set_loop LIdle (set_call (upd (call st) k CIdle) st)) else None
               | _ => None
               end
      | _ => None
      end
  | ELoopPush =>
      if chanb c then None
      else match loop st with
           | LSend m =>
               if negb (passes (inmod c) m) then None else
               if room c (dist st)
               then Some (set_loop LIdle (set_dist (dist st ++ [m]) (set_acc (acc st ++ [m]) st)))
               else match dpol c with
                    | PBlock => None
                    | PDropNew => Some (set_loop LIdle (set_dropped (dropped st ++ [m]) st))
                    | PEvict =>
                        match dist st with
                        | [] => Some (set_loop LIdle (set_dropped (dropped st ++ [m]) st))
                        | x :: d => Some (set_loop LIdle (set_dist (d ++ [m]) (set_acc (acc st ++ [m])
                                         (set_evicted (evicted st ++ [x]) st))))
                        end
                    end
           | _ => None
           end
  | ELoopDrop =>
      if chanb c then None
      else match loop st, dpol c with
           | LSend m, PDropNew =>
               if is_nil (dist st) then None else Some (set_loop LIdle (set_dropped (dropped st ++ [m]) st))
           | _, _ => None
           end
  | ELoopAbort =>
      match loop st with
      | LSend m =>
          if live st then None
          else if blocking_backend c then Some (set_loop LIdle (set_dropped (dropped st ++ [m]) st)) else None
      | _ => None
      end
  | ELoopExit =>
      match loop st with
      | LIdle => if live st then None else Some (set_loop LDone st)
      | _ => None
      end
  | ECancel => Some (set_live false st)
  | ETake w =>
      if Nat.ltb w (nw c)
      then match wk st w with
           | WIdle =>
               if chanb c
               then match loop st with
                    | LSend m =>
                        if passes (inmod c) m && passes (outmod c) m
                        then Some (set_loop LIdle (set_acc (acc st ++ [m]) (set_taken (taken st ++ [m])
                                      (set_wk (upd (wk st) w (WBusy m true [] (subs st) [])) st))))
                        else None
                    | _ => None
                    end
               else match dist st with
                    | m :: d =>
                        if passes (outmod c) m
                        then Some (set_dist d (set_taken (taken st ++ [m])
                                     (set_wk (upd (wk st) w (WBusy m true [] (subs st) [])) st)))
                        else None
                    | [] => None
                    end
           | _ => None
           end
      else None
  | EPark w =>
      if Nat.ltb w (nw c)
      then match wk st w with
           | WIdle => if chanb c then None
                      else if is_nil (dist st) then Some (set_wk (upd (wk st) w WParked) st) else None
           | _ => None
           end
      else None
  | EWake w =>
      if Nat.ltb w (nw c)
      then match wk st w with
           | WParked => if wake st w then Some (set_wk (upd (wk st) w WIdle) st) else None
           | _ => None
           end
      else None
  | ERangeNext w s =>
      match wk st w with
      | WBusy m true v mu p =>
          if memb s (subs st) && negb (memb s v) && (par c || is_nil p)
          then Some (set_wk (upd (wk st) w (WBusy m true (v ++ [s]) mu (p ++ [s]))) st)
          else None
      | _ => None
      end
  | ERangeEnd w =>
      match wk st w with
      | WBusy m true v mu p =>
          if negb (live st) || subset mu v
          then Some (set_wk (upd (wk st) w (WBusy m false v mu p)) st)
          else None
      | _ => None
      end
  | ESend w s =>
      match wk st w with
      | WBusy m r v mu p =>
          if memb s p
          then if Nat.eqb (bufsz c) 0
               then Some (set_rcv (upd (rcv st) s (rcv st s ++ [m])) (set_wk (upd (wk st) w (WBusy m r v mu (rem s p))) st))
               else if Nat.ltb (length (ch st s)) (bufsz c)
                    then Some (set_ch (upd (ch st) s (ch st s ++ [m])) (set_wk (upd (wk st) w (WBusy m r v mu (rem s p))) st))
                    else None
          else None
      | _ => None
      end
  | EDropSend w s =>
      match wk st w with
      | WBusy m r v mu p =>
          if memb s p && negb (live st)
          then Some (set_wk (upd (wk st) w (WBusy m r v mu (rem s p))) st)
          else None
      | _ => None
      end
  | EEnd w =>
      match wk st w with
      | WBusy m false v mu [] => Some (set_done (done st ++ [m]) (set_wk (upd (wk st) w WIdle) st))
      | _ => None
      end
  | EWExit w =>
      if Nat.ltb w (nw c)
      then match wk st w with
           | WIdle => if live st then None
                      else if chanb c || is_nil (dist st) then Some (set_wk (upd (wk st) w WDone) st) else None
           | _ => None
           end
      else None
  | ERecv s =>
      match ch st s with
      | m :: r => Some (set_ch (upd (ch st) s r) (set_rcv (upd (rcv st) s (rcv st s ++ [m])) st))
      | [] => None
      end
  | ELoopFilter =>
      match loop st with
      | LSend m => if passes (inmod c) m then None
                   else Some (set_loop LIdle (set_dropped (dropped st ++ [m]) st))
      | _ => None
      end
  | ESkip w =>
      if Nat.ltb w (nw c)
      then match wk st w with
           | WIdle =>
               if chanb c
               then match loop st with
                    | LSend m =>
                        if passes (inmod c) m && negb (passes (outmod c) m)
                        then Some (set_loop LIdle (set_acc (acc st ++ [m]) (set_skipped (skipped st ++ [m])
                                  (set_wk (upd (wk st) w (if skipstop c then WDone else WIdle)) st))))
                        else None
                    | _ => None
                    end
               else match dist st with
                    | m :: d =>
                        if passes (outmod c) m then None
                        else Some (set_dist d (set_skipped (skipped st ++ [m])
                                  (set_wk (upd (wk st) w (if skipstop c then WDone else WIdle)) st)))
                    | [] => None
                    end
           | _ => None
           end
      else None
  | ERangeStale w s =>
      if stalebreak c
      then match wk st w with
           | WBusy m true v mu p =>
               if negb (memb s (subs st)) && negb (memb s v) && negb (par c) && is_nil p
               then Some (set_wk (upd (wk st) w (WBusy m false (v ++ [s]) mu p)) st)
               else None
           | _ => None
           end
      else None
  end.

Fixpoint run (st : state) (es : list event) : option state :=
  match es with
  | [] => Some st
  | e :: r => match step st e with Some st' => run st' r | None => None end
  end.

Definition accepts (es : list event) : bool :=
  match run init es with Some _ => true | None => false end.

(* wg.Wait in Broker.Wait returns: the loop and every worker called wg.Done *)
Definition all_done (st : state) : bool :=
  match loop st with LDone => true | _ => false end
  && forallb (fun w => match wk st w with WDone => true | _ => false end) (seq 0 (nw c)).

End Step.

Definition wake_always : state -> nat -> bool := fun _ _ => true.
(* the discipline C07 establishes for Queue/Deque: a parked receiver is woken when the buffer is
   non-empty or its context has ended, and not otherwise *)
Definition wake_exact : state -> nat -> bool := fun st _ => negb (is_nil (dist st)) || negb (live st).
