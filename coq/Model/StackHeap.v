(* Code-level executable model of dt.Stack / dt.Item (/repo/dt/stack.go), as the code is
   after the fixes C16-stack-pop-lazyinit and C16-stack-remove-unlink.

   Heap = total functions with functional update.  An *Item is `option nat` (None = nil), a
   *Stack is a `nat` (the drivers never use a nil *Stack receiver; the one place where the
   code tests a stack pointer against nil, Item.Attach, takes `option nat`).
   A nil dereference in Go is `Panic`; every loop runs on fuel and returns `Hang` when the fuel
   is exhausted (fuel = number of allocated items + 2, enough for every acyclic chain; the
   theorems show Hang does not occur from well-formed worlds).

   No proofs in this file. *)
From FunV Require Import Base.Tac.
Local Open Scope Z_scope.

Record item := mkItem { inext : option nat; istack : option nat; iok : bool; ivalue : Z }.
Record srec := mkSrec { shead : option nat; slen : Z }.
Record world := mkWorld { items : nat -> item; stacks : nat -> srec; ifresh : nat; sfresh : nat }.

Inductive res (A : Type) : Type := Ok (a : A) | Panic | Hang.
Arguments Ok {A} a. Arguments Panic {A}. Arguments Hang {A}.
Definition bind {A B} (m : res A) (f : A -> res B) : res B :=
  match m with Ok a => f a | Panic => Panic | Hang => Hang end.
Notation "'do' x <- m ; f" := (bind m (fun x => f)) (at level 200, x pattern, m at level 100, f at level 200).

Definition upd {A} (f : nat -> A) (k : nat) (v : A) : nat -> A := fun x => if Nat.eqb x k then v else f x.

Definition onat_eqb (a b : option nat) : bool :=
  match a, b with Some x, Some y => Nat.eqb x y | None, None => true | _, _ => false end.

(* ---- field writes *)
Definition set_item (w : world) (i : nat) (it : item) : world :=
  mkWorld (upd (items w) i it) (stacks w) (ifresh w) (sfresh w).
Definition set_srec (w : world) (s : nat) (r : srec) : world :=
  mkWorld (items w) (upd (stacks w) s r) (ifresh w) (sfresh w).
Definition set_next (w : world) (i : nat) (v : option nat) :=
  let it := items w i in set_item w i (mkItem v (istack it) (iok it) (ivalue it)).
Definition set_stack (w : world) (i : nat) (v : option nat) :=
  let it := items w i in set_item w i (mkItem (inext it) v (iok it) (ivalue it)).
Definition set_ok (w : world) (i : nat) (v : bool) :=
  let it := items w i in set_item w i (mkItem (inext it) (istack it) v (ivalue it)).
Definition set_value (w : world) (i : nat) (v : Z) :=
  let it := items w i in set_item w i (mkItem (inext it) (istack it) (iok it) v).
Definition set_head (w : world) (s : nat) (v : option nat) :=
  set_srec w s (mkSrec v (slen (stacks w s))).
Definition set_len (w : world) (s : nat) (v : Z) :=
  set_srec w s (mkSrec (shead (stacks w s)) v).

(* &Item{...} and &Stack{...} *)
Definition alloc_item (w : world) (it : item) : world * nat :=
  (mkWorld (upd (items w) (ifresh w) it) (stacks w) (S (ifresh w)) (sfresh w), ifresh w).
Definition alloc_stack (w : world) (r : srec) : world * nat :=
  (mkWorld (items w) (upd (stacks w) (sfresh w) r) (ifresh w) (S (sfresh w)), sfresh w).

Definition zero_item : item := mkItem None None false 0.
(* two zero-value stacks (`var s0, s1 Stack`) at addresses 0 and 1, no item *)
Definition empty_world : world := mkWorld (fun _ => zero_item) (fun _ => mkSrec None 0) 0 2.

Definition fuel_of (w : world) : nat := S (S (ifresh w)).

(* func makeItem(val) *Item { return &Item{value: val, ok: true} }   (NewItem is the same) *)
Definition make_item (w : world) (v : Z) : world * nat := alloc_item w (mkItem None None true v).

(* func (s *Stack) lazyInit() {
     if s.head == nil { var val T; s.length = 0; s.head = makeItem(val); s.head.ok = false; s.head.stack = s } } *)
Definition lazy_init (w : world) (s : nat) : world :=
  match shead (stacks w s) with
  | Some _ => w
  | None =>
      let w1 := set_len w s 0 in
      let '(w2, i) := make_item w1 0 in
      let w3 := set_head w2 s (Some i) in
      let w4 := set_ok w3 i false in
      set_stack w4 i (Some s)
  end.

(* ---- Item methods; receiver `it : option nat` *)

(* func (it *Item) Ok() bool { return it != nil && it.ok } *)
Definition i_ok (w : world) (it : option nat) : bool :=
  match it with None => false | Some i => iok (items w i) end.

(* func (it *Item) Next() *Item { return it.next } *)
Definition i_next (w : world) (it : option nat) : res (option nat) :=
  match it with None => Panic | Some i => Ok (inext (items w i)) end.

(* func (it *Item) In(s *Stack) bool { return it.stack == s } *)
Definition i_in (w : world) (it : option nat) (s : nat) : res bool :=
  match it with None => Panic | Some i => Ok (onat_eqb (istack (items w i)) (Some s)) end.

(* func (it *Item) Value() T { return it.value } *)
Definition i_value (w : world) (it : option nat) : res Z :=
  match it with None => Panic | Some i => Ok (ivalue (items w i)) end.

(* func (it *Item) Set(v T) bool {
     if it.stack != nil && it.next == nil { return false }
     it.ok = true; it.value = v; return true } *)
Definition i_set (w : world) (it : option nat) (v : Z) : res (world * bool) :=
  match it with
  | None => Panic
  | Some i =>
      match istack (items w i), inext (items w i) with
      | Some _, None => Ok (w, false)
      | _, _ => Ok (set_value (set_ok w i true) i v, true)
      end
  end.

(* func (it *Item) Append(n *Item) *Item {
     if n == nil || it.stack == nil || it.stack == n.stack || n.stack != nil || !n.ok { return it }
     it.stack.lazyInit()
     n.next = it.stack.head; n.stack = it.stack; n.stack.head = n; n.stack.length++
     return n }
   On the accepting path n != it (otherwise it.stack == n.stack), so it.stack is not changed by the
   writes to n and is read once. *)
Definition i_append (w : world) (it n : option nat) : res (world * option nat) :=
  match n with
  | None => Ok (w, it)
  | Some n' =>
      match it with
      | None => Panic
      | Some i =>
          match istack (items w i) with
          | None => Ok (w, it)
          | Some s =>
              match istack (items w n') with
              | Some _ => Ok (w, it)        (* it.stack == n.stack  or  n.stack != nil *)
              | None =>
                  if negb (iok (items w n')) then Ok (w, it) else
                  let w1 := lazy_init w s in
                  let w2 := set_next w1 n' (shead (stacks w1 s)) in
                  let w3 := set_stack w2 n' (Some s) in
                  let w4 := set_head w3 s (Some n') in
                  let w5 := set_len w4 s (slen (stacks w4 s) + 1) in
                  Ok (w5, Some n')
              end
          end
      end
  end.

(* func (it *Item) Remove() bool {            (after fix C16-stack-remove-unlink)
     if it == nil || it.stack == nil || !it.ok { return false }
     var prev *Item
     for next := it.stack.head; next.Ok(); next = next.next {
       if next == it {
         it.stack.length--; it.stack = nil
         if prev != nil { prev.next = it.next }
         return true }
       if next.next == nil { break }
       prev = next }
     return false }
   When `it` is the head item prev is nil: nothing is unlinked (known finding C16:Item.Remove:attached-head). *)
Fixpoint remove_loop (fuel : nat) (w : world) (i s : nat) (next prev : option nat) : res (world * bool) :=
  match fuel with
  | O => Hang
  | S f =>
      match next with
      | None => Ok (w, false)
      | Some nx =>
          if negb (iok (items w nx)) then Ok (w, false) else
          if Nat.eqb nx i then
            let w1 := set_len w s (slen (stacks w s) - 1) in
            let w2 := set_stack w1 i None in
            let w3 := match prev with Some p => set_next w2 p (inext (items w2 i)) | None => w2 end in
            Ok (w3, true)
          else
            match inext (items w nx) with
            | None => Ok (w, false)
            | Some _ => remove_loop f w i s (inext (items w nx)) (Some nx)
            end
      end
  end.

Definition i_remove (w : world) (it : option nat) : res (world * bool) :=
  match it with
  | None => Ok (w, false)
  | Some i =>
      match istack (items w i) with
      | None => Ok (w, false)
      | Some s =>
          if negb (iok (items w i)) then Ok (w, false)
          else remove_loop (fuel_of w) w i s (shead (stacks w s)) None
      end
  end.

(* func (it *Item) Detach() *Stack {
     if !it.ok { return &Stack{head: &Item{stack: it.stack}} }
     if it.stack == nil { it.stack = &Stack{head: it, length: 1}; return it.stack }
     if it.stack.head == it { return it.stack }
     seen := 0
     for next := it.stack.head; next != nil; next = next.next {
       seen++
       if next.next == it {
         next.next = &Item{stack: it.stack}
         it.stack.length = seen
         it.stack = &Stack{head: it, length: it.stack.length - seen}     (= 0: length was just overwritten)
         break } }
     return it.stack } *)
Fixpoint detach_loop (fuel : nat) (w : world) (i s : nat) (next : option nat) (seen : Z) : res (world * nat) :=
  match fuel with
  | O => Hang
  | S f =>
      match next with
      | None => Ok (w, s)
      | Some nx =>
          let seen := seen + 1 in
          if onat_eqb (inext (items w nx)) (Some i) then
            let '(w1, x) := alloc_item w (mkItem None (Some s) false 0) in
            let w2 := set_next w1 nx (Some x) in
            let w3 := set_len w2 s seen in
            let '(w4, ns) := alloc_stack w3 (mkSrec (Some i) (slen (stacks w3 s) - seen)) in
            let w5 := set_stack w4 i (Some ns) in
            Ok (w5, ns)
          else detach_loop f w i s (inext (items w nx)) seen
      end
  end.

Definition i_detach (w : world) (it : option nat) : res (world * nat) :=
  match it with
  | None => Panic
  | Some i =>
      if negb (iok (items w i)) then
        let '(w1, x) := alloc_item w (mkItem None (istack (items w i)) false 0) in
        Ok (alloc_stack w1 (mkSrec (Some x) 0))
      else
        match istack (items w i) with
        | None =>
            let '(w1, ns) := alloc_stack w (mkSrec (Some i) 1) in
            Ok (set_stack w1 i (Some ns), ns)
        | Some s =>
            if onat_eqb (shead (stacks w s)) (Some i) then Ok (w, s)
            else detach_loop (fuel_of w) w i s (shead (stacks w s)) 0
        end
  end.

(* ---- Stack methods *)

(* func (s *Stack) Len() int { return s.length } *)
Definition s_len (w : world) (s : nat) : Z := slen (stacks w s).

(* func (s *Stack) Push(it T) { s.lazyInit(); s.head.Append(makeItem(it)) } *)
Definition s_push (w : world) (s : nat) (v : Z) : res world :=
  let w1 := lazy_init w s in
  let h := shead (stacks w1 s) in
  let '(w2, n) := make_item w1 v in
  do r <- i_append w2 h (Some n); Ok (fst r).

(* func (s *Stack) Head() *Item { s.lazyInit(); return s.head } *)
Definition s_head (w : world) (s : nat) : world * option nat :=
  let w1 := lazy_init w s in (w1, shead (stacks w1 s)).

(* func (s *Stack) Pop() *Item {               (after fix C16-stack-pop-lazyinit)
     if s.head == nil { s.lazyInit(); return s.head }
     if s.length == 0 { return s.head }
     s.length--; out := s.head; out.stack = nil; s.head = s.head.next; return out } *)
Definition s_pop (w : world) (s : nat) : world * option nat :=
  match shead (stacks w s) with
  | None => let w1 := lazy_init w s in (w1, shead (stacks w1 s))
  | Some h =>
      if slen (stacks w s) =? 0 then (w, Some h) else
      let w1 := set_len w s (slen (stacks w s) - 1) in
      let w2 := set_stack w1 h None in
      let w3 := set_head w2 s (inext (items w2 h)) in
      (w3, Some h)
  end.

(* func (s *Stack) Append(items ...T) { for idx := range items { s.Push(items[idx]) } } *)
Fixpoint s_appendv (w : world) (s : nat) (vs : list Z) : res world :=
  match vs with
  | [] => Ok w
  | v :: vs' => do w1 <- s_push w s v; s_appendv w1 s vs'
  end.

(* Producer(): item := &Item{next: s.head}; each call: item = item.Next(); if !item.Ok() { EOF }; yield item.Value().
   The temporary item is not allocated in the model: the cursor is its `next` field.
   `walk_from fuel w cur` = the values produced until EOF (drained iterator). *)
Fixpoint walk_from (fuel : nat) (w : world) (cur : option nat) : res (list Z) :=
  match fuel with
  | O => Hang
  | S f =>
      match cur with
      | None => Ok []
      | Some c =>
          if negb (iok (items w c)) then Ok []
          else do r <- walk_from f w (inext (items w c)); Ok (ivalue (items w c) :: r)
      end
  end.

Definition s_iter (w : world) (s : nat) : res (list Z) := walk_from (fuel_of w) w (shead (stacks w s)).

(* the same walk cut off after n items (what a driver that calls Next at most n times sees) *)
Fixpoint walk_bounded (n : nat) (w : world) (cur : option nat) : list Z :=
  match n with
  | O => []
  | S f =>
      match cur with
      | None => []
      | Some c => if negb (iok (items w c)) then [] else ivalue (items w c) :: walk_bounded f w (inext (items w c))
      end
  end.

(* ProducerPop(): each call: item = s.Pop(); if item == s.head { EOF }; yield item.Value() *)
Fixpoint s_popiter (fuel : nat) (w : world) (s : nat) : res (world * list Z) :=
  match fuel with
  | O => Hang
  | S f =>
      let '(w1, it) := s_pop w s in
      if onat_eqb it (shead (stacks w1 s)) then Ok (w1, [])
      else do v <- i_value w1 it; do r <- s_popiter f w1 s; Ok (fst r, v :: snd r)
  end.

(* Head()/Next() traversal as a client writes it:  for i := s.Head(); i.Ok(); i = i.Next() { ... }
   Stack.MarshalJSON is this loop (writing json.Marshal(i.Value()) for each item), so at the level of the
   decoded sequence MarshalJSON = s_walk. *)
Definition s_walk (w : world) (s : nat) : res (world * list Z) :=
  let '(w1, h) := s_head w s in
  do r <- walk_from (fuel_of w1) w1 h; Ok (w1, r).

Definition s_marshal := s_walk.

(* func (s *Stack) UnmarshalJSON(in []byte) error {        (in decodes to the sequence vs)
     ns := &Stack{}; head := ns.Head()
     for idx := range rv { elem := NewItem(zero); elem.UnmarshalJSON(rv[idx]) (= elem.Set(val)); head = head.Append(elem) }
     head = s.Head()
     for it := ns.Pop(); it.Ok(); it = ns.Pop() { head.Append(it) }
     return nil } *)
Fixpoint unmarshal_fill (w : world) (head : option nat) (vs : list Z) : res (world * option nat) :=
  match vs with
  | [] => Ok (w, head)
  | v :: vs' =>
      let '(w1, e) := make_item w 0 in
      do r1 <- i_set w1 (Some e) v;
      do r2 <- i_append (fst r1) head (Some e);
      unmarshal_fill (fst r2) (snd r2) vs'
  end.

Fixpoint unmarshal_drain (fuel : nat) (w : world) (ns : nat) (head : option nat) : res world :=
  match fuel with
  | O => Hang
  | S f =>
      let '(w1, it) := s_pop w ns in
      if negb (i_ok w1 it) then Ok w1
      else do r <- i_append w1 head it; unmarshal_drain f (fst r) ns head
  end.

Definition s_unmarshal (w : world) (s : nat) (vs : list Z) : res world :=
  let '(w1, ns) := alloc_stack w (mkSrec None 0) in
  let '(w2, head) := s_head w1 ns in
  do r <- unmarshal_fill w2 head vs;
  let '(w3, head') := s_head (fst r) s in
  unmarshal_drain (fuel_of w3) w3 ns head'.

(* func (it *Item) Attach(stack *Stack) bool {
     if stack == nil || stack.Len() == 0 || stack == it.stack { return false }
     for n := stack.Pop(); n.Ok(); n = stack.Pop() { it = it.Append(n) }
     return true } *)
Fixpoint attach_loop (fuel : nat) (w : world) (it : option nat) (st : nat) : res world :=
  match fuel with
  | O => Hang
  | S f =>
      let '(w1, n) := s_pop w st in
      if negb (i_ok w1 n) then Ok w1
      else do r <- i_append w1 it n; attach_loop f (fst r) (snd r) st
  end.

Definition i_attach (w : world) (it : option nat) (st : option nat) : res (world * bool) :=
  match st with
  | None => Ok (w, false)
  | Some t =>
      if s_len w t =? 0 then Ok (w, false) else
      match it with
      | None => Panic
      | Some i =>
          if onat_eqb (Some t) (istack (items w i)) then Ok (w, false)
          else do w1 <- attach_loop (fuel_of w) w it t; Ok (w1, true)
      end
  end.

(* ------------------------------------------------------------------ sessions
   A session is what a client program holds: the heap, the table of every item it was ever handed
   (in order of first appearance; the integer handle -1 is nil) and the table of stacks
   (two to begin with, both zero values `var s Stack`; Detach adds more). *)

Record sess := mkSess { sw : world; htab : list nat; stab : list nat }.

Definition init_sess : sess := mkSess empty_world [] [0%nat; 1%nat].

Inductive op :=
| OPush (s : nat) (v : Z)
| OPop (s : nat)
| OHead (s : nat)
| OLen (s : nat)
| OAppendV (s : nat) (vs : list Z)
| OIter (s : nat)
| OPopIter (s : nat)
| OWalk (s : nat)
| OMarshal (s : nat)
| OUnmarshal (s : nat) (vs : list Z)
| OUnmarshalBad (s : nat)           (* malformed JSON: error, nothing observable changes *)
| ONewItem (v : Z)
| OZeroItem                         (* &dt.Item[T]{} *)
| INext (h : Z)
| IOk (h : Z)
| IIn (h : Z) (s : nat)
| IValue (h : Z)
| ISet (h : Z) (v : Z)
| IAppend (h n : Z)
| IRemove (h : Z)
| IAttach (h : Z) (s : option nat)
| IDetach (h : Z).

Inductive ret :=
| RUnit
| RBool (b : bool)
| RZ (z : Z)
| RItem (h : Z)
| RList (l : list Z)
| RStack (k : Z)
| RPanic
| RHang.

Definition handle (ss : sess) (h : Z) : option nat :=
  if h <? 0 then None else nth_error (htab ss) (Z.to_nat h).

(* an index beyond the table denotes the first stack (as in the driver) *)
Definition stack_at (ss : sess) (k : nat) : nat := nth k (stab ss) 0%nat.

Fixpoint index_of (x : nat) (l : list nat) : option nat :=
  match l with
  | [] => None
  | y :: l' => if Nat.eqb x y then Some O else option_map S (index_of x l')
  end.

(* register a returned item: its handle is the index of its first appearance *)
Definition note_item (tab : list nat) (it : option nat) : list nat * Z :=
  match it with
  | None => (tab, -1)
  | Some i =>
      match index_of i tab with
      | Some k => (tab, Z.of_nat k)
      | None => (tab ++ [i], Z.of_nat (length tab))
      end
  end.

Definition ret_item (ss : sess) (w : world) (it : option nat) : sess * ret :=
  let '(tab, h) := note_item (htab ss) it in (mkSess w tab (stab ss), RItem h).

Definition ret_stack (ss : sess) (w : world) (s : nat) : sess * ret :=
  let '(tab, h) := note_item (stab ss) (Some s) in (mkSess w (htab ss) tab, RStack h).

Definition with_world (ss : sess) (w : world) : sess := mkSess w (htab ss) (stab ss).

Definition step (ss : sess) (o : op) : res (sess * ret) :=
  let w := sw ss in
  match o with
  | OPush k v => do w1 <- s_push w (stack_at ss k) v; Ok (with_world ss w1, RUnit)
  | OPop k => let '(w1, it) := s_pop w (stack_at ss k) in Ok (ret_item ss w1 it)
  | OHead k => let '(w1, it) := s_head w (stack_at ss k) in Ok (ret_item ss w1 it)
  | OLen k => Ok (ss, RZ (s_len w (stack_at ss k)))
  | OAppendV k vs => do w1 <- s_appendv w (stack_at ss k) vs; Ok (with_world ss w1, RUnit)
  | OIter k => do l <- s_iter w (stack_at ss k); Ok (ss, RList l)
  | OPopIter k => do r <- s_popiter (fuel_of w) w (stack_at ss k); Ok (with_world ss (fst r), RList (snd r))
  | OWalk k => do r <- s_walk w (stack_at ss k); Ok (with_world ss (fst r), RList (snd r))
  | OMarshal k => do r <- s_marshal w (stack_at ss k); Ok (with_world ss (fst r), RList (snd r))
  | OUnmarshal k vs => do w1 <- s_unmarshal w (stack_at ss k) vs; Ok (with_world ss w1, RBool true)
  | OUnmarshalBad k => Ok (ss, RBool false)
  | ONewItem v => let '(w1, i) := make_item w v in Ok (ret_item ss w1 (Some i))
  | OZeroItem => let '(w1, i) := alloc_item w zero_item in Ok (ret_item ss w1 (Some i))
  | INext h => do n <- i_next w (handle ss h); Ok (ret_item ss w n)
  | IOk h => Ok (ss, RBool (i_ok w (handle ss h)))
  | IIn h k => do b <- i_in w (handle ss h) (stack_at ss k); Ok (ss, RBool b)
  | IValue h => do v <- i_value w (handle ss h); Ok (ss, RZ v)
  | ISet h v => do r <- i_set w (handle ss h) v; Ok (with_world ss (fst r), RBool (snd r))
  | IAppend h n => do r <- i_append w (handle ss h) (handle ss n); Ok (ret_item ss (fst r) (snd r))
  | IRemove h => do r <- i_remove w (handle ss h); Ok (with_world ss (fst r), RBool (snd r))
  | IAttach h k => do r <- i_attach w (handle ss h) (option_map (stack_at ss) k); Ok (with_world ss (fst r), RBool (snd r))
  | IDetach h => do r <- i_detach w (handle ss h); Ok (ret_stack ss (fst r) (snd r))
  end.

(* ------------------------------------------------------------------ observations after a step
   per stack of the table: Head()/Next() walk (only in eager mode: Head() initialises a zero-value
   stack, which would hide what Pop/Iterator do on one), iterator output, Len(); both walks cut off
   after 2*Len+4 items.  Per handle: 4*Ok + 2*In(stack 1) + In(stack 0), and Value(). *)

Record sobs := mkSobs { o_walk : list Z; o_iter : list Z; o_len : Z }.

Definition bound_of (w : world) (s : nat) : nat := Z.to_nat (2 * slen (stacks w s) + 4).

Fixpoint observe_stacks (eager : bool) (w : world) (ss : list nat) : world * list sobs :=
  match ss with
  | [] => (w, [])
  | s :: ss' =>
      let '(w1, wl) := if eager then (let '(w1, h) := s_head w s in (w1, walk_bounded (bound_of w1 s) w1 h))
                       else (w, []) in
      let o := mkSobs wl (walk_bounded (bound_of w1 s) w1 (shead (stacks w1 s))) (s_len w1 s) in
      let '(w2, os) := observe_stacks eager w1 ss' in
      (w2, o :: os)
  end.

Definition b2z (b : bool) : Z := if b then 1 else 0.

Definition observe_handle (w : world) (s0 s1 : nat) (i : nat) : Z * Z :=
  let it := items w i in
  (4 * b2z (iok it) + 2 * b2z (onat_eqb (istack it) (Some s1)) + b2z (onat_eqb (istack it) (Some s0)), ivalue it).

Inductive stepobs := SObs (r : ret) (sts : list sobs) (hs : list (Z * Z)).

Definition observe (eager : bool) (ss : sess) : sess * (list sobs * list (Z * Z)) :=
  let '(w1, os) := observe_stacks eager (sw ss) (stab ss) in
  (with_world ss w1, (os, map (observe_handle w1 (stack_at ss 0) (stack_at ss 1)) (htab ss))).

(* run a whole case; a panic or a hang ends it (recorded as the last step, with no observations) *)
Fixpoint run (eager : bool) (ss : sess) (ops : list op) : list stepobs :=
  match ops with
  | [] => []
  | o :: ops' =>
      match step ss o with
      | Ok (ss1, r) => let '(ss2, (os, hs)) := observe eager ss1 in SObs r os hs :: run eager ss2 ops'
      | Panic => [SObs RPanic [] []]
      | Hang => [SObs RHang [] []]
      end
  end.
