(* The worker networks of /repo as committed (8c4cd9f), one transition system with a mode:

     Process  (gen = false, has_out = false)  Iterator.ProcessParallel / ParallelForEach / Worker
     Map      (gen = false, has_out = true, cap = 0)   Transform.ProcessParallel: each worker sends
              its result on the unbuffered output channel (rendezvous with the consumer)
     Generate (gen = true,  has_out = true, cap = 2N+1) Producer.GenerateParallel: no splitter, every
              worker calls the generator itself and sends into the buffered pipe

   Refinements over Model/WorkerGroup.v: (i) the top-of-loop `ctx.Err()` test of every worker is its
   own step (LWCheck; Iterator.ReadOne for Process/Map, the closure in producer.go for Generate), so a
   worker that finishes an item after the cancel can NOT take another one; (ii) the send of the
   result (LSend / LSendAbort: `select { case <-ctx.Done(): ; case ch <- v: }`), the consumer (LRecv)
   and the closer (LClose: wait group zero -> cancel(); close(output)) are modelled; the output
   iterator's Close() returns `res` (the default ErrorHandler is the output iterator's own).
   The failing worker's cancel() is a separate step (LCancel) AFTER its LFinish: the error filter
   runs in the failing goroutine right after the function returns, but the other goroutines run in
   parallel with it, so their steps may fall in between; `r_win` counts exactly the ones that matter
   (ctx tests passed in that window). *)
From FunV Require Import Base.Tac Model.WorkerConf Model.WorkerGroup.
Open Scope nat_scope.

Inductive wst := VLoop | VIdle | VBusy (x : Z) | VSend (x : Z) | VFailed | VDone.

Inductive lbl :=
| KCheck | KTake | KHandoff (i : nat) | KObsSplit
| KWCheck (i : nat) | KFinish (i : nat) | KCancel (i : nat) | KWorkerEof (i : nat) | KObsWorker (i : nat)
| KSend (i : nat) | KSendAbort (i : nat) | KRecv | KClose.

Record st := mkst {
  inp : list Z; spl : sstate; closed : bool; wk : list wst; canc : bool;
  out : list Z; outclosed : bool; delivered : list Z; lost : list Z;
  res : list (Z * err); proc : list Z; started : list Z; drop : list Z; crashed : bool;
  failed : bool; h_after : nat; r_win : nat;
}.

Definition vdone (w : wst) : bool := match w with VDone => true | _ => false end.

Section Net.
Variable c : conf.
Variable gen : bool.
Variable has_out : bool.
Variable cap : nat.
Variable f : Z -> outcome.

(* Process/Map: every "cannot continue" cancels (iterator.go filter; transform.go filter on io.EOF);
   Generate: all but the generator's plain io.EOF (producer.go) *)
Definition stops (oe : option err) : bool := stops_group (negb gen) oe.

Notation recorded := (recorded c f).

Definition exec (s : st) (l : lbl) : option st :=
  match l with
  | KCheck =>
      match spl s with
      | SLoop => if canc s then Some (mkst (inp s) (SDone) (true) (wk s) (canc s) (out s) (outclosed s) (delivered s) (lost s) (res s) (proc s) (started s) (drop s) (crashed s) (failed s) (h_after s) (r_win s)) else Some (mkst (inp s) (SChecked) (closed s) (wk s) (canc s) (out s) (outclosed s) (delivered s) (lost s) (res s) (proc s) (started s) (drop s) (crashed s) (failed s) (h_after s) (r_win s))
      | _ => None
      end
  | KTake =>
      match spl s with
      | SChecked =>
          match inp s with
          | x :: r => Some (mkst (r) (SHolding x) (closed s) (wk s) (canc s) (out s) (outclosed s) (delivered s) (lost s) (res s) (proc s) (started s) (drop s) (crashed s) (failed s) (h_after s) (r_win s))
          | [] => Some (mkst (inp s) (SDone) (true) (wk s) (canc s) (out s) (outclosed s) (delivered s) (lost s) (res s) (proc s) (started s) (drop s) (crashed s) (failed s) (h_after s) (r_win s))
          end
      | _ => None
      end
  | KHandoff i =>
      if gen then
        match inp s, nth_error (wk s) i with
        | x :: r, Some VIdle => Some (mkst (r) (spl s) (closed s) (set_nth i (VBusy x) (wk s)) (canc s) (out s) (outclosed s) (delivered s) (lost s) (res s) (proc s) (started s ++ [x]) (drop s) (crashed s) (failed s) (if failed s then S (h_after s) else h_after s) (r_win s))
        | _, _ => None
        end
      else
        match spl s, nth_error (wk s) i with
        | SHolding x, Some VIdle => Some (mkst (inp s) (SLoop) (closed s) (set_nth i (VBusy x) (wk s)) (canc s) (out s) (outclosed s) (delivered s) (lost s) (res s) (proc s) (started s ++ [x]) (drop s) (crashed s) (failed s) (if failed s then S (h_after s) else h_after s) (r_win s))
        | _, _ => None
        end
  | KObsSplit =>
      match spl s with
      | SHolding x => if canc s then Some (mkst (inp s) (SDone) (true) (wk s) (canc s) (out s) (outclosed s) (delivered s) (lost s) (res s) (proc s) (started s) (drop s ++ [x]) (crashed s) (failed s) (h_after s) (r_win s)) else None
      | _ => None
      end
  | KWCheck i =>
      match nth_error (wk s) i with
      | Some VLoop =>
          if canc s then Some (mkst (inp s) (spl s) (closed s) (set_nth i VDone (wk s)) (canc s) (out s) (outclosed s) (delivered s) (lost s) (res s) (proc s) (started s) (drop s) (crashed s) (failed s) (h_after s) (r_win s))
          else Some (mkst (inp s) (spl s) (closed s) (set_nth i VIdle (wk s)) (canc s) (out s) (outclosed s) (delivered s) (lost s) (res s) (proc s) (started s) (drop s) (crashed s) (failed s) (h_after s) (if failed s then S (r_win s) else r_win s))
      | _ => None
      end
  | KFinish i =>
      match nth_error (wk s) i with
      | Some (VBusy x) =>
          match recover_wrapper (run_user (f x)) with
          | Panicking _ => Some (mkst (inp s) (spl s) (closed s) (set_nth i VDone (wk s)) (canc s) (out s) (outclosed s) (delivered s) (lost s) (res s ++ recorded x) (proc s ++ [x]) (started s) (drop s) (true) (failed s) (h_after s) (r_win s))
          | Returned oe =>
              if continue (can_continue c oe)
              then match oe with
                   | None => if has_out then Some (mkst (inp s) (spl s) (closed s) (set_nth i (VSend x) (wk s)) (canc s) (out s) (outclosed s) (delivered s) (lost s) (res s ++ recorded x) (proc s ++ [x]) (started s) (drop s) (crashed s) (failed s) (h_after s) (r_win s)) else Some (mkst (inp s) (spl s) (closed s) (set_nth i VLoop (wk s)) (canc s) (out s) (outclosed s) (delivered s) (lost s) (res s ++ recorded x) (proc s ++ [x]) (started s) (drop s) (crashed s) (failed s) (h_after s) (r_win s))
                   | Some _ => Some (mkst (inp s) (spl s) (closed s) (set_nth i VLoop (wk s)) (canc s) (out s) (outclosed s) (delivered s) (lost s) (res s ++ recorded x) (proc s ++ [x]) (started s) (drop s) (crashed s) (failed s) (h_after s) (r_win s))
                   end
              else if stops oe then Some (mkst (inp s) (spl s) (closed s) (set_nth i VFailed (wk s)) (canc s) (out s) (outclosed s) (delivered s) (lost s) (res s ++ recorded x) (proc s ++ [x]) (started s) (drop s) (crashed s) (true) (h_after s) (r_win s)) else Some (mkst (inp s) (spl s) (closed s) (set_nth i VDone (wk s)) (canc s) (out s) (outclosed s) (delivered s) (lost s) (res s ++ recorded x) (proc s ++ [x]) (started s) (drop s) (crashed s) (failed s) (h_after s) (r_win s))
          end
      | _ => None
      end
  | KCancel i =>
      match nth_error (wk s) i with
      | Some VFailed => Some (mkst (inp s) (spl s) (closed s) (set_nth i VDone (wk s)) (true) (out s) (outclosed s) (delivered s) (lost s) (res s) (proc s) (started s) (drop s) (crashed s) (failed s) (h_after s) (r_win s))
      | _ => None
      end
  | KWorkerEof i =>
      match nth_error (wk s) i with
      | Some VIdle =>
          if gen then match inp s with [] => Some (mkst (inp s) (spl s) (closed s) (set_nth i VDone (wk s)) (canc s) (out s) (outclosed s) (delivered s) (lost s) (res s) (proc s) (started s) (drop s) (crashed s) (failed s) (h_after s) (r_win s)) | _ => None end
          else if closed s then Some (mkst (inp s) (spl s) (closed s) (set_nth i VDone (wk s)) (canc s) (out s) (outclosed s) (delivered s) (lost s) (res s) (proc s) (started s) (drop s) (crashed s) (failed s) (h_after s) (r_win s)) else None
      | _ => None
      end
  | KObsWorker i =>
      match nth_error (wk s) i with
      | Some VIdle => if gen then None else if canc s then Some (mkst (inp s) (spl s) (closed s) (set_nth i VDone (wk s)) (canc s) (out s) (outclosed s) (delivered s) (lost s) (res s) (proc s) (started s) (drop s) (crashed s) (failed s) (h_after s) (r_win s)) else None
      | _ => None
      end
  | KSend i =>
      match nth_error (wk s) i with
      | Some (VSend x) =>
          if outclosed s then None
          else if Nat.eqb cap 0 then Some (mkst (inp s) (spl s) (closed s) (set_nth i VLoop (wk s)) (canc s) (out s) (outclosed s) (delivered s ++ [x]) (lost s) (res s) (proc s) (started s) (drop s) (crashed s) (failed s) (h_after s) (r_win s))
          else if Nat.ltb (length (out s)) cap then Some (mkst (inp s) (spl s) (closed s) (set_nth i VLoop (wk s)) (canc s) (out s ++ [x]) (outclosed s) (delivered s) (lost s) (res s) (proc s) (started s) (drop s) (crashed s) (failed s) (h_after s) (r_win s)) else None
      | _ => None
      end
  | KSendAbort i =>
      match nth_error (wk s) i with
      | Some (VSend x) => if canc s then Some (mkst (inp s) (spl s) (closed s) (set_nth i VDone (wk s)) (canc s) (out s) (outclosed s) (delivered s) (lost s ++ [x]) (res s) (proc s) (started s) (drop s) (crashed s) (failed s) (h_after s) (r_win s)) else None
      | _ => None
      end
  | KRecv =>
      match out s with
      | x :: r => Some (mkst (inp s) (spl s) (closed s) (wk s) (canc s) (r) (outclosed s) (delivered s ++ [x]) (lost s) (res s) (proc s) (started s) (drop s) (crashed s) (failed s) (h_after s) (r_win s))
      | [] => None
      end
  | KClose =>
      if forallb vdone (wk s) && negb (outclosed s) then Some (mkst (inp s) (spl s) (closed s) (wk s) (true) (out s) (true) (delivered s) (lost s) (res s) (proc s) (started s) (drop s) (crashed s) (failed s) (h_after s) (r_win s)) else None
  end.

Definition init (n : nat) (input : list Z) : st :=
  mkst input (if gen then SDone else SLoop) false (repeat VLoop n) false [] false [] [] [] [] [] [] false false 0 0.

Fixpoint exec_all (s : st) (ls : list lbl) : option st :=
  match ls with
  | [] => Some s
  | l :: ls' => match exec s l with Some s' => exec_all s' ls' | None => None end
  end.

Definition spl_done (s : st) : bool := match spl s with SDone => true | _ => false end.

(* every process has ended: splitter (absent in Generate), workers, closer; the consumer has drained *)
Definition terminated (s : st) : bool :=
  spl_done s && forallb vdone (wk s) && outclosed s && match out s with [] => true | _ => false end.

(* did the user function succeed on x (and so, with has_out, produce an output)? *)
Definition succ (x : Z) : bool := match with_recover (f x) with None => true | Some _ => false end.

(* canonical one-worker schedule: what a single worker and an always-ready consumer do *)
Definition send_steps : list lbl := if has_out then (if Nat.eqb cap 0 then [KSend 0] else [KSend 0; KRecv]) else [].
Definition take_steps : list lbl := if gen then [KWCheck 0; KHandoff 0] else [KCheck; KTake; KWCheck 0; KHandoff 0].
Fixpoint seq_sched (input : list Z) : list lbl :=
  match input with
  | [] => (if gen then [KWCheck 0; KWorkerEof 0] else [KCheck; KTake; KWCheck 0; KWorkerEof 0]) ++ [KClose]
  | x :: rest =>
      take_steps ++ [KFinish 0] ++
      (let oe := with_recover (f x) in
       if continue (can_continue c oe)
       then (match oe with None => send_steps | Some _ => [] end) ++ seq_sched rest
       else (if stops oe then [KCancel 0] else []) ++ [KClose] ++
            (if gen then [] else match rest with [] => [KCheck] | _ => [KCheck] end))
  end.

End Net.
