(* Model of fun.WaitGroup (/repo/sync.go) — executable definitions only.

   Three layers, all built on the one transcription `wg_add` of WaitGroup.Add:
   1. the sequential step function `wg_step` (used by the differential correspondence on every check run);
   2. the Monitor instance (Conc/Monitor.v): Data = counter, one cond (id 0), `Add n` an effect body that
      broadcasts iff the result is 0, `Num`/`IsDone` read-only bodies, `Wait` a waiter
      (cond 0, P = counter =? 0, never closed, success changes nothing, helper spawned only when it first has to
      park — the early return at sync.go:122 comes before the helper goroutine is started; the helper broadcasts
      while holding the mutex);
   3. the spawn model of Launch / DoTimes / Operation.Add / StartGroup: `wg.Inc()` happens in the caller before
      the `go` statement, `wg.Done()` runs in the goroutine after the operation returned (PostHook defer).

   Go's `int` is 64 bit; the model uses Z (no overflow: counters in the harness are tiny).  *)
From FunV Require Import Base.Tac Conc.Monitor.
Open Scope Z_scope.

(* ---------------------------------------------------------------- 1. sequential *)

Inductive wg_op :=
| WAdd (n : Z)
| WInc
| WDone
| WNum
| WIsDone
| WWait            (* Wait(ctx) with a live context, in try-form: Blocked = it parked (and had to be cancelled) *)
| WWaitCancelled.  (* Wait(ctx) with a context that has already ended *)

Inductive wg_res :=
| RUnit | RPanic | RNum (n : Z) | RBool (b : bool)
| RReturned        (* Wait returned by itself *)
| RBlocked.        (* Wait did not return while its context was live *)

(* sync.go:43-55.  Lock; (defer Unlock); init; Invariant.IsTrue(counter+num >= 0) — panics, nothing written,
   the deferred Unlock still runs; counter += num; if counter == 0 { cond.Broadcast() }.
   Result: new counter, what the caller sees, whether cond.Broadcast() was called. *)
Definition wg_add (c n : Z) : Z * wg_res * bool :=
  if 0 <=? c + n
  then (c + n, RUnit, (c + n =? 0))
  else (c, RPanic, false).

Definition wg_step (c : Z) (o : wg_op) : Z * wg_res :=
  match o with
  | WAdd n => let '(c', r, _) := wg_add c n in (c', r)
  | WInc => let '(c', r, _) := wg_add c 1 in (c', r)            (* sync.go:61 *)
  | WDone => let '(c', r, _) := wg_add c (-1) in (c', r)        (* sync.go:58 *)
  | WNum => (c, RNum c)                                         (* sync.go:64-69 *)
  | WIsDone => (c, RBool (c =? 0))                              (* sync.go:72-77 *)
  | WWait => (c, if c =? 0 then RReturned else RBlocked)        (* sync.go:122: counter == 0 -> return; else park *)
  | WWaitCancelled => (c, RReturned)                            (* sync.go:122: ctx.Err() != nil -> return *)
  end.

Fixpoint wg_run (c : Z) (ops : list wg_op) : Z * list wg_res :=
  match ops with
  | [] => (c, [])
  | o :: r => let '(c1, x) := wg_step c o in let '(c2, xs) := wg_run c1 r in (c2, x :: xs)
  end.

(* the Add-like operations and the amount they add *)
Definition delta_of (o : wg_op) : option Z :=
  match o with WAdd n => Some n | WInc => Some 1 | WDone => Some (-1) | _ => None end.

(* the sum of the Adds that completed without panicking, when `ops` is run from counter c *)
Fixpoint sum_completed (c : Z) (ops : list wg_op) : Z :=
  match ops with
  | [] => 0
  | o :: r =>
      let c1 := fst (wg_step c o) in
      (match delta_of o, snd (wg_step c o) with Some n, RUnit => n | _, _ => 0 end) + sum_completed c1 r
  end.

(* ---------------------------------------------------------------- 2. Monitor instance *)

Definition wg_cond : cond := 0%nat.

Definition add_body (n : Z) : body Z :=
  fun c => let '(c', _, bc) := wg_add c n in (c', if bc then [Broadcast wg_cond] else []).

Definition read_body : body Z := fun c => (c, []).

(* sync.go:118-150 *)
Definition wait_spec : waiter Z :=
  mkWaiter wg_cond (fun c => c =? 0) (fun _ => false) (fun c => (c, [])) false.

Definition compile (o : wg_op) : op Z :=
  match o with
  | WAdd n => OEffect (add_body n)
  | WInc => OEffect (add_body 1)
  | WDone => OEffect (add_body (-1))
  | WNum | WIsDone => OEffect read_body
  | WWait | WWaitCancelled => OWaiter wait_spec      (* the two differ only in when LCtxEnd happens *)
  end.

(* any assignment of operations to (unboundedly many) threads *)
Definition wg_prog (p : tid -> wg_op) : tid -> op Z := fun t => compile (p t).

(* sync.go:134-137 (after the repair of the lost-cancellation race, fixes_pending/C14-wait-ctx-lost-wakeup.diff):
   the helper goroutine takes the mutex around its Broadcast:
     go func() { <-ctx.Done(); wg.mu.Lock(); defer wg.mu.Unlock(); wg.cond.Broadcast() }()
   Before the repair it broadcast without the mutex (helper_locked = false); the theorem
   `wait_ctx_wake_unlocked_helper_refuted` keeps the schedule that shows why the lock is needed. *)
Definition wg_helper_locked : bool := true.

Definition wg_state := state Z.
Definition wg_init (p : tid -> wg_op) : wg_state := init Z 0.
Definition wg_reachable (p : tid -> wg_op) : wg_state -> Prop := reachable Z (wg_prog p) 0 wg_helper_locked.
Definition wg_reach_norace (p : tid -> wg_op) : wg_state -> Prop := reach Z (wg_prog p) 0 wg_helper_locked no_ctx_race.
Definition wg_run_tr (p : tid -> wg_op) : list (wg_state * label) -> wg_state -> Prop :=
  run Z (wg_prog p) 0 wg_helper_locked any_step.
Definition wg_mstep (p : tid -> wg_op) : wg_state -> label -> wg_state -> Prop := step Z (wg_prog p) wg_helper_locked.

(* what a step of a schedule adds to the counter: the argument of a completed, non-panicking Add/Inc/Done *)
Definition step_delta (p : tid -> wg_op) (sl : wg_state * label) : Z :=
  match snd sl with
  | LBody t => match delta_of (p t) with
               | Some n => if 0 <=? dat (fst sl) + n then n else 0
               | None => 0
               end
  | _ => 0
  end.

Definition sum_deltas (p : tid -> wg_op) (tr : list (wg_state * label)) : Z :=
  fold_right (fun sl acc => step_delta p sl + acc) 0 tr.

(* ---------------------------------------------------------------- 3. spawn model (Launch and friends)

   sync.go:90-93   Launch:  wg.Inc(); op.PostHook(wg.Done).Background(ctx)
   operation.go:82 Background: go wf(ctx)         operation.go:237-239 PostHook: defer hook(); wf(ctx)
   sync.go:84-86   DoTimes(n) = n Launches in a row; operation.go:91,95 Operation.Add / StartGroup call these.

   A job is one goroutine started through Launch.  `ext` stands for everything else that uses the same group
   (other Add/Done calls); they are assumed balanced: they never take away more than they have put in. *)

Inductive jstate :=
| JCounted     (* Launch has run wg.Inc(); the `go` statement has not yet started the goroutine *)
| JRunning     (* the goroutine is running the operation *)
| JEnding      (* the operation has returned; the deferred wg.Done() has not yet run *)
| JDone        (* wg.Done() has returned *)
| JPanicked.   (* wg.Done() panicked (never happens: spawn_no_panic) *)

Definition j_live (j : jstate) : bool := match j with JCounted | JRunning | JEnding => true | _ => false end.

Record spawn_state := mkSpawn { sp_counter : Z; sp_ext : Z; sp_jobs : list jstate }.

Definition spawn_init : spawn_state := mkSpawn 0 0 [].

Fixpoint set_nth {A} (l : list A) (i : nat) (v : A) : list A :=
  match l, i with
  | [], _ => []
  | _ :: r, O => v :: r
  | x :: r, S i' => x :: set_nth r i' v
  end.

Inductive spawn_step : spawn_state -> spawn_state -> Prop :=
| sp_launch s c' bc :                    (* Launch: wg.Inc() in the caller (had it panicked, no goroutine would start) *)
    wg_add (sp_counter s) 1 = (c', RUnit, bc) ->
    spawn_step s (mkSpawn c' (sp_ext s) (sp_jobs s ++ [JCounted]))
| sp_start s i :                         (* the goroutine starts *)
    nth_error (sp_jobs s) i = Some JCounted ->
    spawn_step s (mkSpawn (sp_counter s) (sp_ext s) (set_nth (sp_jobs s) i JRunning))
| sp_end s i :                           (* the operation returns *)
    nth_error (sp_jobs s) i = Some JRunning ->
    spawn_step s (mkSpawn (sp_counter s) (sp_ext s) (set_nth (sp_jobs s) i JEnding))
| sp_done s i c' r bc :                  (* deferred wg.Done() *)
    nth_error (sp_jobs s) i = Some JEnding ->
    wg_add (sp_counter s) (-1) = (c', r, bc) ->
    spawn_step s (mkSpawn c' (sp_ext s)
                          (set_nth (sp_jobs s) i (match r with RUnit => JDone | _ => JPanicked end)))
| sp_ext_add s n c' bc :                 (* other, balanced, users of the group *)
    0 <= sp_ext s + n ->
    wg_add (sp_counter s) n = (c', RUnit, bc) ->
    spawn_step s (mkSpawn c' (sp_ext s + n) (sp_jobs s)).

Inductive spawn_reach : spawn_state -> Prop :=
| spr_init : spawn_reach spawn_init
| spr_step s s' : spawn_reach s -> spawn_step s s' -> spawn_reach s'.

Definition n_live (js : list jstate) : Z := Z.of_nat (length (filter j_live js)).

(* ---- DoTimes (sync.go:84-86) = ft.DoTimes(n, func() { wg.Launch(ctx, op) });  ft.DoTimes (ft/ft.go:187-191) is
   `for i := 0; i < n; i++ { op() }` — for n <= 0 the loop body never runs.  Operation.StartGroup calls DoTimes. *)

(* executable: the counter after `iters` Launches in a row (none of the goroutines finished yet) *)
Fixpoint launch_counter (iters : nat) (c : Z) : Z :=
  match iters with O => c | S k => launch_counter k (fst (fst (wg_add c 1))) end.

(* the loop `for i := 0; i < n; i++`: Z.to_nat n iterations (none when n is negative) *)
Definition dotimes_iters (n : Z) : nat := Z.to_nat n.
Definition dotimes_counter (n : Z) (c : Z) : Z := launch_counter (dotimes_iters n) c.

(* on the spawn model: DoTimes n is its loop, each iteration one Launch step *)
Inductive launch_times : nat -> spawn_state -> spawn_state -> Prop :=
| lt_zero s : launch_times O s s
| lt_succ k s c' bc s' :
    wg_add (sp_counter s) 1 = (c', RUnit, bc) ->
    launch_times k (mkSpawn c' (sp_ext s) (sp_jobs s ++ [JCounted])) s' ->
    launch_times (S k) s s'.

Definition spawn_dotimes (n : Z) (s s' : spawn_state) : Prop := launch_times (dotimes_iters n) s s'.

(* ---- the goroutine that Launch starts, with its exit paths and the launch context
   sync.go:90-93     Launch:  wg.Inc(); op.PostHook(wg.Done).Background(ctx)
   operation.go:82   Background(ctx): go wf(ctx)            — the context is handed on, it is NOT inspected
   operation.go:237  PostHook(hook): func(ctx) { defer hook(); wf(ctx) }
   So: whatever the state of the launch context the goroutine is started and the body is called (the body may
   look at ctx itself), and wg.Done sits in a DEFERRED position of the goroutine's only frame: it runs when the
   body returns, when it panics (the panic then continues) and when it ends through runtime.Goexit. *)
Inductive exit_kind := ExReturn | ExPanic | ExGoexit.

(* does the body run, given whether the launch context is still live?  (Background does not look) *)
Definition launch_body_runs (ctx_live : bool) : bool := true.
(* does the hook of `defer hook(); wf(ctx)` run for this way of leaving wf? *)
Definition posthook_runs_hook (e : exit_kind) : bool := true.

(* the launched goroutine, from counter c: returns the counter and whether Done was called and panicked *)
Definition launch_goroutine (ctx_live : bool) (e : exit_kind) (c : Z) : Z * wg_res :=
  if posthook_runs_hook e then let '(c', r, _) := wg_add c (-1) in (c', r) else (c, RUnit).

(* Launch followed by the complete run of its goroutine *)
Definition launch_roundtrip (ctx_live : bool) (e : exit_kind) (c : Z) : Z * wg_res :=
  let '(c1, r1, _) := wg_add c 1 in
  match r1 with
  | RUnit => launch_goroutine ctx_live e c1
  | _ => (c1, r1)
  end.

(* n launches that all run to completion (correspondence form): counter afterwards and number of bodies run *)
Fixpoint launch_all_roundtrip (n : nat) (ctx_live : bool) (e : exit_kind) (c : Z) : Z * Z :=
  match n with
  | O => (c, 0)
  | S k => let '(c1, _) := launch_roundtrip ctx_live e c in
           let '(c2, ran) := launch_all_roundtrip k ctx_live e c1 in
           (c2, ran + (if launch_body_runs ctx_live then 1 else 0))
  end.

(* the two mutated shapes, kept to show what the statements exclude:
   (a) `op.PostHook(wg.Done).If(ctx.Err() == nil).Background(ctx)`: body AND hook are skipped when the launch context has ended;
   (b) `wf(ctx); hook()`: the hook only runs when wf returns normally. *)
Definition launch_goroutine_if_after_hook (ctx_live : bool) (e : exit_kind) (c : Z) : Z * wg_res :=
  if ctx_live then launch_goroutine ctx_live e c else (c, RUnit).
Definition launch_goroutine_seq_hook (ctx_live : bool) (e : exit_kind) (c : Z) : Z * wg_res :=
  match e with ExReturn => let '(c', r, _) := wg_add c (-1) in (c', r) | _ => (c, RUnit) end.

(* ---- the shape that `wait_check_and_park_atomic` excludes: a Wait whose "nothing to wait for" check
   (`if wg.IsDone() || ctx.Err() != nil { return }`) runs BEFORE taking the mutex, while the loop parks in
   cond.Wait() before it re-checks the counter.  One waiter, live context, arbitrary Adds by others. *)
Inductive uphase :=
| UStart      (* Wait called *)
| UChecked    (* saw counter <> 0 without holding the mutex; has not locked yet *)
| UParked     (* locked, went straight into cond.Wait(): on the wait list *)
| UReturned.

Record ustate := mkU { u_counter : Z; u_waiter : uphase }.

Inductive ustep : ustate -> ustate -> Prop :=
| u_check_zero s : u_waiter s = UStart -> u_counter s = 0 -> ustep s (mkU (u_counter s) UReturned)
| u_check_nonzero s : u_waiter s = UStart -> u_counter s <> 0 -> ustep s (mkU (u_counter s) UChecked)
| u_lock_and_park s : u_waiter s = UChecked -> ustep s (mkU (u_counter s) UParked)
| u_add s n c' bc :   (* Add n by somebody else; its Broadcast (only at zero) releases a parked waiter, which re-checks: zero *)
    wg_add (u_counter s) n = (c', RUnit, bc) ->
    ustep s (mkU c' (if bc then match u_waiter s with UParked => UReturned | w => w end else u_waiter s)).

Inductive ureach : ustate -> Prop :=
| ur_init : ureach (mkU 0 UStart)
| ur_step s s' : ureach s -> ustep s s' -> ureach s'.
