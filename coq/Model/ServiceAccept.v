(* C10 — acceptance of a recorded call log by the transition system of Model/ServiceModel.v
   (executable; evaluated by vm_compute on every case the driver records).  No proofs here. *)
From FunV Require Import Base.Tac Model.ServiceModel.

(* ---------------------------------------------------------------- acceptance of a recorded call log

   A call log contains the visible labels only (in the order of one atomic counter).  `accepts`
   decides whether some run of the model produces exactly that log: a depth-first search over the
   hidden steps, memoising failed (position, state) pairs.  Hidden steps are tried before the next
   logged event (threads run as far as they can, as real goroutines do).  Two facts recorded by the
   driver prune the search without losing any run: a caller (or the main goroutine) that is parked in
   a yield hook takes no step until the driver releases it, and a thread for which a yield probe is
   still to come in the log cannot already have passed that yield point.
   Wait results and the collector content are recorded by the driver as token bit masks. *)

Inductive ev :=
| EL (l : label)                  (* a visible label, exactly *)
| EWaitAgg (i : nat) (m : nat)    (* caller i's Wait returned a non-nil aggregate with token mask m *)
| EQuiesced (m : nat)             (* probe: every service goroutine has returned; collector mask m *)
| EResume (i : nat)               (* the driver releases caller i from its yield hook *)
| EResumeMain                     (* the driver releases the main goroutine from its yield hook *)
| EBad.                           (* an observation the model has no label for (never accepted) *)

Definition bpc_eqb (a b : bpc) : bool :=
  match a, b with
  | BNone, BNone | B0, B0 | B1, B1 | B2, B2 | B3, B3 | B4, B4 | B5, B5 | B6, B6 | B7, B7 | B8, B8 | B9, B9 | BDone, BDone => true
  | _, _ => false
  end.
Definition epc_eqb (a b : epc) : bool :=
  match a, b with
  | ENone, ENone | E0, E0 | E1, E1 | E2, E2 | E3, E3 | E4, E4 | E5, E5 | E6, E6 | E6n, E6n | E7, E7 | E8, E8 | EDone, EDone => true
  | _, _ => false
  end.
Definition dpc_eqb (a b : dpc) : bool :=
  match a, b with
  | DNone, DNone | D0, D0 | D1, D1 | D2, D2 | D3, D3 | D4, D4 | D4n, D4n | D5, D5 | D6, D6 | DDone, DDone => true
  | _, _ => false
  end.
Definition mpc_eqb (a b : mpc) : bool :=
  match a, b with
  | MNone, MNone | M0, M0 | M1, M1 | M2, M2 | M3, M3 | M4, M4 | M5, M5 | M6, M6 | M7, M7 | M8, M8 | M9, M9
  | M10, M10 | M11, M11 | M12, M12 | M13, M13 | M14, M14 | MDone, MDone => true
  | _, _ => false
  end.
Definition cpc_eqb (a b : cpc) : bool :=
  match a, b with
  | S0, S0 | S1, S1 | SBody, SBody | W0, W0 | W1, W1 | W2, W2 | W3, W3 | C0, C0 | C1, C1 | C2, C2 | CRet, CRet
  | R0, R0 | R1, R1 | Gone, Gone => true
  | SRet x, SRet y => sres_eqb x y
  | WRet x, WRet y => wres_eqb x y
  | RRet x, RRet y => Bool.eqb x y
  | _, _ => false
  end.
Fixpoint list_eqb {A} (eqb : A -> A -> bool) (a b : list A) : bool :=
  match a, b with
  | [], [] => true
  | x :: a', y :: b' => eqb x y && list_eqb eqb a' b'
  | _, _ => false
  end.

Definition state_eqb (a b : state) : bool :=
  mpc_eqb (mn a) (mn b) && list_eqb cpc_eqb (callers a) (callers b) && bpc_eqb (body a) (body b) &&
  epc_eqb (eh a) (eh b) && dpc_eqb (sd a) (sd b) &&
  Bool.eqb (fRun a) (fRun b) && Bool.eqb (fFin a) (fFin b) && Bool.eqb (fSta a) (fSta b) &&
  Bool.eqb (cancelSet a) (cancelSet b) && Bool.eqb (ctxDone a) (ctxDone b) && Bool.eqb (parentDone a) (parentDone b) &&
  Bool.eqb (sdSig a) (sdSig b) && Bool.eqb (ehSig a) (ehSig b) && Bool.eqb (mainSig a) (mainSig b) &&
  Nat.eqb (wg a) (wg b) && ecs_eqb (ec a) (ec b).

Definition threads_of (s : state) : list thread :=
  map TCaller (rev (seq 0 (length (callers s)))) ++ [TMain; TSd; TEh].

Definition mask_bit (m i : nat) : bool := Nat.testbit m i.

(* phase tokens (bits 0..5) must agree exactly; the handler-panic token and the marker may be added
   to the live aggregate after Wait took it, so they are only required when the model has them *)
Definition mask_compat (e : ecs) (m : nat) : bool :=
  Bool.eqb (tRunErr e) (mask_bit m 0) && Bool.eqb (tRunPan e) (mask_bit m 1) &&
  Bool.eqb (tSdErr e) (mask_bit m 2) && Bool.eqb (tSdPan e) (mask_bit m 3) &&
  Bool.eqb (tClErr e) (mask_bit m 4) && Bool.eqb (tClPan e) (mask_bit m 5) &&
  implb (tEhPan e) (mask_bit m 6) && implb (tMark e) (mask_bit m 7).

Definition mask_exact (e : ecs) (m : nat) : bool :=
  mask_compat e m && Bool.eqb (tEhPan e) (mask_bit m 6) && Bool.eqb (tMark e) (mask_bit m 7).

(* search state: model state, parked callers, main goroutine parked? *)
Record sst := MkSst { ss : state; parked : list nat; mparked : bool }.

Definition estep (c : cfg) (x : sst) (e : ev) : option sst :=
  match e with
  | EL (LTau _) => None
  | EL (LYield h i) => match step c (ss x) (LYield h i) with Some s' => Some (MkSst s' (i :: parked x) (mparked x)) | None => None end
  | EL LYieldMain => match step c (ss x) LYieldMain with Some s' => Some (MkSst s' (parked x) true) | None => None end
  | EL l => match step c (ss x) l with Some s' => Some (MkSst s' (parked x) (mparked x)) | None => None end
  | EWaitAgg i m =>
      match nth_error (callers (ss x)) i with
      | Some (WRet (WAgg a)) =>
          if mask_compat a m then
            match step c (ss x) (LRet i (RWait (WAgg a))) with Some s' => Some (MkSst s' (parked x) (mparked x)) | None => None end
          else None
      | _ => None
      end
  | EQuiesced m =>
      match eh (ss x), sd (ss x), mn (ss x) with
      | EDone, DDone, MDone => if mask_exact (ec (ss x)) m then Some x else None
      | _, _, _ => None
      end
  | EResume i => if existsb (Nat.eqb i) (parked x) then Some (MkSst (ss x) (filter (fun j => negb (Nat.eqb i j)) (parked x)) (mparked x)) else None
  | EResumeMain => if mparked x then Some (MkSst (ss x) (parked x) false) else None
  | EBad => None
  end.

(* yield probes still to come in the log *)
Definition pend_checked (evs : list ev) (i : nat) : bool :=
  existsb (fun e => match e with EL (LYield HChecked j) => Nat.eqb i j | _ => false end) evs.
Definition pend_launched (evs : list ev) (i : nat) : bool :=
  existsb (fun e => match e with EL (LYield HLaunched j) => Nat.eqb i j | _ => false end) evs.
Definition pend_main (evs : list ev) : bool :=
  existsb (fun e => match e with EL LYieldMain => true | _ => false end) evs.

(* may thread t take a hidden step now? *)
Definition may_step (x : sst) (evs : list ev) (t : thread) : bool :=
  match t with
  | TCaller i =>
      negb (existsb (Nat.eqb i) (parked x)) &&
      match nth_error (callers (ss x)) i with
      | Some S1 => negb (pend_checked evs i)
      | Some SBody => match body (ss x) with B8 => negb (pend_launched evs i) | _ => true end
      | _ => true
      end
  | TMain => negb (mparked x) && match mn (ss x) with M12 => negb (pend_main evs) | _ => true end
  | _ => true
  end.

(* the result caller i is going to return according to the rest of the log *)
Inductive fut := FNone | FRes (r : result) | FAgg (m : nat).

Fixpoint future (evs : list ev) (i : nat) : fut :=
  match evs with
  | [] => FNone
  | EL (LRet j r) :: evs' => if Nat.eqb i j then FRes r else future evs' i
  | EWaitAgg j m :: evs' => if Nat.eqb i j then FAgg m else future evs' i
  | _ :: evs' => future evs' i
  end.

(* can a caller at this program counter still produce that result?  (What a caller has read so far
   determines its result; a hidden step whose successor contradicts the recorded result is pruned.
   This loses no accepting run: the recorded result would be rejected at the LRet anyway.) *)
Definition pc_compat (pc : cpc) (f : fut) : bool :=
  match f with
  | FNone => true
  | FRes (RStart r) =>
      match pc with
      | S0 => true
      | S1 => negb (sres_eqb r SReturned)
      | SBody => sres_eqb r SNil
      | SRet a => sres_eqb a r
      | _ => false
      end
  | FRes (RWait r) =>
      match pc with
      | W0 | W1 => true
      | W2 | W3 => match r with WNotStarted => false | _ => true end
      | WRet a => wres_eqb a r
      | _ => false
      end
  | FAgg m =>
      match pc with
      | W0 | W1 | W2 | W3 => true
      | WRet (WAgg a) => mask_compat a m
      | _ => false
      end
  | FRes RClose => match pc with C0 | C1 | C2 | CRet => true | _ => false end
  | FRes (RRunning b) =>
      match pc with
      | R0 | R1 => true
      | RRet a => Bool.eqb a b
      | _ => false
      end
  end.

Definition succ_compat (s' : state) (evs : list ev) (t : thread) : bool :=
  match t with
  | TCaller i => match nth_error (callers s') i with Some pc => pc_compat pc (future evs i) | None => true end
  | _ => true
  end.

Definition tau_opts (c : cfg) (x : sst) (evs : list ev) : list sst :=
  flat_map (fun t => if may_step x evs t
                     then match step_tau c (ss x) t with
                          | Some s' => if succ_compat s' evs t then [MkSst s' (parked x) (mparked x)] else []
                          | None => []
                          end
                     else []) (threads_of (ss x)).

(* failed states, bucketed by the number of log events still to be consumed *)
Definition memo := list (list state).

Fixpoint memo_has (n : nat) (s : state) (m : memo) : bool :=
  match m, n with
  | [], _ => false
  | b :: _, O => existsb (state_eqb s) b
  | _ :: m', S n' => memo_has n' s m'
  end.

Fixpoint memo_add (n : nat) (s : state) (m : memo) : memo :=
  match m, n with
  | [], O => [[s]]
  | [], S n' => [] :: memo_add n' s []
  | b :: m', O => (s :: b) :: m'
  | b :: m', S n' => b :: memo_add n' s m'
  end.

(* result: accepted?, memo of failed (remaining length, state) pairs, remaining node budget.
   The search visits at most `budget` nodes; a log whose search runs out of budget is rejected
   (reported as a correspondence mismatch, never silently accepted). *)
Fixpoint dfs (fuel : nat) (c : cfg) (x : sst) (evs : list ev) (m : memo) (budget : N) : bool * memo * N :=
  match fuel with
  | O => (false, m, 0%N)
  | S f =>
    match evs with
    | [] => (true, m, budget)
    | e :: evs' =>
      if N.eqb budget 0 then (false, m, 0%N)
      else if memo_has (length evs) (ss x) m then (false, m, N.pred budget)
      else
        let evopt := match estep c x e with Some y => [(y, evs')] | None => [] end in
        let taus := map (fun y => (y, evs)) (tau_opts c x evs) in
        (* an invocation only adds a caller (which may then wait): take it first; every other
           logged event is tried after the hidden steps *)
        let opts := match e with EL (LInv _) => evopt ++ taus | _ => taus ++ evopt end in
        (fix try (os : list (sst * list ev)) (m : memo) (b : N) : bool * memo * N :=
           match os with
           | [] => (false, memo_add (length evs) (ss x) m, b)
           | (y, evs1) :: os' =>
             let '(r, m', b') := dfs f c y evs1 m b in
             if r then (true, m', b') else try os' m' b'
           end) opts m (N.pred budget)
    end
  end.

Definition search_depth := 4000.
Definition search_budget : N := 20000.

(* nodes visited by the search (for the evidence) *)
Definition search_cost (c : cfg) (evs : list ev) : N :=
  let '(_, _, b) := dfs search_depth c (MkSst init [] false) evs [] search_budget in (search_budget - b)%N.

Definition accepts (c : cfg) (evs : list ev) : bool :=
  let '(r, _, _) := dfs search_depth c (MkSst init [] false) evs [] search_budget in r.
