(* C15 — small transition systems for the concurrent contracts of the wrappers.

   Thread ids are arbitrary integers (unboundedly many threads); a state maps
   every thread id to its program counter.  Each system is given by an
   EXECUTABLE step function [*_exec : state -> label -> option state]; a state
   is reachable if it is obtained from the initial state by any finite sequence
   of labels on which the step function is defined — i.e. every interleaving of
   the modelled atomic steps.  The step functions are also what the
   correspondence check uses to replay the event traces recorded from the real
   concurrent runs ([acc_*] at the end of this file).

   Model primitives (trusted, not verified here): sync.Once (exactly one caller
   runs the body; every other caller of Do blocks until that call has
   returned), sync.Mutex, atomic loads/stores/CAS as single steps, close(ch) /
   receive-from-closed, an unbuffered send/receive rendezvous, fun.WaitGroup
   (a counter; Wait returns when it is zero — C14).

   No proofs in this file. *)
From FunV Require Import Base.Tac.
Local Open Scope Z_scope.

Definition upd {A} (f : Z -> A) (t : Z) (a : A) : Z -> A := fun x => if x =? t then a else f x.

(* ================================================================== Once
   once := &sync.Once{}; var out T
   func(...) T { once.Do(func() { out = f(...) }); return out }              *)
Inductive opc := OIdle | OCalled | OInBody | OWrote | OAfter | ODone (v : Z).

Record ostate := mkO {
  o_done : bool;          (* sync.Once's done flag *)
  o_running : bool;       (* some caller is inside Do's critical section *)
  o_cache : Z;            (* the captured variable `out`; 0 = zero value *)
  o_pc : Z -> opc;
  o_execs : nat           (* ghost: how many times the body has been started *)
}.

Inductive olabel := OCall (t : Z) | OEnter (t : Z) | OBodyEnd (t : Z) | ODoEnd (t : Z) | OPass (t : Z) | ORet (t : Z).

Definition oinit : ostate := mkO false false 0 (fun _ => OIdle) 0.

Definition opc_eqb (a b : opc) : bool :=
  match a, b with
  | OIdle, OIdle | OCalled, OCalled | OInBody, OInBody | OWrote, OWrote | OAfter, OAfter => true
  | _, _ => false
  end.

(* R = the value the wrapped function returns *)
Definition ostep_exec (R : Z) (s : ostate) (l : olabel) : option ostate :=
  match l with
  | OCall t =>      (* a goroutine calls the wrapper *)
      if opc_eqb (o_pc s t) OIdle
      then Some (mkO (o_done s) (o_running s) (o_cache s) (upd (o_pc s) t OCalled) (o_execs s)) else None
  | OEnter t =>     (* once.Do: not done, nobody inside: this caller runs the body *)
      if opc_eqb (o_pc s t) OCalled && negb (o_done s) && negb (o_running s)
      then Some (mkO false true (o_cache s) (upd (o_pc s) t OInBody) (S (o_execs s))) else None
  | OBodyEnd t =>   (* out = f(...) *)
      if opc_eqb (o_pc s t) OInBody
      then Some (mkO (o_done s) (o_running s) R (upd (o_pc s) t OWrote) (o_execs s)) else None
  | ODoEnd t =>     (* Do returns: done is set, the critical section is left *)
      if opc_eqb (o_pc s t) OWrote
      then Some (mkO true false (o_cache s) (upd (o_pc s) t OAfter) (o_execs s)) else None
  | OPass t =>      (* once.Do for any other caller: enabled only once done is set (it blocks until then) *)
      if opc_eqb (o_pc s t) OCalled && o_done s
      then Some (mkO (o_done s) (o_running s) (o_cache s) (upd (o_pc s) t OAfter) (o_execs s)) else None
  | ORet t =>       (* return out *)
      if opc_eqb (o_pc s t) OAfter
      then Some (mkO (o_done s) (o_running s) (o_cache s) (upd (o_pc s) t (ODone (o_cache s))) (o_execs s)) else None
  end.

Inductive oreach (R : Z) : ostate -> Prop :=
| oreach_init : oreach R oinit
| oreach_step s l s' : oreach R s -> ostep_exec R s l = Some s' -> oreach R s'.

(* ================================================================== adt.Once (adt/atomics.go)
   type Once[T] struct { ctor Atomic[func() T]; once sync.Once; called, defined atomic.Bool; comp T }
   Do(ctor):   o.once.Do(func() { o.ctor.Set(ctor); o.defined.Store(true); o.populate() })
   Resolve():  o.once.Do(o.populate); return o.comp
   populate(): o.called.Store(true); o.comp = ft.SafeDo(o.ctor.Get()); o.ctor.Set(nil)
   Called():   o.called.Load()
   The `called` flag is set BEFORE the constructor runs ("has been called or is currently running").
   [fast = true] is a Do with an `if o.Called() { return }` fast path in front of the sync.Once.  *)
Inductive apc :=
| AIdle
| ACalled (res : bool)        (* inside Do (res = false) or Resolve (res = true), before once.Do *)
| AInBody (res : bool)        (* inside once.Do's function, before populate's called.Store(true) *)
| AMarked (res : bool)        (* called is set, the constructor is running *)
| AWrote (res : bool)         (* o.comp assigned *)
| AAfter (res : bool)         (* once.Do has returned *)
| ADoneDo                     (* Do returned *)
| ADoneRes (v : Z).           (* Resolve returned v *)

Record astate := mkA {
  a_done : bool;
  a_running : bool;
  a_called : bool;
  a_comp : Z;
  a_pc : Z -> apc;
  a_execs : nat
}.

Inductive alabel :=
| ACallDo (t : Z) | ACallRes (t : Z) | AEnter (t : Z) | AMark (t : Z) | ABodyEnd (t : Z) | ADoEnd (t : Z)
| APass (t : Z) | AFast (t : Z) | ARet (t : Z).

Definition ainit : astate := mkA false false false 0 (fun _ => AIdle) 0.

Definition astep_exec (fast : bool) (R : Z) (s : astate) (l : alabel) : option astate :=
  match l with
  | ACallDo t => match a_pc s t with AIdle => Some (mkA (a_done s) (a_running s) (a_called s) (a_comp s) (upd (a_pc s) t (ACalled false)) (a_execs s)) | _ => None end
  | ACallRes t => match a_pc s t with AIdle => Some (mkA (a_done s) (a_running s) (a_called s) (a_comp s) (upd (a_pc s) t (ACalled true)) (a_execs s)) | _ => None end
  | AEnter t =>
      match a_pc s t with
      | ACalled r => if negb (a_done s) && negb (a_running s)
                     then Some (mkA false true (a_called s) (a_comp s) (upd (a_pc s) t (AInBody r)) (S (a_execs s))) else None
      | _ => None
      end
  | AMark t =>      (* populate: o.called.Store(true) *)
      match a_pc s t with
      | AInBody r => Some (mkA (a_done s) (a_running s) true (a_comp s) (upd (a_pc s) t (AMarked r)) (a_execs s))
      | _ => None
      end
  | ABodyEnd t =>   (* o.comp = ctor() *)
      match a_pc s t with
      | AMarked r => Some (mkA (a_done s) (a_running s) (a_called s) R (upd (a_pc s) t (AWrote r)) (a_execs s))
      | _ => None
      end
  | ADoEnd t =>
      match a_pc s t with
      | AWrote r => Some (mkA true false (a_called s) (a_comp s) (upd (a_pc s) t (AAfter r)) (a_execs s))
      | _ => None
      end
  | APass t =>      (* once.Do of any other caller: blocks until done *)
      match a_pc s t with
      | ACalled r => if a_done s then Some (mkA (a_done s) (a_running s) (a_called s) (a_comp s) (upd (a_pc s) t (AAfter r)) (a_execs s)) else None
      | _ => None
      end
  | AFast t =>      (* only in the [fast] variant: Do returns at once when Called() is true *)
      match a_pc s t with
      | ACalled false => if fast && a_called s
                         then Some (mkA (a_done s) (a_running s) (a_called s) (a_comp s) (upd (a_pc s) t ADoneDo) (a_execs s)) else None
      | _ => None
      end
  | ARet t =>
      match a_pc s t with
      | AAfter false => Some (mkA (a_done s) (a_running s) (a_called s) (a_comp s) (upd (a_pc s) t ADoneDo) (a_execs s))
      | AAfter true => Some (mkA (a_done s) (a_running s) (a_called s) (a_comp s) (upd (a_pc s) t (ADoneRes (a_comp s))) (a_execs s))
      | _ => None
      end
  end.

Inductive areach (fast : bool) (R : Z) : astate -> Prop :=
| areach_init : areach fast R ainit
| areach_step s l s' : areach fast R s -> astep_exec fast R s l = Some s' -> areach fast R s'.

(* ================================================================== limitExec (process.go)
   counter := &atomic.Int64{}; mtx := &sync.Mutex{}; var output T
   func(op) T {
     if counter.CompareAndSwap(n, n) { return output }
     mtx.Lock(); defer mtx.Unlock()
     num := counter.Load()
     if num < n { output = op(); counter.Store(min(n, num+1)) }
     return output }                                                        *)
Inductive lpc :=
| LIdle | LEntry | LWaitLock | LLocked
| LRunning (num : Z) | LWrote (num : Z)
| LUnlocking (v : Z) (ran : bool)
| LDone (v : Z) (ran : bool).

Record lstate := mkL {
  l_counter : Z;
  l_mtx : option Z;
  l_output : Z;
  l_pc : Z -> lpc;
  l_runs : nat;            (* ghost: executions of op started *)
  l_active : list Z;       (* ghost: threads that are inside a call *)
  l_calls : nat;           (* ghost: calls made *)
  l_rets_ran : nat;        (* ghost: calls that returned after executing op themselves *)
  l_rets_cached : nat      (* ghost: calls that returned the cached output *)
}.

Inductive llabel :=
| LCall (t : Z) | LFast (t : Z) | LSlow (t : Z) | LLock (t : Z) | LLoadLt (t : Z) | LLoadGe (t : Z)
| LOpEnd (t : Z) | LStore (t : Z) | LUnlock (t : Z).

Definition linit : lstate := mkL 0 None 0 (fun _ => LIdle) 0 [] 0 0 0.

Definition remove1 (t : Z) (l : list Z) : list Z := filter (fun x => negb (x =? t)) l.

(* n = the limit; val k = the value the k-th execution of op returns (k = 1, 2, ...) *)
Definition lstep_exec (n : Z) (val : nat -> Z) (s : lstate) (l : llabel) : option lstate :=
  match l with
  | LCall t =>
      match l_pc s t with
      | LIdle => Some (mkL (l_counter s) (l_mtx s) (l_output s) (upd (l_pc s) t LEntry) (l_runs s)
                           (t :: l_active s) (S (l_calls s)) (l_rets_ran s) (l_rets_cached s))
      | _ => None
      end
  | LFast t =>       (* CAS(n, n) succeeded: return output without the lock *)
      match l_pc s t with
      | LEntry => if l_counter s =? n
                  then Some (mkL (l_counter s) (l_mtx s) (l_output s) (upd (l_pc s) t (LDone (l_output s) false)) (l_runs s)
                                 (remove1 t (l_active s)) (l_calls s) (l_rets_ran s) (S (l_rets_cached s)))
                  else None
      | _ => None
      end
  | LSlow t =>       (* CAS(n, n) failed *)
      match l_pc s t with
      | LEntry => if l_counter s =? n then None
                  else Some (mkL (l_counter s) (l_mtx s) (l_output s) (upd (l_pc s) t LWaitLock) (l_runs s)
                                 (l_active s) (l_calls s) (l_rets_ran s) (l_rets_cached s))
      | _ => None
      end
  | LLock t =>
      match l_pc s t, l_mtx s with
      | LWaitLock, None => Some (mkL (l_counter s) (Some t) (l_output s) (upd (l_pc s) t LLocked) (l_runs s)
                                     (l_active s) (l_calls s) (l_rets_ran s) (l_rets_cached s))
      | _, _ => None
      end
  | LLoadLt t =>     (* num := counter.Load(); num < n: op starts *)
      match l_pc s t with
      | LLocked => if l_counter s <? n
                   then Some (mkL (l_counter s) (l_mtx s) (l_output s) (upd (l_pc s) t (LRunning (l_counter s))) (S (l_runs s))
                                  (l_active s) (l_calls s) (l_rets_ran s) (l_rets_cached s))
                   else None
      | _ => None
      end
  | LLoadGe t =>
      match l_pc s t with
      | LLocked => if l_counter s <? n then None
                   else Some (mkL (l_counter s) (l_mtx s) (l_output s) (upd (l_pc s) t (LUnlocking (l_output s) false)) (l_runs s)
                                  (l_active s) (l_calls s) (l_rets_ran s) (l_rets_cached s))
      | _ => None
      end
  | LOpEnd t =>      (* output = op() *)
      match l_pc s t with
      | LRunning num => Some (mkL (l_counter s) (l_mtx s) (val (l_runs s)) (upd (l_pc s) t (LWrote num)) (l_runs s)
                                  (l_active s) (l_calls s) (l_rets_ran s) (l_rets_cached s))
      | _ => None
      end
  | LStore t =>      (* counter.Store(min(n, num+1)) *)
      match l_pc s t with
      | LWrote num => Some (mkL (Z.min n (num + 1)) (l_mtx s) (l_output s) (upd (l_pc s) t (LUnlocking (l_output s) true)) (l_runs s)
                                (l_active s) (l_calls s) (l_rets_ran s) (l_rets_cached s))
      | _ => None
      end
  | LUnlock t =>     (* deferred mtx.Unlock(); return *)
      match l_pc s t with
      | LUnlocking v ran =>
          Some (mkL (l_counter s) None (l_output s) (upd (l_pc s) t (LDone v ran)) (l_runs s)
                    (remove1 t (l_active s)) (l_calls s)
                    (if ran then S (l_rets_ran s) else l_rets_ran s)
                    (if ran then l_rets_cached s else S (l_rets_cached s)))
      | _ => None
      end
  end.

Inductive lreach (n : Z) (val : nat -> Z) : lstate -> Prop :=
| lreach_init : lreach n val linit
| lreach_step s l s' : lreach n val s -> lstep_exec n val s l = Some s' -> lreach n val s'.

Definition lquiescent (s : lstate) : Prop := l_active s = [].

(* ================================================================== Operation.Limit (CAS retry loop; runs are not serialised)
   for { current := counter.Load(); if current >= n { return false }
         if counter.CompareAndSwap(current, current+1) { return true } }
   Load and CompareAndSwap are separate atomic steps: other callers can move the counter in between,
   in which case the CAS fails and the loop re-reads.  [retry = false] is the shape without the loop
   (`current < n && CAS(current, current+1)`): a caller that loses the CAS is turned away.            *)
Inductive cpc := CIdle | CEntry | CLoaded (cur : Z) | CRunning | CDone (ran : bool).

Record cstate := mkC {
  c_counter : Z;
  c_pc : Z -> cpc;
  c_runs : nat;
  c_running : list Z;       (* ghost: threads currently executing the operation (they may overlap) *)
  c_active : list Z;
  c_calls : nat;
  c_rets_ran : nat;
  c_rets_skipped : nat
}.

Inductive clabel := CCall (t : Z) | CLoad (t : Z) | CCas (t : Z) | CEnd (t : Z).

Definition cinit : cstate := mkC 0 (fun _ => CIdle) 0 [] [] 0 0 0.

Definition cstep_exec (retry : bool) (n : Z) (s : cstate) (l : clabel) : option cstate :=
  match l with
  | CCall t =>
      match c_pc s t with
      | CIdle => Some (mkC (c_counter s) (upd (c_pc s) t CEntry) (c_runs s) (c_running s) (t :: c_active s) (S (c_calls s)) (c_rets_ran s) (c_rets_skipped s))
      | _ => None
      end
  | CLoad t =>      (* current := counter.Load(); if current >= n { return false } *)
      match c_pc s t with
      | CEntry =>
          if c_counter s <? n
          then Some (mkC (c_counter s) (upd (c_pc s) t (CLoaded (c_counter s))) (c_runs s) (c_running s) (c_active s) (c_calls s) (c_rets_ran s) (c_rets_skipped s))
          else Some (mkC (c_counter s) (upd (c_pc s) t (CDone false)) (c_runs s) (c_running s) (remove1 t (c_active s)) (c_calls s) (c_rets_ran s) (S (c_rets_skipped s)))
      | _ => None
      end
  | CCas t =>       (* counter.CompareAndSwap(current, current+1) *)
      match c_pc s t with
      | CLoaded cur =>
          if c_counter s =? cur
          then Some (mkC (cur + 1) (upd (c_pc s) t CRunning) (S (c_runs s)) (t :: c_running s) (c_active s) (c_calls s) (c_rets_ran s) (c_rets_skipped s))
          else if retry
          then Some (mkC (c_counter s) (upd (c_pc s) t CEntry) (c_runs s) (c_running s) (c_active s) (c_calls s) (c_rets_ran s) (c_rets_skipped s))
          else Some (mkC (c_counter s) (upd (c_pc s) t (CDone false)) (c_runs s) (c_running s) (remove1 t (c_active s)) (c_calls s) (c_rets_ran s) (S (c_rets_skipped s)))
      | _ => None
      end
  | CEnd t =>
      match c_pc s t with
      | CRunning => Some (mkC (c_counter s) (upd (c_pc s) t (CDone true)) (c_runs s) (remove1 t (c_running s)) (remove1 t (c_active s)) (c_calls s) (S (c_rets_ran s)) (c_rets_skipped s))
      | _ => None
      end
  end.

Inductive creach (retry : bool) (n : Z) : cstate -> Prop :=
| creach_init : creach retry n cinit
| creach_step s l s' : creach retry n s -> cstep_exec retry n s l = Some s' -> creach retry n s'.

(* ================================================================== Lock / WithLock
   mtx.Lock(); defer mtx.Unlock(); return f(...)                            *)
Inductive mpc := MIdle | MWait | MIn | MOut.

Record mstate := mkM { m_mtx : option Z; m_pc : Z -> mpc; m_execs : nat }.

Inductive mlabel := MCall (t : Z) | MAcquire (t : Z) | MRelease (t : Z).

Definition minit : mstate := mkM None (fun _ => MIdle) 0.

Definition mstep_exec (s : mstate) (l : mlabel) : option mstate :=
  match l with
  | MCall t =>      (* any goroutine may call, and call again after it returned *)
      match m_pc s t with
      | MIdle | MOut => Some (mkM (m_mtx s) (upd (m_pc s) t MWait) (m_execs s))
      | _ => None
      end
  | MAcquire t =>   (* Lock succeeds only when the mutex is free; the wrapped function starts *)
      match m_pc s t, m_mtx s with
      | MWait, None => Some (mkM (Some t) (upd (m_pc s) t MIn) (S (m_execs s)))
      | _, _ => None
      end
  | MRelease t =>   (* the function returned (or panicked): deferred Unlock *)
      match m_pc s t with
      | MIn => Some (mkM None (upd (m_pc s) t MOut) (m_execs s))
      | _ => None
      end
  end.

Inductive mreach : mstate -> Prop :=
| mreach_init : mreach minit
| mreach_step s l s' : mreach s -> mstep_exec s l = Some s' -> mreach s'.

(* ================================================================== Operation.Signal / Operation.Launch
   Signal: out := make(chan struct{}); go func() { defer close(out); wf(ctx) }(); return out
   Launch (as fixed): sig := wf.Signal(ctx); return WaitChannel(sig)
   WaitChannel(ch): select { case <-ctx.Done(): case <-ch: }
   [fixed = false] is the Launch of the tree before the fix: the returned operation builds
   WaitChannel(sig) and never calls it, so its return is always enabled.    *)
Inductive bpc := BReady | BRunning | BFinished | BClosed.
Inductive wpc := WIdle | WWaiting | WReturned (by_ctx : bool).

Record sstate := mkS {
  s_bg : bpc;
  s_closed : bool;
  s_cancelled : Z -> bool;     (* the context each waiter was called with *)
  s_pc : Z -> wpc
}.

Inductive slabel :=
| SBgStart | SBgFinish | SBgClose
| SWCall (t : Z) | SWRetSig (t : Z) | SWRetCtx (t : Z) | SCancel (t : Z).

Definition sinit : sstate := mkS BReady false (fun _ => false) (fun _ => WIdle).

Definition sstep_exec (fixed : bool) (s : sstate) (l : slabel) : option sstate :=
  match l with
  | SBgStart => match s_bg s with BReady => Some (mkS BRunning (s_closed s) (s_cancelled s) (s_pc s)) | _ => None end
  | SBgFinish => match s_bg s with BRunning => Some (mkS BFinished (s_closed s) (s_cancelled s) (s_pc s)) | _ => None end
  | SBgClose => match s_bg s with BFinished => Some (mkS BClosed true (s_cancelled s) (s_pc s)) | _ => None end
  | SWCall t => match s_pc s t with WIdle => Some (mkS (s_bg s) (s_closed s) (s_cancelled s) (upd (s_pc s) t WWaiting)) | _ => None end
  | SWRetSig t =>
      match s_pc s t with
      | WWaiting => if s_closed s || negb fixed
                    then Some (mkS (s_bg s) (s_closed s) (s_cancelled s) (upd (s_pc s) t (WReturned false))) else None
      | _ => None
      end
  | SWRetCtx t =>
      match s_pc s t with
      | WWaiting => if s_cancelled s t
                    then Some (mkS (s_bg s) (s_closed s) (s_cancelled s) (upd (s_pc s) t (WReturned true))) else None
      | _ => None
      end
  | SCancel t => Some (mkS (s_bg s) (s_closed s) (upd (s_cancelled s) t true) (s_pc s))
  end.

Inductive sreach (fixed : bool) : sstate -> Prop :=
| sreach_init : sreach fixed sinit
| sreach_step s l s' : sreach fixed s -> sstep_exec fixed s l = Some s' -> sreach fixed s'.

(* ================================================================== Worker.Signal / Worker.Launch (WorkerFuture)
   Signal: out := Blocking(make(chan error)); go func() { defer out.Close(); out.Send().Ignore(ctx, wf.Run(ctx)) }()
   WorkerFuture(ch): pipe := BlockingReceive(ch)
     func(ctx) error { if ch == nil || pipe.ch == nil { return nil }
                       val, err := pipe.Read(ctx)
                       switch { case errors.Is(err, io.EOF): pipe.ch = nil; return nil     (channel closed)
                                case val != nil: return val                                 (the worker's error)
                                case err != nil: return err                                 (the WAITER's context: pipe.ch is kept)
                                default: return nil } }
   [v_armed] is `pipe.ch != nil`, the only state of the waiter object; every call of the waiter is a thread.
   [clear = true] is the shape in which a context error disarms the future as well.                          *)
Inductive vpc := VReady | VRunning | VSending | VClosing | VClosed.
Inductive rpc := RIdle | RWaiting | RGot (v : Z) | RClosed | RCtx | RNil.

Record vstate := mkV {
  v_bg : vpc;
  v_closed : bool;
  v_armed : bool;
  v_lctx : bool;               (* the context given to Signal/Launch is cancelled *)
  v_cancelled : Z -> bool;
  v_pc : Z -> rpc
}.

Inductive vlabel :=
| VBgStart | VBgFinish | VBgAbort | VBgClose | VLCancel
| VWCall (t : Z) | VWRecv (t : Z) | VWClosed (t : Z) | VWCtx (t : Z) | VCancel (t : Z).

Definition vinit : vstate := mkV VReady false true false (fun _ => false) (fun _ => RIdle).

(* R = the error the background worker returns *)
Definition vstep_exec (clear : bool) (R : Z) (s : vstate) (l : vlabel) : option vstate :=
  match l with
  | VBgStart => match v_bg s with VReady => Some (mkV VRunning (v_closed s) (v_armed s) (v_lctx s) (v_cancelled s) (v_pc s)) | _ => None end
  | VBgFinish => match v_bg s with VRunning => Some (mkV VSending (v_closed s) (v_armed s) (v_lctx s) (v_cancelled s) (v_pc s)) | _ => None end
  | VBgAbort =>     (* the send gives up because the launch context ended *)
      match v_bg s with VSending => if v_lctx s then Some (mkV VClosing (v_closed s) (v_armed s) (v_lctx s) (v_cancelled s) (v_pc s)) else None | _ => None end
  | VBgClose => match v_bg s with VClosing => Some (mkV VClosed true (v_armed s) (v_lctx s) (v_cancelled s) (v_pc s)) | _ => None end
  | VLCancel => Some (mkV (v_bg s) (v_closed s) (v_armed s) true (v_cancelled s) (v_pc s))
  | VWCall t =>     (* if pipe.ch == nil { return nil } *)
      match v_pc s t with
      | RIdle => Some (mkV (v_bg s) (v_closed s) (v_armed s) (v_lctx s) (v_cancelled s) (upd (v_pc s) t (if v_armed s then RWaiting else RNil)))
      | _ => None
      end
  | VWRecv t =>     (* rendezvous: the sender is at its send, this receiver takes the value *)
      match v_pc s t, v_bg s with
      | RWaiting, VSending => Some (mkV VClosing (v_closed s) (v_armed s) (v_lctx s) (v_cancelled s) (upd (v_pc s) t (RGot R)))
      | _, _ => None
      end
  | VWClosed t =>   (* io.EOF: pipe.ch = nil *)
      match v_pc s t with
      | RWaiting => if v_closed s then Some (mkV (v_bg s) (v_closed s) false (v_lctx s) (v_cancelled s) (upd (v_pc s) t RClosed)) else None
      | _ => None
      end
  | VWCtx t =>      (* the waiter's own context ended: return err; the future stays armed (unless [clear]) *)
      match v_pc s t with
      | RWaiting => if v_cancelled s t
                    then Some (mkV (v_bg s) (v_closed s) (if clear then false else v_armed s) (v_lctx s) (v_cancelled s) (upd (v_pc s) t RCtx))
                    else None
      | _ => None
      end
  | VCancel t => Some (mkV (v_bg s) (v_closed s) (v_armed s) (v_lctx s) (upd (v_cancelled s) t true) (v_pc s))
  end.

Inductive vreach (clear : bool) (R : Z) : vstate -> Prop :=
| vreach_init : vreach clear R vinit
| vreach_step s l s' : vreach clear R s -> vstep_exec clear R s l = Some s' -> vreach clear R s'.

(* ================================================================== StartGroup (Operation.StartGroup / Worker.StartGroup / Add)
   wg.DoTimes(ctx, n, op): n times { wg.Inc(); go func() { defer wg.Done(); op(ctx) }() }
   the waiter is wg.Wait; it exists for its caller once StartGroup has returned        *)
Inductive gpc := GInc | GSpawn | GLaunched.

Record gstate := mkG {
  g_lpc : gpc;                 (* the launching goroutine *)
  g_launched : nat;
  g_counter : nat;             (* the WaitGroup counter *)
  g_ready : nat;               (* goroutines created, body not yet started *)
  g_running : nat;
  g_finishing : nat;           (* body returned, wg.Done() not yet executed *)
  g_completed : nat;
  g_cancelled : Z -> bool;
  g_pc : Z -> wpc
}.

Inductive glabel :=
| GLInc | GLSpawn | GBStart | GBFinish | GBDone
| GWCall (t : Z) | GWRet (t : Z) | GWRetCtx (t : Z) | GCancel (t : Z).

Definition ginit (n : nat) : gstate :=
  mkG (match n with O => GLaunched | _ => GInc end) 0 0 0 0 0 0 (fun _ => false) (fun _ => WIdle).

Definition gstep_exec (n : nat) (s : gstate) (l : glabel) : option gstate :=
  match l with
  | GLInc =>
      match g_lpc s with
      | GInc => Some (mkG GSpawn (g_launched s) (S (g_counter s)) (g_ready s) (g_running s) (g_finishing s) (g_completed s) (g_cancelled s) (g_pc s))
      | _ => None
      end
  | GLSpawn =>
      match g_lpc s with
      | GSpawn => Some (mkG (if Nat.eqb (S (g_launched s)) n then GLaunched else GInc) (S (g_launched s)) (g_counter s) (S (g_ready s))
                            (g_running s) (g_finishing s) (g_completed s) (g_cancelled s) (g_pc s))
      | _ => None
      end
  | GBStart =>
      match g_ready s with
      | S r => Some (mkG (g_lpc s) (g_launched s) (g_counter s) r (S (g_running s)) (g_finishing s) (g_completed s) (g_cancelled s) (g_pc s))
      | O => None
      end
  | GBFinish =>
      match g_running s with
      | S r => Some (mkG (g_lpc s) (g_launched s) (g_counter s) (g_ready s) r (S (g_finishing s)) (g_completed s) (g_cancelled s) (g_pc s))
      | O => None
      end
  | GBDone =>
      match g_finishing s, g_counter s with
      | S f, S c => Some (mkG (g_lpc s) (g_launched s) c (g_ready s) (g_running s) f (S (g_completed s)) (g_cancelled s) (g_pc s))
      | _, _ => None
      end
  | GWCall t =>
      match g_lpc s, g_pc s t with
      | GLaunched, WIdle => Some (mkG (g_lpc s) (g_launched s) (g_counter s) (g_ready s) (g_running s) (g_finishing s) (g_completed s)
                                      (g_cancelled s) (upd (g_pc s) t WWaiting))
      | _, _ => None
      end
  | GWRet t =>
      match g_pc s t, g_counter s with
      | WWaiting, O => Some (mkG (g_lpc s) (g_launched s) (g_counter s) (g_ready s) (g_running s) (g_finishing s) (g_completed s)
                                 (g_cancelled s) (upd (g_pc s) t (WReturned false)))
      | _, _ => None
      end
  | GWRetCtx t =>
      match g_pc s t with
      | WWaiting => if g_cancelled s t
                    then Some (mkG (g_lpc s) (g_launched s) (g_counter s) (g_ready s) (g_running s) (g_finishing s) (g_completed s)
                                   (g_cancelled s) (upd (g_pc s) t (WReturned true)))
                    else None
      | _ => None
      end
  | GCancel t => Some (mkG (g_lpc s) (g_launched s) (g_counter s) (g_ready s) (g_running s) (g_finishing s) (g_completed s)
                           (upd (g_cancelled s) t true) (g_pc s))
  end.

Inductive greach (n : nat) : gstate -> Prop :=
| greach_init : greach n (ginit n)
| greach_step s l s' : greach n s -> gstep_exec n s l = Some s' -> greach n s'.

(* ================================================================== replaying recorded traces
   Events recorded by the harness (one atomic stamp counter, so the list order is consistent
   with real time): a caller/waiter is about to call (EvCall), the wrapped function / a
   background body started (EvStart) or is about to return (EvEnd), a caller/waiter has
   returned (EvRet).  For Once/Limit/Lock t is the calling goroutine's call id in all four
   events (the wrapped function runs on its caller's goroutine); for the launch family
   EvStart/EvEnd carry the body's index and EvCall/EvRet the waiter.
   Each event is translated into the labels it stands for; the replay fails if a label is
   not enabled, i.e. if the observed run is not a run of the transition system. *)
Inductive cev := EvCall (t : Z) | EvStart (t : Z) | EvEnd (t : Z) (v : Z) | EvRet (t : Z) (v : Z)
| EvCtx (t : Z).   (* a waiter returned because its own context ended *)

Fixpoint steps {S L} (step : S -> L -> option S) (s : S) (ls : list L) : option S :=
  match ls with
  | [] => Some s
  | l :: ls' => match step s l with Some s' => steps step s' ls' | None => None end
  end.

Fixpoint replay {S} (tr : S -> cev -> option S) (s : S) (evs : list cev) : option S :=
  match evs with
  | [] => Some s
  | e :: evs' => match tr s e with Some s' => replay tr s' evs' | None => None end
  end.

(* the value every caller must observe is taken from the EvEnd event *)
Fixpoint end_value (evs : list cev) : Z :=
  match evs with
  | [] => 0
  | EvEnd _ v :: _ => v
  | _ :: evs' => end_value evs'
  end.

Definition once_tr (R : Z) (s : ostate) (e : cev) : option ostate :=
  match e with
  | EvCall t => ostep_exec R s (OCall t)
  | EvStart t => ostep_exec R s (OEnter t)
  | EvEnd t _ => steps (ostep_exec R) s [OBodyEnd t; ODoEnd t]
  | EvRet t v =>
      match (match o_pc s t with
             | OCalled => steps (ostep_exec R) s [OPass t; ORet t]
             | _ => ostep_exec R s (ORet t)
             end) with
      | Some s' => match o_pc s' t with ODone v' => if v' =? v then Some s' else None | _ => None end
      | None => None
      end
  | EvCtx _ => None
  end.

Definition acc_once (evs : list cev) : bool :=
  let R := end_value evs in
  match replay (once_tr R) oinit evs with
  | Some s => (o_execs s <=? 1)%nat
  | None => false
  end.

(* the harness's wrapped function returns its execution index: val k = k *)
Definition idval (k : nat) : Z := Z.of_nat k.

(* The stamps are taken inside the wrapped function and after the call has returned, so the
   holder's Unlock may really have happened before the next runner's EvStart although the
   holder's EvRet is stamped later: the replay performs a pending Unlock when the next runner
   needs the mutex. *)
Definition pending_unlock (n : Z) (s : lstate) : option lstate :=
  match l_mtx s with
  | Some h => match l_pc s h with
              | LUnlocking _ _ => lstep_exec n idval s (LUnlock h)
              | _ => None
              end
  | None => Some s
  end.

Definition limit_tr (n : Z) (s : lstate) (e : cev) : option lstate :=
  match e with
  | EvCall t => lstep_exec n idval s (LCall t)
  | EvStart t =>
      match pending_unlock n s with
      | Some s1 => steps (lstep_exec n idval) s1 [LSlow t; LLock t; LLoadLt t]
      | None => None
      end
  | EvEnd t v =>
      match steps (lstep_exec n idval) s [LOpEnd t; LStore t] with
      | Some s' => if l_output s' =? v then Some s' else None
      | None => None
      end
  | EvRet t v =>
      match (match l_pc s t with
             | LEntry => lstep_exec n idval s (LFast t)
             | LDone _ _ => Some s
             | _ => lstep_exec n idval s (LUnlock t)
             end) with
      | Some s' => match l_pc s' t with LDone v' _ => if v' =? v then Some s' else None | _ => None end
      | None => None
      end
  | EvCtx _ => None
  end.

Definition acc_limit (n : Z) (evs : list cev) : bool :=
  match replay (limit_tr n) linit evs with
  | Some s => match l_active s with [] => Z.of_nat (l_runs s) =? Z.min n (Z.of_nat (l_calls s)) | _ => false end
  | None => false
  end.

(* Operation.Limit: the CAS precedes the EvStart stamp by an unknown amount, so a runner (a call
   that has an EvStart in the trace) performs its CAS as early as possible, right after its call;
   this is the most permissive schedule for the calls that are turned away. *)
Fixpoint has_start (t : Z) (evs : list cev) : bool :=
  match evs with
  | [] => false
  | EvStart t' :: evs' => (t' =? t) || has_start t evs'
  | _ :: evs' => has_start t evs'
  end.

Definition climit_tr (n : Z) (all : list cev) (s : cstate) (e : cev) : option cstate :=
  match e with
  | EvCall t =>
      if has_start t all then steps (cstep_exec true n) s [CCall t; CLoad t; CCas t] else cstep_exec true n s (CCall t)
  | EvStart t => match c_pc s t with CRunning => Some s | _ => None end
  | EvEnd t _ => Some s
  | EvRet t _ =>
      match c_pc s t with
      | CEntry =>     (* turned away: its Load must have seen the limit reached *)
          match cstep_exec true n s (CLoad t) with
          | Some s' => match c_pc s' t with CDone false => Some s' | _ => None end
          | None => None
          end
      | _ => cstep_exec true n s (CEnd t)
      end
  | EvCtx _ => None
  end.

Definition acc_climit (n : Z) (evs : list cev) : bool :=
  match replay (climit_tr n evs) cinit evs with
  | Some s => match c_active s with [] => Z.of_nat (c_runs s) =? Z.min n (Z.of_nat (c_calls s)) | _ => false end
  | None => false
  end.

Definition lock_tr (s : mstate) (e : cev) : option mstate :=
  match e with
  | EvCall _ | EvRet _ _ => Some s
  | EvStart t => steps mstep_exec s [MCall t; MAcquire t]
  | EvEnd t _ => mstep_exec s (MRelease t)
  | EvCtx _ => Some s
  end.

Definition acc_lock (evs : list cev) : bool :=
  match replay lock_tr minit evs with Some _ => true | None => false end.

(* launch family: all launches are scheduled first (they are not observed), then the events *)
Fixpoint launch_all (n k : nat) (s : gstate) : option gstate :=
  match k with
  | O => Some s
  | S k' => match steps (gstep_exec n) s [GLInc; GLSpawn] with Some s' => launch_all n k' s' | None => None end
  end.

Definition group_tr (n : nat) (s : gstate) (e : cev) : option gstate :=
  match e with
  | EvStart _ => gstep_exec n s GBStart
  | EvEnd _ _ => steps (gstep_exec n) s [GBFinish; GBDone]
  | EvCall t => gstep_exec n s (GWCall t)
  | EvRet t _ => gstep_exec n s (GWRet t)
  | EvCtx t => steps (gstep_exec n) s [GCancel t; GWRetCtx t]
  end.

Definition acc_group (n : nat) (evs : list cev) : bool :=
  match launch_all n n (ginit n) with
  | Some s0 =>
      match replay (group_tr n) s0 evs with
      | Some s => Nat.eqb (g_completed s) n
      | None => false
      end
  | None => false
  end.

Definition signal_tr (s : sstate) (e : cev) : option sstate :=
  match e with
  | EvStart _ => sstep_exec true s SBgStart
  | EvEnd _ _ => steps (sstep_exec true) s [SBgFinish; SBgClose]
  | EvCall t => sstep_exec true s (SWCall t)
  | EvRet t _ => sstep_exec true s (SWRetSig t)
  | EvCtx t => steps (sstep_exec true) s [SCancel t; SWRetCtx t]
  end.

Definition acc_signal (evs : list cev) : bool :=
  match replay signal_tr sinit evs with
  | Some s => match s_bg s with BClosed => true | _ => false end
  | None => false
  end.

Definition send_tr (R : Z) (s : vstate) (e : cev) : option vstate :=
  match e with
  | EvStart _ => vstep_exec false R s VBgStart
  | EvEnd _ _ => vstep_exec false R s VBgFinish
  | EvCall t => vstep_exec false R s (VWCall t)
  | EvRet t _ =>
      match v_pc s t with
      | RNil => Some s        (* the call found the future disarmed (possible only after the channel was closed) *)
      | _ =>
          match v_bg s with
          | VSending => vstep_exec false R s (VWRecv t)                      (* takes the value *)
          | VClosing => steps (vstep_exec false R) s [VBgClose; VWClosed t]  (* a further waiter: sees the closed channel *)
          | VClosed => vstep_exec false R s (VWClosed t)
          | _ => None
          end
      end
  | EvCtx t => steps (vstep_exec false R) s [VCancel t; VWCtx t]
  end.

Definition acc_send (evs : list cev) : bool :=
  match replay (send_tr 0) vinit evs with
  | Some s => match v_bg s with VClosing | VClosed => true | _ => false end
  | None => false
  end.

(* adt.Once: the callers use Do (res = false; EvRet carries no value) or Resolve (res = true) *)
Definition adt_tr (R : Z) (res : bool) (s : astate) (e : cev) : option astate :=
  match e with
  | EvCall t => astep_exec false R s (if res then ACallRes t else ACallDo t)
  | EvStart t => steps (astep_exec false R) s [AEnter t; AMark t]
  | EvEnd t _ => steps (astep_exec false R) s [ABodyEnd t; ADoEnd t]
  | EvRet t v =>
      match (match a_pc s t with
             | ACalled _ => steps (astep_exec false R) s [APass t; ARet t]
             | _ => astep_exec false R s (ARet t)
             end) with
      | Some s' => match a_pc s' t with
                   | ADoneRes v' => if v' =? v then Some s' else None
                   | ADoneDo => Some s'
                   | _ => None
                   end
      | None => None
      end
  | EvCtx _ => None
  end.

Definition acc_adt (res : bool) (evs : list cev) : bool :=
  let R := end_value evs in
  match replay (adt_tr R res) ainit evs with
  | Some s => (a_execs s <=? 1)%nat
  | None => false
  end.
