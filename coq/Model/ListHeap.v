(* Pointer-level, executable model of dt.List (/repo/dt/list.go) and of the sorting
   functions of /repo/dt/cmp.go (SortQuick, SortMerge, mergeSort, split, merge, IsSorted).

   A world is a heap of Element nodes and a heap of List records; both heaps are total
   functions with a functional update.  Every method is transcribed statement by statement,
   in the order in which the Go code writes.  A nil dereference is [Panic]; every loop runs
   on fuel and yields [Hang] when the fuel runs out (the theorems exclude both outcomes).

   Faithfulness notes
   - Element.Swap copies *with.prev BY VALUE into a fresh struct (known finding #1): modelled
     exactly (a fresh node is allocated with the copied fields).
   - Element.Append / appendable and List.SortMerge are modelled as FIXED (fixes
     C16-append-attached and C17-sortmerge-ownership).
   - pop returns a fresh zero Element when the element is not removable.
   - uncheckedRemove keeps next/prev of the removed element (as the code does).
   No proofs in this file. *)
From FunV Require Import Base.Tac Model.SortSpec.
Local Open Scope Z_scope.

Record node := mkNode { nnext : option nat; nprev : option nat; nowner : option nat; nok : bool; nitem : Z }.
Record lrec := mkL { lroot : option nat; llen : Z }.
Record world := mkW { nodes : nat -> node; nfresh : nat; lists : nat -> lrec; lfresh : nat }.

Definition ref := option nat.

Definition upd {A} (f : nat -> A) (k : nat) (v : A) : nat -> A := fun x => if Nat.eqb x k then v else f x.

Definition zero_node : node := mkNode None None None false 0.
Definition empty_lrec : lrec := mkL None 0.
(* the harness owns lists 0 and 1 (both zero values: root nil, length 0) *)
Definition empty_world : world := mkW (fun _ => zero_node) 0%nat (fun _ => empty_lrec) 2%nat.

Definition set_next (n : node) v := mkNode v (nprev n) (nowner n) (nok n) (nitem n).
Definition set_prev (n : node) v := mkNode (nnext n) v (nowner n) (nok n) (nitem n).
Definition set_owner (n : node) v := mkNode (nnext n) (nprev n) v (nok n) (nitem n).
Definition set_ok (n : node) v := mkNode (nnext n) (nprev n) (nowner n) v (nitem n).
Definition set_item (n : node) v := mkNode (nnext n) (nprev n) (nowner n) (nok n) v.

Definition wnode (w : world) (k : nat) (f : node -> node) : world :=
  mkW (upd (nodes w) k (f (nodes w k))) (nfresh w) (lists w) (lfresh w).
Definition wlist (w : world) (l : nat) (f : lrec -> lrec) : world :=
  mkW (nodes w) (nfresh w) (upd (lists w) l (f (lists w l))) (lfresh w).
Definition set_root (r : lrec) v := mkL v (llen r).
Definition set_len (r : lrec) v := mkL (lroot r) v.

(* ---------------------------------------------------------------- result monad *)
Inductive res (A : Type) := Ret (a : A) (w : world) | Panic | Hang.
Arguments Ret {A}. Arguments Panic {A}. Arguments Hang {A}.
Definition M (A : Type) := world -> res A.
Definition ret {A} (a : A) : M A := fun w => Ret a w.
Definition bind {A B} (m : M A) (k : A -> M B) : M B :=
  fun w => match m w with Ret a w' => k a w' | Panic => Panic | Hang => Hang end.
Notation "x <- m ;; k" := (bind m (fun x => k)) (at level 61, m at next level, right associativity).
Notation "m ;;; k" := (bind m (fun _ => k)) (at level 61, right associativity).
Definition panic {A} : M A := fun _ => Panic.
Definition hang {A} : M A := fun _ => Hang.
Definition get {A} (f : world -> A) : M A := fun w => Ret (f w) w.
Definition modify (f : world -> world) : M unit := fun w => Ret tt (f w).
Definition deref (r : ref) : M nat := match r with Some n => ret n | None => panic end.
(* e.f for a possibly-nil e *)
Definition fld {A} (f : node -> A) (e : ref) : M A := n <- deref e ;; get (fun w => f (nodes w n)).
Definition wr (e : ref) (f : node -> node) : M unit := n <- deref e ;; modify (fun w => wnode w n f).

Definition ref_eqb (a b : ref) : bool :=
  match a, b with Some x, Some y => Nat.eqb x y | None, None => true | _, _ => false end.
Definition is_nil (a : ref) : bool := match a with None => true | _ => false end.

(* &Element[T]{...} *)
Definition alloc (n : node) : M ref :=
  fun w => Ret (Some (nfresh w)) (mkW (upd (nodes w) (nfresh w) n) (S (nfresh w)) (lists w) (lfresh w)).
(* &List[T]{} *)
Definition alloc_list : M nat :=
  fun w => Ret (lfresh w) (mkW (nodes w) (nfresh w) (upd (lists w) (lfresh w) empty_lrec) (S (lfresh w))).

(* makeElem / NewElement: &Element[T]{item: val, ok: true} *)
Definition makeElem (v : Z) : M ref := alloc (mkNode None None None true v).
Definition NewElement := makeElem.

Definition Len (l : nat) : M Z := get (fun w => llen (lists w l)).
Definition Root (l : nat) : M ref := get (fun w => lroot (lists w l)).

Definition lazySetup (l : nat) : M unit :=
  r <- Root l ;;
  if is_nil r then
    e <- makeElem 0 ;;
    modify (fun w => wlist w l (fun x => set_root x e)) ;;;   (* l.root = makeElem(val) *)
    r1 <- Root l ;; wr r1 (fun n => set_next n r1) ;;;          (* l.root.next = l.root *)
    r2 <- Root l ;; wr r2 (fun n => set_prev n r2) ;;;          (* l.root.prev = l.root *)
    r3 <- Root l ;; wr r3 (fun n => set_owner n (Some l)) ;;;   (* l.root.list = l *)
    r4 <- Root l ;; wr r4 (fun n => set_ok n false)             (* l.root.ok = false *)
  else ret tt.

(* new != nil && new.ok && e.list != nil && new.list == nil      (the last conjunct is fix #2) *)
Definition appendable (e new : ref) : M bool :=
  if is_nil new then ret false else
  k <- fld nok new ;;
  if negb k then ret false else
  ol <- fld nowner e ;;
  if is_nil ol then ret false else
  oln <- fld nowner new ;; ret (is_nil oln).

Definition uncheckedAppend (e new : ref) : M unit :=
  l <- fld nowner e ;; l' <- deref l ;;
  modify (fun w => wlist w l' (fun x => set_len x (llen x + 1))) ;;;   (* e.list.length++ *)
  l2 <- fld nowner e ;; wr new (fun n => set_owner n l2) ;;;            (* new.list = e.list *)
  wr new (fun n => set_prev n e) ;;;                                    (* new.prev = e *)
  en <- fld nnext e ;; wr new (fun n => set_next n en) ;;;              (* new.next = e.next *)
  p <- fld nprev new ;; wr p (fun n => set_next n new) ;;;              (* new.prev.next = new *)
  x <- fld nnext new ;; wr x (fun n => set_prev n new).                 (* new.next.prev = new *)

Definition uncheckedRemove (e : ref) : M unit :=
  l <- fld nowner e ;; l' <- deref l ;;
  modify (fun w => wlist w l' (fun x => set_len x (llen x - 1))) ;;;   (* e.list.length-- *)
  p <- fld nprev e ;; en <- fld nnext e ;; wr p (fun n => set_next n en) ;;;   (* e.prev.next = e.next *)
  x <- fld nnext e ;; ep <- fld nprev e ;; wr x (fun n => set_prev n ep) ;;;   (* e.next.prev = e.prev *)
  wr e (fun n => set_owner n None).                                     (* e.list = nil; next/prev kept *)

(* e.list != nil && e.list.root != e && e.list.length > 0 *)
Definition removable (e : ref) : M bool :=
  ol <- fld nowner e ;;
  match ol with
  | None => ret false
  | Some l => r <- Root l ;;
              if ref_eqb r e then ret false else
              n <- Len l ;; ret (0 <? n)
  end.

Definition Append (e new : ref) : M ref :=
  a <- appendable e new ;;
  if negb a then ret e else uncheckedAppend e new ;;; ret new.

Definition Remove (e : ref) : M bool :=
  r <- removable e ;;
  if negb r then ret false else uncheckedRemove e ;;; ret true.

Definition Drop (e : ref) : M unit :=
  r <- Remove e ;;
  if negb r then ret tt else
  wr e (fun n => set_item n 0) ;;; wr e (fun n => set_ok n false).

(* e == nil || (e.list != nil && e.list.root == e) -> false; e.ok = true; e.item = v; true *)
Definition SetV (e : ref) (v : Z) : M bool :=
  if is_nil e then ret false else
  ol <- fld nowner e ;;
  isroot <- match ol with None => ret false | Some l => r <- Root l ;; ret (ref_eqb r e) end ;;
  if isroot then ret false else
  wr e (fun n => set_ok n true) ;;; wr e (fun n => set_item n v) ;;; ret true.

Definition option_nat_eqb := ref_eqb.

(* with == nil || e == nil || e.list == nil || e.list != with.list || e == with -> false *)
Definition Swap (e wth : ref) : M bool :=
  if is_nil wth || is_nil e then ret false else
  le <- fld nowner e ;;
  if is_nil le then ret false else
  lw <- fld nowner wth ;;
  if negb (option_nat_eqb le lw) || ref_eqb e wth then ret false else
  wp <- fld nprev wth ;; wp' <- deref wp ;;
  cp <- get (fun w => nodes w wp') ;; wprev <- alloc cp ;;   (* wprev := *with.prev  (a COPY) *)
  uncheckedRemove wth ;;;
  ep <- fld nprev e ;; uncheckedAppend ep wth ;;;
  uncheckedRemove e ;;;
  uncheckedAppend wprev e ;;;
  ret true.

(* the decision Swap takes before it writes anything (used by the avoids_swap guard) *)
Definition swap_succeeds (w : world) (e wth : ref) : bool :=
  match e, wth with
  | Some a, Some b =>
      match nowner (nodes w a) with
      | None => false
      | Some l => option_nat_eqb (Some l) (nowner (nodes w b)) && negb (Nat.eqb a b)
      end
  | _, _ => false
  end.

Definition Next (e : ref) : M ref := fld nnext e.
Definition Previous (e : ref) : M ref := fld nprev e.

(* !it.removable() || it.list != l -> &Element[T]{} *)
Definition pop (l : nat) (it : ref) : M ref :=
  r <- removable it ;;
  ol <- fld nowner it ;;
  if negb r || negb (option_nat_eqb ol (Some l)) then alloc zero_node
  else uncheckedRemove it ;;; ret it.

Definition PushFront (l : nat) (v : Z) : M unit :=
  lazySetup l ;;; r <- Root l ;; n <- makeElem v ;; Append r n ;;; ret tt.
Definition PushBack (l : nat) (v : Z) : M unit :=
  lazySetup l ;;; r <- Root l ;; p <- fld nprev r ;; n <- makeElem v ;; Append p n ;;; ret tt.
Definition Front (l : nat) : M ref := lazySetup l ;;; r <- Root l ;; fld nnext r.
Definition Back (l : nat) : M ref := lazySetup l ;;; r <- Root l ;; fld nprev r.
Definition PopFront (l : nat) : M ref := lazySetup l ;;; r <- Root l ;; f <- fld nnext r ;; pop l f.
Definition PopBack (l : nat) : M ref := lazySetup l ;;; r <- Root l ;; b <- fld nprev r ;; pop l b.

(* e.Ok(): e != nil && e.ok *)
Definition OkE (e : ref) : M bool := match e with None => ret false | Some n => get (fun w => nok (nodes w n)) end.
Definition Value (e : ref) : M Z := fld nitem e.

(* ---------------------------------------------------------------- loops (fuel) *)

(* for elem := input.PopFront(); elem.Ok(); elem = input.PopFront() { back = back.Append(elem) } *)
Fixpoint extend_loop (fuel : nat) (input : nat) (back : ref) : M unit :=
  match fuel with
  | O => hang
  | S f => elem <- PopFront input ;;
           k <- OkE elem ;;
           if negb k then ret tt else
           b <- Append back elem ;; extend_loop f input b
  end.

Definition Extend (l input : nat) : M unit :=
  n <- Len input ;;
  if n =? 0 then ret tt else
  back <- Back l ;;
  fuel <- get (fun w => S (nfresh w)) ;;
  extend_loop fuel input back.

(* for elem := l.Front(); elem.Ok(); elem = elem.Next() { out.PushBack(elem.Value()) } *)
Fixpoint copy_loop (fuel : nat) (out : nat) (elem : ref) : M unit :=
  match fuel with
  | O => hang
  | S f => k <- OkE elem ;;
           if negb k then ret tt else
           v <- Value elem ;; PushBack out v ;;; nx <- Next elem ;; copy_loop f out nx
  end.

Definition Copy (l : nat) : M nat :=
  out <- alloc_list ;;
  n <- Len l ;;
  (if 0 <? n then
     fuel <- get (fun w => S (nfresh w)) ;;
     e <- Front l ;; copy_loop fuel out e
   else ret tt) ;;;
  ret out.

(* The four producers as cursor machines, drained (what Iterator()/Reverse()/PopIterator()/PopReverse()
   deliver when consumed to the end).
     Producer:           current = current.Next();     stop if !current.Ok() || current == l.root
     ProducerReverse:    current = current.Previous(); ...
     ProducerPop:        current = l.PopFront();       ...
     ProducerReversePop: current = l.PopBack();        ...                                        *)
Inductive pkind := PFwd | PRev | PPop | PRevPop.

Definition producer_advance (k : pkind) (l : nat) (current : ref) : M ref :=
  match k with
  | PFwd => Next current
  | PRev => Previous current
  | PPop => PopFront l
  | PRevPop => PopBack l
  end.

Fixpoint drain (fuel : nat) (k : pkind) (l : nat) (current : ref) (acc : list Z) : M (list Z) :=
  match fuel with
  | O => hang
  | S f => c <- producer_advance k l current ;;
           okc <- OkE c ;; r <- Root l ;;
           if negb okc || ref_eqb c r then ret (rev acc) else
           v <- Value c ;; drain f k l c (v :: acc)
  end.

Definition Iterate (k : pkind) (l : nat) : M (list Z) :=
  lazySetup l ;;;
  r <- Root l ;;
  fuel <- get (fun w => S (nfresh w)) ;;
  drain fuel k l (match k with PFwd | PRev => r | _ => None end) [].

(* Slice: Populate(l.Iterator()) *)
Definition SliceL (l : nat) : M (list Z) := Iterate PFwd l.

(* MarshalJSON at the level of the decoded sequence:
   if l.Len() > 0 { for i := l.Front(); i.Ok(); i = i.Next() { encode i.Value() } } *)
Fixpoint marshal_loop (fuel : nat) (l : nat) (i : ref) (acc : list Z) : M (list Z) :=
  match fuel with
  | O => hang
  | S f => k <- OkE i ;;
           if negb k then ret (rev acc) else
           Front l ;;;                                   (* if i != l.Front() { write ',' } *)
           v <- Value i ;; nx <- Next i ;; marshal_loop f l nx (v :: acc)
  end.

Definition MarshalJSON (l : nat) : M (list Z) :=
  n <- Len l ;;
  if 0 <? n then fuel <- get (fun w => S (nfresh w)) ;; i <- Front l ;; marshal_loop fuel l i []
  else ret [].

(* UnmarshalJSON: tail := l.Back(); for each decoded value { elem := NewElement(zero); elem.Set(val); tail = tail.Append(elem) } *)
Fixpoint unmarshal_loop (vs : list Z) (tail : ref) : M unit :=
  match vs with
  | [] => ret tt
  | v :: vs' => elem <- NewElement 0 ;; SetV elem v ;;; t <- Append tail elem ;; unmarshal_loop vs' t
  end.

Definition UnmarshalJSON (l : nat) (vs : list Z) : M unit := tail <- Back l ;; unmarshal_loop vs tail.

(* ---------------------------------------------------------------- cmp.go *)
Section Sorting.
Variable lt : Z -> Z -> bool.

(* for item := l.Front().Next(); item.Ok(); item = item.Next() { if lt(item.Value(), item.Previous().Value()) return false } *)
Fixpoint issorted_loop (fuel : nat) (it : ref) : M bool :=
  match fuel with
  | O => hang
  | S f => k <- OkE it ;;
           if negb k then ret true else
           v <- Value it ;; p <- Previous it ;; pv <- Value p ;;
           if lt v pv then ret false else nx <- Next it ;; issorted_loop f nx
  end.

Definition IsSorted (l : nat) : M bool :=
  n <- Len l ;;
  if n <=? 1 then ret true else
  fuel <- get (fun w => S (nfresh w)) ;;
  fr <- Front l ;; it <- Next fr ;; issorted_loop fuel it.

(* sort.SliceStable(elems, func(i, j) bool { return lt(elems[i].item, elems[j].item) }):
   modelled as a stable insertion sort on (element, item) pairs; for a strict weak order every
   stable sort computes the same result (Proofs: stable-sort contract as a Section hypothesis). *)
Fixpoint sins (x : nat * Z) (l : list (nat * Z)) : list (nat * Z) :=
  match l with
  | [] => [x]
  | y :: l' => if lt (snd y) (snd x) then y :: sins x l' else x :: y :: l'
  end.
Definition stable_sort (l : list (nat * Z)) : list (nat * Z) := fold_right sins [] l.
(* fold_right inserts the LAST element first; an (earlier) element x passes only the elements that
   are lt it and stops in front of the first one that is not: equal keys keep their relative order. *)

Section QuickWith.
Variable sorter : list (nat * Z) -> list (nat * Z).

(* for l.Len() > 0 { elems = append(elems, l.PopFront()) } *)
Fixpoint popall_loop (fuel : nat) (l : nat) (acc : list ref) : M (list ref) :=
  match fuel with
  | O => hang
  | S f => n <- Len l ;;
           if 0 <? n then e <- PopFront l ;; popall_loop f l (e :: acc) else ret (rev acc)
  end.

Fixpoint items_of (es : list ref) : M (list (nat * Z)) :=
  match es with
  | [] => ret []
  | e :: es' => n <- deref e ;; v <- Value e ;; r <- items_of es' ;; ret ((n, v) :: r)
  end.

(* for idx := range elems { l.Back().Append(elems[idx]) } *)
Fixpoint appendall_loop (l : nat) (es : list nat) : M unit :=
  match es with
  | [] => ret tt
  | e :: es' => b <- Back l ;; Append b (Some e) ;;; appendall_loop l es'
  end.

Definition SortQuickWith (l : nat) : M unit :=
  fuel <- get (fun w => S (nfresh w + Z.to_nat (llen (lists w l)))) ;;
  elems <- popall_loop fuel l [] ;;
  kv <- items_of elems ;;
  appendall_loop l (map fst (sorter kv)).
End QuickWith.

Definition SortQuick := SortQuickWith stable_sort.

(* split: total := list.Len(); out := &List{}; out.lazySetup(); for list.Len() > total/2 { out.Back().Append(list.PopFront()) } *)
Fixpoint split_loop (fuel : nat) (list out : nat) (half : Z) : M unit :=
  match fuel with
  | O => hang
  | S f => n <- Len list ;;
           if half <? n then
             b <- Back out ;; e <- PopFront list ;; Append b e ;;; split_loop f list out half
           else ret tt
  end.

Definition lsplit (list : nat) : M nat :=
  total <- Len list ;;
  out <- alloc_list ;;
  lazySetup out ;;;
  fuel <- get (fun w => S (nfresh w + Z.to_nat total)) ;;
  split_loop fuel list out (Z.quot total 2) ;;;
  ret out.

(* for a.Len() != 0 && b.Len() != 0 { if lt(a.Front().Value(), b.Front().Value()) { out.Back().Append(a.PopFront()) } else { out.Back().Append(b.PopFront()) } } *)
Fixpoint merge_loop (fuel : nat) (a b out : nat) : M unit :=
  match fuel with
  | O => hang
  | S f => na <- Len a ;; nb <- Len b ;;
           if negb (na =? 0) && negb (nb =? 0) then
             fa <- Front a ;; va <- Value fa ;; fb <- Front b ;; vb <- Value fb ;;
             (if lt va vb
              then bk <- Back out ;; e <- PopFront a ;; Append bk e
              else bk <- Back out ;; e <- PopFront b ;; Append bk e) ;;;
             merge_loop f a b out
           else ret tt
  end.

Definition lmerge (a b : nat) : M nat :=
  out <- alloc_list ;;
  lazySetup out ;;;
  fuel <- get (fun w => S (nfresh w + Z.to_nat (llen (lists w a)) + Z.to_nat (llen (lists w b)))) ;;
  merge_loop fuel a b out ;;;
  Extend out a ;;;
  Extend out b ;;;
  ret out.

Fixpoint mergeSort (fuel : nat) (head : nat) : M nat :=
  match fuel with
  | O => hang
  | S f => n <- Len head ;;
           if n <? 2 then ret head else
           tail <- lsplit head ;;
           head' <- mergeSort f head ;;
           tail' <- mergeSort f tail ;;
           lmerge head' tail'
  end.

(* fixed code:  if l.Len() < 2 { return };  l.Extend(mergeSort(l, lt)) *)
Definition SortMerge (l : nat) : M unit :=
  n <- Len l ;;
  if n <? 2 then ret tt else
  s <- mergeSort (S (Z.to_nat n)) l ;;
  Extend l s.

End Sorting.

(* ---------------------------------------------------------------- operations on references *)
Inductive op :=
| OPushFront (l : nat) (v : Z) | OPushBack (l : nat) (v : Z)
| OPopFront (l : nat) | OPopBack (l : nat) | OFront (l : nat) | OBack (l : nat)
| ONewElement (v : Z)
| ONext (e : ref) | OPrev (e : ref)
| OAppend (e n : ref) | ORemove (e : ref) | ODrop (e : ref) | OSwap (e wth : ref) | OSet (e : ref) (v : Z)
| OExtend (l input : nat) | OCopy (l : nat) | OSlice (l : nat)
| OIter (k : pkind) (l : nat)
| OJSON (src dst : nat)
| OSortQuick (l : nat) (ltk : Z) | OSortMerge (l : nat) (ltk : Z) | OIsSorted (l : nat) (ltk : Z).

Inductive out :=
| RUnit | RElem (r : ref) | RBool (b : bool) | RVals (vs : list Z)
| RCopy (len : Z) (fwd bwd : list Z).

(* bounded raw walks used for observation (no lazySetup, no mutation): follow next/prev from the
   root while the element is Ok, at most [bound] steps -- so corrupted rings terminate. *)
Fixpoint walk (dir : node -> ref) (h : nat -> node) (bound : nat) (e : ref) : list nat :=
  match bound, e with
  | S b, Some n => if nok (h n) then n :: walk dir h b (dir (h n)) else []
  | _, _ => []
  end.
Definition walk_bound (w : world) (l : nat) : nat := Z.to_nat (2 * llen (lists w l) + 4).
Definition fwd_nodes (w : world) (l : nat) : list nat :=
  match lroot (lists w l) with None => [] | Some r => walk nnext (nodes w) (walk_bound w l) (nnext (nodes w r)) end.
Definition bwd_nodes (w : world) (l : nat) : list nat :=
  match lroot (lists w l) with None => [] | Some r => walk nprev (nodes w) (walk_bound w l) (nprev (nodes w r)) end.
Definition items (w : world) (ns : list nat) : list Z := map (fun n => nitem (nodes w n)) ns.
Definition fwd_vals w l := items w (fwd_nodes w l).
Definition bwd_vals w l := items w (bwd_nodes w l).

Definition step (o : op) : M out :=
  match o with
  | OPushFront l v => PushFront l v ;;; ret RUnit
  | OPushBack l v => PushBack l v ;;; ret RUnit
  | OPopFront l => e <- PopFront l ;; ret (RElem e)
  | OPopBack l => e <- PopBack l ;; ret (RElem e)
  | OFront l => e <- Front l ;; ret (RElem e)
  | OBack l => e <- Back l ;; ret (RElem e)
  | ONewElement v => e <- NewElement v ;; ret (RElem e)
  | ONext e => r <- Next e ;; ret (RElem r)
  | OPrev e => r <- Previous e ;; ret (RElem r)
  | OAppend e n => r <- Append e n ;; ret (RElem r)
  | ORemove e => b <- Remove e ;; ret (RBool b)
  | ODrop e => Drop e ;;; ret RUnit
  | OSwap e x => b <- Swap e x ;; ret (RBool b)
  | OSet e v => b <- SetV e v ;; ret (RBool b)
  | OExtend l i => Extend l i ;;; ret RUnit
  | OCopy l => c <- Copy l ;; get (fun w => RCopy (llen (lists w c)) (fwd_vals w c) (bwd_vals w c))
  | OSlice l => vs <- SliceL l ;; ret (RVals vs)
  | OIter k l => vs <- Iterate k l ;; ret (RVals vs)
  | OJSON s d => vs <- MarshalJSON s ;; UnmarshalJSON d vs ;;; ret (RVals vs)
  | OSortQuick l k => SortQuick (lt_of k) l ;;; ret RUnit
  | OSortMerge l k => SortMerge (lt_of k) l ;;; ret RUnit
  | OIsSorted l k => b <- IsSorted (lt_of k) l ;; ret (RBool b)
  end.

(* guard for known finding #1: the operation is not a Swap that would succeed in this world *)
Definition avoids_swap (w : world) (o : op) : bool :=
  match o with OSwap e x => negb (swap_succeeds w e x) | _ => true end.
