(* Code-level executable model of the non-destructive iterators of pubsub.Deque
   (/repo/pubsub/deque.go: addAfter, pop, Close, confProducer, element.wait) on the tree repaired by
   fixes_pending/C06-deque-wakeups.diff (Close, addAfter and pop call broadcastAll).  Model only.

   Heap: total function from addresses to elements {item; next; prev}; address 0 is the root created by
   makeDeque (root.next = root.prev = root).  A nil pointer is `None`; dereferencing it is a panic.
   pop leaves the removed element's own next/prev alone, as the code does (stale pointers).

   Every producer call runs under the deque mutex (`confProducer(...).WithLock(dq.mtx)`), so one call is
   ONE atomic segment up to its return or up to cond.Wait inside element.wait; after a wake-up the loop
   of element.wait re-checks under the lock.
       confProducer(direction, blocking):
          if current == nil { current = dq.root }
          if current.getNextOrPrevious(direction) == dq.root && blocking { if err := current.wait(ctx, direction) ... }
          next := current.getNextOrPrevious(direction)
          if next == nil || next == dq.root { return io.EOF }
          current = next; return current.item
       element.wait:  next := it.get(direction); for next == it.get(direction) { if closed -> ErrQueueClosed;
                      cond.Signal(); if ctx ended -> ctx.Err(); cond.Wait() }   + deferred cancel (helper broadcast)
   Which of the three conds is used does not matter any more: every change broadcasts all three.
   The tracker: `dlen` is tracker.len(); its verdicts are INPUTS of the steps (the arithmetic is C06's model):
   `LPushBack/LPushFront` are pushes that tracker.add() accepts, `LPushRej` one that it rejects (hard-limit /
   quota tracker: addAfter then only broadcasts `updates` and returns the error, before allocating anything),
   and `LForcePush v back full` carries the outcome of `dq.tracker.cap() == dq.tracker.len()`:
       ForcePushBack:  if cap == len { _, _ = dq.pop(dq.root.next) };  return dq.addAfter(it, dq.root.prev)
       ForcePushFront: if cap == len { _, _ = dq.pop(dq.root.prev) };  return dq.addAfter(it, dq.root)
   (the insertion point is read AFTER the eviction). *)
From FunV Require Import Base.Tac.
From FunV Require Export Model.QueueCursor.   (* upd, res, ob *)

Record elem := mkEl { eitem : Z; enext : option nat; eprev : option nat }.

Record deque := mkD { dheap : nat -> elem; dnxt : nat; dclosed : bool; dlen : nat }.

Definition root : nat := 0.
Definition d0 : deque :=
  mkD (fun k => if Nat.eqb k 0 then mkEl 0%Z (Some 0) (Some 0) else mkEl 0%Z None None) 1 false 0.

Definition set_next (e : elem) (p : option nat) := mkEl (eitem e) p (eprev e).
Definition set_prev (e : elem) (p : option nat) := mkEl (eitem e) (enext e) p.

(* addAfter (not closed, unlimited tracker); None = nil dereference.
     it := &element{item: value}; it.prev = after; it.next = after.next; it.prev.next = it; it.next.prev = it *)
Definition add_after (d : deque) (v : Z) (after : nat) : option deque :=
  let h := dheap d in
  let n := dnxt d in
  match enext (h after) with
  | None => None                                   (* it.next = nil; it.next.prev panics *)
  | Some an =>
      let h1 := upd h n (mkEl v (Some an) (Some after)) in
      let h2 := upd h1 after (set_next (h1 after) (Some n)) in
      let h3 := upd h2 an (set_prev (h2 an) (Some n)) in
      Some (mkD h3 (S n) (dclosed d) (S (dlen d)))
  end.

(* pop(it) for it non-root, deque not closed; None = nil dereference.
     it.prev.next = it.next; it.next.prev = it.prev *)
Definition unlink (d : deque) (x : nat) : option (deque * Z) :=
  let h := dheap d in
  match eprev (h x), enext (h x) with
  | Some p, Some n =>
      let h1 := upd h p (set_next (h p) (Some n)) in
      let h2 := upd h1 n (set_prev (h1 n) (Some p)) in
      Some (mkD h2 (dnxt d) (dclosed d) (pred (dlen d)), eitem (h x))
  | _, _ => None
  end.

(* ---------------------------------------------------------------- iterator goroutines *)

Inductive variant := VFwd | VRev | VFwdB | VRevB.
Definition v_rev (v : variant) : bool := match v with VRev | VRevB => true | _ => false end.
Definition v_blocking (v : variant) : bool := match v with VFwdB | VRevB => true | _ => false end.

Definition get (rev : bool) (e : elem) : option nat := if rev then eprev e else enext e.

Definition optnat_eqb (a b : option nat) : bool :=
  match a, b with Some x, Some y => Nat.eqb x y | None, None => true | _, _ => false end.

Inductive dpc :=
| DReady | DCalled
| DParked (captured : option nat)     (* in element.wait, on a cond's wait list; `next` captured before the loop *)
| DWoken (captured : option nat)
| DCrashed.

Record diter := mkDI {
  dvar : variant;
  dcur : option nat;       (* the closure variable `current` *)
  dipc : dpc;
  dcancelled : bool;
  dyielded : list Z;       (* ghost *)
}.

Definition di0 (v : variant) : diter := mkDI v None DReady false [].
Definition dset_pc (t : diter) (p : dpc) : diter := mkDI (dvar t) (dcur t) p (dcancelled t) (dyielded t).

Record dstate := mkDS { sd : deque; dits : nat -> diter }.

Definition dwake_all (f : nat -> diter) : nat -> diter :=
  fun i => let t := f i in match dipc t with DParked c => dset_pc t (DWoken c) | _ => t end.

Inductive dlabel :=
| LPushBack (v : Z) | LPushFront (v : Z) | LPopFront | LPopBack | LDClose | LDCancel (i : nat)
| LDCall (i : nat) | LDRun (i : nat)
| LForcePush (v : Z) (back full : bool)
| LPushRej (v : Z).

(* after the (optional) wait:  next := current.get(direction); if next == nil || next == dq.root -> EOF ... *)
Definition finish (d : deque) (f : nat -> diter) (i : nat) (c : nat) : (nat -> diter) * event :=
  let t := f i in
  match get (v_rev (dvar t)) (dheap d c) with
  | None => (upd f i (mkDI (dvar t) (Some c) DReady (dcancelled t) (dyielded t)), EvRes i REOF)
  | Some n =>
      if Nat.eqb n root then (upd f i (mkDI (dvar t) (Some c) DReady (dcancelled t) (dyielded t)), EvRes i REOF)
      else (upd f i (mkDI (dvar t) (Some n) DReady (dcancelled t) (dyielded t ++ [eitem (dheap d n)])),
            EvRes i (RYield (eitem (dheap d n))))
  end.

(* the loop of element.wait for the element c, with `captured` taken before the loop *)
Definition wait_loop (d : deque) (f : nat -> diter) (i : nat) (c : nat) (captured : option nat) : (nat -> diter) * event :=
  let t := f i in
  let t' := mkDI (dvar t) (Some c) (dipc t) (dcancelled t) (dyielded t) in
  if optnat_eqb captured (get (v_rev (dvar t)) (dheap d c)) then
    if dclosed d then (dwake_all (upd f i (dset_pc t' DReady)), EvRes i RClosed)
    else if dcancelled t then (dwake_all (upd f i (dset_pc t' DReady)), EvRes i RCtx)
    else (upd f i (dset_pc t' (DParked captured)), EvRes i RParked)
  else
    let '(f', ev) := finish d (upd f i t') i c in (dwake_all f', ev).      (* wait returned nil (+ deferred cancel) *)

Definition drun_iter (d : deque) (f : nat -> diter) (i : nat) : (nat -> diter) * event :=
  let t := f i in
  let c := match dcur t with None => root | Some c => c end in          (* if current == nil { current = dq.root } *)
  let rv := v_rev (dvar t) in
  match dipc t with
  | DCalled =>
      if optnat_eqb (get rv (dheap d c)) (Some root) && v_blocking (dvar t) then
        (* element.wait: choosing the cond dereferences it.prev (reverse) / it.next (forward) *)
        match get rv (dheap d c) with
        | None => (upd f i (dset_pc t DCrashed), EvRes i RPanic)
        | Some _ => wait_loop d f i c (get rv (dheap d c))
        end
      else finish d f i c
  | DWoken captured => wait_loop d f i c captured
  | DReady | DParked _ | DCrashed => (f, EvNone)
  end.

Definition push (s : dstate) (v : Z) (back : bool) : dstate * event :=
  let d := sd s in
  if dclosed d then (s, EvAdd false)
  else
    let after := if back then eprev (dheap d root) else Some root in     (* dq.root.prev / dq.root *)
    match after with
    | None => (s, EvPanicOp)
    | Some a =>
        match add_after d v a with
        | None => (s, EvPanicOp)
        | Some d' => (mkDS d' (dwake_all (dits s)), EvAdd true)
        end
    end.

Definition pop (s : dstate) (back : bool) : dstate * event :=
  let d := sd s in
  if dclosed d then (s, EvRem None)                                           (* dq.closed || it.isRoot() *)
  else
  match (if back then eprev (dheap d root) else enext (dheap d root)) with   (* dq.root.prev / dq.root.next *)
  | None => (s, EvPanicOp)
  | Some x =>
      if Nat.eqb x root then (s, EvRem None)
      else match unlink d x with
           | None => (s, EvPanicOp)
           | Some (d', v) => (mkDS d' (dwake_all (dits s)), EvRem (Some v))
           end
  end.

Definition dstep (s : dstate) (l : dlabel) : dstate * event :=
  let d := sd s in
  match l with
  | LPushBack v => push s v true
  | LPushFront v => push s v false
  | LPopFront => pop s false
  | LPopBack => pop s true
  | LDClose => (mkDS (mkD (dheap d) (dnxt d) true (dlen d)) (dwake_all (dits s)), EvNone)
  | LDCancel i =>
      let t := dits s i in
      (mkDS d (dwake_all (upd (dits s) i (mkDI (dvar t) (dcur t) (dipc t) true (dyielded t)))), EvNone)
  | LDCall i =>
      match dipc (dits s i) with
      | DReady => (mkDS d (upd (dits s) i (dset_pc (dits s i) DCalled)), EvNone)
      | _ => (s, EvNone)
      end
  | LDRun i => let '(f, ev) := drun_iter d (dits s) i in (mkDS d f, ev)
  | LForcePush v back full =>
      let s1 := if full then fst (pop s (negb back)) else s in      (* evict at the opposite end; result ignored *)
      push s1 v back
  | LPushRej _ =>
      if dclosed d then (s, EvAdd false)                            (* ErrQueueClosed comes first *)
      else (mkDS d (dwake_all (dits s)), EvAdd false)               (* dq.updates.Broadcast(); return err *)
  end.

Fixpoint drun (s : dstate) (ls : list dlabel) : dstate * list event :=
  match ls with
  | [] => (s, [])
  | l :: r => let '(s1, e) := dstep s l in let '(s2, es) := drun s1 r in (s2, e :: es)
  end.

(* ---------------------------------------------------------------- harness-level actions *)

Inductive dact :=
| DPushBack (v : Z) | DPushFront (v : Z) | DPopFront | DPopBack | DClose | DCancel (i : nat)
| DCall (i : nat) | DGo (i : nat) | DLen
| DForcePush (v : Z) (back full : bool) | DPushRej (v : Z).

Fixpoint ddrive (fuel : nat) (s : dstate) (i : nat) : dstate * res :=
  match fuel with
  | 0 => (s, RHung)
  | S fuel' =>
      match dipc (dits s i) with
      | DParked _ => (s, RParked)
      | DReady | DCrashed => (s, RNothing)
      | _ =>
          let '(s', ev) := dstep s (LDRun i) in
          match ev with
          | EvRes _ r => (s', r)
          | _ => ddrive fuel' s' i
          end
      end
  end.

Definition dqstep (s : dstate) (a : dact) : dstate * ob :=
  match a with
  | DPushBack v => let '(s', e) := dstep s (LPushBack v) in (s', ev_ob e)
  | DPushFront v => let '(s', e) := dstep s (LPushFront v) in (s', ev_ob e)
  | DPopFront => let '(s', e) := dstep s LPopFront in (s', ev_ob e)
  | DPopBack => let '(s', e) := dstep s LPopBack in (s', ev_ob e)
  | DClose => let '(s', e) := dstep s LDClose in (s', ev_ob e)
  | DCancel i => let '(s', e) := dstep s (LDCancel i) in (s', ev_ob e)
  | DCall i =>
      match dipc (dits s i) with
      | DReady => let '(s', r) := ddrive 3 (fst (dstep s (LDCall i))) i in (s', ObIt r)
      | _ => (s, ObIt RNothing)
      end
  | DGo i => let '(s', r) := ddrive 3 s i in (s', ObIt r)
  | DLen => (s, ObLen (Z.of_nat (dlen (sd s))))
  | DForcePush v back full => let '(s', e) := dstep s (LForcePush v back full) in (s', ev_ob e)
  | DPushRej v => let '(s', e) := dstep s (LPushRej v) in (s', ev_ob e)
  end.

Fixpoint dqrun (s : dstate) (acts : list dact) : list ob :=
  match acts with
  | [] => []
  | a :: r => let '(s', o) := dqstep s a in o :: dqrun s' r
  end.

Definition ds0 (vars : list variant) : dstate := mkDS d0 (fun i => di0 (nth i vars VFwd)).
