(* The worker network of Iterator.ProcessParallel (iterator.go), Transform.ProcessParallel = Map
   (transform.go) and Producer.GenerateParallel (producer.go) as a transition system, for an
   arbitrary number N of workers, an arbitrary input and an arbitrary user function.

     source --Split--> splitter goroutine --unbuffered pipe--> N x worker (ReadAll loop over
       user-fn.WithRecover() + error filter using CanContinueOnError) --> wait group --> resolver

   Atomic steps (labels).  The hand-off through the unbuffered pipe is ONE step (rendezvous); the
   wait group and the context are model primitives (one flag `canc`).

     LCheck      splitter: Iterator.ReadOne's `ctx.Err()` test at the top of its loop
     LTake       splitter: reads the next input item (or sees the end: closes the pipe, done)
     LHandoff i  splitter's `pipe <- x` meets worker i's receive (also possible when the context is
                 already cancelled: Go's select picks among ready arms at random)
     LObsSplit   splitter, holding an item, takes the `<-ctx.Done()` arm instead: item dropped, done
     LFinish i   worker i's user function returns or panics; WithRecover; CanContinueOnError
                 (records through the ErrorHandler); continue -> back to the receive;
                 cannot continue -> the worker leaves its loop (and must still call cancel())
     LCancel i   worker i, having failed, calls the group's cancel()   [the C03-abort-cancel fix]
     LWorkerEof i  idle worker sees the closed pipe
     LObsWorker i  idle worker sees the cancelled context

   A worker that continues goes straight back to `WIdle` (= blocked in the receive select); the real
   loop first re-tests ctx.Err(), so the model allows a superset of the real hand-offs after a
   cancel (sound for the safety theorems proved about it).

   Map adds an output channel written by the worker inside its LFinish (not modelled: C01's subject);
   GenerateParallel has no splitter — each worker calls the generator itself, i.e. LCheck;LTake;
   LHandoff i fused — so every run of it is a run of this network; its generator's io.EOF does not
   cancel the group (`eof_cancels = false`), a processor's io.EOF in ProcessParallel/Map does. *)
From FunV Require Import Base.Tac Model.WorkerConf.
Open Scope nat_scope.

Inductive sstate := SLoop | SChecked | SHolding (x : Z) | SDone.
Inductive wstate := WIdle | WBusy (x : Z) | WFailed | WDone.

Inductive label :=
| LCheck | LTake | LHandoff (i : nat) | LObsSplit
| LFinish (i : nat) | LCancel (i : nat) | LWorkerEof (i : nat) | LObsWorker (i : nat).

Record state := mkst {
  inp : list Z;            (* not yet read from the source *)
  spl : sstate;            (* splitter goroutine *)
  closed : bool;           (* pipe closed *)
  wk : list wstate;        (* the N worker slots *)
  canc : bool;             (* group context cancelled *)
  res : list (Z * err);    (* errors handed to the ErrorHandler, with the item they came from *)
  proc : list Z;           (* log: items whose user function has returned, in order of return *)
  started : list Z;        (* log: items handed to a worker, in order *)
  drop : list Z;           (* items the splitter abandoned *)
  crashed : bool;          (* a panic left a worker goroutine un-recovered *)
  (* ghost counters for the abort bound *)
  failed : bool;           (* some worker has returned "cannot continue" (other than a generator EOF) *)
  h_after : nat;           (* hand-offs since `failed` *)
  f_win : nat;             (* LFinish steps since `failed` while cancel() had not yet been called *)
}.

Fixpoint set_nth {A} (i : nat) (x : A) (l : list A) : list A :=
  match l, i with
  | [], _ => []
  | _ :: t, O => x :: t
  | h :: t, S i' => h :: set_nth i' x t
  end.

(* raw call of the user function, then the deferred recover of WithRecover *)
Inductive result := Returned (e : option err) | Panicking (v : panicval).

Definition run_user (o : outcome) : result :=
  match o with ORet e => Returned e | OPanic v => Panicking v end.

Definition recover_wrapper (r : result) : result :=
  match r with
  | Returned e => Returned (join e (parse_panic None))
  | Panicking v => Returned (join None (parse_panic (Some v)))
  end.

Section Net.
Variable c : conf.
Variable eof_cancels : bool.       (* true: ProcessParallel / Map;  false: GenerateParallel *)
Variable f : Z -> outcome.         (* the user function, arbitrary *)

(* does a "cannot continue" verdict on e cancel the whole group?  (every arm of CanContinueOnError
   that returns false, except — for a generator — the plain io.EOF arm) *)
Definition stops_group (oe : option err) : bool :=
  match oe with
  | None => false
  | Some e => eof_cancels || is e id_panic || negb (is e id_eof)
  end.

Definition recorded (x : Z) : list (Z * err) :=
  match with_recover (f x) with
  | Some e => if record (can_continue c (Some e)) then [(x, e)] else []
  | None => []
  end.

Definition exec (s : state) (l : label) : option state :=
  match l with
  | LCheck =>
      match spl s with
      | SLoop =>
          if canc s
          then Some (mkst (inp s) SDone true (wk s) (canc s) (res s) (proc s) (started s) (drop s) (crashed s) (failed s) (h_after s) (f_win s))
          else Some (mkst (inp s) SChecked (closed s) (wk s) (canc s) (res s) (proc s) (started s) (drop s) (crashed s) (failed s) (h_after s) (f_win s))
      | _ => None
      end
  | LTake =>
      match spl s with
      | SChecked =>
          match inp s with
          | x :: r => Some (mkst r (SHolding x) (closed s) (wk s) (canc s) (res s) (proc s) (started s) (drop s) (crashed s) (failed s) (h_after s) (f_win s))
          | [] => Some (mkst [] SDone true (wk s) (canc s) (res s) (proc s) (started s) (drop s) (crashed s) (failed s) (h_after s) (f_win s))
          end
      | _ => None
      end
  | LHandoff i =>
      match spl s, nth_error (wk s) i with
      | SHolding x, Some WIdle =>
          Some (mkst (inp s) SLoop (closed s) (set_nth i (WBusy x) (wk s)) (canc s) (res s) (proc s) (started s ++ [x]) (drop s) (crashed s)
                     (failed s) (if failed s then S (h_after s) else h_after s) (f_win s))
      | _, _ => None
      end
  | LObsSplit =>
      match spl s with
      | SHolding x =>
          if canc s
          then Some (mkst (inp s) SDone true (wk s) (canc s) (res s) (proc s) (started s) (drop s ++ [x]) (crashed s) (failed s) (h_after s) (f_win s))
          else None
      | _ => None
      end
  | LFinish i =>
      match nth_error (wk s) i with
      | Some (WBusy x) =>
          let fw := if failed s && negb (canc s) then S (f_win s) else f_win s in
          match recover_wrapper (run_user (f x)) with
          | Panicking _ =>
              Some (mkst (inp s) (spl s) (closed s) (set_nth i WDone (wk s)) (canc s) (res s) (proc s ++ [x]) (started s) (drop s) true (failed s) (h_after s) fw)
          | Returned oe =>
              let d := can_continue c oe in
              let res' := res s ++ recorded x in
              if continue d
              then Some (mkst (inp s) (spl s) (closed s) (set_nth i WIdle (wk s)) (canc s) res' (proc s ++ [x]) (started s) (drop s) (crashed s) (failed s) (h_after s) fw)
              else if stops_group oe
              then Some (mkst (inp s) (spl s) (closed s) (set_nth i WFailed (wk s)) (canc s) res' (proc s ++ [x]) (started s) (drop s) (crashed s) true (h_after s) fw)
              else Some (mkst (inp s) (spl s) (closed s) (set_nth i WDone (wk s)) (canc s) res' (proc s ++ [x]) (started s) (drop s) (crashed s) (failed s) (h_after s) fw)
          end
      | _ => None
      end
  | LCancel i =>
      match nth_error (wk s) i with
      | Some WFailed =>
          Some (mkst (inp s) (spl s) (closed s) (set_nth i WDone (wk s)) true (res s) (proc s) (started s) (drop s) (crashed s) (failed s) (h_after s) (f_win s))
      | _ => None
      end
  | LWorkerEof i =>
      match nth_error (wk s) i with
      | Some WIdle =>
          if closed s
          then Some (mkst (inp s) (spl s) (closed s) (set_nth i WDone (wk s)) (canc s) (res s) (proc s) (started s) (drop s) (crashed s) (failed s) (h_after s) (f_win s))
          else None
      | _ => None
      end
  | LObsWorker i =>
      match nth_error (wk s) i with
      | Some WIdle =>
          if canc s
          then Some (mkst (inp s) (spl s) (closed s) (set_nth i WDone (wk s)) (canc s) (res s) (proc s) (started s) (drop s) (crashed s) (failed s) (h_after s) (f_win s))
          else None
      | _ => None
      end
  end.

Definition init (n : nat) (input : list Z) : state :=
  mkst input SLoop false (repeat WIdle n) false [] [] [] [] false false 0 0.

(* run a schedule; None if some label is not enabled *)
Fixpoint exec_all (s : state) (ls : list label) : option state :=
  match ls with
  | [] => Some s
  | l :: ls' => match exec s l with Some s' => exec_all s' ls' | None => None end
  end.

Definition wdone (w : wstate) : bool := match w with WDone => true | _ => false end.
Definition terminated (s : state) : bool :=
  match spl s with SDone => forallb wdone (wk s) | _ => false end.

(* ---- the deterministic sequential reference (what one worker does; used by the correspondence) *)
Fixpoint seq_run (input : list Z) : list (Z * err) * list Z :=
  match input with
  | [] => ([], [])
  | x :: rest =>
      let oe := with_recover (f x) in
      if continue (can_continue c oe)
      then let '(r, p) := seq_run rest in (recorded x ++ r, x :: p)
      else (recorded x, [x])
  end.

(* the canonical one-worker schedule for an input of the given length (fuel = input length) *)
Fixpoint seq_schedule (input : list Z) : list label :=
  match input with
  | [] => [LCheck; LTake; LWorkerEof 0]
  | x :: rest =>
      [LCheck; LTake; LHandoff 0; LFinish 0] ++
      (let oe := with_recover (f x) in
       if continue (can_continue c oe) then seq_schedule rest
       else if stops_group oe then [LCancel 0; LCheck] else [])
  end.

End Net.
