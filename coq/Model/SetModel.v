(* Code-level executable model of dt.Set (/repo/dt/set.go).

   type Set[T] struct { hash Map[T,*Element[T]]; list *List[T]; mtx atomic[*sync.Mutex] }

   * hash  : `option hmap`; None = nil Go map, Some m = association list kept sorted by key
             (Go map iteration order is nondeterministic; the model lists keys in increasing
             order and takes the order actually used by the implementation as an input --
             an "oracle choice" -- wherever the order matters: forceSetupOrdered, iterating an
             unordered set into Extend/MarshalJSON).  A value is `option handle`: the element
             pointer stored for the key, None = nil pointer (what SetDefault stores).
   * list  : `option store`; None = nil list pointer, i.e. the set is unordered.
             `store` is the ELEMENT-STORE SPEC of dt.List as Set uses it: the sequence of
             attached (element handle, value) pairs with push_back / remove handle /
             stable sort / iterate.  That the pointer-level dt.List refines this sequence
             semantics is property C16 (and C17 for the two sorts being stable sorts); it is
             a stated dependency of C18, not re-proved here.
   * next  : allocator for element handles (NewElement / PushBack create a fresh element).
   * mtx   : the mutex slot `atomic[*sync.Mutex]`: None = no mutex, Some l = the mutex with identity l
             (driver-supplied mutexes have positive ids, the ones Synchronize() allocates negative ids,
             0 is the nil pointer).  The slot is WRITE-ONCE (atomic.Set: CompareAndSwap(nil,in) ||
             CompareAndSwap(in,in)).  Sequentially the mutex has no effect on results; the concurrent
             reading is Props/C18.v C18_sync (LockedObject instance).

   Every function below is a transcription of the Go method of the same name, in statement
   order, including lock()'s lazy `init` of a nil hash and DeleteCheck's deferred delete. *)
From FunV Require Import Base.Tac.
Local Open Scope Z_scope.

(* ------------------------------------------------------------------ element store *)
Definition handle := Z.
Definition store := list (handle * Z).

Definition st_push_back (st : store) (h : handle) (v : Z) : store := st ++ [(h, v)].

Definition st_attached (st : store) (h : handle) : bool :=
  existsb (fun p => Z.eqb (fst p) h) st.

(* Element.Remove: unlinks the element when it is attached (true); otherwise no-op (false) *)
Definition st_remove (st : store) (h : handle) : store * bool :=
  (filter (fun p => negb (Z.eqb (fst p) h)) st, st_attached st h).

Definition st_items (st : store) : list Z := map snd st.

Section Sort.
Variable lt : Z -> Z -> bool.

(* stable insertion: x (which preceded everything in l) stays in front of every y unless lt y x *)
Fixpoint st_ins (x : handle * Z) (l : store) : store :=
  match l with
  | [] => [x]
  | y :: l' => if lt (snd y) (snd x) then y :: st_ins x l' else x :: y :: l'
  end.

(* List.SortQuick (sort.SliceStable over the popped elements, re-appended) and List.SortMerge
   (stable merge) both keep the element objects and reorder them stably. *)
Definition st_sort (st : store) : store := fold_right st_ins [] st.
End Sort.

(* the comparison family of the harness, ids as in harness/cmd/c17 (0..4 are strict weak orders) *)
Definition lt_of (k : Z) : Z -> Z -> bool :=
  match k with
  | 0 => Z.ltb
  | 1 => fun a b => Z.ltb b a
  | 2 => fun a b => Z.ltb (a mod 3) (b mod 3)
  | 3 => fun _ _ => false
  | _ => fun a b => Z.ltb (Z.abs a) (Z.abs b)
  end.

(* ------------------------------------------------------------------ hash: Map[T,*Element[T]] *)
Definition hmap := list (Z * option handle).

Fixpoint h_get (m : hmap) (k : Z) : option (option handle) :=   (* v, ok := m[k] *)
  match m with
  | [] => None
  | (k', e) :: m' => if Z.eqb k k' then Some e else h_get m' k
  end.

Definition h_check (m : hmap) (k : Z) : bool :=
  match h_get m k with Some _ => true | None => false end.

Fixpoint h_set (m : hmap) (k : Z) (e : option handle) : hmap :=  (* m[k] = e *)
  match m with
  | [] => [(k, e)]
  | (k', e') :: m' =>
      if Z.eqb k k' then (k, e) :: m'
      else if Z.ltb k k' then (k, e) :: (k', e') :: m'
      else (k', e') :: h_set m' k e
  end.

Definition h_del (m : hmap) (k : Z) : hmap :=                    (* delete(m, k) *)
  filter (fun p => negb (Z.eqb (fst p) k)) m.

Definition h_keys (m : hmap) : list Z := map fst m.
Definition h_len (m : hmap) : Z := Z.of_nat (length m).

(* ------------------------------------------------------------------ decidable permutation *)
Definition count (l : list Z) (x : Z) : nat := count_occ Z.eq_dec l x.

(* is `a` a permutation of `b`?  Used only to validate oracle choices. *)
Definition perm_b (a b : list Z) : bool :=
  forallb (fun x => Nat.eqb (count a x) (count b x)) (a ++ b).

(* ------------------------------------------------------------------ the Set *)
Definition lockid := Z.
Record set := mkSet { s_hash : option hmap; s_list : option store; s_next : handle; s_mtx : option lockid }.

Definition empty_set : set := mkSet None None 0 None.            (* &dt.Set[T]{} *)

Definition hm (s : set) : hmap := match s_hash s with Some m => m | None => [] end.
Definition is_ordered (s : set) : bool := match s_list s with Some _ => true | None => false end.

(* lock(): (take the mutex if any;) ft.WhenCall(s.hash == nil, s.init) *)
Definition s_lock (s : set) : set :=
  match s_hash s with
  | Some _ => s
  | None => mkSet (Some []) (s_list s) (s_next s) (s_mtx s)
  end.

(* atomic.Set(in): val.CompareAndSwap(nil, in) || val.CompareAndSwap(in, in) -- installs `in` only into
   an empty slot; reports true when the slot was empty or already held `in`; never replaces a mutex. *)
Definition mtx_set (cur : option lockid) (l : lockid) : option lockid * bool :=
  match cur with
  | None => (Some l, true)
  | Some c => (cur, Z.eqb c l)
  end.

(* Synchronize(): s.mtx.Set(&sync.Mutex{}) -- l is the identity of the freshly allocated mutex *)
Definition synchronize (s : set) (l : lockid) : set :=
  mkSet (s_hash s) (s_list s) (s_next s) (fst (mtx_set (s_mtx s) l)).

(* WithLock(mtx): Invariant(mtx != nil); Invariant(s.mtx.Set(mtx)). The bool is "panicked". *)
Definition with_lock (s : set) (l : lockid) : set * bool :=
  if Z.eqb l 0 then (s, true)
  else let '(m, ok) := mtx_set (s_mtx s) l in
       (mkSet (s_hash s) (s_list s) (s_next s) m, negb ok).

(* Order(): lock; if list != nil return; Invariant(len(hash)==0) -- panics otherwise; list = &List{} .
   The bool is "panicked". *)
Definition order (s : set) : set * bool :=
  let s := s_lock s in
  match s_list s with
  | Some _ => (s, false)
  | None => if Z.eqb (h_len (hm s)) 0
            then (mkSet (s_hash s) (Some []) (s_next s) (s_mtx s), false)
            else (s, true)
  end.

Definition len (s : set) : set * Z := let s := s_lock s in (s, h_len (hm s)).
Definition check (s : set) (v : Z) : set * bool := let s := s_lock s in (s, h_check (hm s) v).

(* AddCheck *)
Definition add_check (s : set) (v : Z) : set * bool :=
  let s := s_lock s in
  let m := hm s in
  if h_check m v then (s, true)
  else match s_list s with
       | None => (mkSet (Some (h_set m v None)) None (s_next s) (s_mtx s), false)      (* SetDefault *)
       | Some st =>
           let e := s_next s in                                                        (* NewElement(in) *)
           (mkSet (Some (h_set m v (Some e)))                                          (* hash.Add(in, elem) *)
                  (Some (st_push_back st e v))                                         (* list.Back().Append(elem) *)
                  (e + 1) (s_mtx s), false)
       end.

(* DeleteCheck: defer delete(hash,in); e, ok := hash.Load(in); if !ok return false;
   ft.WhenDo(e != nil, e.Remove); return true *)
Definition delete_check (s : set) (v : Z) : set * bool :=
  let s := s_lock s in
  let m := hm s in
  match h_get m v with
  | None => (mkSet (Some (h_del m v)) (s_list s) (s_next s) (s_mtx s), false)
  | Some e =>
      let l' := match e, s_list s with
                | Some h, Some st => Some (fst (st_remove st h))
                | _, l => l
                end in
      (mkSet (Some (h_del m v)) l' (s_next s) (s_mtx s), true)
  end.

(* Populate(iter): iter.Observe(s.Add) *)
Definition populate (s : set) (vs : list Z) : set := fold_left (fun s v => fst (add_check s v)) vs s.

(* forceSetupOrdered (as repaired: the new element is indexed in the hash):
     s.list = &List{}; for item := range s.hash { s.list.PushBack(item); s.hash[item] = s.list.Back() }
   `ks` is the order in which `range s.hash` delivered the keys. *)
Fixpoint force_fill (ks : list Z) (m : hmap) (st : store) (nx : handle) : hmap * store * handle :=
  match ks with
  | [] => (m, st, nx)
  | k :: ks' => force_fill ks' (h_set m k (Some nx)) (st_push_back st nx k) (nx + 1)
  end.

(* SortQuick / SortMerge: lock; if list == nil then forceSetupOrdered; list.Sort*(lt).
   None = the oracle choice is not a permutation of the keys (cannot come from the implementation). *)
Definition sort (lt : Z -> Z -> bool) (choice : list Z) (s : set) : option set :=
  let s := s_lock s in
  match s_list s with
  | Some st => Some (mkSet (s_hash s) (Some (st_sort lt st)) (s_next s) (s_mtx s))
  | None =>
      if perm_b choice (h_keys (hm s)) then
        let '(m, st, nx) := force_fill choice (hm s) [] (s_next s) in
        Some (mkSet (Some m) (Some (st_sort lt st)) nx (s_mtx s))
      else None
  end.

(* Producer()/Iterator() drained: lock; list order if ordered, else the map's keys.
   `iterate` is the true delivery order (needs the oracle choice for an unordered set);
   `iter_canon` is what the harness compares (sorted for an unordered set). *)
Definition iterate (s : set) (choice : list Z) : set * option (list Z) :=
  let s := s_lock s in
  match s_list s with
  | Some st => (s, Some (st_items st))
  | None => (s, if perm_b choice (h_keys (hm s)) then Some choice else None)
  end.

Definition iter_canon (s : set) : list Z :=
  match s_list s with
  | Some st => st_items st
  | None => h_keys (hm s)
  end.

(* Equal: lock s; if len(s.hash) != other.Len() || s.isOrdered() != other.isOrdered() -> false;
   ordered: walk both iterators while both have a next, false at the first difference, else true;
   unordered: every key of s is in other. *)
Fixpoint eq_walk (a b : list Z) : bool :=
  match a, b with
  | x :: a', y :: b' => if Z.eqb x y then eq_walk a' b' else false
  | _, _ => true
  end.

Definition equal (s o : set) : set * set * bool :=
  let s := s_lock s in
  let o := s_lock o in                                  (* other.Len() *)
  if negb (Z.eqb (h_len (hm s)) (h_len (hm o))) || negb (Bool.eqb (is_ordered s) (is_ordered o))
  then (s, o, false)
  else match s_list s, s_list o with
       | Some a, Some b => (s, o, eq_walk (st_items a) (st_items b))
       | None, None => (s, o, forallb (fun k => h_check (hm o) k) (h_keys (hm s)))
       | _, _ => (s, o, false)
       end.

(* UnmarshalJSON at decoded-sequence level: the JSON array's elements are added in order;
   an element that does not decode (None) makes Populate's Invariant.Must panic after the
   elements before it were added. The bool is "panicked". *)
Fixpoint unmarshal (s : set) (items : list (option Z)) : set * bool :=
  match items with
  | [] => (s, false)
  | Some v :: r => unmarshal (fst (add_check s v)) r
  | None :: _ => (s, true)
  end.

(* ------------------------------------------------------------------ a table of sets and one step *)
Definition tbl := nat -> set.
Definition tget (T : tbl) (i : nat) : set := T i.
Definition tset (T : tbl) (i : nat) (s : set) : tbl := fun j => if Nat.eqb j i then s else T j.
Definition tbl0 : tbl := fun _ => empty_set.

Inductive op :=
| OAdd (t : nat) (v : Z)
| OAddCheck (t : nat) (v : Z)
| ODelete (t : nat) (v : Z)
| ODeleteCheck (t : nat) (v : Z)
| OCheck (t : nat) (v : Z)
| OLen (t : nat)
| OPopulate (t : nat) (vs : list Z)
| OExtend (t u : nat) (choice : list Z)          (* T[t].Extend(T[u]); choice = delivery order of T[u] if unordered *)
| OOrder (t : nat)
| OSync (t : nat) (l : lockid)                  (* Synchronize(); l = identity of the mutex it allocates (negative) *)
| OWithLock (t : nat) (l : lockid)              (* WithLock(m_l); l = 0 is nil *)
| OLockProbe (t : nat)                         (* which driver mutex (positive id) the set's methods lock; 0 = none of them *)
| OSortQuick (t : nat) (k : Z) (choice : list Z) (* choice = key order used by forceSetupOrdered, if it ran *)
| OSortMerge (t : nat) (k : Z) (choice : list Z)
| OIter (t : nat)
| OEqual (t u : nat)
| OJSON (t u : nat) (choice : list Z)            (* T[t].UnmarshalJSON(T[u].MarshalJSON()) *)
| OUnmarshal (t : nat) (items : list (option Z)) (* malformed stream *)
| OReset (t : nat) (ordered : bool) (l : lockid). (* T[t] = &Set{}; Order()?; Synchronize()? (l <> 0: with mutex id l) *)

Inductive res := RUnit | RBool (b : bool) | RLen (n : Z) | RSeq (l : list Z) | RPanic | RBad.

Definition target (o : op) : nat :=
  match o with
  | OAdd t _ | OAddCheck t _ | ODelete t _ | ODeleteCheck t _ | OCheck t _ | OLen t
  | OPopulate t _ | OExtend t _ _ | OOrder t | OSync t _ | OWithLock t _ | OLockProbe t | OSortQuick t _ _ | OSortMerge t _ _
  | OIter t | OEqual t _ | OJSON t _ _ | OUnmarshal t _ | OReset t _ _ => t
  end.

Definition step (T : tbl) (o : op) : tbl * res :=
  match o with
  | OAdd t v => (tset T t (fst (add_check (T t) v)), RUnit)
  | OAddCheck t v => let '(s, b) := add_check (T t) v in (tset T t s, RBool b)
  | ODelete t v => (tset T t (fst (delete_check (T t) v)), RUnit)
  | ODeleteCheck t v => let '(s, b) := delete_check (T t) v in (tset T t s, RBool b)
  | OCheck t v => let '(s, b) := check (T t) v in (tset T t s, RBool b)
  | OLen t => let '(s, n) := len (T t) in (tset T t s, RLen n)
  | OPopulate t vs => (tset T t (populate (T t) vs), RUnit)
  | OExtend t u choice =>
      let '(su, seq) := iterate (T u) choice in
      match seq with
      | Some vs => let T1 := tset T u su in (tset T1 t (populate (T1 t) vs), RUnit)
      | None => (T, RBad)
      end
  | OOrder t => let '(s, p) := order (T t) in (tset T t s, if p then RPanic else RUnit)
  | OSync t l => (tset T t (synchronize (T t) l), RUnit)
  | OWithLock t l => let '(s, p) := with_lock (T t) l in (tset T t s, if p then RPanic else RUnit)
  | OLockProbe t =>
      let s := s_lock (T t) in                      (* the probe calls Len() *)
      (tset T t s, RLen (match s_mtx s with Some l => if Z.ltb 0 l then l else 0 | None => 0 end))
  | OSortQuick t k choice | OSortMerge t k choice =>
      match sort (lt_of k) choice (T t) with
      | Some s => (tset T t s, RUnit)
      | None => (T, RBad)
      end
  | OIter t => let s := s_lock (T t) in (tset T t s, RSeq (iter_canon s))
  | OEqual t u =>
      let '(s, o', b) := equal (T t) (T u) in
      (tset (tset T u o') t s, RBool b)
  | OJSON t u choice =>
      let '(su, seq) := iterate (T u) choice in
      match seq with
      | Some vs => let T1 := tset T u su in (tset T1 t (populate (T1 t) vs), RSeq vs)
      | None => (T, RBad)
      end
  | OUnmarshal t items => let '(s, p) := unmarshal (T t) items in (tset T t s, if p then RPanic else RUnit)
  | OReset t ordered l =>
      let s0 := empty_set in
      let s1 := if ordered then fst (order s0) else s0 in
      let s2 := if Z.eqb l 0 then s1 else synchronize s1 l in
      (tset T t s2, RUnit)
  end.

(* what the harness observes after every step on the target set: Len() and the drained Iterator() *)
Definition obs := (res * Z * list Z)%type.

Definition observe (T : tbl) (t : nat) : tbl * Z * list Z :=
  let s := s_lock (T t) in
  (tset T t s, h_len (hm s), iter_canon s).

Fixpoint run (T : tbl) (ops : list op) : list obs :=
  match ops with
  | [] => []
  | o :: ops' =>
      let '(T1, r) := step T o in
      let '(T2, n, it) := observe T1 (target o) in
      (r, n, it) :: run T2 ops'
  end.
