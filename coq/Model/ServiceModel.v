(* C10 — srv.Service lifecycle.  Executable transition system transcribed from
   /repo/srv/service.go (Start / Close / Wait / Running and the three goroutines that
   Start launches) at the granularity of the code's atomic actions.

   Model primitives (one atomic step each, modelled not verified): atomic.Bool
   Load/Store, sync.Once.Do (enter / block / skip, and completion), close of and
   receive from a signal channel, context cancel and <-ctx.Done(), fun.WaitGroup
   Add / Done / Wait, erc.Collector Add / Resolve, `go`.

   The file contains no proofs (AGENT_GUIDE): Proofs/Service_*.v has them.

   Code being modelled (after fixes C10-service-start.diff):

     Running():  isRunning.Load() && !isFinished.Load()
     Start(ctx): if isFinished.Load() { return ErrServiceReturned }          S0
                 (yield "Start.checked")
                 err := ErrServiceAlreadyStarted
                 doStart.Do(func(){                                          S1
                    err = nil; isRunning.Store(true)                         B0
                    defer isStarted.Store(true)
                    wg.Add(1); go EH                                         B1 B2
                    ctx, s.cancel = WithCancel(ctx)                          B3
                    wg.Add(1); go SD                                         B4 B5
                    wg.Add(1); go MAIN                                       B6 B7
                    (yield "Start.launched")
                    [deferred] isStarted.Store(true)                         B8
                 })                                                          B9 (once done)
                 return err
     EH:   defer wg.Done; defer Recover; <-mainSignal; <-ehSignal; eh := Get()
           if eh != nil { defer Recover; if err := ec.Resolve(); err != nil { eh(err) } }
     SD:   defer wg.Done; defer close(shutdownSignal); defer Recover; <-ctx.Done(); ec.Add(shutdown())
     MAIN: defer wg.Done; defer close(mainSignal); defer isRunning.Store(false);
           (yield "main.finished"); defer isFinished.Store(true);
           if Cleanup != nil { defer Recover; defer func(){ ec.Add(cleanup()) }() }
           defer func(){ defer close(ehSignal); <-shutdownSignal }()
           defer Recover; defer s.cancel(); ec.Add(s.Run(ctx))
     Close():  if isRunning.Load() && s.cancel != nil { s.cancel() }
     Wait():   if isFinished.Load() { return ec.Resolve() }
               if !isStarted.Load() { return ErrServiceNotStarted }
               wg.Wait(); return ec.Resolve()
*)
From FunV Require Import Base.Tac.

Inductive outcome := OAbsent | OOk | OErr | OPanic.
Record cfg := MkCfg { oRun : outcome; oSd : outcome; oCl : outcome; oEh : outcome }.

Inductive phase := PRun | PSd | PCl | PEh.
Inductive ckind := KStart | KWait | KClose | KRunning.

(* the error collector: errors.Is is membership; one token per error value the phases can produce *)
Record ecs := MkEc { tRunErr : bool; tRunPan : bool; tSdErr : bool; tSdPan : bool;
                     tClErr : bool; tClPan : bool; tEhPan : bool; tMark : bool }.
Definition ec_empty := MkEc false false false false false false false false.
Definition ec_is_empty (e : ecs) : bool :=
  negb (tRunErr e || tRunPan e || tSdErr e || tSdPan e || tClErr e || tClPan e || tEhPan e || tMark e).

Inductive sres := SNil | SAlready | SReturned.
Inductive wres := WNil | WNotStarted | WAgg (e : ecs).
Inductive result := RStart (r : sres) | RWait (r : wres) | RClose | RRunning (b : bool).

(* program counters *)
Inductive bpc := BNone | B0 | B1 | B2 | B3 | B4 | B5 | B6 | B7 | B8 | B9 | BDone.
Inductive epc := ENone | E0 | E1 | E2 | E3 | E4 | E5 | E6 | E6n | E7 | E8 | EDone.
Inductive dpc := DNone | D0 | D1 | D2 | D3 | D4 | D4n | D5 | D6 | DDone.
Inductive mpc := MNone | M0 | M1 | M2 | M3 | M4 | M5 | M6 | M7 | M8 | M9 | M10 | M11 | M12 | M13 | M14 | MDone.
Inductive cpc :=
| S0 | S1 | SBody | SRet (r : sres)
| W0 | W1 | W2 | W3 | WRet (r : wres)
| C0 | C1 | C2 | CRet
| R0 | R1 | RRet (b : bool)
| Gone.

Inductive thread := TCaller (i : nat) | TEh | TSd | TMain.
Inductive hook := HChecked | HLaunched.

Inductive label :=
| LInv (k : ckind)                 (* a new caller invokes Start/Wait/Close/Running; callers are numbered in order of invocation *)
| LTau (t : thread)                (* one hidden atomic action of thread t *)
| LBegin (p : phase)               (* the service calls Run / Shutdown / Cleanup / ErrorHandler *)
| LEnd (p : phase)                 (* that function returns or panics (outcome taken from cfg) *)
| LRet (i : nat) (r : result)      (* caller i returns r *)
| LYield (h : hook) (i : nat)      (* probe: caller i is at the named yield point *)
| LYieldMain                       (* probe: the main goroutine is between its two final stores *)
| LParentCancel.                   (* the context passed to Start is cancelled *)

Record state := MkSt {
  fRun : bool; fFin : bool; fSta : bool;       (* isRunning, isFinished, isStarted *)
  body : bpc;                                  (* sync.Once: BNone = not taken, B0..B9 = body running, BDone = done *)
  cancelSet : bool;                            (* s.cancel != nil *)
  ctxDone : bool; parentDone : bool;
  sdSig : bool; ehSig : bool; mainSig : bool;  (* closed? *)
  wg : nat;
  ec : ecs;
  eh : epc; sd : dpc; mn : mpc;
  callers : list cpc
}.

Definition init : state :=
  MkSt false false false BNone false false false false false false 0 ec_empty ENone DNone MNone [].

(* field updates *)
Definition set_fRun v s := MkSt v (fFin s) (fSta s) (body s) (cancelSet s) (ctxDone s) (parentDone s) (sdSig s) (ehSig s) (mainSig s) (wg s) (ec s) (eh s) (sd s) (mn s) (callers s).
Definition set_fFin v s := MkSt (fRun s) v (fSta s) (body s) (cancelSet s) (ctxDone s) (parentDone s) (sdSig s) (ehSig s) (mainSig s) (wg s) (ec s) (eh s) (sd s) (mn s) (callers s).
Definition set_fSta v s := MkSt (fRun s) (fFin s) v (body s) (cancelSet s) (ctxDone s) (parentDone s) (sdSig s) (ehSig s) (mainSig s) (wg s) (ec s) (eh s) (sd s) (mn s) (callers s).
Definition set_body v s := MkSt (fRun s) (fFin s) (fSta s) v (cancelSet s) (ctxDone s) (parentDone s) (sdSig s) (ehSig s) (mainSig s) (wg s) (ec s) (eh s) (sd s) (mn s) (callers s).
Definition set_cancelSet v s := MkSt (fRun s) (fFin s) (fSta s) (body s) v (ctxDone s) (parentDone s) (sdSig s) (ehSig s) (mainSig s) (wg s) (ec s) (eh s) (sd s) (mn s) (callers s).
Definition set_ctxDone v s := MkSt (fRun s) (fFin s) (fSta s) (body s) (cancelSet s) v (parentDone s) (sdSig s) (ehSig s) (mainSig s) (wg s) (ec s) (eh s) (sd s) (mn s) (callers s).
Definition set_parentDone v s := MkSt (fRun s) (fFin s) (fSta s) (body s) (cancelSet s) (ctxDone s) v (sdSig s) (ehSig s) (mainSig s) (wg s) (ec s) (eh s) (sd s) (mn s) (callers s).
Definition set_sdSig v s := MkSt (fRun s) (fFin s) (fSta s) (body s) (cancelSet s) (ctxDone s) (parentDone s) v (ehSig s) (mainSig s) (wg s) (ec s) (eh s) (sd s) (mn s) (callers s).
Definition set_ehSig v s := MkSt (fRun s) (fFin s) (fSta s) (body s) (cancelSet s) (ctxDone s) (parentDone s) (sdSig s) v (mainSig s) (wg s) (ec s) (eh s) (sd s) (mn s) (callers s).
Definition set_mainSig v s := MkSt (fRun s) (fFin s) (fSta s) (body s) (cancelSet s) (ctxDone s) (parentDone s) (sdSig s) (ehSig s) v (wg s) (ec s) (eh s) (sd s) (mn s) (callers s).
Definition set_wg v s := MkSt (fRun s) (fFin s) (fSta s) (body s) (cancelSet s) (ctxDone s) (parentDone s) (sdSig s) (ehSig s) (mainSig s) v (ec s) (eh s) (sd s) (mn s) (callers s).
Definition set_ec v s := MkSt (fRun s) (fFin s) (fSta s) (body s) (cancelSet s) (ctxDone s) (parentDone s) (sdSig s) (ehSig s) (mainSig s) (wg s) v (eh s) (sd s) (mn s) (callers s).
Definition set_eh v s := MkSt (fRun s) (fFin s) (fSta s) (body s) (cancelSet s) (ctxDone s) (parentDone s) (sdSig s) (ehSig s) (mainSig s) (wg s) (ec s) v (sd s) (mn s) (callers s).
Definition set_sd v s := MkSt (fRun s) (fFin s) (fSta s) (body s) (cancelSet s) (ctxDone s) (parentDone s) (sdSig s) (ehSig s) (mainSig s) (wg s) (ec s) (eh s) v (mn s) (callers s).
Definition set_mn v s := MkSt (fRun s) (fFin s) (fSta s) (body s) (cancelSet s) (ctxDone s) (parentDone s) (sdSig s) (ehSig s) (mainSig s) (wg s) (ec s) (eh s) (sd s) v (callers s).
Definition set_callers v s := MkSt (fRun s) (fFin s) (fSta s) (body s) (cancelSet s) (ctxDone s) (parentDone s) (sdSig s) (ehSig s) (mainSig s) (wg s) (ec s) (eh s) (sd s) (mn s) v.

Fixpoint upd {A} (l : list A) (i : nat) (x : A) : list A :=
  match l, i with
  | [], _ => []
  | _ :: t, O => x :: t
  | h :: t, S j => h :: upd t j x
  end.

Definition set_caller i pc s := set_callers (upd (callers s) i pc) s.

(* collector updates *)
Definition add_RunErr e := MkEc true (tRunPan e) (tSdErr e) (tSdPan e) (tClErr e) (tClPan e) (tEhPan e) (tMark e).
Definition add_RunPan e := MkEc (tRunErr e) true (tSdErr e) (tSdPan e) (tClErr e) (tClPan e) (tEhPan e) true.
Definition add_SdErr e := MkEc (tRunErr e) (tRunPan e) true (tSdPan e) (tClErr e) (tClPan e) (tEhPan e) (tMark e).
Definition add_SdPan e := MkEc (tRunErr e) (tRunPan e) (tSdErr e) true (tClErr e) (tClPan e) (tEhPan e) true.
Definition add_ClErr e := MkEc (tRunErr e) (tRunPan e) (tSdErr e) (tSdPan e) true (tClPan e) (tEhPan e) (tMark e).
Definition add_ClPan e := MkEc (tRunErr e) (tRunPan e) (tSdErr e) (tSdPan e) (tClErr e) true (tEhPan e) true.
Definition add_EhPan e := MkEc (tRunErr e) (tRunPan e) (tSdErr e) (tSdPan e) (tClErr e) (tClPan e) true true.
Definition add_Mark e := MkEc (tRunErr e) (tRunPan e) (tSdErr e) (tSdPan e) (tClErr e) (tClPan e) (tEhPan e) true.

Definition is_absent (o : outcome) : bool := match o with OAbsent => true | _ => false end.
Definition is_panic (o : outcome) : bool := match o with OPanic => true | _ => false end.
Definition is_err (o : outcome) : bool := match o with OErr => true | _ => false end.

(* ec.Resolve() *)
Definition resolve (e : ecs) : wres := if ec_is_empty e then WNil else WAgg e.

(* ---------------------------------------------------------------- hidden steps *)

(* the body of the sync.Once, run by the caller that took it *)
Definition step_body (s : state) (i : nat) : option state :=
  match body s with
  | B0 => Some (set_body B1 (set_fRun true s))                       (* err = nil; isRunning.Store(true) *)
  | B1 => Some (set_body B2 (set_wg (S (wg s)) s))                   (* wg.Add(1) *)
  | B2 => Some (set_body B3 (set_eh E0 s))                           (* go EH *)
  | B3 => Some (set_body B4 (set_ctxDone (parentDone s) (set_cancelSet true s)))   (* ctx, s.cancel = WithCancel(ctx) *)
  | B4 => Some (set_body B5 (set_wg (S (wg s)) s))
  | B5 => Some (set_body B6 (set_sd D0 s))                           (* go SD *)
  | B6 => Some (set_body B7 (set_wg (S (wg s)) s))
  | B7 => Some (set_body B8 (set_mn M0 s))                           (* go MAIN *)
  | B8 => Some (set_body B9 (set_fSta true s))                       (* deferred isStarted.Store(true) *)
  | B9 => Some (set_caller i (SRet SNil) (set_body BDone s))         (* Do returns; return err (= nil) *)
  | _ => None
  end.

Definition step_caller (s : state) (i : nat) : option state :=
  match nth_error (callers s) i with
  | None => None
  | Some pc =>
    match pc with
    (* Start *)
    | S0 => Some (set_caller i (if fFin s then SRet SReturned else S1) s)
    | S1 => match body s with
            | BNone => Some (set_caller i SBody (set_body B0 s))     (* this call runs the once body *)
            | BDone => Some (set_caller i (SRet SAlready) s)         (* once already done: err stays AlreadyStarted *)
            | _ => None                                             (* sync.Once.Do blocks while the body runs *)
            end
    | SBody => step_body s i
    (* Wait *)
    | W0 => Some (set_caller i (if fFin s then W3 else W1) s)
    | W1 => Some (set_caller i (if fSta s then W2 else WRet WNotStarted) s)
    | W2 => match wg s with O => Some (set_caller i W3 s) | _ => None end
    | W3 => Some (set_caller i (WRet (resolve (ec s))) s)
    (* Close *)
    | C0 => Some (set_caller i (if fRun s then C1 else CRet) s)
    | C1 => Some (set_caller i (if cancelSet s then C2 else CRet) s)
    | C2 => Some (set_caller i CRet (set_ctxDone true s))
    (* Running *)
    | R0 => Some (set_caller i (if fRun s then R1 else RRet false) s)
    | R1 => Some (set_caller i (RRet (negb (fFin s))) s)
    | _ => None
    end
  end.

Definition step_eh (c : cfg) (s : state) : option state :=
  match eh s with
  | E0 => if mainSig s then Some (set_eh E1 s) else None             (* <-mainSignal *)
  | E1 => if ehSig s then Some (set_eh E2 s) else None               (* <-ehSignal *)
  | E2 => Some (set_eh (if is_absent (oEh c) then E7 else E3) s)     (* eh := Get(); if eh != nil *)
  | E3 => Some (set_eh (if ec_is_empty (ec s) then E6n else E4) s)   (* ec.Resolve() != nil ? *)
  | E6 => Some (set_eh E7 (if is_panic (oEh c) then set_ec (add_EhPan (ec s)) s else s))  (* inner Recover *)
  | E6n => Some (set_eh E7 s)
  | E7 => Some (set_eh E8 s)                                         (* outer Recover: nothing to recover *)
  | E8 => Some (set_eh EDone (set_wg (pred (wg s)) s))               (* wg.Done *)
  | _ => None
  end.

Definition step_sd (c : cfg) (s : state) : option state :=
  match sd s with
  | D0 => if ctxDone s then Some (set_sd (if is_absent (oSd c) then D4n else D1) s) else None   (* <-ctx.Done() *)
  | D3 => Some (set_sd D4 (if is_err (oSd c) then set_ec (add_SdErr (ec s)) s else s))          (* ec.Add(result) *)
  | D4 => Some (set_sd D5 (if is_panic (oSd c) then set_ec (add_SdPan (ec s)) s else s))        (* Recover *)
  | D4n => Some (set_sd D5 s)
  | D5 => Some (set_sd D6 (set_sdSig true s))                        (* close(shutdownSignal) *)
  | D6 => Some (set_sd DDone (set_wg (pred (wg s)) s))               (* wg.Done *)
  | _ => None
  end.

Definition step_main (c : cfg) (s : state) : option state :=
  match mn s with
  | M0 => if is_absent (oRun c) then Some (set_mn M3 s) else None    (* s.Run == nil: the call panics *)
  | M2 => Some (set_mn M3 (if is_err (oRun c) then set_ec (add_RunErr (ec s)) s else s))   (* ec.Add(result) *)
  | M3 => Some (set_mn M4 (set_ctxDone true s))                      (* deferred s.cancel() *)
  | M4 => Some (set_mn M5 (if is_panic (oRun c) then set_ec (add_RunPan (ec s)) s
                           else if is_absent (oRun c) then set_ec (add_Mark (ec s)) s else s))   (* Recover *)
  | M5 => if sdSig s then Some (set_mn M6 s) else None               (* <-shutdownSignal *)
  | M6 => Some (set_mn M7 (set_ehSig true s))                        (* close(ehSignal) *)
  | M7 => if is_absent (oCl c) then Some (set_mn M11 s) else None    (* no Cleanup: nothing deferred *)
  | M9 => Some (set_mn M10 (if is_err (oCl c) then set_ec (add_ClErr (ec s)) s else s))
  | M10 => Some (set_mn M11 (if is_panic (oCl c) then set_ec (add_ClPan (ec s)) s else s))
  | M11 => Some (set_mn M12 (set_fFin true s))                       (* isFinished.Store(true) *)
  | M12 => Some (set_mn M13 (set_fRun false s))                      (* isRunning.Store(false) *)
  | M13 => Some (set_mn M14 (set_mainSig true s))                    (* close(mainSignal) *)
  | M14 => Some (set_mn MDone (set_wg (pred (wg s)) s))              (* wg.Done *)
  | _ => None
  end.

Definition step_tau (c : cfg) (s : state) (t : thread) : option state :=
  match t with
  | TCaller i => step_caller s i
  | TEh => step_eh c s
  | TSd => step_sd c s
  | TMain => step_main c s
  end.

(* ---------------------------------------------------------------- visible steps *)

Definition start_pc (k : ckind) : cpc :=
  match k with KStart => S0 | KWait => W0 | KClose => C0 | KRunning => R0 end.

Definition step_begin (c : cfg) (s : state) (p : phase) : option state :=
  match p with
  | PRun => match mn s with M0 => if is_absent (oRun c) then None else Some (set_mn M1 s) | _ => None end
  | PSd => match sd s with D1 => Some (set_sd D2 s) | _ => None end
  | PCl => match mn s with M7 => if is_absent (oCl c) then None else Some (set_mn M8 s) | _ => None end
  | PEh => match eh s with E4 => Some (set_eh E5 s) | _ => None end
  end.

Definition step_end (c : cfg) (s : state) (p : phase) : option state :=
  match p with
  | PRun => match mn s with M1 => Some (set_mn (if is_panic (oRun c) then M3 else M2) s) | _ => None end
  | PSd => match sd s with D2 => Some (set_sd (if is_panic (oSd c) then D4 else D3) s) | _ => None end
  | PCl => match mn s with M8 => Some (set_mn (if is_panic (oCl c) then M10 else M9) s) | _ => None end
  | PEh => match eh s with E5 => Some (set_eh E6 s) | _ => None end
  end.

Definition sres_eqb (a b : sres) : bool :=
  match a, b with SNil, SNil | SAlready, SAlready | SReturned, SReturned => true | _, _ => false end.

Definition ecs_eqb (a b : ecs) : bool :=
  Bool.eqb (tRunErr a) (tRunErr b) && Bool.eqb (tRunPan a) (tRunPan b) && Bool.eqb (tSdErr a) (tSdErr b) &&
  Bool.eqb (tSdPan a) (tSdPan b) && Bool.eqb (tClErr a) (tClErr b) && Bool.eqb (tClPan a) (tClPan b) &&
  Bool.eqb (tEhPan a) (tEhPan b) && Bool.eqb (tMark a) (tMark b).

Definition wres_eqb (a b : wres) : bool :=
  match a, b with
  | WNil, WNil | WNotStarted, WNotStarted => true
  | WAgg x, WAgg y => ecs_eqb x y
  | _, _ => false
  end.

Definition step_ret (s : state) (i : nat) (r : result) : option state :=
  match nth_error (callers s) i, r with
  | Some (SRet a), RStart b => if sres_eqb a b then Some (set_caller i Gone s) else None
  | Some (WRet a), RWait b => if wres_eqb a b then Some (set_caller i Gone s) else None
  | Some CRet, RClose => Some (set_caller i Gone s)
  | Some (RRet a), RRunning b => if Bool.eqb a b then Some (set_caller i Gone s) else None
  | _, _ => None
  end.

Definition step (c : cfg) (s : state) (l : label) : option state :=
  match l with
  | LInv k => Some (set_callers (callers s ++ [start_pc k]) s)
  | LTau t => step_tau c s t
  | LBegin p => step_begin c s p
  | LEnd p => step_end c s p
  | LRet i r => step_ret s i r
  | LYield HChecked i => match nth_error (callers s) i with Some S1 => Some s | _ => None end
  | LYield HLaunched i => match nth_error (callers s) i, body s with Some SBody, B8 => Some s | _, _ => None end
  | LYieldMain => match mn s with M12 => Some s | _ => None end
  | LParentCancel => Some (set_parentDone true (if cancelSet s then set_ctxDone true s else s))
  end.

Fixpoint run (c : cfg) (s : state) (ls : list label) : option state :=
  match ls with
  | [] => Some s
  | l :: ls' => match step c s l with Some s' => run c s' ls' | None => None end
  end.
