(* Code-level executable model of pubsub.Deque (/repo/pubsub/deque.go) and of the
   three limit trackers (/repo/pubsub/tracker.go).  Model only - no proofs here.

   Heap: a total function from addresses (nat) to nodes {item; next; prev};
   address 0 is the root sentinel created by makeDeque (root.next = root.prev =
   root); addAfter allocates the address `nxt` and performs the code's four
   pointer writes in the code's order; pop performs the code's two writes and
   leaves the removed element's own pointers alone, as the code does.

   `int` is modelled by Z (no overflow: lengths stay far below 2^63); the quota
   tracker's burst credit is a Go float64 = Coq primitive float (IEEE binary64).

   Blocking operations (WaitFront/WaitBack/WaitPushFront/WaitPushBack) are in
   *try-form*: the result `RBlocked` stands for "the operation would park on a
   condition variable"; called with an already-cancelled context the code
   returns the context error in exactly these states and changes nothing.
   The model is the code as repaired by fixes_pending/C06-deque-wakeups.diff:
   waitPop pops first and waits (on the root) only when that pop failed. *)
From FunV Require Import Base.Tac.
From Coq Require Import PrimFloat.
From Coq Require Uint63.
Local Open Scope Z_scope.

(* ------------------------------------------------------------------ errors *)

(* error kinds: nil, ErrQueueFull, ErrQueueNoCredit, ErrQueueClosed, context error *)
Inductive err := ENil | EFull | ENoCredit | EClosed | ECtx.

Definition err_eqb (a b : err) : bool :=
  match a, b with
  | ENil, ENil | EFull, EFull | ENoCredit, ENoCredit | EClosed, EClosed | ECtx, ECtx => true
  | _, _ => false
  end.

(* ------------------------------------------------------------------ trackers (tracker.go) *)

Definition max_int : Z := 9223372036854775807.   (* math.MaxInt *)

Definition f_of_Z (z : Z) : float := PrimFloat.of_uint63 (Uint63.of_Z z).   (* float64(int), used for small non-negative ints *)

Inductive tracker :=
| TNoLimit (length : Z)                                         (* queueNoLimitTrackerImpl *)
| THard (capacity length : Z)                                   (* queueHardLimitTracker *)
| TQuota (softQuota hardLimit length : Z) (credit : float).     (* queueLimitTrackerImpl *)

Definition t_len (t : tracker) : Z :=
  match t with TNoLimit l => l | THard _ l => l | TQuota _ _ l _ => l end.

Definition t_cap (t : tracker) : Z :=
  match t with TNoLimit _ => max_int | THard c _ => c | TQuota sq _ _ _ => sq end.

(* add(): the new tracker and the error (on error the tracker is unchanged) *)
Definition t_add (t : tracker) : tracker * err :=
  match t with
  | TNoLimit l => (TNoLimit (l + 1), ENil)
  | THard c l => if c <=? l then (t, EFull) else (THard c (l + 1), ENil)
  | TQuota sq hl l cr =>
      if sq <=? l then
        if l =? hl then (t, EFull)
        else if PrimFloat.ltb cr 1%float then (t, ENoCredit)
        else (* q.credit--; q.softQuota = q.length + 1; q.length++ *)
             (TQuota (l + 1) hl (l + 1) (PrimFloat.sub cr 1%float), ENil)
      else (TQuota sq hl (l + 1) cr, ENil)
  end.

Definition t_remove (t : tracker) : tracker :=
  match t with
  | TNoLimit l => if l =? 0 then t else TNoLimit (l - 1)
  | THard c l => if l =? 0 then t else THard c (l - 1)
  | TQuota sq hl l cr =>
      let l1 := l - 1 in                                        (* q.length-- *)
      if l1 <? sq then
        let sq1 := if (1 <? sq) && (l1 <? Z.quot sq 2) then sq - 1 else sq in
        let cr1 := PrimFloat.add cr (PrimFloat.div (f_of_Z (sq1 - l1)) (f_of_Z sq1)) in
        let lencap := f_of_Z (hl - sq1) in
        let cr2 := if PrimFloat.ltb lencap cr1 then lencap else cr1 in
        TQuota sq1 hl l1 cr2
      else TQuota sq hl l1 cr
  end.

(* ------------------------------------------------------------------ options (Validate, NewDeque) *)

Record qopts := mkQ { q_hard : Z; q_soft : Z; q_burst : float }.
Record dopts := mkD { d_unlimited : bool; d_capacity : Z; d_qopts : option qopts }.

(* QueueOptions.Validate: None = error, Some = the (mutated) options *)
Definition validate_q (o : qopts) : option qopts :=
  if (q_hard o <=? 0) || (q_hard o <? q_soft o) then None
  else if PrimFloat.ltb (q_burst o) 0%float then None
  else
    let sq := if q_soft o <=? 0 then q_hard o else q_soft o in
    let bc := if PrimFloat.eqb (q_burst o) 0%float then f_of_Z sq else q_burst o in
    Some (mkQ (q_hard o) sq bc).

(* DequeOptions.Validate, branch by branch *)
Definition validate_d (o : dopts) : option dopts :=
  let step1 : option dopts :=
    match d_qopts o with
    | Some q => match validate_q q with
                | None => None
                | Some q' => Some (mkD (d_unlimited o) (d_capacity o) (Some q'))
                end
    | None =>
        if d_unlimited o && (d_capacity o =? 0) then Some o       (* return nil *)
        else if d_capacity o <=? 0 then Some (mkD (d_unlimited o) 1 None)
        else Some o
    end in
  match step1 with
  | None => None
  | Some o1 =>
      match d_qopts o1 with
      | None => if d_unlimited o && (d_capacity o =? 0) then Some o1 (* the early return *)
                else if d_unlimited o1 then None else Some o1
      | Some _ =>
          if 0 <? d_capacity o1 then None
          else if d_unlimited o1 then None
          else Some o1
      end
  end.

Definition new_tracker (o : dopts) : option tracker :=
  match d_qopts o with
  | Some q => Some (TQuota (q_soft q) (q_hard q) 0 (q_burst q))
  | None => if 0 <? d_capacity o then Some (THard (d_capacity o) 0)
            else if d_unlimited o then Some (TNoLimit 0)
            else None
  end.

(* ------------------------------------------------------------------ heap *)

Record node := mkNode { item : Z; next : nat; prev : nat }.
Definition heap := nat -> node.

Definition upd (h : heap) (a : nat) (n : node) : heap :=
  fun b => if Nat.eqb b a then n else h b.
Definition set_next (h : heap) (a x : nat) : heap := upd h a (mkNode (item (h a)) x (prev (h a))).
Definition set_prev (h : heap) (a x : nat) : heap := upd h a (mkNode (item (h a)) (next (h a)) x).

Definition ROOT : nat := 0%nat.

Record deque := mkDeque { hp : heap; nxt : nat; trk : tracker; closed : bool }.

(* makeDeque: root.next = root; root.prev = root *)
Definition make_deque (t : tracker) : deque :=
  mkDeque (fun _ => mkNode 0 ROOT ROOT) 1%nat t false.

Definition new_deque (o : dopts) : option deque :=
  match validate_d o with
  | None => None
  | Some o' => match new_tracker o' with None => None | Some t => Some (make_deque t) end
  end.

(* the four writes of addAfter, in order, for the freshly allocated element n *)
Definition ins_after (h : heap) (after n : nat) (v : Z) : heap :=
  let h0 := upd h n (mkNode v ROOT ROOT) in            (* it := &element{item: value} *)
  let h1 := set_prev h0 n after in                     (* it.prev = after *)
  let h2 := set_next h1 n (next (h1 after)) in         (* it.next = after.next *)
  let h3 := set_next h2 (prev (h2 n)) n in             (* it.prev.next = it *)
  set_prev h3 (next (h3 n)) n.                         (* it.next.prev = it *)

Definition add_after (d : deque) (v : Z) (after : nat) : deque * err :=
  if closed d then (d, EClosed)
  else
    let '(t', e) := t_add (trk d) in
    match e with
    | ENil => (mkDeque (ins_after (hp d) after (nxt d) v) (S (nxt d)) t' (closed d), ENil)
    | _ => (d, e)
    end.

(* the two writes of pop *)
Definition unlink (h : heap) (it : nat) : heap :=
  let h1 := set_next h (prev (h it)) (next (h it)) in   (* it.prev.next = it.next *)
  set_prev h1 (next (h1 it)) (prev (h1 it)).            (* it.next.prev = it.prev *)

Definition pop (d : deque) (it : nat) : deque * option Z :=
  if closed d || Nat.eqb it ROOT then (d, None)
  else
    let h2 := unlink (hp d) it in
    (mkDeque h2 (nxt d) (t_remove (trk d)) (closed d), Some (item (h2 it))).

Definition front_of (d : deque) : nat := next (hp d ROOT).   (* dq.root.next *)
Definition back_of (d : deque) : nat := prev (hp d ROOT).    (* dq.root.prev *)

(* ------------------------------------------------------------------ operations *)

Inductive op :=
| PushFront (v : Z) | PushBack (v : Z) | PopFront | PopBack
| ForcePushFront (v : Z) | ForcePushBack (v : Z)
| WaitFront | WaitBack | WaitPushFront (v : Z) | WaitPushBack (v : Z)
| Len | Close.

Inductive res :=
| RErr (e : err)          (* pushes, Close, failed waits *)
| RPop (o : option Z)     (* PopFront/PopBack: (v, ok) *)
| RGot (v : Z)            (* WaitFront/WaitBack returned v, nil *)
| RLen (n : Z)
| RBlocked.               (* would park; try-form: returns the context error, no effect *)

(* waitPop (repaired): pop the end element; when that fails, root.wait: closed -> ErrQueueClosed, else park *)
Definition wait_pop (d : deque) (it : nat) : deque * res :=
  match pop d it with
  | (d', Some v) => (d', RGot v)
  | (_, None) => if closed d then (d, RErr EClosed) else (d, RBlocked)
  end.

(* waitPushAfter: fast path when cap > len; otherwise closed -> ErrQueueClosed, else park *)
Definition wait_push (d : deque) (v : Z) (back : bool) : deque * res :=
  if t_len (trk d) <? t_cap (trk d) then
    let '(d', e) := add_after d v (if back then back_of d else ROOT) in (d', RErr e)
  else if closed d then (d, RErr EClosed) else (d, RBlocked).

Definition step (d : deque) (o : op) : deque * res :=
  match o with
  | PushFront v => let '(d', e) := add_after d v ROOT in (d', RErr e)
  | PushBack v => let '(d', e) := add_after d v (back_of d) in (d', RErr e)
  | PopFront => let '(d', r) := pop d (front_of d) in (d', RPop r)
  | PopBack => let '(d', r) := pop d (back_of d) in (d', RPop r)
  | ForcePushFront v =>
      let d1 := if t_cap (trk d) =? t_len (trk d) then fst (pop d (back_of d)) else d in
      let '(d', e) := add_after d1 v ROOT in (d', RErr e)
  | ForcePushBack v =>
      let d1 := if t_cap (trk d) =? t_len (trk d) then fst (pop d (front_of d)) else d in
      let '(d', e) := add_after d1 v (back_of d1) in (d', RErr e)
  | WaitFront => wait_pop d (front_of d)
  | WaitBack => wait_pop d (back_of d)
  | WaitPushFront v => wait_push d v false
  | WaitPushBack v => wait_push d v true
  | Len => (d, RLen (t_len (trk d)))
  | Close => (mkDeque (hp d) (nxt d) (trk d) true, RErr ENil)
  end.

Fixpoint run (d : deque) (ops : list op) : deque * list res :=
  match ops with
  | [] => (d, [])
  | o :: ops' => let '(d1, r) := step d o in
                 let '(d2, rs) := run d1 ops' in (d2, r :: rs)
  end.

(* contents by walking next (front to back) / prev (back to front) from the root, at most n elements *)
Fixpoint walk_next (h : heap) (a : nat) (n : nat) : list Z :=
  match n with
  | O => []
  | S n' => let b := next (h a) in
            if Nat.eqb b ROOT then [] else item (h b) :: walk_next h b n'
  end.
Fixpoint walk_prev (h : heap) (a : nat) (n : nat) : list Z :=
  match n with
  | O => []
  | S n' => let b := prev (h a) in
            if Nat.eqb b ROOT then [] else item (h b) :: walk_prev h b n'
  end.
Definition contents (d : deque) : list Z := walk_next (hp d) ROOT (nxt d).
Definition contents_bwd (d : deque) : list Z := walk_prev (hp d) ROOT (nxt d).

(* ------------------------------------------------------------------ abstract specification *)

(* a two-ended list with the same tracker arithmetic and a closed flag *)
Record spec := mkSpec { items : list Z; strk : tracker; sclosed : bool }.

Definition s_push (s : spec) (v : Z) (back : bool) : spec * err :=
  if sclosed s then (s, EClosed)
  else let '(t', e) := t_add (strk s) in
       match e with
       | ENil => (mkSpec (if back then items s ++ [v] else v :: items s) t' (sclosed s), ENil)
       | _ => (s, e)
       end.

Definition s_pop (s : spec) (back : bool) : spec * option Z :=
  if sclosed s then (s, None)
  else match items s with
       | [] => (s, None)
       | x :: tl =>
           if back then (mkSpec (removelast (items s)) (t_remove (strk s)) (sclosed s), Some (last (items s) 0))
           else (mkSpec tl (t_remove (strk s)) (sclosed s), Some x)
       end.

Definition s_wait_pop (s : spec) (back : bool) : spec * res :=
  match s_pop s back with
  | (s', Some v) => (s', RGot v)
  | (_, None) => if sclosed s then (s, RErr EClosed) else (s, RBlocked)
  end.

Definition s_wait_push (s : spec) (v : Z) (back : bool) : spec * res :=
  if t_len (strk s) <? t_cap (strk s) then let '(s', e) := s_push s v back in (s', RErr e)
  else if sclosed s then (s, RErr EClosed) else (s, RBlocked).

Definition s_step (s : spec) (o : op) : spec * res :=
  match o with
  | PushFront v => let '(s', e) := s_push s v false in (s', RErr e)
  | PushBack v => let '(s', e) := s_push s v true in (s', RErr e)
  | PopFront => let '(s', r) := s_pop s false in (s', RPop r)
  | PopBack => let '(s', r) := s_pop s true in (s', RPop r)
  | ForcePushFront v =>
      let s1 := if t_cap (strk s) =? t_len (strk s) then fst (s_pop s true) else s in
      let '(s', e) := s_push s1 v false in (s', RErr e)
  | ForcePushBack v =>
      let s1 := if t_cap (strk s) =? t_len (strk s) then fst (s_pop s false) else s in
      let '(s', e) := s_push s1 v true in (s', RErr e)
  | WaitFront => s_wait_pop s false
  | WaitBack => s_wait_pop s true
  | WaitPushFront v => s_wait_push s v false
  | WaitPushBack v => s_wait_push s v true
  | Len => (s, RLen (t_len (strk s)))
  | Close => (mkSpec (items s) (strk s) true, RErr ENil)
  end.

Fixpoint s_run (s : spec) (ops : list op) : spec * list res :=
  match ops with
  | [] => (s, [])
  | o :: ops' => let '(s1, r) := s_step s o in
                 let '(s2, rs) := s_run s1 ops' in (s2, r :: rs)
  end.

Definition spec_of_tracker (t : tracker) : spec := mkSpec [] t false.

(* the fixed upper bound on the number of items: None = unlimited *)
Definition hard_cap (t : tracker) : option Z :=
  match t with TNoLimit _ => None | THard c _ => Some c | TQuota _ hl _ _ => Some hl end.
