(* Model/QueueMonitor.v — pubsub.Queue (/repo/pubsub/queue.go, tracker.go, buffer.go) as an instance of
   Conc/Monitor.v, and an executable version of the monitor's step relation.   Model only, no proofs.

   PART 1 (generic, used by the Queue and the Deque instance): `exec_step`, an executable step function
   for Conc/Monitor.v whose labels carry the scheduler's choices (which parked thread a Signal wakes), so
   that a recorded schedule can be replayed with vm_compute.  Its soundness w.r.t. `step` is proved in
   Proofs/QueueMonitor_exec.v.

   PART 2: the three limit trackers of tracker.go (shared with the Deque), transcribed.

   PART 3: the Queue.  Data = (items, tracker, closed, ver) where `ver` is the number of entries ever
   appended (= the index of q.back in the chain of entries; popFront no longer touches q.back since
   fixes_pending/C20-queue-cursor.diff) — this is all that waitForNew's predicate `head.link == nil` reads: the
   entry with index `seen` has a successor iff seen < ver.  Conds: nempty = 0, nupdates = 1.  Who signals what is EXACTLY the code's:
     doAdd      Signal nempty iff tracker.len() == 1 after the add; then notifies nupdates — Broadcast in
                the code as repaired by fixes_pending/C20-nupdates-broadcast.diff (`bc = true`), Signal in
                the code before it (`bc = false`, kept to state what was wrong: DESIGN section 9 #20);
     popFront   Broadcast nupdates;
     Close      Broadcast nupdates, Broadcast nempty;
   waiters:
     Wait / Distributor.Receive's Wait   on nempty,   parks while len == 0 (exit: closed, ctx); helper spawned
                                                      before the loop (eager);
     BlockingAdd                         on nupdates, parks while cap() <= len  — cap() is the SOFT quota for
                                                      the quota tracker; closed is checked first, and (after
                                                      fixes_pending/C07-blockingadd-closed.diff) in the loop;
     waitForNew (iterators)              on nupdates, parks while the entry it has last seen has no successor.
   Every waiter's exit runs `defer cancel()`, which releases its helper goroutine
   `go func(){ <-ctx.Done(); mu.Lock(); cond.Broadcast(); mu.Unlock() }()` — that is Monitor.v's `exit_pending`; the
   helper broadcasts under the mutex since fixes_pending/C07-helper-broadcast-locked.diff (Monitor.v's
   `helper_locked = true`; the shape before, `<-ctx.Done(); cond.Broadcast()`, is `helper_locked = false`). *)
From FunV Require Import Base.Tac Conc.Monitor.
From Coq Require Import PrimFloat.
From Coq Require Uint63.

Arguments dat {Data}.  Arguments lock {Data}.  Arguments thr {Data}.  Arguments ended {Data}.
Arguments helper {Data}.  Arguments pendingB {Data}.  Arguments mkState {Data}.
Arguments OEffect {Data}.  Arguments OWaiter {Data}.  Arguments mkWaiter {Data}.
Arguments w_cond {Data}.  Arguments w_P {Data}.  Arguments w_closed {Data}.  Arguments w_succ {Data}.
Arguments w_eager {Data}.  Arguments w_wake {Data}.

(* ================================================================== PART 1: executable monitor steps *)

Inductive elabel :=
| EInvoke (t : tid)
| EAcquire (t : tid)
| EBody (t : tid) (targets : list (option tid))   (* one entry per `Signal` the body performs, in order:
                                                     the parked thread it wakes, None = nobody is parked *)
| EPark (t : tid)
| ECtxEnd (t : tid)
| EHelper (c : cond)
| ESpurious (t : tid).

Definition erase (l : elabel) : label :=
  match l with
  | EInvoke t => LInvoke t | EAcquire t => LAcquire t | EBody t _ => LBody t | EPark t => LPark t
  | ECtxEnd t => LCtxEnd t | EHelper c => LHelper c | ESpurious t => LSpurious t
  end.

Section Exec.
Variable Data : Type.
Variable prog : tid -> op Data.
Variable hl : bool.          (* helper_locked *)
Variable n : nat.            (* only threads 0..n-1 are ever invoked *)

Definition parked_on (th : tid -> tstate) (c : cond) (u : tid) : bool :=
  match th u, cond_of Data prog u with
  | Parked, Some c' => Nat.eqb c' c
  | _, _ => false
  end.

Fixpoint exec_sigs (sg : list sig) (tg : list (option tid)) (th : tid -> tstate) : option (tid -> tstate) :=
  match sg with
  | [] => match tg with [] => Some th | _ => None end
  | Broadcast c :: r => exec_sigs r tg (wake_all Data prog c th)
  | Signal c :: r =>
      match tg with
      | Some u :: tg' => if parked_on th c u then exec_sigs r tg' (upd th u Woken) else None
      | None :: tg' => if forallb (fun u => negb (parked_on th c u)) (seq 0 n) then exec_sigs r tg' th else None
      | [] => None
      end
  end.

Definition is_none {A} (o : option A) : bool := match o with None => true | Some _ => false end.

Definition exec_step (s : state Data) (l : elabel) : option (state Data) :=
  match l with
  | EInvoke t =>
      match thr s t with
      | Idle => if Nat.ltb t n then Some (mkState (dat s) (lock s) (upd (thr s) t WantLock) (ended s) (helper s) (pendingB s)) else None
      | _ => None
      end
  | EAcquire t =>
      if is_none (lock s) then
        match thr s t with
        | WantLock =>
            match prog t with
            | OEffect _ => Some (mkState (dat s) (Some t) (upd (thr s) t (InCrit true)) (ended s) (helper s) (pendingB s))
            | OWaiter w =>
                Some (mkState (dat s) (Some t) (upd (thr s) t (InCrit true)) (ended s)
                        (if w_eager w && negb (ended s t) then upd (helper s) t true else helper s)
                        (if w_eager w && ended s t then w_cond w :: pendingB s else pendingB s))
            end
        | Woken => Some (mkState (dat s) (Some t) (upd (thr s) t (InCrit false)) (ended s) (helper s) (pendingB s))
        | _ => None
        end
      else None
  | EBody t tg =>
      match thr s t with
      | InCrit b =>
          match prog t with
          | OEffect e =>
              let '(d', sg) := e (dat s) in
              match exec_sigs sg tg (thr s) with
              | Some th' => Some (mkState d' None (upd th' t (Done ROk)) (ended s) (helper s) (pendingB s))
              | None => None
              end
          | OWaiter w =>
              if w_P w (dat s) then
                let '(d', sg) := w_succ w (dat s) in
                match exec_sigs sg tg (thr s) with
                | Some th' => Some (mkState d' None (upd th' t (Done ROk)) (ended s) (upd (helper s) t false)
                                            (exit_pending Data s t (w_cond w)))
                | None => None
                end
              else match tg with _ :: _ => None | [] =>
                if w_closed w (dat s) then
                  Some (mkState (dat s) None (upd (thr s) t (Done RClosed)) (ended s) (upd (helper s) t false)
                                (exit_pending Data s t (w_cond w)))
                else if ended s t then
                  Some (mkState (dat s) None (upd (thr s) t (Done RCancelled)) (ended s) (upd (helper s) t false)
                                (exit_pending Data s t (w_cond w)))
                else
                  Some (mkState (dat s) (lock s) (upd (thr s) t Parking) (ended s)
                                (if b && negb (w_eager w) then upd (helper s) t true else helper s) (pendingB s))
              end
          end
      | _ => None
      end
  | EPark t =>
      match thr s t with
      | Parking => Some (mkState (dat s) None (upd (thr s) t Parked) (ended s) (helper s) (pendingB s))
      | _ => None
      end
  | ECtxEnd t =>
      match prog t with
      | OWaiter w =>
          if ended s t then None
          else Some (mkState (dat s) (lock s) (thr s) (upd (ended s) t true) (upd (helper s) t false)
                             (if helper s t then w_cond w :: pendingB s else pendingB s))
      | OEffect _ => None
      end
  | EHelper c =>
      if existsb (Nat.eqb c) (pendingB s) && (negb hl || is_none (lock s)) then
        Some (mkState (dat s) (lock s) (wake_all Data prog c (thr s)) (ended s) (helper s) (remove_one c (pendingB s)))
      else None
  | ESpurious t =>
      match thr s t with
      | Parked => Some (mkState (dat s) (lock s) (upd (thr s) t Woken) (ended s) (helper s) (pendingB s))
      | _ => None
      end
  end.

Fixpoint exec_run (s : state Data) (ls : list elabel) : option (state Data) :=
  match ls with
  | [] => Some s
  | l :: r => match exec_step s l with Some s' => exec_run s' r | None => None end
  end.

(* decidable quiescence over the threads 0..n-1 *)
Definition quiescentb (s : state Data) : bool :=
  is_none (lock s) && match pendingB s with [] => true | _ => false end &&
  forallb (fun t => negb (runnable (thr s t))) (seq 0 n).

End Exec.

Arguments exec_step {Data}.  Arguments exec_run {Data}.  Arguments quiescentb {Data}.

(* the usual life of an effect thread / of a waiter's first pass, as label lists *)
Definition run_effect (t : tid) (tg : list (option tid)) : list elabel := [EInvoke t; EAcquire t; EBody t tg].
Definition run_to_park (t : tid) : list elabel := [EInvoke t; EAcquire t; EBody t []; EPark t].
Definition run_recheck (t : tid) (tg : list (option tid)) : list elabel := [EAcquire t; EBody t tg].
Definition run_repark (t : tid) : list elabel := [EAcquire t; EBody t []; EPark t].

(* ================================================================== PART 2: trackers (tracker.go) *)

Local Open Scope Z_scope.

(* error kinds: nil, ErrQueueFull, ErrQueueNoCredit, ErrQueueClosed, context error *)
Inductive err := ENil | EFull | ENoCredit | EClosed | ECtx.

Definition err_eqb (a b : err) : bool :=
  match a, b with
  | ENil, ENil | EFull, EFull | ENoCredit, ENoCredit | EClosed, EClosed | ECtx, ECtx => true
  | _, _ => false
  end.

Definition max_int : Z := 9223372036854775807.   (* math.MaxInt *)

Definition f_of_Z (z : Z) : float := PrimFloat.of_uint63 (Uint63.of_Z z).   (* float64(int) for small non-negative ints *)

Inductive tracker :=
| TNoLimit (length : Z)                                         (* queueNoLimitTrackerImpl *)
| THard (capacity length : Z)                                   (* queueHardLimitTracker *)
| TQuota (softQuota hardLimit length : Z) (credit : float).     (* queueLimitTrackerImpl *)

Definition t_len (t : tracker) : Z :=
  match t with TNoLimit l => l | THard _ l => l | TQuota _ _ l _ => l end.

(* cap(): for the quota tracker this is the SOFT quota *)
Definition t_cap (t : tracker) : Z :=
  match t with TNoLimit _ => max_int | THard c _ => c | TQuota sq _ _ _ => sq end.

(* add(): the new tracker and the error (on error the tracker is unchanged) *)
Definition t_add (t : tracker) : tracker * err :=
  match t with
  | TNoLimit l => (TNoLimit (l + 1), ENil)
  | THard c l => if c <=? l then (t, EFull) else (THard c (l + 1), ENil)
  | TQuota sq hl l cr =>
      if sq <=? l then
        if l =? hl then (t, EFull)
        else if PrimFloat.ltb cr 1%float then (t, ENoCredit)
        else (* q.credit--; q.softQuota = q.length + 1; q.length++ *)
             (TQuota (l + 1) hl (l + 1) (PrimFloat.sub cr 1%float), ENil)
      else (TQuota sq hl (l + 1) cr, ENil)
  end.

Definition t_remove (t : tracker) : tracker :=
  match t with
  | TNoLimit l => if l =? 0 then t else TNoLimit (l - 1)
  | THard c l => if l =? 0 then t else THard c (l - 1)
  | TQuota sq hl l cr =>
      let l1 := l - 1 in                                        (* q.length-- *)
      if l1 <? sq then
        let sq1 := if (1 <? sq) && (l1 <? Z.quot sq 2) then sq - 1 else sq in
        let cr1 := PrimFloat.add cr (PrimFloat.div (f_of_Z (sq1 - l1)) (f_of_Z sq1)) in
        let lencap := f_of_Z (hl - sq1) in
        let cr2 := if PrimFloat.ltb lencap cr1 then lencap else cr1 in
        TQuota sq1 hl l1 cr2
      else TQuota sq hl l1 cr
  end.

(* the predicate of every capacity waiter: tracker.cap() > tracker.len() *)
Definition has_room (t : tracker) : bool := t_len t <? t_cap t.

(* ================================================================== PART 3: the Queue *)

Definition NEMPTY : cond := 0%nat.
Definition NUPDATES : cond := 1%nat.

Record qdata := mkQD { q_items : list Z; q_trk : tracker; q_closed : bool; q_ver : Z }.

(* results of the public operations, as the harness observes them *)
Inductive res := RErr (e : err) | RVal (v : Z) | RNone | RUnit.

(* doAdd: (new data, signals, returned error).  bc: nupdates is Broadcast (repaired code) / Signalled (before) *)
Definition do_add (bc : bool) (v : Z) (d : qdata) : qdata * list sig * err :=
  if q_closed d then (d, [], EClosed)
  else
    let '(t', e) := t_add (q_trk d) in
    match e with
    | ENil =>
        (mkQD (q_items d ++ [v]) t' (q_closed d) (q_ver d + 1),
         (if t_len t' =? 1 then [Signal NEMPTY] else []) ++ [if bc then Broadcast NUPDATES else Signal NUPDATES],
         ENil)
    | _ => (d, [], e)
    end.

(* popFront (precondition: not empty) *)
Definition pop_front (d : qdata) : qdata * list sig * res :=
  match q_items d with
  | [] => (d, [], RNone)                     (* unreachable: the code would dereference nil *)
  | x :: r =>
      (mkQD r (t_remove (q_trk d)) (q_closed d) (q_ver d), [Broadcast NUPDATES], RVal x)
  end.

Definition do_remove (d : qdata) : qdata * list sig * res :=
  if t_len (q_trk d) =? 0 then (d, [], RNone) else pop_front d.

Definition do_close (d : qdata) : qdata * list sig * res :=
  (mkQD (q_items d) (q_trk d) true (q_ver d), [Broadcast NUPDATES; Broadcast NEMPTY], RUnit).

Inductive qop :=
| QAdd (v : Z)             (* Queue.Add, Distributor.Send *)
| QRemove                  (* Queue.Remove; first half of Distributor.Receive *)
| QClose
| QLen
| QWait                    (* Queue.Wait; second half of Distributor.Receive *)
| QBlockingAdd (v : Z)
| QIterWait (seen : Z).    (* Producer's waitForNew(ctx, cursor) where cursor is the entry with index `seen` *)

(* the critical section of an operation run to completion from d (for a waiter: its success part):
   new data, signals, result *)
Definition qop_run (bc : bool) (o : qop) (d : qdata) : qdata * list sig * res :=
  match o with
  | QAdd v | QBlockingAdd v => let '(d', sg, e) := do_add bc v d in (d', sg, RErr e)
  | QRemove => do_remove d
  | QClose => do_close d
  | QLen => (d, [], RUnit)
  | QWait => do_remove d    (* `for len == 0 { ... wait ... }; return popFront()`: runs only when len != 0 *)
  | QIterWait _ => (d, [], RErr ENil)
  end.

Definition qbody (bc : bool) (o : qop) : body qdata := fun d => fst (qop_run bc o d).

Definition q_nonempty (d : qdata) : bool := negb (t_len (q_trk d) =? 0).

Definition wait_w (bc : bool) : waiter qdata :=
  mkWaiter NEMPTY q_nonempty q_closed (qbody bc QWait) true.
Definition badd_w (bc : bool) (v : Z) : waiter qdata :=
  mkWaiter NUPDATES (fun d => negb (q_closed d) && has_room (q_trk d)) q_closed (qbody bc (QBlockingAdd v)) false.
Definition iter_w (bc : bool) (seen : Z) : waiter qdata :=
  mkWaiter NUPDATES (fun d => seen <? q_ver d) q_closed (qbody bc (QIterWait seen)) true.

Definition qcompile (bc : bool) (o : qop) : op qdata :=
  match o with
  | QWait => OWaiter (wait_w bc)
  | QBlockingAdd v => OWaiter (badd_w bc v)
  | QIterWait seen => OWaiter (iter_w bc seen)
  | _ => OEffect (qbody bc o)
  end.

(* a program all of whose threads run Queue operations (any operation, any thread, unboundedly many) *)
Definition queue_prog (bc : bool) (prog : tid -> op qdata) : Prop := forall t, exists o, prog t = qcompile bc o.

Definition qprog (bc : bool) (ops : list qop) : tid -> op qdata :=
  fun t => qcompile bc (nth t ops QLen).

Definition qinit (t : tracker) : qdata := mkQD [] t false 0.

(* options -> tracker, as NewQueue (after Validate) / NewUnlimitedQueue *)
Definition quota_tracker (hard soft : Z) (burst : float) : tracker :=
  let sq := if soft <=? 0 then hard else soft in
  let bc := if PrimFloat.eqb burst 0%float then f_of_Z sq else burst in
  TQuota sq hard 0 bc.
