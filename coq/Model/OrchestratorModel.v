(* C11 - executable transition systems for srv.Orchestrator, srv.Group,
   srv.WorkerPool / srv.HandlerWorkerPool and srv.Cleanup
   (/repo/srv/orchestrator.go, /repo/srv/implementations.go), written from the
   code as it is after the C11 repairs (see /verif/fixes_pending/C11-*.diff).

   Every system is a record of the variables the Go code has (queue content,
   loop program counter, wait-group counter, collector content, context
   flags), an event type with one constructor per atomic step of the code and
   an executable [step : st -> ev -> option st] ([None] = the step is not
   enabled).  Services, jobs and cleanup functions are natural numbers; the
   number of them is unbounded (any id may be added at any time); the outcome
   of each one is given by an arbitrary function [oc : nat -> outcome].

   Primitives that are MODELLED, not verified (DESIGN.md 3.3 / 7): the
   pubsub.Queue (a FIFO list with atomic Add/Remove/Wait/Close), contexts (a
   boolean that only ever goes from false to true), sync.WaitGroup /
   fun.WaitGroup (a counter; Wait passes at zero), erc.Collector (a list),
   the srv.Service life cycle (Start is an atomic test-and-set, Run is invoked
   by the service's own goroutine, Wait returns only once the service has
   finished - that contract is property C10), goroutine creation, and the
   Split/channel hand-off inside Iterator.ProcessParallel (one splitter that
   holds at most one item, N symmetric workers).

   Ghost fields (never read by a guard): acc/accepted, runs/ran, dn.

   The second half of every module is an executable acceptor for the event
   logs the Go driver records on the real code: the observable events of the
   log are replayed with [step], and the unobservable ones are inserted by a
   deterministic policy that may look ahead in the log.  An accepted log is
   therefore the observable projection of a genuine trace of the system. *)
From FunV Require Import Base.Tac.

Inductive outcome := Ok | Err | Pan | Blk | BlkErr | CtlStop | CtlSkip.
(* Ok: returns nil; Err: returns an error; Pan: panics; Blk: blocks until its
   context is cancelled, then returns nil; BlkErr: the same, then returns an error.
   CtlStop / CtlSkip: returns an error that is, or wraps, a value the iteration
   machinery of package fun treats as a control signal: io.EOF, context.Canceled,
   context.DeadlineExceeded (CtlStop: "stop iterating", never collected) or
   fun.ErrIteratorSkip (CtlSkip: "skip this item", never collected).  For a service,
   a group member and a cleanup function these are errors like any other; only
   ProcessParallel (the worker pools) looks at them.  (ers.ErrCurrentOpAbort is an
   ordinary error for all the code modelled here and is driven as Err.) *)
Definition fails (o : outcome) : bool :=
  match o with Err | Pan | BlkErr | CtlStop | CtlSkip => true | _ => false end.
Definition blocking (o : outcome) : bool :=
  match o with Blk | BlkErr => true | _ => false end.
Definition is_ctl (o : outcome) : bool :=
  match o with CtlStop | CtlSkip => true | _ => false end.

Definition upd {A} (f : nat -> A) (i : nat) (v : A) : nat -> A :=
  fun j => if Nat.eqb j i then v else f j.

Definition memb (i : nat) (l : list nat) : bool := existsb (Nat.eqb i) l.

(* remove the first occurrence *)
Fixpoint rm1 (i : nat) (l : list nat) : list nat :=
  match l with
  | [] => []
  | x :: l' => if Nat.eqb x i then l' else x :: rm1 i l'
  end.

Definition subset (a b : list nat) : bool := forallb (fun x => memb x b) a.
Definition same_set (a b : list nat) : bool := subset a b && subset b a.

(* the error of i is added to a collector iff i fails *)
Definition add_err (oc : nat -> outcome) (i : nat) (ec : list nat) : list nat :=
  if fails (oc i) then i :: ec else ec.

(* service life cycle as seen from outside (contract of srv.Service, C10) *)
Inductive sphase := SIdle | SStarted | SRunning | SFinished.
Definition is_running (p : sphase) : bool :=
  match p with SStarted | SRunning => true | _ => false end.
Definition is_finished (p : sphase) : bool :=
  match p with SFinished => true | _ => false end.
Definition is_idle (p : sphase) : bool :=
  match p with SIdle => true | _ => false end.

(* generic driver for the unobservable steps inserted by an acceptor *)
Section Plan.
Context {St Ev : Type}.
Variable step : St -> Ev -> option St.
Fixpoint run_plan (fuel : nat) (next : St -> option Ev) (s : St) : St :=
  match fuel with
  | 0 => s
  | S f => match next s with
           | None => s
           | Some e => match step s e with
                       | Some s' => run_plan f next s'
                       | None => s
                       end
           end
  end.
Fixpoint run (s : St) (tr : list Ev) : option St :=
  match tr with
  | [] => Some s
  | e :: tr' => match step s e with Some s' => run s' tr' | None => None end
  end.
End Plan.

(* ====================================================================== *)
(* Orchestrator (srv/orchestrator.go, Service().Run)                      *)
(* ====================================================================== *)
Module Orch.

Inductive lpc :=
| LNotStarted                (* the orchestrator's service has not been started *)
| LTop                       (* for { s, ok := or.input.Remove()                *)
| LWait                      (*   !ok: s, err = or.input.Wait(ctx)              *)
| LChk1 (i : nat)            (*   if s.Running()                                *)
| LChk2 (i : nat)            (*   if s.isFinished.Load()                        *)
| LJoin                      (* wg.Wait()                                       *)
| LDone.                     (* return ec.Resolve()  (the service then finishes) *)

Record st := mk {
  cancelled : bool;          (* ctx of the orchestrator (and of the services) is done *)
  queue : list nat;          (* or.input *)
  pc : lpc;
  wg : nat;                  (* sync.WaitGroup counter *)
  gstart : list nat;         (* goroutines `go func(ss){ ec.Add(Wrapf(ss.Start(ctx))); ec.Add(ss.Wait()) }` before Start *)
  gwait : list nat;          (* goroutines blocked in ss.Wait() (both kinds) *)
  sv : nat -> sphase;
  ec : list nat;             (* ids whose error is in the collector *)
  ecx : nat;                 (* "problem starting" errors *)
  dn : list nat;             (* ghost: services whose Wait() has returned to the orchestrator *)
  acc : list nat;            (* ghost: services whose Add returned nil before the context was cancelled *)
  runs : nat -> nat;         (* ghost: number of invocations of Run *)
  result : option (list nat)
}.

Definition init : st :=
  mk false [] LNotStarted 0 [] [] (fun _ => SIdle) [] 0 [] [] (fun _ => 0) None.

Inductive ev :=
| EAdd (i : nat)             (* Orchestrator.Add(s_i) returns nil            [observable] *)
| EEnvStart (i : nat)        (* the environment calls s_i.Start(ctx) itself  [observable] *)
| EOrchStart                 (* the orchestrator's service starts            [observable] *)
| ECancel                    (* cancel()                                     [observable] *)
| ERunBegin (i : nat)        (* s_i.Run is entered                           [observable] *)
| ERunEnd (i : nat)          (* s_i.Run returns / panics                     [observable] *)
| EWaitRet (r : list nat)    (* Orchestrator.Wait() returns; r = failures it reports [observable] *)
| ELoopRemove | ELoopEmpty | ELoopWaitGet | ELoopWaitCtx
| EChkRunning | EChkFinished
| EGStart (i : nat)          (* a starter goroutine performs ss.Start(ctx) *)
| EGWait (i : nat)           (* a goroutine's ss.Wait() returns, ec.Add, wg.Done *)
| EJoin.

Definition observable (e : ev) : bool :=
  match e with
  | EAdd _ | EEnvStart _ | EOrchStart | ECancel | ERunBegin _ | ERunEnd _ | EWaitRet _ => true
  | _ => false
  end.

Section Step.
Variable oc : nat -> outcome.

Definition step (s : st) (e : ev) : option st :=
  match s with
  | mk c q p w gs gw v e0 ex d a r res =>
    match e with
    | EAdd i =>
        Some (mk c (q ++ [i]) p w gs gw v e0 ex d (if c then a else i :: a) r res)
    | EEnvStart i =>
        if is_idle (v i) then Some (mk c q p w gs gw (upd v i SStarted) e0 ex d a r res) else None
    | EOrchStart =>
        match p with LNotStarted => Some (mk c q LTop w gs gw v e0 ex d a r res) | _ => None end
    | ECancel => Some (mk true q p w gs gw v e0 ex d a r res)
    | ERunBegin i =>
        match v i with
        | SStarted => Some (mk c q p w gs gw (upd v i SRunning) e0 ex d a (upd r i (S (r i))) res)
        | _ => None
        end
    | ERunEnd i =>
        match v i with
        | SRunning =>
            if negb (blocking (oc i)) || c
            then Some (mk c q p w gs gw (upd v i SFinished) e0 ex d a r res) else None
        | _ => None
        end
    | ELoopRemove =>
        match p, q with
        | LTop, i :: q' => Some (mk c q' (LChk1 i) w gs gw v e0 ex d a r res)
        | _, _ => None
        end
    | ELoopEmpty =>
        match p, q with
        | LTop, [] => Some (mk c q LWait w gs gw v e0 ex d a r res)
        | _, _ => None
        end
    | ELoopWaitGet =>
        match p, q with
        | LWait, i :: q' => Some (mk c q' (LChk1 i) w gs gw v e0 ex d a r res)
        | _, _ => None
        end
    | ELoopWaitCtx =>
        (* Queue.Wait returns the context error only while the queue is empty *)
        match p, q with
        | LWait, [] => if c then Some (mk c q LJoin w gs gw v e0 ex d a r res) else None
        | _, _ => None
        end
    | EChkRunning =>
        match p with
        | LChk1 i =>
            if is_running (v i)
            then (* wg.Add(1); go func(){ defer wg.Done(); _ = ss.Start(ctx); ec.Add(ss.Wait()) }
                    Start on a service that is not idle changes nothing and its error is dropped here; in the
                    code it also blocks until the Start call that is starting the service has finished, which
                    is what makes Wait block (Service contract, C10) - so the goroutine goes straight to Wait *)
                 Some (mk c q LTop (S w) gs (i :: gw) v e0 ex d a r res)
            else Some (mk c q (LChk2 i) w gs gw v e0 ex d a r res)
        | _ => None
        end
    | EChkFinished =>
        match p with
        | LChk2 i =>
            if is_finished (v i)
            then (* ec.Add(s.Wait()); continue *)
                 Some (mk c q LTop w gs gw v (add_err oc i e0) ex (i :: d) a r res)
            else (* wg.Add(1); go func(){ ... Start ... Wait ... } *)
                 Some (mk c q LTop (S w) (i :: gs) gw v e0 ex d a r res)
        | _ => None
        end
    | EGStart i =>
        if memb i gs
        then if is_idle (v i)
             then Some (mk c q p w (rm1 i gs) (i :: gw) (upd v i SStarted) e0 ex d a r res)
             else Some (mk c q p w (rm1 i gs) (i :: gw) v e0 (S ex) d a r res)
        else None
    | EGWait i =>
        if memb i gw && is_finished (v i)
        then Some (mk c q p (w - 1) gs (rm1 i gw) v (add_err oc i e0) ex (i :: d) a r res)
        else None
    | EJoin =>
        match p, w with
        | LJoin, 0 => Some (mk c q LDone w gs gw v e0 ex d a r (Some e0))
        | _, _ => None
        end
    | EWaitRet obs =>
        match p, res with
        | LDone, Some r0 => if same_set obs r0 then Some s else None
        | _, _ => None
        end
    end
  end.

Definition reach (s : st) : Prop := exists tr, run step init tr = Some s.

(* ---- acceptor: unobservable steps inserted before the observable event [e];
   [rest] is the remaining log including [e]. *)
Definition begins (i : nat) (rest : list ev) : bool :=
  existsb (fun e => match e with ERunBegin j => Nat.eqb i j | _ => false end) rest.

Definition envstarts (i : nat) (rest : list ev) : bool :=
  existsb (fun e => match e with EEnvStart j => Nat.eqb i j | _ => false end) rest.
Definition reported (rest : list ev) : list nat :=
  flat_map (fun e => match e with EWaitRet r => r | _ => [] end) rest.
(* a queued / later added service that the run loop must still pick up: the orchestrator itself
   will start it, or its failure is in the error that Wait returns at the end of the log *)
Definition needed (s : st) (rest : list ev) (i : nat) : bool :=
  (is_idle (sv s i) && begins i rest && negb (envstarts i rest))
  || (fails (oc i) && memb i (reported rest)).
Definition future_adds (rest : list ev) : list nat :=
  flat_map (fun e => match e with EAdd i => [i] | _ => [] end) rest.

Definition next (rest : list ev) (s : st) : option ev :=
  let alive := negb (cancelled s) || existsb (needed s rest) (queue s) in
  (* a starter goroutine for a service that its owner starts later in the log loses that race: its own
     Start (which then reports "already started") is placed after the owner's *)
  match filter (fun i => negb (is_idle (sv s i) && envstarts i rest)) (gstart s) with
  | i :: _ => Some (EGStart i)
  | [] =>
    match filter (fun i => is_finished (sv s i)) (gwait s) with
    | i :: _ => Some (EGWait i)
    | [] =>
      match pc s with
      | LChk1 _ => Some EChkRunning
      | LChk2 _ => Some EChkFinished
      | LTop => match queue s with
                | _ :: _ => if alive then Some ELoopRemove else None
                | [] => if cancelled s && negb (existsb (needed s rest) (future_adds rest))
                        then Some ELoopEmpty else None
                end
      | LWait => match queue s with
                 | _ :: _ => if alive then Some ELoopWaitGet else None
                 | [] => if cancelled s && negb (existsb (needed s rest) (future_adds rest))
                         then Some ELoopWaitCtx else None
                 end
      | LJoin => match rest with EWaitRet _ :: _ => Some EJoin | _ => None end
      | _ => None
      end
    end
  end.

Definition fuel_of (s : st) (rest : list ev) : nat :=
  8 + 6 * (length (queue s) + length (gstart s) + length (gwait s)) + length rest.

Fixpoint accepts_from (s : st) (log : list ev) : bool :=
  match log with
  | [] => true
  | e :: rest =>
      let s1 := run_plan step (fuel_of s log) (next log) s in
      match step s1 e with
      | Some s2 => accepts_from s2 rest
      | None => false
      end
  end.
Definition accepts (log : list ev) : bool :=
  forallb observable log && accepts_from init log.
End Step.
End Orch.

(* ====================================================================== *)
(* Group (srv/implementations.go)                                         *)
(* ====================================================================== *)
Module Grp.

Inductive gpc :=
| GNotStarted
| GLoop                      (* for services.Next(ctx) { wg.Add(1); go starter } *)
| GWaitStart                 (* wg.Operation().Wait()   -- every starter has returned *)
| GClose                     (* ec.Add(waiters.Close()) *)
| GBlock (j : nat)           (* for _, s := range members { s.waitFor(ctx) } *)
| GReturn                    (* return nil; the Service wrapper runs `defer s.cancel()` *)
| GCleanIter (j : nat)       (* Cleanup: for iter.Next { wg.Add(1); go waiter } *)
| GCleanWait                 (* wg.Operation().Wait() *)
| GFinished.                 (* return ec.Resolve() *)

Record st := mk {
  ctxend : bool;             (* the group's own context has ended (parent cancelled or Close) *)
  wcancel : bool;            (* the Service wrapper's deferred s.cancel() has run *)
  pc : gpc;
  nsp : nat;                 (* members handed to a starter goroutine so far (ids 0..nsp-1) *)
  cut : bool;                (* ghost: services.Next returned false because the context had ended *)
  wg : nat;
  gstart : list nat;         (* starter goroutines before s.Start(ctx) *)
  genq : list nat;           (* starter goroutines after Start, before the deferred waiters.Add / wg.Done *)
  closed : bool;             (* waiters queue closed *)
  waiters : list nat;
  gwait : list nat;          (* Cleanup's waiter goroutines *)
  sv : nat -> sphase;
  ec : list nat;
  ecx : nat;                 (* invariant failures (waiters.Add on a closed queue) *)
  dn : list nat;             (* ghost: members whose Wait() returned to the group *)
  runs : nat -> nat;
  result : option (list nat)
}.

Definition init : st :=
  mk false false GNotStarted 0 false 0 [] [] false [] [] (fun _ => SIdle) [] 0 [] (fun _ => 0) None.

Inductive ev :=
| EStart                     (* Group(...).Start(ctx) [observable] *)
| ECancel                    (* the group's context ends [observable] *)
| ERunBegin (i : nat) | ERunEnd (i : nat)          (* [observable] *)
| EWaitRet (r : list nat)    (* Group service Wait() returns [observable] *)
| ENext                      (* services.Next(ctx) = true: wg.Add(1), go starter *)
| ENextEnd                   (* services.Next(ctx) = false *)
| EGStart (i : nat)          (* starter: ec.Add(s.Start(ctx)) *)
| EGEnq (i : nat)            (* starter: deferred waiters.Add(s.Wait), wg.Done *)
| EStartersDone              (* wg.Wait passes *)
| EClose
| EBlockNext                 (* s.waitFor(ctx) returns for member j *)
| EReturn                    (* Run returns; wrapper cancels the members' context *)
| ECleanNext | ECleanEnd
| EGWait (i : nat)           (* waiter: ec.Add(wait()), wg.Done *)
| EFinish.

Definition observable (e : ev) : bool :=
  match e with
  | EStart | ECancel | ERunBegin _ | ERunEnd _ | EWaitRet _ => true
  | _ => false
  end.

Section Step.
Variable n : nat.            (* number of members the iterator yields *)
Variable oc : nat -> outcome.

Definition mctx (s : st) : bool := ctxend s || wcancel s.   (* the context the members run under *)

Definition step (s : st) (e : ev) : option st :=
  match s with
  | mk ce wc p k ct w gs ge cl ws gw v e0 ex d r res =>
    let mc := ce || wc in
    match e with
    | EStart => match p with GNotStarted => Some (mk ce wc GLoop k ct w gs ge cl ws gw v e0 ex d r res) | _ => None end
    | ECancel => Some (mk true wc p k ct w gs ge cl ws gw v e0 ex d r res)
    | ERunBegin i =>
        match v i with
        | SStarted => Some (mk ce wc p k ct w gs ge cl ws gw (upd v i SRunning) e0 ex d (upd r i (S (r i))) res)
        | _ => None
        end
    | ERunEnd i =>
        match v i with
        | SRunning => if negb (blocking (oc i)) || mc
                      then Some (mk ce wc p k ct w gs ge cl ws gw (upd v i SFinished) e0 ex d r res) else None
        | _ => None
        end
    | ENext =>
        match p with
        | GLoop => if negb mc && Nat.ltb k n
                   then Some (mk ce wc GLoop (S k) ct (S w) (k :: gs) ge cl ws gw v e0 ex d r res) else None
        | _ => None
        end
    | ENextEnd =>
        match p with
        | GLoop => if mc then Some (mk ce wc GWaitStart k (Nat.ltb k n) w gs ge cl ws gw v e0 ex d r res)
                   else if Nat.eqb k n then Some (mk ce wc GWaitStart k false w gs ge cl ws gw v e0 ex d r res)
                   else None
        | _ => None
        end
    | EGStart i =>
        if memb i gs
        then if is_idle (v i)
             then Some (mk ce wc p k ct w (rm1 i gs) (i :: ge) cl ws gw (upd v i SStarted) e0 ex d r res)
             else Some (mk ce wc p k ct w (rm1 i gs) (i :: ge) cl ws gw v e0 (S ex) d r res)
        else None
    | EGEnq i =>
        if memb i ge
        then if cl
             then Some (mk ce wc p k ct (w - 1) gs (rm1 i ge) cl ws gw v e0 (S ex) d r res)
             else Some (mk ce wc p k ct (w - 1) gs (rm1 i ge) cl (ws ++ [i]) gw v e0 ex d r res)
        else None
    | EStartersDone =>
        match p, w with
        | GWaitStart, 0 => Some (mk ce wc GClose k ct w gs ge cl ws gw v e0 ex d r res)
        | _, _ => None
        end
    | EClose =>
        match p with
        | GClose => Some (mk ce wc (GBlock 0) k ct w gs ge true ws gw v e0 ex d r res)
        | _ => None
        end
    | EBlockNext =>
        match p with
        | GBlock j =>
            if Nat.ltb j k
            then if is_finished (v j) || mc || is_idle (v j)
                 then Some (mk ce wc (GBlock (S j)) k ct w gs ge cl ws gw v e0 ex d r res) else None
            else Some (mk ce wc GReturn k ct w gs ge cl ws gw v e0 ex d r res)
        | _ => None
        end
    | EReturn =>
        match p with
        | GReturn => Some (mk ce true (GCleanIter 0) k ct w gs ge cl ws gw v e0 ex d r res)
        | _ => None
        end
    | ECleanNext =>
        match p with
        | GCleanIter j =>
            match nth_error ws j with
            | Some i => Some (mk ce wc (GCleanIter (S j)) k ct (S w) gs ge cl ws (i :: gw) v e0 ex d r res)
            | None => None
            end
        | _ => None
        end
    | ECleanEnd =>
        match p with
        | GCleanIter j => if Nat.leb (length ws) j && cl
                          then Some (mk ce wc GCleanWait k ct w gs ge cl ws gw v e0 ex d r res) else None
        | _ => None
        end
    | EGWait i =>
        if memb i gw && is_finished (v i)
        then Some (mk ce wc p k ct (w - 1) gs ge cl ws (rm1 i gw) v (add_err oc i e0) ex (i :: d) r res)
        else None
    | EFinish =>
        match p, w with
        | GCleanWait, 0 => Some (mk ce wc GFinished k ct w gs ge cl ws gw v e0 ex d r (Some e0))
        | _, _ => None
        end
    | EWaitRet obs =>
        match p, res with
        | GFinished, Some r0 => if same_set obs r0 then Some s else None
        | _, _ => None
        end
    end
  end.

Definition reach (s : st) : Prop := exists tr, run step init tr = Some s.

(* ---- acceptor *)
Definition begins (i : nat) (rest : list ev) : bool :=
  existsb (fun e => match e with ERunBegin j => Nat.eqb i j | _ => false end) rest.
(* some member with index >= k will be started later in the log *)
Definition later_begin (k : nat) (rest : list ev) : bool :=
  existsb (fun e => match e with ERunBegin j => Nat.leb k j | _ => false end) rest.

Definition next (rest : list ev) (s : st) : option ev :=
  let finishing := match rest with EWaitRet _ :: _ => true | _ => false end in
  match gstart s with
  | i :: _ => Some (EGStart i)
  | [] =>
    match genq s with
    | i :: _ => Some (EGEnq i)
    | [] =>
      match filter (fun i => is_finished (sv s i)) (gwait s) with
      | i :: _ => Some (EGWait i)
      | [] =>
        match pc s with
        | GLoop => if negb (mctx s) && Nat.ltb (nsp s) n && (later_begin (nsp s) rest)
                   then Some ENext
                   else if finishing || (negb (mctx s) && Nat.eqb (nsp s) n) then Some ENextEnd else None
        | GWaitStart => Some EStartersDone
        | GClose => Some EClose
        | GBlock j =>
            if Nat.ltb j (nsp s)
            then if is_finished (sv s j) || mctx s then Some EBlockNext else None
            else Some EBlockNext
        | GReturn =>
            (* the wrapper cancels only when nothing later in the log needs a live context *)
            Some EReturn
        | GCleanIter j => if Nat.ltb j (length (waiters s)) then Some ECleanNext else Some ECleanEnd
        | GCleanWait => if finishing then Some EFinish else None
        | _ => None
        end
      end
    end
  end.

Definition fuel_of (s : st) (rest : list ev) : nat := 16 + 8 * n + length rest.

Fixpoint accepts_from (s : st) (log : list ev) : bool :=
  match log with
  | [] => true
  | e :: rest =>
      let s1 := run_plan step (fuel_of s log) (next log) s in
      match step s1 e with
      | Some s2 => accepts_from s2 rest
      | None => false
      end
  end.
Definition accepts (log : list ev) : bool :=
  forallb observable log && accepts_from init log.
End Step.
End Grp.

(* ====================================================================== *)
(* WorkerPool / HandlerWorkerPool (srv/implementations.go +               *)
(* itertool.ParallelForEach = Iterator.ProcessParallel over the queue's    *)
(* destructive Distributor iterator)                                       *)
(* ====================================================================== *)
Module Pool.

Record conf := mkconf {
  nworkers : nat;
  handler : bool;            (* HandlerWorkerPool *)
  coe : bool;                (* WorkerGroupConfContinueOnError *)
  cop : bool;                (* WorkerGroupConfContinueOnPanic *)
  bounded : bool             (* the queue has limits: Add may be refused while the queue is open *)
}.

Inductive spl :=
| SplOff                     (* splitter goroutine not running yet *)
| SplTop                     (* ReadOne: ctx.Err() check *)
| SplReady                   (* past the check: Remove() else Wait(ctx) *)
| SplHold (j : nat)          (* pipe.Send(ctx, j): select { ch <- j; <-ctx.Done() } *)
| SplExited.

Inductive ppc := PNotStarted | PRunning | PReturned | PFinished.

Record st := mk {
  cancelled : bool;          (* the service's context is done (external) *)
  icancel : bool;            (* ProcessParallel's own cancel() has been called *)
  closed : bool;             (* workQueue.Close() (the service's Shutdown) *)
  pc : ppc;
  queue : list nat;
  sp : spl;
  idle : nat;                (* workers blocked in the pipe receive *)
  recv : list nat;           (* received, processor function not yet entered *)
  running : list nat;
  exited : nat;
  aborted : bool;            (* some worker left its loop because CanContinueOnError was false *)
  finished : list nat;       (* ghost *)
  dropped : list nat;        (* ghost: taken from the queue and abandoned by the splitter *)
  accepted : list nat;       (* ghost: Add returned nil *)
  ran : nat -> nat;          (* ghost *)
  werrs : list nat;          (* error collector of ParallelForEach -> Run's error -> Wait *)
  herrs : list nat;          (* errors passed to the observer *)
  hfinal : bool;             (* the service's ErrorHandler (= the observer) has been called with the aggregated error *)
  result : option (list nat)
}.

Definition init : st :=
  mk false false false PNotStarted [] SplOff 0 [] [] 0 false [] [] [] (fun _ => 0) [] [] false None.

Inductive ev :=
| EAdd (j : nat)             (* queue.Add returns nil   [observable] *)
| EAddRej (j : nat)          (* queue.Add returns an error [observable] *)
| EStart                     (* [observable] *)
| ECancel                    (* [observable] *)
| EJobBegin (j : nat)        (* [observable] *)
| EJobEnd (j : nat)          (* [observable] *)
| EWaitRet (w h : list nat)  (* Wait() returns: failures in its error, failures seen by the observer [observable] *)
| ESplCheck | ESplPop | ESplExit | EHandoff | EDrop
| EAbortCancel               (* cancel() called from the error path (present once C03's repair is applied) *)
| EWorkerExit
| ERunReturn                 (* wg.Operation().Block() passes; deferred cancel() *)
| ECloseQ
| EFinish
| EHandlerFinal.             (* the service's error-handler goroutine calls the observer with the aggregated error;
                                Service.Wait may return before that (it returns as soon as isFinished is set) *)

Definition observable (e : ev) : bool :=
  match e with
  | EAdd _ | EAddRej _ | EStart | ECancel | EJobBegin _ | EJobEnd _ | EWaitRet _ _ => true
  | _ => false
  end.

Section Step.
Variable cf : conf.
Variable oc : nat -> outcome.

(* does the worker go back to its loop after job j ended?  (WorkerGroupConf.CanContinueOnError: an error that
   is io.EOF or a context error stops the worker whatever ContinueOnError says; ErrIteratorSkip never does.
   In the handler pool the processor hands every error to the observer and returns nil.) *)
Definition continues (j : nat) : bool :=
  match oc j with
  | Ok | Blk | CtlSkip => true
  | Err | BlkErr => handler cf || coe cf
  | Pan => cop cf
  | CtlStop => handler cf
  end.
(* where job j's failure goes; a control-valued error of a job of the plain WorkerPool goes nowhere *)
Definition to_wait (j : nat) : bool :=
  match oc j with
  | Err | BlkErr => negb (handler cf)
  | Pan => true
  | _ => false
  end.
Definition to_handler (j : nat) : bool :=
  match oc j with
  | Err | BlkErr | CtlStop | CtlSkip => handler cf
  | _ => false
  end.

Definition step (s : st) (e : ev) : option st :=
  match s with
  | mk c ic cl p q sp0 idl rc rn ex ab fin dr ac rr we he hf res =>
    let pctx := c || ic in
    match e with
    | EAdd j =>
        if negb cl && negb (memb j ac)
        then Some (mk c ic cl p (q ++ [j]) sp0 idl rc rn ex ab fin dr (j :: ac) rr we he hf res) else None
    | EAddRej j => if cl || bounded cf then Some s else None
    | EStart =>
        match p with
        | PNotStarted => Some (mk c ic cl PRunning q SplTop (nworkers cf) rc rn ex ab fin dr ac rr we he hf res)
        | _ => None
        end
    | ECancel => Some (mk true ic cl p q sp0 idl rc rn ex ab fin dr ac rr we he hf res)
    | ESplCheck =>
        match sp0 with
        | SplTop => if pctx then Some (mk c ic cl p q SplExited idl rc rn ex ab fin dr ac rr we he hf res)
                    else Some (mk c ic cl p q SplReady idl rc rn ex ab fin dr ac rr we he hf res)
        | _ => None
        end
    | ESplPop =>
        match sp0, q with
        | SplReady, j :: q' => Some (mk c ic cl p q' (SplHold j) idl rc rn ex ab fin dr ac rr we he hf res)
        | _, _ => None
        end
    | ESplExit =>
        (* Queue.Wait fails only while the queue is empty: closed, or context done *)
        match sp0, q with
        | SplReady, [] => if cl || pctx then Some (mk c ic cl p q SplExited idl rc rn ex ab fin dr ac rr we he hf res) else None
        | _, _ => None
        end
    | EHandoff =>
        match sp0, idl with
        | SplHold j, S i' => Some (mk c ic cl p q SplTop i' (rc ++ [j]) rn ex ab fin dr ac rr we he hf res)
        | _, _ => None
        end
    | EDrop =>
        match sp0 with
        | SplHold j => if pctx then Some (mk c ic cl p q SplExited idl rc rn ex ab fin (j :: dr) ac rr we he hf res) else None
        | _ => None
        end
    | EJobBegin j =>
        if memb j rc
        then Some (mk c ic cl p q sp0 idl (rm1 j rc) (j :: rn) ex ab fin dr ac (upd rr j (S (rr j))) we he hf res)
        else None
    | EJobEnd j =>
        if memb j rn && (negb (blocking (oc j)) || pctx)
        then let we' := if to_wait j then j :: we else we in
             let he' := if to_handler j then j :: he else he in
             if continues j
             then Some (mk c ic cl p q sp0 (S idl) rc (rm1 j rn) ex ab (j :: fin) dr ac rr we' he' hf res)
             else Some (mk c ic cl p q sp0 idl rc (rm1 j rn) (S ex) true (j :: fin) dr ac rr we' he' hf res)
        else None
    | EAbortCancel =>
        if ab then Some (mk c true cl p q sp0 idl rc rn ex ab fin dr ac rr we he hf res) else None
    | EWorkerExit =>
        match idl with
        | S i' => if pctx || match sp0 with SplExited => true | _ => false end
                  then Some (mk c ic cl p q sp0 i' rc rn (S ex) ab fin dr ac rr we he hf res) else None
        | 0 => None
        end
    | ERunReturn =>
        match p with
        | PRunning => if Nat.eqb ex (nworkers cf)
                      then Some (mk c true cl PReturned q sp0 idl rc rn ex ab fin dr ac rr we he hf res) else None
        | _ => None
        end
    | ECloseQ =>
        (* Shutdown runs once the service's context is done: cancelled from outside, or by the wrapper after Run returned *)
        if c || match p with PReturned => true | _ => false end
        then Some (mk c ic true p q sp0 idl rc rn ex ab fin dr ac rr we he hf res) else None
    | EFinish =>
        match p with
        | PReturned =>
            if cl then Some (mk c ic cl PFinished q sp0 idl rc rn ex ab fin dr ac rr we he hf (Some we)) else None
        | _ => None
        end
    | EHandlerFinal =>
        match p with
        | PFinished =>
            if handler cf && negb hf
            then Some (mk c ic cl p q sp0 idl rc rn ex ab fin dr ac rr we (we ++ he) true res) else None
        | _ => None
        end
    | EWaitRet w h =>
        match p, res with
        | PFinished, Some w0 => if same_set w w0 && same_set h he then Some s else None
        | _, _ => None
        end
    end
  end.

Definition reach (s : st) : Prop := exists tr, run step init tr = Some s.

(* ---- acceptor *)
Definition begins (j : nat) (rest : list ev) : bool :=
  existsb (fun e => match e with EJobBegin k => Nat.eqb j k | _ => false end) rest.

Definition next (rest : list ev) (s : st) : option ev :=
  let pctx := cancelled s || icancel s in
  let finishing := match rest with EWaitRet _ _ :: _ => true | _ => false end in
  match sp s with
  | SplTop => if negb pctx || finishing then Some ESplCheck else None
  | SplReady =>
      match queue s with
      | j :: _ => if begins j rest then Some ESplPop else None
      | [] => if finishing && (closed s || pctx) then Some ESplExit else None
      end
  | SplHold j =>
      match idle s with
      | S _ => if begins j rest then Some EHandoff else if finishing && pctx then Some EDrop else None
      | 0 => if finishing && pctx then Some EDrop else None
      end
  | _ => None
  end.

(* steps that are only taken when the log is about to report the end of the service (or a closed queue) *)
Definition next_end (rest : list ev) (s : st) : option ev :=
  let pctx := cancelled s || icancel s in
  match next rest s with
  | Some e => Some e
  | None =>
    match pc s with
    | PRunning =>
        if Nat.eqb (exited s) (nworkers cf) then Some ERunReturn
        else match idle s with
             | S _ => if pctx || match sp s with SplExited => true | _ => false end then Some EWorkerExit
                      else if aborted s then Some EAbortCancel else None
             | 0 => None
             end
    | PReturned => if closed s then Some EFinish else Some ECloseQ
    | PFinished =>
        match rest with
        | EWaitRet _ h :: _ =>
            if handler cf && negb (hfinal s) && negb (same_set h (herrs s)) then Some EHandlerFinal else None
        | _ => None
        end
    | _ => None
    end
  end.

Definition plan (rest : list ev) (s : st) : option ev :=
  match rest with
  | EWaitRet _ _ :: _ => next_end rest s
  | EAddRej _ :: _ =>
      if closed s || bounded cf then next rest s
      else if cancelled s then Some ECloseQ else next_end rest s
  | EJobEnd j :: _ =>
      (* a blocking job can only end before the external cancellation if the error path cancelled the workers *)
      if blocking (oc j) && negb (cancelled s || icancel s) && aborted s then Some EAbortCancel else next rest s
  | _ => next rest s
  end.

Definition fuel_of (s : st) (rest : list ev) : nat :=
  16 + 4 * (length (queue s) + nworkers cf) + length rest.

Fixpoint accepts_from (s : st) (log : list ev) : bool :=
  match log with
  | [] => true
  | e :: rest =>
      let s1 := run_plan step (fuel_of s log) (plan log) s in
      match step s1 e with
      | Some s2 => accepts_from s2 rest
      | None => false
      end
  end.
Definition accepts (log : list ev) : bool :=
  forallb observable log && accepts_from init log.
End Step.
End Pool.

(* ====================================================================== *)
(* Cleanup (srv/implementations.go)                                        *)
(* ====================================================================== *)
Module Cln.

Inductive rpc := RNotStarted | RTop | RReady | RReturned.
Inductive cpc := CNot | CDrain | CExec | CDone.

Record st := mk {
  cancelled : bool;
  closed : bool;             (* pipe.Close() has returned (the service's Shutdown) *)
  rp : rpc;                  (* Run: for { item, err := iter.ReadOne(ctx); ...; cache.PushBack(item) } *)
  cp : cpc;
  pipe : list nat;
  cache : list nat;
  popped : list nat;         (* taken from cache.PopIterator(), function not yet entered *)
  inflight : list nat;
  finished : list nat;       (* ghost *)
  accepted : list nat;       (* ghost: pipe.Add returned nil *)
  ran : nat -> nat;          (* ghost *)
  ec : list nat;
  result : option (list nat)
}.

Definition init : st := mk false false RNotStarted CNot [] [] [] [] [] [] (fun _ => 0) [] None.

Inductive ev :=
| EAdd (c : nat) | EAddRej (c : nat) | EStart | ECancel
| EFnBegin (c : nat) | EFnEnd (c : nat) | EWaitRet (r : list nat)     (* all of the above [observable] *)
| ERunCheck                  (* ReadOne: ctx.Err() *)
| ERunPop                    (* Remove()/Wait(ctx) yields an item; cache.PushBack *)
| ERunFail                   (* Wait(ctx) fails: queue empty and (closed or context done) *)
| EShutdown                  (* pipe.Close() *)
| ECleanupBegin              (* Run and Shutdown have returned: Cleanup starts *)
| EDrain                     (* for { item, ok := pipe.Remove(); if !ok {break}; cache.PushBack(item) }   (repair of defect 16) *)
| EDrainDone
| ECPop                      (* a worker takes the next function from cache.PopIterator() *)
| ECleanupDone.

Definition observable (e : ev) : bool :=
  match e with
  | EAdd _ | EAddRej _ | EStart | ECancel | EFnBegin _ | EFnEnd _ | EWaitRet _ => true
  | _ => false
  end.

Section Step.
Variable oc : nat -> outcome.

Definition step (s : st) (e : ev) : option st :=
  match s with
  | mk c cl r cpp pp ca po inf fin ac rr e0 res =>
    match e with
    | EAdd x =>
        if negb cl && negb (memb x ac)
        then Some (mk c cl r cpp (pp ++ [x]) ca po inf fin (x :: ac) rr e0 res) else None
    | EAddRej x => if cl then Some s else None
    | EStart => match r with RNotStarted => Some (mk c cl RTop cpp pp ca po inf fin ac rr e0 res) | _ => None end
    | ECancel => Some (mk true cl r cpp pp ca po inf fin ac rr e0 res)
    | ERunCheck =>
        match r with
        | RTop => Some (mk c cl (if c then RReturned else RReady) cpp pp ca po inf fin ac rr e0 res)
        | _ => None
        end
    | ERunPop =>
        match r, pp with
        | RReady, x :: pp' => Some (mk c cl RTop cpp pp' (ca ++ [x]) po inf fin ac rr e0 res)
        | _, _ => None
        end
    | ERunFail =>
        match r, pp with
        | RReady, [] => if c || cl then Some (mk c cl RReturned cpp pp ca po inf fin ac rr e0 res) else None
        | _, _ => None
        end
    | EShutdown => if c then Some (mk c true r cpp pp ca po inf fin ac rr e0 res) else None
    | ECleanupBegin =>
        match r, cpp with
        | RReturned, CNot => if cl then Some (mk c cl r CDrain pp ca po inf fin ac rr e0 res) else None
        | _, _ => None
        end
    | EDrain =>
        match cpp, pp with
        | CDrain, x :: pp' => Some (mk c cl r CDrain pp' (ca ++ [x]) po inf fin ac rr e0 res)
        | _, _ => None
        end
    | EDrainDone =>
        match cpp, pp with
        | CDrain, [] => Some (mk c cl r CExec pp ca po inf fin ac rr e0 res)
        | _, _ => None
        end
    | ECPop =>
        match cpp, ca with
        | CExec, x :: ca' => Some (mk c cl r CExec pp ca' (po ++ [x]) inf fin ac rr e0 res)
        | _, _ => None
        end
    | EFnBegin x =>
        if memb x po
        then Some (mk c cl r cpp pp ca (rm1 x po) (x :: inf) fin ac (upd rr x (S (rr x))) e0 res) else None
    | EFnEnd x =>
        (* the cleanup context is never cancelled before ParallelForEach returns: a blocking function never returns *)
        if memb x inf && negb (blocking (oc x))
        then Some (mk c cl r cpp pp ca po (rm1 x inf) (x :: fin) ac rr (add_err oc x e0) res) else None
    | ECleanupDone =>
        match cpp, ca, po, inf with
        | CExec, [], [], [] => Some (mk c cl r CDone pp ca po inf fin ac rr e0 (Some e0))
        | _, _, _, _ => None
        end
    | EWaitRet obs =>
        match cpp, res with
        | CDone, Some r0 => if same_set obs r0 then Some s else None
        | _, _ => None
        end
    end
  end.

Definition reach (s : st) : Prop := exists tr, run step init tr = Some s.

(* ---- acceptor *)
Definition begins (x : nat) (rest : list ev) : bool :=
  existsb (fun e => match e with EFnBegin k => Nat.eqb x k | _ => false end) rest.

(* [phase] of the log that forces the service towards its end *)
Definition next (rest : list ev) (s : st) : option ev :=
  let want_close := match rest with EAddRej _ :: _ | EFnBegin _ :: _ | EWaitRet _ :: _ => true | _ => false end in
  let want_exec := match rest with EFnBegin _ :: _ | EWaitRet _ :: _ => true | _ => false end in
  let want_done := match rest with EWaitRet _ :: _ => true | _ => false end in
  if want_close && negb (closed s) then (if cancelled s then Some EShutdown else None)
  else if want_exec then
    match cp s with
    | CNot => match rp s with
              | RTop => Some ERunCheck
              | RReady => match pipe s with [] => Some ERunFail | _ :: _ => Some ERunPop end
              | RReturned => Some ECleanupBegin
              | RNotStarted => None
              end
    | CDrain => match pipe s with [] => Some EDrainDone | _ :: _ => Some EDrain end
    | CExec => match cache s with
               | x :: _ => if begins x rest || want_done then Some ECPop else None
               | [] => if want_done then Some ECleanupDone else None
               end
    | CDone => None
    end
  else None.

Definition fuel_of (s : st) (rest : list ev) : nat :=
  16 + 3 * (length (pipe s) + length (cache s)) + length rest.

Fixpoint accepts_from (s : st) (log : list ev) : bool :=
  match log with
  | [] => true
  | e :: rest =>
      let s1 := run_plan step (fuel_of s log) (next log) s in
      match step s1 e with
      | Some s2 => accepts_from s2 rest
      | None => false
      end
  end.
Definition accepts (log : list ev) : bool :=
  forallb observable log && accepts_from init log.
End Step.
End Cln.
