(* GoLite networks for the parallel iterator stages of /repo (C01, C04).

   A network is a fixed table of goroutines; each goroutine is a small control graph over the
   primitives the library's pipelines are built from:
     - channels (unbuffered / buffered / closed); a rendezvous on an unbuffered channel is ONE
       atomic step; a send on a closed channel is the recovered panic of ChanSend.Write: io.EOF
       and the item is gone;
     - select with a ctx.Done arm (ChanSend.Write, ChanReceive.Read): the second arm is enabled
       exactly when the guarding context is cancelled;
     - a tree of cancellable contexts (n_desc a c = "c is a or a descendant of a");
     - fun.WaitGroup as a counter (Launch = Inc + go + deferred Done; Wait(ctx) returns at zero or
       when ctx is cancelled; Wait(Background) only at zero);
     - go, Operation.Once().Go() (Buffer, ParallelBuffer: every advance starts a goroutine that
       parks in sync.Once.Do until the first one - the pump - has returned) and .Go().Once().
   These are model primitives (trusted, see checks/c01.py); what is proved is about all
   interleavings of these atomic steps, for every input, worker count and buffer size. *)
From FunV Require Import Base.Tac.

Definition cid := nat.   (* context id; 0 is always the user's context *)
Definition chid := nat.
Definition pid := nat.

Inductive gd := GOwn | GId (c : cid).     (* the context a goroutine was started with / a named one *)

Inductive instr :=
| ISrc (src : nat) (g : gd) (k_item k_eof k_err : nat)   (* input.ReadOne(ctx): ONE atomic step hands the next input item to the caller
                                                            (never Next ; Value through the iterator's shared value field: Proofs/Pipelines_shared.v) *)
| IRecv (ch : chid) (g : gd) (k_item k_eof k_err : nat)  (* ChanReceive.Read(ctx) *)
| ISend (ch : chid) (g : gd) (k_ok k_eof k_err : nat)    (* ChanSend.Write(ctx, hand) *)
| IDeliver (k : nat)                                     (* the user's function / the consumer gets the item *)
| IClose (ch : chid) (k : nat)                           (* ChanOp.Close (idempotent: recovers) *)
| ICancel (c : cid) (k : nat)                            (* context.CancelFunc *)
| ISpawn (q : pid) (g : gd) (k : nat)                    (* go q(ctx) - through a sync.Once: no-op if q was started *)
| IGoOnce (q : pid) (g : gd) (k : nat)                   (* go once.Do(q): starts q, or parks a goroutine until q returns *)
| IWgWait (g : option gd) (k : nat)                      (* wg.Wait(ctx) / wg.Operation().Block() *)
| ICheck (g : gd) (k_ok k_err : nat)                     (* Iterator.ReadOne's entry test: closed / ctx.Err() != nil *)
| IGoto (k : nat)
| IExit.                                                 (* return (runs the deferred wg.Done of a Launch) *)

Inductive pstatus := PNotStarted | PRun | PDone | PAbandoned.

Record proc := mkProc { p_st : pstatus; p_pc : nat; p_hand : option Z; p_ctx : cid }.
Record chan := mkChan { c_buf : list Z; c_cap : nat; c_closed : bool }.

Record pdesc := mkPdesc { d_prog : list instr; d_wg : bool; d_user : bool }.

Record net := mkNet {
  n_procs : list pdesc;
  n_desc : cid -> cid -> bool;
  n_once : pid                (* the goroutine the parked once.Do callers wait for *)
}.

Record state := mkState {
  s_procs : list proc;
  s_chans : list chan;
  s_srcs : list (list Z);
  s_canc : list cid;          (* contexts whose cancel function was called *)
  s_wg : nat;
  s_oncew : nat;              (* goroutines parked in once.Do *)
  s_deliv : list Z;
  s_drop : list Z;            (* items that were in a goroutine's hands when it gave up *)
  s_stopped : bool            (* the environment performed a stop action (Close / cancel / abandon) *)
}.

Inductive label :=
| LStep (p : pid) (arm : bool)   (* p's next instruction; arm = true: the ctx.Done arm of its select *)
| LRdv (p q : pid)               (* sender p and receiver q meet on an unbuffered channel *)
| LOnceRel                       (* a goroutine parked in once.Do returns *)
| LClose (c : cid)               (* the consumer calls Close on the iterator whose context is c *)
| LCancel (c : cid)              (* the user's context c ends *)
| LAbandon (p : pid).            (* user goroutine p never calls into the library again *)

Definition internal (l : label) : bool :=
  match l with LStep _ _ | LRdv _ _ | LOnceRel => true | _ => false end.

(* ---- small helpers ---- *)
Fixpoint upd {A} (l : list A) (i : nat) (x : A) : list A :=
  match l, i with
  | [], _ => []
  | _ :: t, O => x :: t
  | h :: t, S i' => h :: upd t i' x
  end.

Definition ol (o : option Z) : list Z := match o with Some v => [v] | None => [] end.

Definition set_procs s v := mkState v (s_chans s) (s_srcs s) (s_canc s) (s_wg s) (s_oncew s) (s_deliv s) (s_drop s) (s_stopped s).
Definition set_chans s v := mkState (s_procs s) v (s_srcs s) (s_canc s) (s_wg s) (s_oncew s) (s_deliv s) (s_drop s) (s_stopped s).
Definition set_srcs s v := mkState (s_procs s) (s_chans s) v (s_canc s) (s_wg s) (s_oncew s) (s_deliv s) (s_drop s) (s_stopped s).
Definition set_canc s v := mkState (s_procs s) (s_chans s) (s_srcs s) v (s_wg s) (s_oncew s) (s_deliv s) (s_drop s) (s_stopped s).
Definition set_wg s v := mkState (s_procs s) (s_chans s) (s_srcs s) (s_canc s) v (s_oncew s) (s_deliv s) (s_drop s) (s_stopped s).
Definition set_oncew s v := mkState (s_procs s) (s_chans s) (s_srcs s) (s_canc s) (s_wg s) v (s_deliv s) (s_drop s) (s_stopped s).
Definition set_deliv s v := mkState (s_procs s) (s_chans s) (s_srcs s) (s_canc s) (s_wg s) (s_oncew s) v (s_drop s) (s_stopped s).
Definition set_drop s v := mkState (s_procs s) (s_chans s) (s_srcs s) (s_canc s) (s_wg s) (s_oncew s) (s_deliv s) v (s_stopped s).
Definition set_stopped s v := mkState (s_procs s) (s_chans s) (s_srcs s) (s_canc s) (s_wg s) (s_oncew s) (s_deliv s) (s_drop s) v.

Definition cancelledb (N : net) (s : state) (c : cid) : bool := existsb (fun a => n_desc N a c) (s_canc s).
Definition resolve (pr : proc) (g : gd) : cid := match g with GOwn => p_ctx pr | GId c => c end.

Definition goto (pr : proc) (k : nat) : proc := mkProc PRun k (p_hand pr) (p_ctx pr).
Definition goto_h (pr : proc) (k : nat) (h : option Z) : proc := mkProc PRun k h (p_ctx pr).
Definition setp (s : state) (p : pid) (pr : proc) : state := set_procs s (upd (s_procs s) p pr).
Definition dropped (s : state) (h : option Z) : state := set_drop s (s_drop s ++ ol h).
Definition is_wg (N : net) (q : pid) : bool := match nth_error (n_procs N) q with Some d => d_wg d | None => false end.

(* ---- one instruction of goroutine p ---- *)
Definition start (s : state) (N : net) (q : pid) (qp : proc) (c : cid) : state :=
  let s1 := setp s q (mkProc PRun 0 (p_hand qp) c) in
  if is_wg N q then set_wg s1 (S (s_wg s1)) else s1.

Definition exec (N : net) (s : state) (p : pid) (pr : proc) (d : pdesc) (i : instr) (arm : bool) : option state :=
  match i with
  | ISrc src g ki ke kr =>
      if arm then None
      else if cancelledb N s (resolve pr g) then Some (setp s p (goto pr kr))
      else match nth_error (s_srcs s) src with
           | Some (x :: r) =>
               Some (setp (dropped (set_srcs s (upd (s_srcs s) src r)) (p_hand pr)) p (goto_h pr ki (Some x)))
           | _ => Some (setp s p (goto pr ke))
           end
  | IRecv ch g ki ke kr =>
      if arm then (if cancelledb N s (resolve pr g) then Some (setp s p (goto pr kr)) else None)
      else match nth_error (s_chans s) ch with
           | Some c =>
               match c_buf c with
               | x :: r => Some (setp (dropped (set_chans s (upd (s_chans s) ch (mkChan r (c_cap c) (c_closed c)))) (p_hand pr))
                                      p (goto_h pr ki (Some x)))
               | [] => if c_closed c then Some (setp s p (goto pr ke)) else None
               end
           | None => None
           end
  | ISend ch g ko ke kr =>
      match p_hand pr with
      | None => if arm then None else Some (setp s p (goto pr ko))
      | Some v =>
          if arm then (if cancelledb N s (resolve pr g) then Some (setp (dropped s (Some v)) p (goto_h pr kr None)) else None)
          else match nth_error (s_chans s) ch with
               | Some c =>
                   if c_closed c then Some (setp (dropped s (Some v)) p (goto_h pr ke None))
                   else if length (c_buf c) <? c_cap c
                        then Some (setp (set_chans s (upd (s_chans s) ch (mkChan (c_buf c ++ [v]) (c_cap c) false))) p (goto_h pr ko None))
                        else None
               | None => None
               end
      end
  | IDeliver k => if arm then None else Some (setp (set_deliv s (s_deliv s ++ ol (p_hand pr))) p (goto_h pr k None))
  | IClose ch k =>
      if arm then None
      else match nth_error (s_chans s) ch with
           | Some c => Some (setp (set_chans s (upd (s_chans s) ch (mkChan (c_buf c) (c_cap c) true))) p (goto pr k))
           | None => Some (setp s p (goto pr k))
           end
  | ICancel c k => if arm then None else Some (setp (set_canc s (c :: s_canc s)) p (goto pr k))
  | ISpawn q g k =>
      if arm then None
      else match nth_error (s_procs s) q with
           | Some qp => match p_st qp with
                        | PNotStarted => Some (setp (start s N q qp (resolve pr g)) p (goto pr k))
                        | _ => Some (setp s p (goto pr k))
                        end
           | None => Some (setp s p (goto pr k))
           end
  | IGoOnce q g k =>
      if arm then None
      else match nth_error (s_procs s) q with
           | Some qp => match p_st qp with
                        | PNotStarted => Some (setp (start s N q qp (resolve pr g)) p (goto pr k))
                        | _ => Some (setp (set_oncew s (S (s_oncew s))) p (goto pr k))
                        end
           | None => Some (setp s p (goto pr k))
           end
  | IWgWait g k =>
      if arm then match g with
                  | Some g' => if cancelledb N s (resolve pr g') then Some (setp s p (goto pr k)) else None
                  | None => None
                  end
      else if s_wg s =? 0 then Some (setp s p (goto pr k)) else None
  | ICheck g ko kr =>
      if arm then None else Some (setp s p (goto pr (if cancelledb N s (resolve pr g) then kr else ko)))
  | IGoto k => if arm then None else Some (setp s p (goto pr k))
  | IExit =>
      if arm then None
      else let s1 := if d_wg d then set_wg s (pred (s_wg s)) else s in
           Some (setp (dropped s1 (p_hand pr)) p (mkProc PDone (p_pc pr) None (p_ctx pr)))
  end.

Definition cur_instr (N : net) (s : state) (p : pid) : option (proc * pdesc * instr) :=
  match nth_error (s_procs s) p, nth_error (n_procs N) p with
  | Some pr, Some d =>
      match p_st pr with
      | PRun => match nth_error (d_prog d) (p_pc pr) with Some i => Some (pr, d, i) | None => None end
      | _ => None
      end
  | _, _ => None
  end.

Definition is_done (s : state) (p : pid) : bool :=
  match nth_error (s_procs s) p with Some pr => match p_st pr with PDone => true | _ => false end | None => false end.

Definition step (N : net) (s : state) (l : label) : option state :=
  match l with
  | LStep p arm =>
      match cur_instr N s p with Some (pr, d, i) => exec N s p pr d i arm | None => None end
  | LRdv p q =>
      if p =? q then None else
      match cur_instr N s p, cur_instr N s q with
      | Some (pr, _, ISend ch _ ko _ _), Some (qr, _, IRecv ch' _ ki _ _) =>
          match p_hand pr, nth_error (s_chans s) ch with
          | Some v, Some c =>
              if (ch =? ch') && (c_cap c =? 0) && negb (c_closed c)
              then Some (setp (setp (dropped s (p_hand qr)) p (goto_h pr ko None)) q (goto_h qr ki (Some v)))
              else None
          | _, _ => None
          end
      | _, _ => None
      end
  | LOnceRel => if (0 <? s_oncew s) && is_done s (n_once N) then Some (set_oncew s (pred (s_oncew s))) else None
  | LClose c | LCancel c => Some (set_stopped (set_canc s (c :: s_canc s)) true)
  | LAbandon p =>
      match nth_error (s_procs s) p, nth_error (n_procs N) p with
      | Some pr, Some d =>
          if d_user d && negb (d_wg d)
          then match p_st pr with
               | PRun => Some (set_stopped (setp s p (mkProc PAbandoned (p_pc pr) (p_hand pr) (p_ctx pr))) true)
               | _ => None
               end
          else None
      | _, _ => None
      end
  end.

(* ---- reachability, measures ---- *)
Inductive reach (N : net) (s0 : state) : state -> Prop :=
| reach_init : reach N s0 s0
| reach_step s l s' : reach N s0 s -> step N s l = Some s' -> reach N s0 s'.

Definition hands (ps : list proc) : list Z := concat (map (fun pr => ol (p_hand pr)) ps).
Definition bufs (cs : list chan) : list Z := concat (map c_buf cs).

(* remaining input ++ items in goroutines' hands ++ channel buffers ++ delivered ++ dropped *)
Definition tokens (s : state) : list Z :=
  concat (s_srcs s) ++ hands (s_procs s) ++ bufs (s_chans s) ++ s_deliv s ++ s_drop s.

Definition quiescent (N : net) (s : state) : Prop := forall l, internal l = true -> step N s l = None.

(* ================================================================ the networks of /repo

   Context ids: 0 = the user's context; 1 = the output iterator's context (Producer.WithCancel,
   cancelled by Close); 2 = the worker context (context.WithCancel inside the init operation);
   3+j = the context of the j-th output of Split (each output iterator has its own).
   Goroutine ids: 0 = consumer (the user's goroutine); 1 = the Split goroutine / the pump;
   2 = the closer (wg.Wait; cancel; close) or the ProcessParallel runner; 3+j = worker j. *)
Definition std_desc (a c : cid) : bool :=
  (a =? c) || (a =? 0) || ((a =? 1) && (1 <=? c)) || ((a =? 2) && (2 <=? c)).
Definition flat_desc (a c : cid) : bool := (a =? c) || (a =? 0).

Definition idle : proc := mkProc PNotStarted 0 None 0.
Definition running (c : cid) : proc := mkProc PRun 0 None c.
Definition mk_init (ps : list proc) (caps : list nat) (srcs : list (list Z)) : state :=
  mkState ps (map (fun c => mkChan [] c false) caps) srcs [] 0 0 [] [] false.

Definition bg (prog : list instr) := mkPdesc prog false false.
Definition wgp (prog : list instr) := mkPdesc prog true false.
Definition usr (prog : list instr) := mkPdesc prog false true.

(* Processor.ReadAll(input.Producer()) over ChanSend.Write, PostHook(pipe.Close): Split's goroutine,
   Buffer's pump, Chain / MergeSlices / dt.Map / adt.Map / BufferedChannel *)
Definition pump_prog (src : nat) (ch : chid) : list instr :=
  [ISrc src GOwn 1 2 2; ISend ch GOwn 0 2 2; IClose ch 3; IExit].
(* MergeIterators' per-source goroutine, GenerateParallel's worker *)
Definition fanin_prog (src : nat) (ch : chid) : list instr :=
  [ISrc src GOwn 1 2 2; ISend ch GOwn 0 2 2; IExit].
(* wg.Operation().PostHook(cancel).PostHook(out.Close).Background(ctx) *)
Definition closer_prog (out : chid) : list instr :=
  [IWgWait (Some GOwn) 1; ICancel 2 2; IClose out 3; IExit].
(* a Map worker: split_j.ReadOne (PreHook(setup.Once) ; pipe.Read) ; mapper ; output.Write.
   ReadOne returns at once when wctx is cancelled, and closes split_j (cancels 3+j) when the read fails *)
Definition mapw_prog (j : nat) : list instr :=
  [ICheck GOwn 1 5; ISpawn 1 (GId (3 + j)) 2; IRecv 0 (GId (3 + j)) 3 4 4; ISend 1 GOwn 0 5 5; ICancel (3 + j) 5; IExit].
(* a ProcessParallel worker: the user's processor consumes the item *)
Definition ppw_prog (j : nat) : list instr :=
  [ICheck GOwn 1 5; ISpawn 1 (GId (3 + j)) 2; IRecv 0 (GId (3 + j)) 3 4 4; IDeliver 0; ICancel (3 + j) 5; IExit].
(* a consumer of a Split output *)
Definition splitc_prog (j : nat) : list instr :=
  [ICheck GOwn 1 5; ISpawn 1 GOwn 2; IRecv 0 GOwn 3 4 4; IDeliver 0; ICancel (3 + j) 5; IExit].   (* own context = 3+j *)

Definition spawns (first n : nat) (g : gd) (base : nat) : list instr :=
  map (fun j => ISpawn (first + j) g (base + S j)) (seq 0 n).

(* the consumer of an iterator whose init operation launches n workers and a closer *)
Definition cons_init_prog (n : nat) (out : chid) : list instr :=
  [ICheck GOwn 1 (n + 6)] ++ spawns 3 n (GId 2) 1
    ++ [ISpawn 2 GOwn (n + 2); IRecv out GOwn (n + 3) (n + 5) (n + 5); IDeliver (n + 4); ICheck GOwn (n + 2) (n + 6);
        ICancel 1 (n + 6); IExit].
(* the consumer of Buffer / ParallelBuffer: every advance runs  go once.Do(pump) *)
Definition cons_once_prog (q : pid) (out : chid) : list instr :=
  [ICheck GOwn 1 5; IGoOnce q GOwn 2; IRecv out GOwn 3 4 4; IDeliver 0; ICancel 1 5; IExit].
(* the consumer of Chain & co.: every advance runs  once.Do(go pump) *)
Definition cons_go_prog (out : chid) : list instr :=
  [ICheck GOwn 1 5; ISpawn 1 GOwn 2; IRecv out GOwn 3 4 4; IDeliver 0; ICancel 1 5; IExit].
Definition runner_prog (n : nat) (c : cid) (close_out : bool) : list instr :=
  spawns 3 n (GId c) 0 ++ [IWgWait None (n + 1); ICancel c (n + 2)] ++ (if close_out then [IClose 1 (n + 3); IExit] else [IExit]).

Definition idles (n : nat) : list proc := repeat idle n.

(* fun.Map / Transform.ProcessParallel with n workers *)
Definition map_net (n : nat) : net :=
  mkNet ([usr (cons_init_prog n 1); bg (pump_prog 0 0); bg (closer_prog 1)] ++ map (fun j => wgp (mapw_prog j)) (seq 0 n)) std_desc 1.
Definition map_init (n : nat) (input : list Z) : state :=
  mk_init ([running 1; idle; idle] ++ idles n) [0; 0] [input].

(* Iterator.ProcessParallel (itertool.ParallelForEach / Worker) *)
Definition pp_net (n : nat) : net :=
  mkNet ([usr (runner_prog n 1 false); bg (pump_prog 0 0); bg [IExit]] ++ map (fun j => wgp (ppw_prog j)) (seq 0 n)) std_desc 1.
Definition pp_init (n : nat) (input : list Z) : state :=
  mk_init ([running 1; idle; idle] ++ idles n) [0] [input].

(* Iterator.ParallelBuffer(n): ProcessParallel(buf.Processor()) in a once-goroutine, buffer of n *)
Definition pbuf_net (n : nat) : net :=
  mkNet ([usr (cons_once_prog 2 1); bg (pump_prog 0 0); bg (runner_prog (max 1 n) 2 true)]
           ++ map (fun j => wgp (mapw_prog j)) (seq 0 (max 1 n))) std_desc 2.
Definition pbuf_init (n : nat) (input : list Z) : state :=
  mk_init ([running 1; idle; idle] ++ idles (max 1 n)) [0; n] [input].

(* Iterator.Buffer(cap) *)
Definition buffer_net : net := mkNet [usr (cons_once_prog 1 0); bg (pump_prog 0 0)] std_desc 1.
Definition buffer_init (cap : nat) (input : list Z) : state := mk_init [running 1; idle] [cap] [input].

(* Chain, MergeSlices, MergeSliceIterators, dt.Map, adt.Map: one pump behind .Go().Once() *)
Definition pump_net : net := mkNet [usr (cons_go_prog 0); bg (pump_prog 0 0)] std_desc 1.
Definition pump_init (input : list Z) : state := mk_init [running 1; idle] [0] [input].

(* Iterator.BufferedChannel(ctx, cap): the pump is launched at construction with the caller's context *)
Definition chan_net : net := mkNet [usr [IRecv 0 GOwn 1 2 2; IDeliver 0; IExit]; bg (pump_prog 0 0)] std_desc 1.
Definition chan_init (cap : nat) (input : list Z) : state := mk_init [running 0; running 0] [cap] [input].

(* MergeIterators (source j per goroutine, unbuffered); f = const 0 with a buffer of 2n+1 is the
   GenerateParallel of before the explicit context check (kept: Corr and the old theorems use it) *)
Definition fanin_net (n : nat) (srcf : nat -> nat) : net :=
  mkNet ([usr (cons_init_prog n 0); bg [IExit]; bg (closer_prog 0)] ++ map (fun j => wgp (fanin_prog (srcf j) 0)) (seq 0 n)) std_desc 1.
Definition fanin_init (n cap : nat) (srcs : list (list Z)) : state :=
  mk_init ([running 1; idle; idle] ++ idles n) [cap] srcs.

(* Producer.GenerateParallel(n): every worker runs  pipe.Processor().ReadAll(wrapper)  where wrapper is
     if ctx.Err() != nil { return ctx.Err() }                (0: the explicit context check, every iteration)
     value, err := pf(ctx)                                   (1: one call of the shared generator)
     err == nil                          -> pipe.Write(value) (2), next iteration
     err is the end of the stream (errors.Is(err, io.EOF), bare or wrapped) -> return; NOTHING is cancelled
     err is a failure, abort mode        -> cancel the worker group (3); return
     err is a failure, ContinueOnError / ContinueOnPanic -> ErrIteratorSkip: next iteration (4, 5)
   The input list stands for the values the generator produces; what happens when it has no more is the
   network parameter [gend]. GSkip is the generator that from then on fails for ever with an ordinary
   error and does not look at its context: the loop 4 -> 5 -> 4 touches no channel, the ICheck at 4 is
   the ctx.Err() test of the wrapper (the same test as at 0, on the retry path). *)
Inductive gend := GEof | GFail | GSkip.
Definition gen_prog (e : gend) : list instr :=
  [ICheck GOwn 1 6;
   ISrc 0 GOwn 2 (match e with GEof => 6 | GFail => 3 | GSkip => 4 end) 6;
   ISend 0 GOwn 0 6 6;
   ICancel 2 6;
   ICheck GOwn 5 6;
   IGoto 4;
   IExit].
Definition gen_net (n : nat) (e : gend) : net :=
  mkNet ([usr (cons_init_prog n 0); bg [IExit]; bg (closer_prog 0)] ++ map (fun _ => wgp (gen_prog e)) (seq 0 n)) std_desc 1.
Definition gen_init (n : nat) (input : list Z) : state := fanin_init n (2 * n + 1) [input].

(* a receiver that ranges over the channel returned by Iterator.BufferedChannel / Channel: it has no
   context of its own (context 5 is never cancelled by anybody); the pump runs under context 1 *)
Definition eq_desc (a c : cid) : bool := a =? c.
Definition range_net : net := mkNet [usr [IRecv 0 GOwn 1 2 2; IDeliver 0; IExit]; bg (pump_prog 0 0)] eq_desc 1.
Definition range_init (cap : nat) (input : list Z) : state := mk_init [running 5; running 1] [cap] [input].

(* Iterator.Split(n) read by n user goroutines; output j has context 3+j, a child of the user's *)
Definition split_net (n : nat) : net :=
  mkNet ([bg [IExit]; bg (pump_prog 0 0); bg [IExit]] ++ map (fun j => usr (splitc_prog j)) (seq 0 n)) flat_desc 1.
Definition split_init (n : nat) (input : list Z) : state :=
  mk_init ([idle; idle; idle] ++ map (fun j => running (3 + j)) (seq 0 n)) [0] [input].

(* m concurrent ReadOne callers on one channel-backed iterator (context 1), fed by a user goroutine *)
Definition readone_net (m : nat) : net :=
  mkNet ([bg [IExit]; bg (pump_prog 0 0); bg [IExit]] ++ repeat (usr [ICheck GOwn 1 4; IRecv 0 GOwn 2 3 3; IDeliver 0; ICancel 1 4; IExit]) m) std_desc 1.
Definition readone_init (m cap : nat) (input : list Z) : state :=
  mk_init ([idle; running 0; idle] ++ repeat (running 1) m) [cap] [input].

(* ================================================================ executable schedules *)
Definition rotate {A} (k : nat) (l : list A) : list A :=
  let k' := match length l with O => O | S _ => k mod length l end in skipn k' l ++ firstn k' l.

(* every internal label that could be enabled, in an order that depends on [rot]; ctx.Done arms
   last (ctx_first = false) or first *)
Definition cand_labels (s : state) (rot : nat) (ctx_first : bool) : list label :=
  let ps := rotate rot (seq 0 (length (s_procs s))) in
  let main := map (fun p => LStep p false) ps ++ flat_map (fun p => map (fun q => LRdv p q) ps) ps ++ [LOnceRel] in
  let arms := map (fun p => LStep p true) ps in
  if ctx_first then arms ++ main else main ++ arms.

Fixpoint first_enabled (N : net) (s : state) (ls : list label) : option state :=
  match ls with
  | [] => None
  | l :: r => match step N s l with Some s' => Some s' | None => first_enabled N s r end
  end.

Definition quiescentb (N : net) (s : state) : bool :=
  match first_enabled N s (cand_labels s 0 false) with Some _ => false | None => true end.

(* run until quiescent, or until k items were delivered (k = None: no limit) *)
Fixpoint run (N : net) (fuel rot : nat) (cf : bool) (k : option nat) (s : state) : state :=
  match fuel with
  | O => s
  | S f =>
      if match k with Some k' => k' <=? length (s_deliv s) | None => false end then s
      else match first_enabled N s (cand_labels s rot cf) with
           | Some s' => run N f (S rot) cf k s'
           | None => s
           end
  end.

Fixpoint apply (N : net) (ls : list label) (s : state) : state :=
  match ls with
  | [] => s
  | l :: r => match step N s l with Some s' => apply N r s' | None => apply N r s end
  end.

Definition count_running (N : net) (s : state) (user : bool) : nat :=
  length (filter (fun pd => match fst pd with
                            | mkProc PRun _ _ _ => Bool.eqb (d_user (snd pd)) user
                            | _ => false
                            end) (combine (s_procs s) (n_procs N))).

(* goroutines of the library that are still alive *)
Definition leaks (N : net) (s : state) : nat := count_running N s false + s_oncew s.
Definition stuck_users (N : net) (s : state) : nat := count_running N s true.

(* take k items, perform the stop actions, run to quiescence *)
Definition scenario (N : net) (s0 : state) (fuel rot : nat) (cf : bool) (k : option nat) (stops : list label) : state :=
  run N fuel (rot + 7) cf None (apply N stops (run N fuel rot cf k s0)).

(* run a given list of labels; None if one of them is not enabled *)
Fixpoint run_labels (N : net) (ls : list label) (s : state) : option state :=
  match ls with
  | [] => Some s
  | l :: r => match step N s l with Some s' => run_labels N r s' | None => None end
  end.
