(* Model of fun.WorkerGroupConf.CanContinueOnError (opts.go), ers.ParsePanic (ers/panic.go) and the
   WithRecover wrappers (process.go:105, worker.go:113, producer.go:97, transform.go:240).

   An error value is abstracted to its errors.Is-profile: the list of sentinel ids that `errors.Is`
   finds in it (ers.Join / fmt.Errorf("%w") / ers.Stack all preserve that profile; this is C12's
   subject and is re-validated here by the correspondence run, which prints the profile of every
   error the real code produced).  `nil` is `None`.  Executable definitions only. *)
From FunV Require Import Base.Tac.
Open Scope Z_scope.

Definition errid := Z.
(* reserved sentinels; user sentinels have ids >= 0 *)
Definition id_panic    : errid := -1.   (* ers.ErrRecoveredPanic (= fun.ErrRecoveredPanic) *)
Definition id_skip     : errid := -2.   (* fun.ErrIteratorSkip = ers.ErrCurrentOpSkip *)
Definition id_eof      : errid := -3.   (* io.EOF *)
Definition id_canceled : errid := -4.   (* context.Canceled *)
Definition id_deadline : errid := -5.   (* context.DeadlineExceeded *)
Definition id_abort    : errid := -6.   (* ers.ErrCurrentOpAbort: CanContinueOnError has no arm for it *)

Definition err := list errid.

(* errors.Is(e, t) *)
Definition is (e : err) (t : errid) : bool := existsb (Z.eqb t) e.
(* ers.Is(e, ts...) *)
Definition is_any (e : err) (ts : list errid) : bool := existsb (is e) ts.

(* ers.Join(a, b): nil operands vanish *)
Definition join (a b : option err) : option err :=
  match a, b with
  | None, x => x
  | x, None => x
  | Some x, Some y => Some (x ++ y)
  end.

(* ---------------------------------------------------------------- ers.ParsePanic *)

Inductive panicval :=
| PVErr (e : err)              (* panic(err) *)
| PVStr                        (* panic("...") : ers.New(s) matches no sentinel *)
| PVErrSlice (es : list err)   (* panic([]error{...}), no nil members *)
| PVOther.                     (* any other value: fmt.Errorf("[%T]: %v") matches no sentinel *)

(* func ParsePanic(r any) error — arm by arm; r == nil is None *)
Definition parse_panic (r : option panicval) : option err :=
  match r with
  | None => None
  | Some (PVErr e) => join (Some e) (Some [id_panic])
  | Some PVStr => join (Some []) (Some [id_panic])
  | Some (PVErrSlice es) =>                       (* return Join(err...)  — ErrRecoveredPanic NOT attached *)
      match es with [] => None | _ => Some (concat es) end
  | Some PVOther => join (Some []) (Some [id_panic])
  end.

(* what one invocation of the user function does *)
Inductive outcome :=
| ORet (e : option err)
| OPanic (v : panicval).

(* defer func() { err = ers.Join(err, ers.ParsePanic(recover())) }() *)
Definition with_recover (o : outcome) : option err :=
  match o with
  | ORet e => join e (parse_panic None)
  | OPanic v => join None (parse_panic (Some v))
  end.

(* ---------------------------------------------------------------- WorkerGroupConf *)

Record conf := mkconf {
  continue_on_error : bool;
  continue_on_panic : bool;
  include_ctx : bool;               (* IncludeContextExpirationErrors *)
  excluded : list errid;            (* ExcludedErrors *)
}.

Record decision := mkdec { record : bool; continue : bool }.

(* func (o WorkerGroupConf) CanContinueOnError(err error) bool — same order of tests as the Go switch.
   `record` = o.ErrorHandler(err) was called; `continue` = the returned bool. *)
Definition can_continue (c : conf) (oe : option err) : decision :=
  match oe with
  | None => mkdec false true                                        (* if err == nil { return true } *)
  | Some e =>
      let hadPanic := is e id_panic in
      if hadPanic && negb (continue_on_panic c) then mkdec true false
      else if hadPanic && continue_on_panic c then mkdec true true
      else if is e id_skip then mkdec false true
      else if is e id_eof then mkdec false false
      else if is e id_canceled || is e id_deadline then mkdec (include_ctx c) false
      else (* default: *)
        if is_any e (excluded c) then mkdec false true              (* ExcludedErrors: neither recorded nor aborting *)
        else mkdec true (continue_on_error c)
  end.

(* ---------------------------------------------------------------- failure kinds *)

Inductive errkind :=
| Plain | Wrapped | PanicErr | PanicStr | PanicOther | PanicErrSlice
| Skip | Eof | Abort | CtxCanceled | CtxDeadline | Excluded
| PanicWrap (t : errid)   (* panic(v) where v IS (bare) or WRAPS (tagged: together with the own sentinel) the sentinel t,
                             e.g. panic(io.EOF), panic(fmt.Errorf("x: %w / %w", context.Canceled, s_id)) *)
| RetMarked.              (* a RETURNED error that wraps ErrRecoveredPanic and the own sentinel *)

(* The user function's behaviour for a failure of kind k carrying the user sentinel `id`.
   `tagged`: the special sentinel is joined with the position's own sentinel (ers.Join(io.EOF, s_id))
   instead of being returned bare.  Plain and Excluded are the same error; they differ in whether
   `id` is listed in ExcludedErrors. *)
Definition outcome_of (k : errkind) (id : errid) (tagged : bool) : outcome :=
  let tag := if tagged then [id] else [] in
  match k with
  | Plain | Excluded | Wrapped => ORet (Some [id])
  | PanicErr => OPanic (PVErr [id])
  | PanicStr => OPanic PVStr
  | PanicOther => OPanic PVOther
  | PanicErrSlice => OPanic (PVErrSlice [[id]; []])
  | Skip => ORet (Some (id_skip :: tag))
  | Eof => ORet (Some (id_eof :: tag))
  | Abort => ORet (Some (id_abort :: tag))
  | CtxCanceled => ORet (Some (id_canceled :: tag))
  | CtxDeadline => ORet (Some (id_deadline :: tag))
  | PanicWrap t => OPanic (PVErr (t :: tag))
  | RetMarked => ORet (Some [id_panic; id])
  end.

Definition err_of (k : errkind) (id : errid) (tagged : bool) : option err :=
  with_recover (outcome_of k id tagged).

Definition classify (c : conf) (k : errkind) (id : errid) (tagged : bool) : decision :=
  can_continue c (err_of k id tagged).

(* ---------------------------------------------------------------- the contract (property text) *)

Definition is_panic_kind (k : errkind) : bool :=
  match k with PanicErr | PanicStr | PanicOther | PanicErrSlice | PanicWrap _ | RetMarked => true | _ => false end.

(* written independently of can_continue, as a table over the option bits *)
Definition contract (c : conf) (k : errkind) : decision :=
  match k with
  | Plain | Wrapped | Abort => mkdec true (continue_on_error c)
  | PanicErr | PanicStr | PanicOther | PanicErrSlice | PanicWrap _ | RetMarked => mkdec true (continue_on_panic c)
  | Skip => mkdec false true
  | Eof => mkdec false false
  | CtxCanceled | CtxDeadline => mkdec (include_ctx c) false
  | Excluded => mkdec false true
  end.

(* does the kind carry the sentinel `id` in a place errors.Is can see? *)
Definition carries_id (k : errkind) (tagged : bool) : bool :=
  match k with
  | Plain | Wrapped | Excluded | PanicErr | PanicErrSlice | RetMarked => true
  | PanicStr | PanicOther => false
  | _ => tagged
  end.

(* `id` is a user sentinel listed in ExcludedErrors exactly for kind Excluded, and ExcludedErrors
   contains no reserved sentinel that the kind's error carries (ErrCurrentOpAbort for Abort). *)
Definition well_formed (c : conf) (k : errkind) (id : errid) : Prop :=
  0 <= id /\
  (k = Excluded -> In id (excluded c)) /\
  (k <> Excluded -> ~ In id (excluded c)) /\
  (k = Abort -> ~ In id_abort (excluded c)).

Definition avoids_error_slice (k : errkind) : bool :=
  match k with PanicErrSlice => false | _ => true end.
