(* C02 — operator trees over fun.Iterator: syntax, an OPERATIONAL interpreter that
   transcribes the Go code, and a DENOTATION by structural recursion.

   Executable definitions only (no proofs): the correspondence run evaluates this file
   even when a proof breaks.

   Go sources transcribed (line numbers of /repo at the time of writing):
     iterator.go   SliceIterator 103-113, ReadOne 231-254, doClose/Close 169-177, Next 211-222,
                   Filter 260-273, Reduce 292-319, Count 323-334, Observe/Slice 375-398,453-455,
                   Join 440-446, Buffer 591-595, Split 347-364, BufferedChannel 464-474,
                   MarshalJSON/UnmarshalJSON 482-536
     producer.go   Join 111-175 (five-stage machine, sticky ferr/serr), IteratorWithHook 283-288
     transform.go  Transform.Producer 130-150, Process 71-73
     itertool.go   Uniq 188-202, DropZeroValues 205-220, Chain 225-258, MergeSliceIterators 262-275,
                   MergeSlices 279-292, Indexed 313-316
     chan.go       ChanReceive.Read 219-250, ChanSend.Consume 388-393, Process (iterator.go 407-435)

   Every value of type [st] is a *producer*: [rd n s] is one call of the producer function.
   [SIter] is a fun.Iterator (closed flag, error collector, close hook) around a producer and its
   [rd] is Iterator.ReadOne.

   Loops that retry (ReadOne on ErrIteratorSkip, Filter on a rejected item, Transform.Producer on
   skip, Producer.Join on skip, Uniq on a duplicate, DropZeroValues on a zero, and the drain loops
   of the goroutine-backed operators) are re-entries of [rd] with the fuel decreased; [None] is
   "out of fuel".  Proofs/IterAlgebra_*.v show that for every tree there is a fuel bound above
   which the result is [Some] and independent of the fuel.

   The context passed to every call is live (ctx.Err() = nil) in the model.  The goroutine-backed
   order-preserving operators (Buffer, Split(1), Channel, Chain, MergeSlices, MergeSliceIterators)
   are sequentialised: the background goroutine's whole loop runs at the first call of the
   operator's producer and fills a queue; their schedules are C01/C04's subject. *)
From FunV Require Import Base.Tac.

(* Result of one producer call, and outcome of one user-function call. *)
Inductive out :=
| OVal (z : Z)      (* value, nil error *)
| OSkip             (* ErrIteratorSkip *)
| OErr (e : Z)      (* a plain (non-terminating, non-skip) error, identified by id e *)
| OEof              (* io.EOF *)
| OAbort            (* ers.ErrCurrentOpAbort *)
| OCtx.             (* context.Canceled returned by a user function *)

(* ids under which the two terminating non-EOF errors show up if they reach a collector *)
Definition ERR_ABORT : Z := 100.
Definition ERR_CTX : Z := 101.

Definition ufun := nat -> Z -> out.        (* call index, input *)
Definition rfun := nat -> Z -> Z -> out.   (* call index, item, accumulator *)

Definition is_val (o : out) : bool := match o with OVal _ => true | _ => false end.
Definition is_term (o : out) : bool := match o with OEof | OAbort | OCtx => true | _ => false end.
Definition ctx_err (fin : out) : list Z := match fin with OCtx => [ERR_CTX] | _ => [] end.

(* ------------------------------------------------------------------ syntax *)

Inductive tree :=
| Slice (l : list Z)
| Variadic (l : list Z)
| Chan (l : list Z)
| Gen (tbl : list out)                        (* fun.Generator; outcome per call index, io.EOF after the table *)
| Filter (p : Z -> bool) (t : tree)
| Transform (f : ufun) (t : tree)
| Join (t : tree) (ts : list tree)            (* t.Join(ts...) *)
| Chain (ts : list tree)                      (* itertool.Chain(ts...) *)
| Buffer (n : Z) (t : tree)
| Split1 (t : tree)                           (* t.Split(1)[0] *)
| Channel (n : Z) (t : tree)                  (* ChannelIterator(t.BufferedChannel(ctx,n)) *)
| Uniq (t : tree)
| DropZero (t : tree)
| Indexed (t : tree)                          (* itertool.Indexed, pair (i,v) encoded as i*1000+v *)
| MergeSlices (ls : list (list Z))
| MergeSliceIters (g : Z -> list Z) (t : tree)  (* MergeSliceIterators(ConvertIterator(t, Converter(g))) *)
| JsonRoundTrip (t : tree)                    (* empty.UnmarshalJSON(t.MarshalJSON()) *)
| ListOf (t : tree)                           (* dt.List.Populate(t); list.Iterator() *)
| StackOf (t : tree)                          (* dt.Stack.Populate(t); stack.Iterator()  (LIFO) *)
| SliceOf (t : tree)                          (* SliceIterator(risky.Slice(t)) *)
| JsonArr (l : list (option Z))               (* empty.UnmarshalJSON("[1,null,3]"), element type int64; None = null *)
| JsonRecs (l : list (option (option Z * option Z))).
    (* empty.UnmarshalJSON(`[{"a":1},{"b":2},null,{}]`), element type struct{A,B int64 (omitempty)}, then
       ConvertIterator to A*100+B; None = null, a missing field = None *)

Inductive terminal :=
| TReadAll                     (* ReadOne until error, two more ReadOne, Close *)
| TNext                        (* Next/Value until false, two more Next, Close *)
| TCount                       (* Count, Close *)
| TSlice                       (* Slice (Observe + Close) *)
| TReduce (r : rfun)           (* Reduce(r) called once *)
| TContains (x : Z).           (* itertool.Contains(ctx, x, it) *)

(* ------------------------------------------------------------------ operational state *)

Inductive hook := HNone | HChild | HColl.
Inductive pkind := KBuffer | KSplit | KChannel | KList | KStack | KSliceOf | KJson.

Inductive st :=
| SSlice (l : list Z) (idx : Z)                              (* SliceIterator closure: s, idx *)
| SQueue (q : list Z)                                        (* a filled, closed channel *)
| SGen (tbl : list out) (k : nat)                            (* generator closure: call counter *)
| SFilterP (p : Z -> bool) (c : st)
| STransformP (f : ufun) (k : nat) (c : st)
| SJoinP (stage : Z) (ferr serr : out) (a b : st)            (* Producer.Join closure *)
| SUniqP (seen : list Z) (c : st)
| SDropZeroP (c : st)
| SPipeP (kd : pkind) (started : bool) (q : list Z) (c : st) (* drain child in the background, replay *)
| SChainP (started : bool) (q : list Z) (ec : list Z) (ops : list st)
| SFlatP (g : Z -> list Z) (started : bool) (q : list Z) (ec : list Z) (c : st)
| SIter (closed : bool) (errs : list Z) (h : hook) (p : st). (* fun.Iterator *)

Definition errs_of (s : st) : list Z := match s with SIter _ e _ _ => e | _ => [] end.
Definition is_closed (s : st) : bool := match s with SIter c _ _ _ => c | _ => false end.
Definition add_errs (es : list Z) (s : st) : st :=
  match s with SIter c e h p => SIter c (e ++ es) h p | _ => s end.

(* Iterator.doClose: once { closed := true; closer.op() } where closer.op runs the hook installed by
   IteratorWithHook (once).  HChild = func(it){ it.AddError(child.Close()) } (Uniq, DropZeroValues,
   Buffer); HColl = erc.IteratorHook(ec) (Chain, MergeSliceIterators, MergeSlices). *)
Fixpoint do_close (s : st) : st :=
  match s with
  | SIter false errs h p =>
      match h, p with
      | HChild, SUniqP seen c => let c' := do_close c in SIter true (errs ++ errs_of c') h (SUniqP seen c')
      | HChild, SDropZeroP c => let c' := do_close c in SIter true (errs ++ errs_of c') h (SDropZeroP c')
      | HChild, SPipeP kd b q c => let c' := do_close c in SIter true (errs ++ errs_of c') h (SPipeP kd b q c')
      | HColl, SChainP _ _ ec _ => SIter true (errs ++ ec) h p
      | HColl, SFlatP _ _ _ ec _ => SIter true (errs ++ ec) h p
      | _, _ => SIter true errs h p
      end
  | _ => s
  end.

(* Read a producer until it returns something that is not a value. *)
Fixpoint drain_with (rdf : st -> option (out * st)) (k : nat) (c : st) (acc : list Z)
  : option (list Z * out * st) :=
  match k with
  | O => None
  | S k' => match rdf c with
            | None => None
            | Some (OVal z, c') => drain_with rdf k' c' (acc ++ [z])
            | Some (o, c') => Some (acc, o, c')
            end
  end.

(* The goroutine of itertool.Chain: every operand is read until its first error (of any kind), then
   ec.Add(iter.Close()), then the next operand. *)
Fixpoint chain_run (rdf : st -> option (out * st)) (k : nat) (ops : list st) (q ec : list Z) (done : list st)
  : option (list Z * list Z * list st) :=
  match ops with
  | [] => Some (q, ec, done)
  | o :: ops' => match drain_with rdf k o [] with
                 | None => None
                 | Some (vs, _, o') => let o'' := do_close o' in
                                       chain_run rdf k ops' (q ++ vs) (ec ++ errs_of o'') (done ++ [o''])
                 end
  end.

Definition pipe_vals (kd : pkind) (vs : list Z) : list Z :=
  match kd with KStack => rev vs | _ => vs end.

(* what the background worker does with its input iterator once the read loop has ended with [fin] *)
Definition pipe_post (kd : pkind) (fin : out) (c : st) : st :=
  match kd with
  | KBuffer =>   (* Consume: err = Join(iter.Close(), err); then i.ErrorHandler()(err) *)
      let c1 := do_close c in add_errs (errs_of c1 ++ ctx_err fin) c1
  | KChannel => add_errs (ctx_err fin) c     (* .Operation(i.AddError) *)
  | KSliceOf => do_close c                   (* Observe's deferred i.Close() *)
  | _ => c
  end.

Definition pop_q (mk : list Z -> st) (q : list Z) : option (out * st) :=
  match q with
  | [] => Some (OEof, mk [])
  | x :: q' => Some (OVal x, mk q')
  end.

(* One producer call, given the function [rec] for the calls it makes (to its operands and, for a
   retry, to itself) and the bound [n'] for its background drain loops. *)
Definition rd_body (rec : st -> option (out * st)) (n' : nat) (s : st) : option (out * st) :=
    match s with
    | SSlice l idx =>
        if (Z.of_nat (length l) <=? idx + 1)%Z then Some (OEof, s)
        else Some (OVal (nth (Z.to_nat (idx + 1)) l 0%Z), SSlice l (idx + 1)%Z)
    | SQueue q => pop_q SQueue q
    | SGen tbl k => Some (nth k tbl OEof, SGen tbl (S k))
    | SFilterP p c =>
        match rec c with
        | None => None
        | Some (OVal z, c') => if p z then Some (OVal z, SFilterP p c') else rec (SFilterP p c')
        | Some (o, c') => Some (o, SFilterP p c')
        end
    | STransformP f k c =>
        match rec c with
        | None => None
        | Some (OVal z, c') =>
            match f k z with
            | OVal y => Some (OVal y, STransformP f (S k) c')
            | OSkip => rec (STransformP f (S k) c')
            | o => Some (o, STransformP f (S k) c')
            end
        | Some (OSkip, c') => rec (STransformP f k c')
        | Some (o, c') => Some (o, STransformP f k c')
        end
    | SJoinP stage ferr serr a b =>
        if (stage =? 3)%Z then Some (serr, s)
        else if (stage =? 1)%Z then Some (ferr, s)
        else if (stage =? 0)%Z then
          match rec a with
          | None => None
          | Some (OVal z, a') => Some (OVal z, SJoinP 0 ferr serr a' b)
          | Some (OSkip, a') => rec (SJoinP 0 ferr serr a' b)
          | Some (OEof, a') => rec (SJoinP 2 ferr serr a' b)          (* stage.Store(runSecondFunc); fallthrough *)
          | Some (o, a') => Some (o, SJoinP 1 o serr a' b)              (* ferr = err; firstFunctionErrored *)
          end
        else if (stage =? 2)%Z then
          match rec b with
          | None => None
          | Some (OVal z, b') => Some (OVal z, SJoinP 2 ferr serr a b')
          | Some (OSkip, b') => rec (SJoinP 2 ferr serr a b')
          | Some (OEof, b') => Some (OEof, SJoinP 4 ferr serr a b')
          | Some (o, b') => Some (o, SJoinP 3 ferr o a b')
          end
        else Some (OEof, s)
    | SUniqP seen c =>      (* for iter.Next(ctx) { if !set.Check(v) {...return v} }; return io.EOF *)
        match rec c with
        | None => None
        | Some (OVal z, c') =>
            if existsb (Z.eqb z) seen then rec (SUniqP seen c') else Some (OVal z, SUniqP (z :: seen) c')
        | Some (_, c') => Some (OEof, SUniqP seen c')
        end
    | SDropZeroP c =>
        match rec c with
        | None => None
        | Some (OVal z, c') => if (z =? 0)%Z then rec (SDropZeroP c') else Some (OVal z, SDropZeroP c')
        | Some (o, c') => Some (o, SDropZeroP c')
        end
    | SPipeP kd started q c =>
        if started then pop_q (fun q' => SPipeP kd true q' c) q
        else match drain_with rec n' c [] with
             | None => None
             | Some (vs, fin, c') => pop_q (fun q' => SPipeP kd true q' (pipe_post kd fin c')) (pipe_vals kd vs)
             end
    | SChainP started q ec ops =>
        if started then pop_q (fun q' => SChainP true q' ec ops) q
        else match chain_run rec n' ops [] [] [] with
             | None => None
             | Some (q1, ec1, ops1) => pop_q (fun q' => SChainP true q' ec1 ops1) q1
             end
    | SFlatP g started q ec c =>
        if started then pop_q (fun q' => SFlatP g true q' ec c) q
        else match drain_with rec n' c [] with
             | None => None
             | Some (vs, fin, c') => pop_q (fun q' => SFlatP g true q' (ctx_err fin) c') (flat_map g vs)
             end
    | SIter closed errs h p =>                       (* Iterator.ReadOne *)
        if closed then Some (OEof, s)
        else match rec p with
             | None => None
             | Some (OVal z, p') => Some (OVal z, SIter false errs h p')
             | Some (OSkip, p') => rec (SIter false errs h p')
             | Some (OErr e, p') => Some (OEof, do_close (SIter false (errs ++ [e]) h p'))
             | Some (o, p') => Some (o, do_close (SIter false errs h p'))
             end
    end.

Fixpoint rd (n : nat) (s : st) {struct n} : option (out * st) :=
  match n with
  | O => None
  | S n' => rd_body (rd n') n' s
  end.

(* ------------------------------------------------------------------ construction *)

Definition iter (h : hook) (p : st) : st := SIter false [] h p.

(* Iterator.UnmarshalJSON's decoder closure: json.Unmarshal(rv[idx], &out) where out is the closure's
   named result, i.e. a FRESH zero value for every element: the decoded value is a function of that raw
   element alone (null and absent fields leave the zero value). *)
Definition dflt (o : option Z) : Z := match o with Some z => z | None => 0%Z end.
Definition dec_rec (o : option (option Z * option Z)) : Z :=
  match o with None => 0%Z | Some (a, b) => (dflt a * 100 + dflt b)%Z end.

Definition idx_fun : ufun := fun k v => OVal (Z.of_nat k * 1000 + v)%Z.
Definition id_fun : ufun := fun _ v => OVal v.

Fixpoint init (t : tree) : st :=
  match t with
  | Slice l => iter HNone (SSlice l (-1))
  | Variadic l => iter HNone (SSlice l (-1))
  | Chan l => iter HNone (SQueue l)
  | Gen tbl => iter HNone (SGen tbl 0)
  | Filter p t => iter HNone (SFilterP p (init t))
  | Transform f t => iter HNone (STransformP f 0 (init t))
  | Join t ts => iter HNone (fold_left (fun acc x => SJoinP 0 OEof OEof acc x) (map init ts) (init t))
  | Chain ts => iter HColl (SChainP false [] [] (map init ts))
  | Buffer _ t => iter HChild (SPipeP KBuffer false [] (init t))
  | Split1 t => iter HNone (SPipeP KSplit false [] (init t))
  | Channel _ t => iter HNone (SPipeP KChannel false [] (init t))
  | Uniq t => iter HChild (SUniqP [] (init t))
  | DropZero t => iter HChild (SDropZeroP (init t))
  | Indexed t => iter HNone (STransformP id_fun 0 (iter HNone (STransformP idx_fun 0 (init t))))
  | MergeSlices ls => iter HNone (SQueue (concat ls))
  | MergeSliceIters g t => iter HColl (SFlatP g false [] [] (init t))
  | JsonRoundTrip t => iter HNone (SJoinP 0 OEof OEof (SSlice [] (-1)) (SPipeP KJson false [] (init t)))
  | ListOf t => iter HNone (SPipeP KList false [] (init t))
  | StackOf t => iter HNone (SPipeP KStack false [] (init t))
  | SliceOf t => iter HNone (SPipeP KSliceOf false [] (init t))
  | JsonArr l => iter HNone (SJoinP 0 OEof OEof (SSlice [] (-1)) (SQueue (map dflt l)))
  | JsonRecs l => iter HNone (STransformP id_fun 0
                    (iter HNone (SJoinP 0 OEof OEof (SSlice [] (-1)) (SQueue (map dec_rec l)))))
  end.

(* ------------------------------------------------------------------ terminal consumers *)

Record obs := mkObs {
  o_vals : list Z;        (* values yielded, in order *)
  o_fin : out;            (* what ended the read loop (OEof where the consumer cannot tell) *)
  o_after : list out;     (* results of the extra reads after the end *)
  o_res : Z;              (* Count / Reduce result, 0 otherwise *)
  o_err : list Z;         (* error returned by the terminal itself (Slice, Reduce), as ids *)
  o_close : list Z        (* error ids reported by Close() afterwards *)
}.

Fixpoint reduce_loop (rdf : st -> option (out * st)) (r : rfun) (k calls : nat) (value : Z) (s : st)
  : option (Z * list Z * st) :=
  match k with
  | O => None
  | S k' =>
      match rdf s with
      | None => None
      | Some (OVal item, s') =>
          match r calls item value with
          | OVal o => reduce_loop rdf r k' (S calls) o s'
          | OSkip => reduce_loop rdf r k' (S calls) value s'
          | OEof | OAbort => Some (value, [], s')
          | OErr e => Some (value, [e], s')
          | OCtx => Some (value, [ERR_CTX], s')
          end
      | Some (_, s') => Some (value, [], s')
      end
  end.

(* itertool.Contains: true at the first element equal to x, false when the iterator ends *)
Fixpoint contains_loop (rdf : st -> option (out * st)) (k : nat) (x : Z) (s : st) : option (bool * st) :=
  match k with
  | O => None
  | S k' =>
      match rdf s with
      | None => None
      | Some (OVal v, s') => if (v =? x)%Z then Some (true, s') else contains_loop rdf k' x s'
      | Some (_, s') => Some (false, s')
      end
  end.

Definition run (n : nat) (tm : terminal) (s : st) : option obs :=
  match tm with
  | TReadAll =>
      match drain_with (rd n) n s [] with
      | None => None
      | Some (vs, fin, s1) =>
          match rd n s1 with
          | None => None
          | Some (x1, s2) =>
              match rd n s2 with
              | None => None
              | Some (x2, s3) => Some (mkObs vs fin [x1; x2] 0 [] (errs_of (do_close s3)))
              end
          end
      end
  | TNext =>   (* Next = not closed && ReadOne succeeded; the error kind is not visible *)
      match drain_with (rd n) n s [] with
      | None => None
      | Some (vs, _, s1) =>
          match rd n s1 with
          | None => None
          | Some (x1, s2) =>
              match rd n s2 with
              | None => None
              | Some (x2, s3) =>
                  Some (mkObs vs OEof [if is_val x1 then x1 else OEof; if is_val x2 then x2 else OEof] 0 []
                              (errs_of (do_close s3)))
              end
          end
      end
  | TCount =>
      match drain_with (rd n) n s [] with
      | None => None
      | Some (vs, _, s1) => Some (mkObs [] OEof [] (Z.of_nat (length vs)) [] (errs_of (do_close s1)))
      end
  | TSlice =>  (* Observe: EOF/Abort -> nil, otherwise err; deferred err = Join(i.Close(), err) *)
      match drain_with (rd n) n s [] with
      | None => None
      | Some (vs, fin, s1) =>
          let s2 := do_close s1 in
          Some (mkObs vs OEof [] 0 (errs_of s2 ++ ctx_err fin) (errs_of s2))
      end
  | TReduce r =>
      match reduce_loop (rd n) r n 0 0%Z s with
      | None => None
      | Some (v, e, _) => Some (mkObs [] OEof [] v e [])   (* Close after an early exit is schedule dependent: not observed *)
      end
  | TContains x =>
      match contains_loop (rd n) n x s with
      | None => None
      | Some (b, _) => Some (mkObs [] OEof [] (if b then 1 else 0) [] [])
      end
  end.

(* ------------------------------------------------------------------ denotation *)

(* map with call index, dropping skips, stopping at the first non-skip error *)
Fixpoint tvals (f : ufun) (k : nat) (l : list Z) : list Z * option out :=
  match l with
  | [] => ([], None)
  | x :: l' => match f k x with
               | OVal y => let '(vs, e) := tvals f (S k) l' in (y :: vs, e)
               | OSkip => tvals f (S k) l'
               | o => ([], Some o)
               end
  end.

(* a generator's table read as a sequence *)
Fixpoint gen_den (tbl : list out) : list Z * out * list Z :=
  match tbl with
  | [] => ([], OEof, [])
  | OVal z :: tbl' => let '(vs, fin, es) := gen_den tbl' in (z :: vs, fin, es)
  | OSkip :: tbl' => gen_den tbl'
  | OErr e :: _ => ([], OEof, [e])
  | o :: _ => ([], o, [])
  end.

(* keep the first occurrence of every value *)
Fixpoint dedupe (seen : list Z) (l : list Z) : list Z :=
  match l with
  | [] => []
  | x :: l' => if existsb (Z.eqb x) seen then dedupe seen l' else x :: dedupe (x :: seen) l'
  end.

Fixpoint enumerate (k : nat) (l : list Z) : list Z :=
  match l with [] => [] | x :: l' => (Z.of_nat k * 1000 + x)%Z :: enumerate (S k) l' end.

(* concatenate operands; an operand that ends with a terminating error other than io.EOF ends the whole *)
Fixpoint join_den (ds : list (list Z * out * list Z)) : list Z * out :=
  match ds with
  | [] => ([], OEof)
  | (vs, fin, _) :: ds' =>
      match fin with
      | OEof => let '(ws, f) := join_den ds' in (vs ++ ws, f)
      | _ => (vs, fin)
      end
  end.

Definition nonzero (z : Z) : bool := negb (z =? 0)%Z.

Fixpoint den (t : tree) : list Z * out * list Z :=
  match t with
  | Slice l => (l, OEof, [])
  | Variadic l => (l, OEof, [])
  | Chan l => (l, OEof, [])
  | Gen tbl => gen_den tbl
  | Filter p t => let '(vs, fin, _) := den t in (filter p vs, fin, [])
  | Transform f t =>
      let '(vs, fin, _) := den t in
      match tvals f 0 vs with
      | (ys, None) => (ys, fin, [])
      | (ys, Some (OErr e)) => (ys, OEof, [e])
      | (ys, Some o) => (ys, o, [])
      end
  | Join t ts => let '(vs, fin) := join_den (den t :: map den ts) in (vs, fin, [])
  | Chain ts => (concat (map (fun d => fst (fst d)) (map den ts)), OEof, concat (map snd (map den ts)))
  | Buffer _ t => let '(vs, fin, es) := den t in (vs, OEof, es ++ ctx_err fin)
  | Split1 t => let '(vs, _, _) := den t in (vs, OEof, [])
  | Channel _ t => let '(vs, _, _) := den t in (vs, OEof, [])
  | Uniq t => let '(vs, _, es) := den t in (dedupe [] vs, OEof, es)
  | DropZero t => let '(vs, fin, es) := den t in (filter nonzero vs, fin, es)
  | Indexed t => let '(vs, fin, _) := den t in (enumerate 0 vs, fin, [])
  | MergeSlices ls => (concat ls, OEof, [])
  | MergeSliceIters g t => let '(vs, fin, _) := den t in (flat_map g vs, OEof, ctx_err fin)
  | JsonRoundTrip t => let '(vs, _, _) := den t in (vs, OEof, [])
  | ListOf t => let '(vs, _, _) := den t in (vs, OEof, [])
  | StackOf t => let '(vs, _, _) := den t in (rev vs, OEof, [])
  | SliceOf t => let '(vs, _, _) := den t in (vs, OEof, [])
  | JsonArr l => (map dflt l, OEof, [])
  | JsonRecs l => (map dec_rec l, OEof, [])
  end.

Definition dvals (t : tree) : list Z := fst (fst (den t)).
Definition dfin (t : tree) : out := snd (fst (den t)).
Definition derrs (t : tree) : list Z := snd (den t).
Definition denote (t : tree) : list Z * list Z := (dvals t, derrs t).

(* fold with the reducer's early exits: Reduce's result and error over a value sequence *)
Fixpoint fold_den (r : rfun) (calls : nat) (value : Z) (l : list Z) : Z * list Z :=
  match l with
  | [] => (value, [])
  | x :: l' => match r calls x value with
               | OVal o => fold_den r (S calls) o l'
               | OSkip => fold_den r (S calls) value l'
               | OEof | OAbort => (value, [])
               | OErr e => (value, [e])
               | OCtx => (value, [ERR_CTX])
               end
  end.

(* ------------------------------------------------------------------ finite tables used by the harness *)

Fixpoint assocN (k : nat) (l : list (nat * out)) : option out :=
  match l with [] => None | (k', o) :: l' => if Nat.eqb k k' then Some o else assocN k l' end.
Fixpoint assocZ (z : Z) (l : list (Z * out)) : option out :=
  match l with [] => None | (z', o) :: l' => if Z.eqb z z' then Some o else assocZ z l' end.

(* outcome by call index first, then by input value, otherwise the value a*x+b *)
Definition mk_fun (by_call : list (nat * out)) (by_val : list (Z * out)) (a b : Z) : ufun :=
  fun k x => match assocN k by_call with
             | Some o => o
             | None => match assocZ x by_val with Some o => o | None => OVal (a * x + b)%Z end
             end.

(* predicate: membership in a table, optionally negated *)
Definition mk_pred (tbl : list Z) (neg : bool) : Z -> bool :=
  fun x => xorb (existsb (Z.eqb x) tbl) neg.

Definition comb (op : Z) (item acc : Z) : Z :=
  match op with
  | 0 => item + acc
  | 1 => item
  | 2 => 2 * acc + item
  | _ => Z.max item acc
  end%Z.

Definition mk_red (by_call : list (nat * out)) (op : Z) : rfun :=
  fun k item acc => match assocN k by_call with Some o => o | None => OVal (comb op item acc) end.

Definition mk_expand (k : Z) : Z -> list Z :=
  fun v => match k with
           | 0 => [v]
           | 1 => [v; v]
           | 2 => []
           | 3 => if Z.even v then [] else [v; 0; - v]
           | _ => repeat v (Z.to_nat (v mod 3))
           end%Z.

(* generous fuel for the correspondence run: the run reports out-of-fuel as a mismatch *)
Fixpoint tsize (t : tree) : nat :=
  match t with
  | Slice l | Variadic l | Chan l => S (length l)
  | Gen tbl => S (length tbl)
  | Filter _ t | Transform _ t | Buffer _ t | Split1 t | Channel _ t | Uniq t | DropZero t | Indexed t
  | JsonRoundTrip t | ListOf t | StackOf t | SliceOf t => S (S (tsize t))
  | MergeSliceIters _ t => 4 * S (tsize t)
  | Join t ts => S (tsize t + fold_right (fun x a => S (tsize x) + a) 0 ts)
  | Chain ts => S (fold_right (fun x a => S (tsize x) + a) 0 ts)
  | MergeSlices ls => S (length (concat ls))
  | JsonArr l => S (S (length l))
  | JsonRecs l => S (S (S (S (length l))))
  end.

Definition default_fuel (t : tree) : nat := 40 + 8 * tsize t.
