(* Code-level executable model of dt/hdrhist/hdr.go and window.go (HDR histogram).

   Everything is in Z.  int32 / int64 conversions of the Go code are the explicit
   [wrap32] / [wrap64]; the shift helpers follow Go's semantics for a shift count
   `uint(e)` (a negative or too large count gives 0, or the sign for >>).
   The counts slice is modelled as a total map Z -> Z (0 outside what was written)
   plus its length; every loop of the Go code is a structurally recursive function
   on a nat fuel that is large enough for every state the code can reach (running
   out of fuel is reported as [Diverge], never silently).

   The model is of the code as it stands after the two fixes recorded in
   /verif/fixes_pending/C19-*.diff:
     - the bucket-count loop of New uses `<=` (Java reference behaviour);
     - unitMagnitude is computed with bitLen(minValue)-1 instead of
       floor(log2(float64(minValue))), which is one too large just below 2^k, k >= 49.
   The remaining float expressions of New depend only on sigfigs in 1..5 and are the
   table [scm_of] (checked against the implementation for all five values on every run).
   ValueAtQuantile's rank computation uses Coq's primitive binary64 floats. *)
From FunV Require Import Base.Tac.
From Coq Require Import PrimFloat SpecFloat FloatOps.
From Coq Require Uint63.
Local Open Scope Z_scope.

(* ------------------------------------------------------------------ machine integers *)
Definition two31 : Z := 2147483648.
Definition two32 : Z := 4294967296.
Definition two63 : Z := 9223372036854775808.
Definition two64 : Z := 18446744073709551616.

(* the in-range test is only a fast path for evaluation: the modular formula gives z there too *)
Definition wrap32 (z : Z) : Z :=
  if (- two31 <=? z) && (z <? two31) then z else (z + two31) mod two32 - two31.
Definition wrap64 (z : Z) : Z :=
  if (- two63 <=? z) && (z <? two63) then z else (z + two63) mod two64 - two63.

(* x << uint(s) on int64 / int32;  x >> uint(s) on int64 (arithmetic) *)
Definition shl64 (x s : Z) : Z := if (s <? 0) || (64 <=? s) then 0 else wrap64 (Z.shiftl x s).
Definition shl32 (x s : Z) : Z := if (s <? 0) || (32 <=? s) then 0 else wrap32 (Z.shiftl x s).
Definition shr64 (x s : Z) : Z :=
  if (s <? 0) || (64 <=? s) then (if x <? 0 then -1 else 0) else Z.shiftr x s.

Inductive res (A : Type) : Type := Ok (a : A) | Panic | Diverge.
Arguments Ok {A} a.
Arguments Panic {A}.
Arguments Diverge {A}.

(* ------------------------------------------------------------------ bitLen *)
(* for ; x >= 0x8000; x >>= 16 { n += 16 }   -- at most 4 iterations for an int64 *)
Fixpoint bitlen_loop (fuel : nat) (x n : Z) : Z * Z :=
  match fuel with
  | O => (x, n)
  | S f => if x >=? 32768 then bitlen_loop f (shr64 x 16) (n + 16) else (x, n)
  end.

Definition bitlen_stage (thr k : Z) (xn : Z * Z) : Z * Z :=
  let '(x, n) := xn in if x >=? thr then (shr64 x k, n + k) else (x, n).

Definition bitLen (x : Z) : Z :=
  let xn := bitlen_loop 4 x 0 in
  let xn := bitlen_stage 128 8 xn in
  let xn := bitlen_stage 8 4 xn in
  let '(x, n) := bitlen_stage 2 2 xn in
  if x >=? 1 then n + 1 else n.

(* ------------------------------------------------------------------ the histogram *)
Record hist : Type := mkHist {
  h_lo : Z;      (* lowestTrackableValue *)
  h_hi : Z;      (* highestTrackableValue *)
  h_unit : Z;    (* unitMagnitude *)
  h_sig : Z;     (* significantFigures *)
  h_hcm : Z;     (* subBucketHalfCountMagnitude *)
  h_shc : Z;     (* subBucketHalfCount *)
  h_mask : Z;    (* subBucketMask *)
  h_sbc : Z;     (* subBucketCount *)
  h_bc : Z;      (* bucketCount *)
  h_clen : Z;    (* countsLen *)
  h_total : Z;   (* totalCount *)
  h_len : Z;     (* len(counts) *)
  h_counts : Z -> Z
}.

Definition upd (f : Z -> Z) (i x : Z) : Z -> Z := fun j => if j =? i then x else f j.

(* int32(math.Ceil(math.Log2(2 * math.Pow10(sigfigs)))) for sigfigs in 1..5 *)
Definition scm_of (sig : Z) : Z :=
  match sig with 1 => 5 | 2 => 8 | 3 => 11 | 4 => 15 | 5 => 18 | _ => 0 end.

(* for smallestUntrackableValue <= maxValue { smallestUntrackableValue <<= 1; bucketsNeeded++ } *)
Fixpoint bucket_loop (fuel : nat) (hi suv n : Z) : option Z :=
  match fuel with
  | O => None
  | S f => if suv <=? hi then bucket_loop f hi (shl64 suv 1) (wrap32 (n + 1)) else Some n
  end.

Definition new_hist (lo hi sig : Z) : res hist :=
  if (sig <? 1) || (5 <? sig) then Panic else
  let scm := scm_of sig in
  let hcm := wrap32 (Z.max scm 1 - 1) in
  let unit := Z.max (wrap32 (bitLen lo - 1)) 0 in
  let sbc := wrap32 (2 ^ (hcm + 1)) in
  let shc := Z.quot sbc 2 in
  let mask := shl64 (wrap32 (sbc - 1)) unit in
  let suv := shl64 sbc unit in
  match bucket_loop 70 hi suv 1 with
  | None => Diverge                     (* the loop never ends (suv wrapped to 0) *)
  | Some bc =>
      let clen := wrap32 (wrap32 (bc + 1) * Z.quot sbc 2) in
      if clen <? 0 then Panic            (* make([]int64, negative) *)
      else Ok (mkHist lo hi unit sig hcm shc mask sbc bc clen 0 clen (fun _ => 0))
  end.

Definition get_bucket_index (h : hist) (v : Z) : Z :=
  wrap32 (bitLen (Z.lor v (h_mask h)) - h_unit h - wrap32 (h_hcm h + 1)).

Definition get_sub_bucket_idx (h : hist) (v b : Z) : Z :=
  wrap32 (shr64 v (b + h_unit h)).

Definition counts_index (h : hist) (b s : Z) : Z :=
  let base := shl32 (wrap32 (b + 1)) (h_hcm h) in
  let off := wrap32 (s - h_shc h) in
  wrap32 (base + off).

Definition counts_index_for (h : hist) (v : Z) : Z :=
  let b := get_bucket_index h v in
  counts_index h b (get_sub_bucket_idx h v b).

Definition value_from_index (h : hist) (b s : Z) : Z := shl64 s (b + h_unit h).

(* None = the invariant `subBucketIdx < subBucketCount` panics *)
Definition size_of_equivalent_value_range (h : hist) (v : Z) : option Z :=
  let b := get_bucket_index h v in
  let s := get_sub_bucket_idx h v b in
  if s <? h_sbc h then Some (shl64 1 (h_unit h + b)) else None.

Definition lowest_equivalent_value (h : hist) (v : Z) : Z :=
  let b := get_bucket_index h v in
  value_from_index h b (get_sub_bucket_idx h v b).

Definition next_non_equivalent_value (h : hist) (v : Z) : option Z :=
  match size_of_equivalent_value_range h v with
  | Some sz => Some (wrap64 (lowest_equivalent_value h v + sz))
  | None => None
  end.

Definition highest_equivalent_value (h : hist) (v : Z) : option Z :=
  match next_non_equivalent_value h v with
  | Some x => Some (wrap64 (x - 1))
  | None => None
  end.

(* RecordValues(v, n): the bool is `err == nil`.  (h.counts[idx] cannot be out of range:
   len(counts) >= countsLen for every histogram that New or Import returns.) *)
Definition record_values (h : hist) (v n : Z) : hist * bool :=
  let idx := counts_index_for h v in
  if (idx <? 0) || (h_clen h <=? idx) then (h, false)
  else
    (mkHist (h_lo h) (h_hi h) (h_unit h) (h_sig h) (h_hcm h) (h_shc h) (h_mask h) (h_sbc h) (h_bc h)
            (h_clen h) (wrap64 (h_total h + n)) (h_len h)
            (upd (h_counts h) idx (wrap64 (h_counts h idx + n))), true).

Definition record_value (h : hist) (v : Z) : hist * bool := record_values h v 1.

Definition reset (h : hist) : hist :=
  mkHist (h_lo h) (h_hi h) (h_unit h) (h_sig h) (h_hcm h) (h_shc h) (h_mask h) (h_sbc h) (h_bc h)
         (h_clen h) 0 (h_len h) (fun _ => 0).

Definition total_count (h : hist) : Z := h_total h.

(* ------------------------------------------------------------------ iterator *)
Record iter : Type := mkIter {
  i_bucket : Z; i_sub : Z; i_count_at : Z; i_count_to : Z; i_value : Z; i_highest : Z
}.

Definition iter_init : iter := mkIter 0 (-1) 0 0 0 0.

Inductive step : Type := SDone | SPanic | SNext (it : iter).

Definition iter_next (h : hist) (it : iter) : step :=
  if i_count_to it >=? h_total h then SDone else
  let s1 := wrap32 (i_sub it + 1) in
  let '(b, s) := if s1 >=? h_sbc h then (wrap32 (i_bucket it + 1), h_shc h) else (i_bucket it, s1) in
  if negb (b <? h_bc h) then SPanic                      (* "iteration out of bounds" *)
  else
    let idx := counts_index h b s in
    if (idx <? 0) || (h_len h <=? idx) then SPanic        (* index out of range *)
    else
      let c := h_counts h idx in
      let v := value_from_index h b s in
      match highest_equivalent_value h v with
      | None => SPanic                                    (* "found out of range bucket" *)
      | Some hv => SNext (mkIter b s c (wrap64 (i_count_to it + c)) v hv)
      end.

Definition walk_fuel (h : hist) : nat := Z.to_nat (h_clen h) + 2.

(* ValueAtQuantile after the rank (countAtPercentile) has been computed *)
Fixpoint vaq_loop (fuel : nat) (h : hist) (it : iter) (total cap : Z) : res Z :=
  match fuel with
  | O => Diverge
  | S f =>
      match iter_next h it with
      | SDone => Ok 0
      | SPanic => Panic
      | SNext it' =>
          let total' := wrap64 (total + i_count_at it') in
          if total' >=? cap then
            match highest_equivalent_value h (i_value it') with Some x => Ok x | None => Panic end
          else vaq_loop f h it' total' cap
      end
  end.

Definition value_at_rank (h : hist) (cap : Z) : res Z := vaq_loop (walk_fuel h) h iter_init 0 cap.

(* float64 -> int64 conversion (truncation; out of range / NaN as on amd64) *)
Definition f2i64 (f : float) : Z :=
  match Prim2SF f with
  | S754_zero _ => 0
  | S754_infinity _ | S754_nan => - two63
  | S754_finite sg m e =>
      let a := if e >=? 0 then Z.pos m * 2 ^ e else Z.pos m / 2 ^ (- e) in
      let r := if sg then - a else a in
      if (r <? - two63) || (two63 <=? r) then - two63 else r
  end.

(* float64(int64) *)
Definition i2f64 (z : Z) : float :=
  if z <? 0 then (- of_uint63 (Uint63.of_Z (- z)))%float else of_uint63 (Uint63.of_Z z).

(* q is given as m * 2^e (exactly the binary64 the driver used) *)
Definition float_of_me (m e : Z) : float := Z.ldexp (i2f64 m) e.

(* if q > 100 { q = 100 };  int64(((q / 100) * float64(h.totalCount)) + 0.5) *)
Definition rank_of (q : float) (total : Z) : Z :=
  let q := if (100 <? q)%float then 100%float else q in
  f2i64 (q / 100 * i2f64 total + 0.5)%float.

Definition value_at_quantile (h : hist) (q : float) : res Z := value_at_rank h (rank_of q (h_total h)).

(* Max *)
Fixpoint max_loop (fuel : nat) (h : hist) (it : iter) (mx : Z) : res Z :=
  match fuel with
  | O => Diverge
  | S f =>
      match iter_next h it with
      | SDone => match highest_equivalent_value h mx with Some x => Ok x | None => Panic end
      | SPanic => Panic
      | SNext it' => max_loop f h it' (if negb (i_count_at it' =? 0) then i_highest it' else mx)
      end
  end.
Definition hist_max (h : hist) : res Z := max_loop (walk_fuel h) h iter_init 0.

(* Min *)
Fixpoint min_loop (fuel : nat) (h : hist) (it : iter) : res Z :=
  match fuel with
  | O => Diverge
  | S f =>
      match iter_next h it with
      | SDone => Ok (lowest_equivalent_value h 0)
      | SPanic => Panic
      | SNext it' =>
          if negb (i_count_at it' =? 0)   (* && min == 0 holds: min is still 0 *)
          then Ok (lowest_equivalent_value h (i_highest it'))
          else min_loop f h it'
      end
  end.
Definition hist_min (h : hist) : res Z := min_loop (walk_fuel h) h iter_init.

(* Merge: rIterator.next skips the zero counts; the two nested loops are one loop here *)
Fixpoint merge_loop (fuel : nat) (from : hist) (it : iter) (h : hist) (dropped : Z) : res (hist * Z) :=
  match fuel with
  | O => Diverge
  | S f =>
      match iter_next from it with
      | SDone => Ok (h, dropped)
      | SPanic => Panic
      | SNext it' =>
          if i_count_at it' =? 0 then merge_loop f from it' h dropped
          else
            let '(h', ok) := record_values h (i_value it') (i_count_at it') in
            merge_loop f from it' h' (if ok then dropped else wrap64 (dropped + i_count_at it'))
      end
  end.
Definition merge (h from : hist) : res (hist * Z) := merge_loop (walk_fuel from) from iter_init h 0.

(* Equals *)
Fixpoint counts_eq_loop (n : nat) (i : Z) (a b : hist) : res bool :=
  match n with
  | O => Ok true
  | S k =>
      if h_len b <=? i then Panic                  (* other.counts[i] out of range *)
      else if negb (h_counts a i =? h_counts b i) then Ok false
      else counts_eq_loop k (i + 1) a b
  end.

Definition equals (a b : hist) : res bool :=
  if negb ((h_lo a =? h_lo b) && (h_hi a =? h_hi b) && (h_unit a =? h_unit b) && (h_sig a =? h_sig b)
           && (h_hcm a =? h_hcm b) && (h_shc a =? h_shc b) && (h_mask a =? h_mask b) && (h_sbc a =? h_sbc b)
           && (h_bc a =? h_bc b) && (h_clen a =? h_clen b) && (h_total a =? h_total b))
  then Ok false
  else counts_eq_loop (Z.to_nat (h_len a)) 0 a b.

(* Export / Import *)
Record snapshot : Type := mkSnap { s_lo : Z; s_hi : Z; s_sig : Z; s_len : Z; s_counts : Z -> Z }.

Definition export (h : hist) : snapshot := mkSnap (h_lo h) (h_hi h) (h_sig h) (h_len h) (h_counts h).

Fixpoint import_total (n : nat) (i : Z) (f : Z -> Z) (acc : Z) : Z :=
  match n with
  | O => acc
  | S k => let c := f i in import_total k (i + 1) f (if c >? 0 then wrap64 (acc + c) else acc)
  end.

Definition import (s : snapshot) : res hist :=
  match new_hist (s_lo s) (s_hi s) (s_sig s) with
  | Ok h =>
      if s_len s <? h_clen h then Panic             (* h.counts[i] out of range in the summing loop *)
      else Ok (mkHist (h_lo h) (h_hi h) (h_unit h) (h_sig h) (h_hcm h) (h_shc h) (h_mask h) (h_sbc h)
                      (h_bc h) (h_clen h) (import_total (Z.to_nat (h_clen h)) 0 (s_counts s) 0)
                      (s_len s) (s_counts s))
  | Panic => Panic
  | Diverge => Diverge
  end.

(* ------------------------------------------------------------------ op lists (for the conservation theorem) *)
Inductive hop : Type := HRecord (v n : Z) | HReset.

Definition hop_step (h : hist) (o : hop) : hist :=
  match o with HRecord v n => fst (record_values h v n) | HReset => reset h end.

Definition run_hops (h : hist) (ops : list hop) : hist := fold_left hop_step ops h.

(* ------------------------------------------------------------------ window.go *)
Record whist : Type := mkW { w_idx : Z; w_h : list hist; w_m : hist }.

Definition w_cur (w : whist) : nat := Z.to_nat (w_idx w mod Z.of_nat (length (w_h w))).

Fixpoint set_nth {A} (l : list A) (k : nat) (x : A) : list A :=
  match l, k with
  | [], _ => []
  | _ :: t, O => x :: t
  | y :: t, S k' => y :: set_nth t k' x
  end.

(* Rotate: idx++; Current = &h[idx % len]; Current.Reset()  (len = 0: integer divide by zero) *)
Definition w_rotate (w : whist) : res whist :=
  match w_h w with
  | [] => Panic
  | h0 :: _ =>
      let idx := w_idx w + 1 in
      let k := Z.to_nat (idx mod Z.of_nat (length (w_h w))) in
      Ok (mkW idx (set_nth (w_h w) k (reset (nth k (w_h w) h0))) (w_m w))
  end.

Definition new_windowed (n lo hi sig : Z) : res whist :=
  if n <? 0 then Panic else
  match new_hist lo hi sig with
  | Ok h => w_rotate (mkW (-1) (repeat h (Z.to_nat n)) h)
  | Panic => Panic
  | Diverge => Diverge
  end.

Definition w_record (w : whist) (v : Z) : whist * bool :=
  match nth_error (w_h w) (w_cur w) with
  | Some h => let '(h', ok) := record_value h v in (mkW (w_idx w) (set_nth (w_h w) (w_cur w) h') (w_m w), ok)
  | None => (w, false)
  end.

Fixpoint w_merge_all (hs : list hist) (m : hist) : res hist :=
  match hs with
  | [] => Ok m
  | h :: t => match merge m h with
              | Ok (m', _) => w_merge_all t m'
              | Panic => Panic
              | Diverge => Diverge
              end
  end.

(* Merge: m.Reset(); for each h: m.Merge(&h); return m *)
Definition w_merge (w : whist) : res whist :=
  match w_merge_all (w_h w) (reset (w_m w)) with
  | Ok m => Ok (mkW (w_idx w) (w_h w) m)
  | Panic => Panic
  | Diverge => Diverge
  end.

(* ------------------------------------------------------------------ several live histograms
   Histograms and snapshots are values: Export copies the counts, Import/New/Merge produce or update
   one entry of the store and nothing else.  (Import adopts the snapshot's slice in the Go code; the
   driver honours "the caller must stop accessing" the snapshot after Import, so that sharing is
   unobservable; every other sharing between entries would be a defect of the implementation.) *)
Record mstore : Type := mkMS { ms_h : list hist; ms_s : list snapshot }.

Inductive mop : Type :=
| MNew                          (* append New(lo, hi, sig) *)
| MRecord (i : nat) (v n : Z)   (* h[i].RecordValues(v, n)        -> [ok] *)
| MReset (i : nat)              (* h[i].Reset() *)
| MExport (i : nat)             (* append h[i].Export() to the snapshots *)
| MImport (k : nat)             (* append Import(snapshot k) to the histograms *)
| MScribble (k : nat) (j d : Z) (* snapshot k: Counts[j] += d (the caller's own copy) *)
| MMerge (i j : nat).           (* h[i].Merge(h[j])               -> [dropped] *)

Definition scribble (s : snapshot) (j d : Z) : snapshot :=
  mkSnap (s_lo s) (s_hi s) (s_sig s) (s_len s) (upd (s_counts s) j (wrap64 (s_counts s j + d))).

Definition mstep (lo hi sig : Z) (st : mstore) (o : mop) : res (mstore * list Z) :=
  match o with
  | MNew => match new_hist lo hi sig with
            | Ok h => Ok (mkMS (ms_h st ++ [h]) (ms_s st), [])
            | Panic => Panic
            | Diverge => Diverge
            end
  | MRecord i v n =>
      match nth_error (ms_h st) i with
      | Some h => let '(h', ok) := record_values h v n in
                  Ok (mkMS (set_nth (ms_h st) i h') (ms_s st), [if ok then 1 else 0])
      | None => Ok (st, [])
      end
  | MReset i =>
      match nth_error (ms_h st) i with
      | Some h => Ok (mkMS (set_nth (ms_h st) i (reset h)) (ms_s st), [])
      | None => Ok (st, [])
      end
  | MExport i =>
      match nth_error (ms_h st) i with
      | Some h => Ok (mkMS (ms_h st) (ms_s st ++ [export h]), [])
      | None => Ok (st, [])
      end
  | MImport k =>
      match nth_error (ms_s st) k with
      | Some s => match import s with
                  | Ok h => Ok (mkMS (ms_h st ++ [h]) (ms_s st), [])
                  | Panic => Panic
                  | Diverge => Diverge
                  end
      | None => Ok (st, [])
      end
  | MScribble k j d =>
      match nth_error (ms_s st) k with
      | Some s => Ok (mkMS (ms_h st) (set_nth (ms_s st) k (scribble s j d)), [])
      | None => Ok (st, [])
      end
  | MMerge i j =>
      match nth_error (ms_h st) i, nth_error (ms_h st) j with
      | Some t, Some from =>
          match merge t from with
          | Ok (t', d) => Ok (mkMS (set_nth (ms_h st) i t') (ms_s st), [d])
          | Panic => Panic
          | Diverge => Diverge
          end
      | _, _ => Ok (st, [])
      end
  end.

(* the histogram entry an operation may change (appending is not a change of an existing entry) *)
Definition mop_target (o : mop) : option nat :=
  match o with
  | MRecord i _ _ | MReset i | MMerge i _ => Some i
  | _ => None
  end.
