(* Model/ErrTree.v — executable model of the error-aggregation code of /repo (property C12).

   Transcribed from: ers/merged.go (Stack: Push, Add, Resolve, Ok, Len, Is, As, Unwrap, Unwind; Join),
   ers/ers.go (Wrap, Ok), ers/panic.go (ParsePanic), ers/constant.go (Error.Is), internal/wrap.go
   (Unwind, sparse), erc/errors.go (Collector.Add/Len/Resolve, sequential semantics).
   Go's errors.Is / errors.As (go1.20+: ==, Is/As method, Unwrap() error, Unwrap() []error) are
   modelled ONCE here as [go_is] / [go_as]; they are standard library and are in the trusted base.

   VALUES.  An error value is a finite tree.  Identity matters in Go (pointer errors, wrapper objects), so
   every object carries the identity it has in the driver's registry:
     Nil            the nil error interface
     Const s        ers.Error constant (a string; compared by value; s = 0 is the empty string "")
     Ptr id         a pointer error without methods (errors.New / fmt.Errorf without %w), compared by address
     Typed ty id    an error of user type number ty (target of errors.As), compared by (ty,id)
     TypedU ty id   an error of an UNCOMPARABLE user type ty (a slice- or map-based type) whose contents are id and
                    which has its own method  Is(target) = target has the same type and equal contents.
                    Go's == on two such values of the same type PANICS; errors.Is guards its == with
                    reflectlite.TypeOf(target).Comparable() (standard library, trusted), so a TypedU is only ever
                    matched through its Is method
     Wrap1 tag e    fmt.Errorf("...%w", e): implements Unwrap() error; tag = identity of the wrapper
     Multi tag es   errors.Join(es...) or any type with Unwrap() []error (es may contain Nil for user types)
     Stk tag n es   *ers.Stack; tag = identity of the object; n = its count field (maintained on the node Push is
                    called on only: the nodes Push creates behind it have count 0, so an INNER layer — what
                    Stack.Unwrap hands out — has n = 0 whatever it holds); es = the err fields of the chain of nodes
                    reached through .next, head first, EXCLUDING the zero-valued sentinel node {err:nil,next:nil}
                    with which every chain built from a zero Stack ends (Push copies (next,err) of the head into
                    a fresh node, so the zero node always stays last).  Hence  head.err = hd Nil es  and
                    head.next == nil  iff  es = [].
   Values are immutable trees: a *Stack that is pushed to AFTER it was embedded in another error (aliasing of
   the live head, cf. Collector.Resolve) is outside the model; the driver never does that. *)
From FunV Require Import Base.Tac.
Local Open Scope Z_scope.

Inductive err :=
| Nil
| Const (s : Z)
| Ptr (id : Z)
| Typed (ty id : Z)
| TypedU (ty id : Z)
| Wrap1 (tag : Z) (e : err)
| Multi (tag : Z) (es : list err)
| Stk (tag : Z) (n : Z) (es : list err).

Definition is_nil (e : err) : bool := match e with Nil => true | _ => false end.

(* reflectlite.TypeOf(e).Comparable() *)
Definition comparable (e : err) : bool := match e with TypedU _ _ => false | _ => true end.

(* Go's == on two error interface values of the universe (same dynamic type and equal value / same address).
   Different dynamic types compare false without looking at the values; two TypedU of the same type would panic:
   that comparison is never evaluated by the code modelled here (errors.Is guards it, nothing else compares),
   and is given the value false. *)
Definition same (a b : err) : bool :=
  match a, b with
  | Nil, Nil => true
  | Const s, Const s' => s =? s'
  | Ptr i, Ptr j => i =? j
  | Typed t i, Typed t' j => (t =? t') && (i =? j)
  | Wrap1 g _, Wrap1 g' _ => g =? g'
  | Multi g _, Multi g' _ => g =? g'
  | Stk g _ _, Stk g' _ _ => g =? g'
  | _, _ => false
  end.

(* ------------------------------------------------------------------ ers.Stack (merged.go) *)

(* the receiver of Push/Add/Resolve: count field and the chain (representation as for Stk) *)
Record stack := mkStack { s_count : Z; s_chain : list err }.

Definition stack_zero : stack := mkStack 0 [].        (* Stack{} *)

(* func (e *Stack) Push(err error) — merged.go:86-118, arm by arm:
     case nil:            return
     case *Stack:         for werr != nil { e.Push(werr.err); werr = werr.next }
                          (every node of the chain, the sentinel included; its nil err hits the first arm)
     case Unwind() []error:  for _, err := range werr.Unwind() { e.Push(err) }
                          (in this universe only *Stack has Unwind(), and it is caught by the arm above)
     case Unwrap() []error:  for _, err := range werr.Unwrap() { e.Push(err) }
     default:             e.next = &Stack{next: e.next, err: e.err}; e.err = err; e.count++           *)
Fixpoint push (e : err) (st : stack) : stack :=
  match e with
  | Nil => st
  | Stk _ _ es => fold_left (fun s x => push x s) es st
  | Multi _ es => fold_left (fun s x => push x s) es st
  | _ => mkStack (s_count st + 1) (e :: s_chain st)
  end.

(* func (e *Stack) Add(errs ...error) { for _, err := range errs { e.Push(err) } } *)
Definition stack_add (st : stack) (es : list err) : stack := fold_left (fun s x => push x s) es st.

(* func (e *Stack) Len() int — e.count (nil receiver not modelled) *)
Definition stack_len (st : stack) : Z := s_count st.

(* func (e *Stack) Resolve() error: count == 0 -> nil; count == 1 -> e.err; default -> e *)
Definition stack_resolve (tag : Z) (st : stack) : err :=
  if s_count st =? 0 then Nil
  else if s_count st =? 1 then hd Nil (s_chain st)
  else Stk tag (s_count st) (s_chain st).

(* func (e *Stack) Ok() bool { return e == nil || (e.err == nil && e.next == nil) } on a chain *)
Definition chain_ok (es : list err) : bool :=
  is_nil (hd Nil es) && match es with [] => true | _ => false end.

(* func (e *Stack) Unwind() []error: iter := &Stack{next: e};
     for { if iter.next == nil || iter.next.err == nil { break }; iter = iter.next; out = append(out, iter.err) } *)
Fixpoint chain_unwind (es : list err) : list err :=
  match es with
  | [] => []                                   (* iter.next is the sentinel: err == nil *)
  | x :: r => if is_nil x then [] else x :: chain_unwind r
  end.

(* func Join(errs ...error) error { st := Stack{}; st.Add(errs...); return st.Resolve() } *)
Definition join (tag : Z) (es : list err) : err := stack_resolve tag (stack_add stack_zero es).

(* ------------------------------------------------------------------ ers.Ok, ers.Wrap (ers.go) *)

(* func Ok(err error) bool: nil -> true; interface{ Ok() bool } -> e.Ok() (only *Stack has it); default false *)
Definition ok (e : err) : bool :=
  match e with
  | Nil => true
  | Stk _ _ es => chain_ok es
  | _ => false
  end.

(* func Wrap(err error, annotation ...any) error { if Ok(err) { return nil }; return Join(err, errors.New(...)) }
   ann = identity of the fresh errors.New value *)
Definition wrap (tag ann : Z) (e : err) : err :=
  if ok e then Nil else join tag [e; Ptr ann].

(* func Wrapf(err, tmpl, args...) is the same code with fmt.Errorf(tmpl, args...) (no %w: a fresh pointer error)
   as the annotation, so it is [wrap] too. *)

(* func IsError(err error) bool { return !Ok(err) } *)
Definition is_error (e : err) : bool := negb (ok e).

(* func RemoveOk(errs []error) []error: keeps errs[idx] when IsError(errs[idx]);
   func Append(errs []error, es ...error) []error with errs = nil: the same loop *)
Definition remove_ok (es : list err) : list err := filter is_error es.

(* errors.Unwrap(err) / ers.Unwrap(err): calls Unwrap() error when the type has it, else nil.
     *fmt.wrapError:  the wrapped error
     *ers.Stack:      func (e *Stack) Unwrap() error { if e.next == nil || e.next.err == nil { return nil }; return e.next }
                      e.next is the INNER layer: a *Stack of its own (identity tag) whose chain is the rest of the
                      chain and whose count is 0 (Push created it as &Stack{next: e.next, err: e.err})
     anything else (constants, pointer errors, Unwrap() []error types): nil *)
Definition unwrap1 (tag : Z) (e : err) : err :=
  match e with
  | Wrap1 _ x => x
  | Stk _ _ es =>
      match es with
      | [] => Nil                                       (* e.next == nil *)
      | _ :: r => match r with
                  | [] => Nil                           (* e.next is the sentinel: e.next.err == nil *)
                  | y :: _ => if is_nil y then Nil else Stk tag 0 r
                  end
      end
  | _ => Nil
  end.

(* func (e *Stack) Len() int on a value *)
Definition value_len (e : err) : Z := match e with Stk _ n _ => n | _ => -1 end.

(* ------------------------------------------------------------------ internal.Unwind (wrap.go) *)

(* sparse: drops nil items *)
Definition sparse (l : list err) : list err := filter (fun x => negb (is_nil x)) l.

(* for { switch any(in).(type) {
     case Unwind() []T:  return append(out, sparse(Unwind())...)     — first: a *Stack never reaches the next arm
     case Unwrap() T:    out = append(out, in); in = Unwrap()
     case Unwrap() []T:  return append(out, sparse(Unwrap())...)
     case nil:           return out
     default:            return append(out, in) } }
   The accumulator [out] is the prefix consed on here. *)
Fixpoint unwind (e : err) : list err :=
  match e with
  | Stk _ _ es => sparse (chain_unwind es)
  | Wrap1 _ x => e :: unwind x
  | Multi _ es => sparse es
  | Nil => []
  | _ => [e]
  end.

(* ------------------------------------------------------------------ errors.Is (standard library; trusted model) *)

Section GoIs.
Variable t : err.     (* the target *)

(* func (e Error) Is(err error) bool — constant.go:46-60 *)
Definition const_is (s : Z) : bool :=
  if is_nil t && (s =? 0) then (s =? 0)
  else if xorb (is_nil t) (s =? 0) then false
  else match t with Const s' => s' =? s | _ => false end.

(* errors.is(err, target): the loop body on one node:
     if err == target {true}; if err has Is and err.Is(target) {true};
     Unwrap() error: err = Unwrap(); if err == nil {false}     Unwrap() []error: any child     default: false
   *ers.Stack:  Is(target) = errors.Is(e.err, target);  Unwrap() = e.next unless e.next == nil || e.next.err == nil.
   The interior nodes e.next, e.next.next, ... are *Stack objects of their own; their identity is never a target
   in this universe, so [interior == target] is modelled as false; their Is method and Unwrap are the same code,
   which is the local [walk] over the rest of the chain. *)
(* the walk of errors.is over the chain of a *ers.Stack whose remaining nodes have the err fields l;
   f is errors.is on one element (the recursive call) *)
Definition chain_is (f : err -> bool) : list err -> bool :=
  fix walk (l : list err) : bool :=
    match l with
    | [] => (* e.err == nil: errors.Is(nil, target) = (target == nil); Unwrap: next == nil *) is_nil t
    | x :: r =>
        (if is_nil x || is_nil t then same x t else f x)             (* Is method: errors.Is(e.err, target) *)
        || match r with
           | [] => false                                               (* next is the sentinel: next.err == nil *)
           | y :: _ => negb (is_nil y) && walk r                       (* err = e.next *)
           end
    end.

(* the Is method of the uncomparable user types: same type and equal contents *)
Definition typedu_is (ty id : Z) : bool :=
  match t with TypedU ty' id' => (ty =? ty') && (id =? id') | _ => false end.

Fixpoint is_ (e : err) : bool :=
  (comparable t && same e t) ||                  (* if targetComparable && err == target *)
  match e with
  | Const s => const_is s
  | TypedU ty id => typedu_is ty id
  | Wrap1 _ x => if is_nil x then false else is_ x
  | Multi _ es => existsb is_ es
  | Stk _ _ es => chain_is is_ es
  | _ => false
  end.
End GoIs.

(* func Is(err, target error) bool { if err == nil || target == nil { return err == target }; return is(err, target, comparable) }
   every dynamic type of the universe is comparable *)
Definition go_is (e t : err) : bool :=
  if is_nil e || is_nil t then same e t else is_ t e.

(* ------------------------------------------------------------------ errors.As (standard library; trusted model) *)

(* target types: *ers.Error (KConst) and pointer-to user type ty (KTyped ty) *)
Inductive askind := KConst | KTyped (ty : Z).

Section GoAs.
Variable k : askind.

Definition assignable (e : err) : bool :=
  match e, k with
  | Const _, KConst => true
  | Typed ty _, KTyped ty' => ty =? ty'
  | TypedU ty _, KTyped ty' => ty =? ty'
  | _, _ => false
  end.

(* errors.as: if type assignable {set; true}; if err has As and err.As(target) {true};
   Unwrap() error: err = Unwrap(); nil -> false     Unwrap() []error: first child (nil skipped) for which as succeeds
   *ers.Stack: As(target) = errors.As(e.err, target) (false for nil e.err); Unwrap as for Is.
   The result is the value stored in *target. *)
(* Unwrap() []error arm: the first child (nil skipped) for which as succeeds *)
Definition first_as (f : err -> option err) : list err -> option err :=
  fix first (l : list err) : option err :=
    match l with
    | [] => None
    | x :: r => if is_nil x then first r
                else match f x with Some v => Some v | None => first r end
    end.

(* the walk of errors.as over the chain of a *ers.Stack *)
Definition chain_as (f : err -> option err) : list err -> option err :=
  fix walk (l : list err) : option err :=
    match l with
    | [] => None                                                       (* As method: errors.As(nil, _) = false; Unwrap: nil *)
    | x :: r =>
        match (if is_nil x then None else f x) with                    (* As method: errors.As(e.err, target) *)
        | Some v => Some v
        | None => match r with
                  | [] => None
                  | y :: _ => if is_nil y then None else walk r        (* err = e.next *)
                  end
        end
    end.

Fixpoint as_ (e : err) : option err :=
  if assignable e then Some e else
  match e with
  | Wrap1 _ x => if is_nil x then None else as_ x
  | Multi _ es => first_as as_ es
  | Stk _ _ es => chain_as as_ es
  | _ => None
  end.
End GoAs.

Definition go_as (e : err) (k : askind) : option err :=
  if is_nil e then None else as_ k e.

(* ------------------------------------------------------------------ ers.ParsePanic (panic.go) *)

Definition rp_id : Z := 1.
Definition ErrRecoveredPanic : err := Const rp_id.

(* the dynamic type of the recovered value r *)
Inductive panicval :=
| PNil                        (* r == nil *)
| PErr (e : err)              (* an error (PErr Nil is the nil interface again: r == nil) *)
| PStr (s : Z)                (* a string; New(s) = Error(s) = Const s *)
| PErrs (es : list err)       (* []error *)
| POther (id : Z).            (* anything else: fmt.Errorf("[%T]: %v", ...) — a fresh pointer error *)

(* func ParsePanic(r any) error { if r != nil { switch err := r.(type) {
     case error:   return Join(err, ErrRecoveredPanic)
     case string:  return Join(New(err), ErrRecoveredPanic)
     case []error: return Join(err...)
     default:      return Join(fmt.Errorf(...), ErrRecoveredPanic) } }; return nil } *)
Definition parse_panic (tag : Z) (p : panicval) : err :=
  match p with
  | PNil => Nil
  | PErr e => if is_nil e then Nil else join tag [e; ErrRecoveredPanic]
  | PStr s => join tag [Const s; ErrRecoveredPanic]
  | PErrs es => join tag es
  | POther id => join tag [Ptr id; ErrRecoveredPanic]
  end.

(* ------------------------------------------------------------------ erc.Collector (errors.go), sequential *)

(* Collector{mu, stack}: the state is the stack *)
Definition coll := stack.
Definition coll_zero : coll := stack_zero.

(* func (ec *Collector) Add(err error) { if err == nil { return }; lock; ec.stack.Push(err) } *)
Definition coll_add (c : coll) (e : err) : coll := if is_nil e then c else push e c.

(* func (ec *Collector) Len() int { lock; return ec.stack.Len() } *)
Definition coll_len (c : coll) : Z := stack_len c.

(* func (ec *Collector) Resolve() error { lock; if ec.stack.Len() == 0 { return nil }; return &ec.stack } *)
Definition coll_resolve (tag : Z) (c : coll) : err :=
  if stack_len c =? 0 then Nil else Stk tag (s_count c) (s_chain c).

Definition coll_adds (c : coll) (es : list err) : coll := fold_left coll_add es c.

(* ------------------------------------------------------------------ ers.Is, ers.FilterExclude (ers.go, filter.go) *)

(* func Is(err error, targets ...error) bool { for _, target := range targets {
     if err == nil && target != nil { continue }; if errors.Is(err, target) { return true } }; return false } *)
Definition ers_is (e : err) (targets : list err) : bool :=
  existsb (fun t => if is_nil e && negb (is_nil t) then false else go_is e t) targets.

(* func FilterExclude(exclusions ...error) Filter {
     if len(exclusions) == 0 { return FilterNoop() }
     return FilterCheck(func(err error) bool { return Ok(err) || Is(err, exclusions...) }) }
   func FilterCheck(ep) Filter { return func(err error) error { if ep(err) { return nil }; return err } }
   All or nothing: an aggregate is dropped as a whole as soon as ANY of its constituents is excluded. *)
Definition filter_exclude (excl : list err) (e : err) : err :=
  match excl with
  | [] => e
  | _ => if ok e || ers_is e excl then Nil else e
  end.

(* ------------------------------------------------------------------ erc.Consume / erc.Stream (helpers.go) *)

(* context.Canceled: one pointer error of the standard library *)
Definition ctx_canceled_id : Z := 90.
Definition ctx_canceled : err := Ptr ctx_canceled_id.

(* What the consumed fun.Iterator[error] does on each ReadOne, as scripted by the driver's producer:
     kind 0  yields the item e (which may be nil: a nil error is a legal item)
     kind 1  the source fails with the (non-nil, non-terminating) error e: ReadOne does i.AddError(e) and reports EOF
     kind 2  the producer cancels the consumer's context and yields the item e
   The iterator keeps its own errors in an ers.Stack (HF.ErrorCollector); AddError = Stack.Push, Close() = Resolve().
   fun.Iterator itself (ReadOne, Observe) belongs to property C02; its plumbing is transcribed here and trusted:
     func (i *Iterator[T]) Observe(fn) Worker { return func(ctx) (err error) {
        defer func() { err = ers.Join(i.Close(), err, ers.ParsePanic(recover())) }()
        for { item, err := i.ReadOne(ctx)            — ReadOne returns ctx.Err() first when the context has ended
              switch { case err == nil: fn(item)
                       case ers.Is(err, io.EOF, ers.ErrCurrentOpAbort): return nil
                       default: return err } } } }
   The loop: returns (collector, the iterator's error stack, the error the loop returned). *)
Fixpoint observe_loop (steps : list (Z * err)) (cancelled : bool) (c : coll) (ist : stack) : coll * stack * err :=
  if cancelled then (c, ist, ctx_canceled)
  else match steps with
       | [] => (c, ist, Nil)                                            (* io.EOF *)
       | (k, e) :: r =>
           if k =? 1 then (c, push e ist, Nil)                          (* i.AddError(e); io.EOF *)
           else observe_loop r (k =? 2) (coll_add c e) ist              (* fn(item) = ec.Add(item) *)
       end.

(* func Consume(ctx, ec, iter) { ec.Add(iter.Observe(ec.Handler()).Run(ctx)) }
   pre = the errors registered with iter.AddError before the call.  Stream(ctx, ec, ch) = Consume over
   fun.ChannelIterator(ch): the same with no AddError and no failing source. *)
Definition consume (c : coll) (pre : list err) (steps : list (Z * err)) (cancelled : bool) : coll :=
  match observe_loop steps cancelled c (stack_add stack_zero pre) with
  | (c1, ist1, e) => coll_add c1 (join 0 [stack_resolve 0 ist1; e; Nil])
  end.

(* ------------------------------------------------------------------ programs: finite trees of API applications *)

(* What a caller can write (the quantifier of the property).  [eval] runs it on the model above; the Go driver
   runs the same tree on the real code.  Tags/ids are the identities the driver's registry gives the objects. *)
Inductive expr :=
| XNil
| XConst (s : Z)
| XPtr (id : Z)
| XTyped (ty id : Z)
| XTypedU (ty id : Z)
| XErrorf (tag : Z) (x : expr)              (* fmt.Errorf("...%w", x) *)
| XErrorsJoin (tag : Z) (xs : list expr)    (* errors.Join(xs...) *)
| XMulti (tag : Z) (xs : list expr)         (* user type with Unwrap() []error that keeps its nils *)
| XJoin (tag : Z) (xs : list expr)          (* ers.Join(xs...) *)
| XWrap (tag ann : Z) (x : expr)            (* ers.Wrap(x, "...") *)
| XStack (tag : Z) (xs : list expr)         (* st := &ers.Stack{}; st.Add(xs...); the value is st itself *)
| XStackPush (tag : Z) (xs : list expr)     (* the same with one st.Push(x) per element *)
| XCollect (tag : Z) (xs : list expr)       (* ec := &erc.Collector{}; ec.Add(x) for each; ec.Resolve() *)
| XPanicErr (tag : Z) (x : expr)            (* ers.ParsePanic(x) with x an error *)
| XPanicStr (tag : Z) (s : Z)               (* ers.ParsePanic("...") *)
| XPanicErrs (tag : Z) (xs : list expr)     (* ers.ParsePanic([]error{...}) *)
| XPanicOther (tag id : Z)                  (* ers.ParsePanic(<int>) *)
| XUnwrap (tag : Z) (x : expr)              (* errors.Unwrap(x) / ers.Unwrap(x): the inner layer; tag = its identity if new *)
| XJoinRemoveOk (tag : Z) (xs : list expr)  (* ers.Join(ers.RemoveOk([]error{xs...})...) *)
| XJoinAppend (tag : Z) (xs : list expr)    (* ers.Join(ers.Append(nil, xs...)...) *)
| XFilterExclude (excl : list expr) (x : expr)   (* ers.FilterExclude(excl...).Run(x) *)
| XConsume (tag : Z) (cancelled : bool) (adds pre items : list expr) (kinds : list Z).
    (* ec := &erc.Collector{}; ec.Add(a) for a in adds (through Add / Handler / Check / Collect / When);
       iter.AddError(p) for p in pre; erc.Consume(ctx, ec, iter) (or erc.Stream) with the scripted source
       combine kinds items and a context that is already cancelled or not; the value is ec.Resolve() *)

(* fmt.Errorf("%w", nil) has no wrapped operand: it returns a plain *errors.errorString (trusted: fmt) *)
Definition errorf (tag : Z) (v : err) : err := if is_nil v then Ptr tag else Wrap1 tag v.

(* errors.Join drops nils and returns nil when nothing is left (trusted: errors) *)
Definition errors_join (tag : Z) (vs : list err) : err :=
  match sparse vs with [] => Nil | l => Multi tag l end.

Fixpoint eval (x : expr) : err :=
  match x with
  | XNil => Nil
  | XConst s => Const s
  | XPtr id => Ptr id
  | XTyped ty id => Typed ty id
  | XTypedU ty id => TypedU ty id
  | XErrorf tag x => errorf tag (eval x)
  | XErrorsJoin tag xs => errors_join tag (map eval xs)
  | XMulti tag xs => Multi tag (map eval xs)
  | XJoin tag xs => join tag (map eval xs)
  | XWrap tag ann x => wrap tag ann (eval x)
  | XStack tag xs => let st := stack_add stack_zero (map eval xs) in Stk tag (s_count st) (s_chain st)
  | XStackPush tag xs => let st := fold_left (fun s v => push v s) (map eval xs) stack_zero in Stk tag (s_count st) (s_chain st)
  | XCollect tag xs => coll_resolve tag (coll_adds coll_zero (map eval xs))
  | XPanicErr tag x => parse_panic tag (PErr (eval x))
  | XPanicStr tag s => parse_panic tag (PStr s)
  | XPanicErrs tag xs => parse_panic tag (PErrs (map eval xs))
  | XPanicOther tag id => parse_panic tag (POther id)
  | XUnwrap tag x => unwrap1 tag (eval x)
  | XJoinRemoveOk tag xs => join tag (remove_ok (map eval xs))
  | XJoinAppend tag xs => join tag (remove_ok (map eval xs))
  | XFilterExclude excl x => filter_exclude (map eval excl) (eval x)
  | XConsume tag cancelled adds pre items kinds =>
      coll_resolve tag (consume (coll_adds coll_zero (map eval adds)) (map eval pre)
                                (combine kinds (map eval items)) cancelled)
  end.

(* ------------------------------------------------------------------ observation helpers (used by Corr) *)

(* the identity under which the driver's registry knows a value *)
Definition eid (e : err) : Z :=
  match e with
  | Nil => -1
  | Const s => s
  | Ptr id => id
  | Typed _ id => id
  | TypedU _ id => id
  | Wrap1 g _ => g
  | Multi g _ => g
  | Stk g _ _ => g
  end.
