(* C15 — executable sequential models of the function wrappers of
   /repo/{worker,operation,producer,process,handler,future}.go, ft/ft.go (Once, OnceDo)
   and adt/atomics.go (Once, Mnemonize), transcribed statement by statement.

   The wrapped function is a finite *outcome script* consumed call by call
   (after the script is exhausted the function returns (0, nil)).  A wrapper
   stack is a term of [fn]; its mutable state (sync.Once flag + cached result,
   limitExec's counter + cached output, Operation.Limit's CAS counter,
   Producer.Join's stage + cached errors, the unread part of every script) is a
   term of [st] of the same shape.  [run f s w] performs ONE call and returns
   the visible result, the new state and the new world; the world carries the
   order log (every execution of a scripted function / hook / condition
   appends (its id, index of the top-level call)) and the context's
   cancellation flag.

   Errors are lists of leaves ([] = nil).  ers.Join is modelled as list
   concatenation: the ORDER of leaves inside an aggregated error is the subject
   of C12 and is not compared here (observations compare sorted leaf lists);
   errors.Is(err, X) on an aggregated error is "X is one of its leaves".

   No proofs in this file. *)
From FunV Require Import Base.Tac.
Local Open Scope Z_scope.

(* ------------------------------------------------------------------ errors *)
Inductive leaf :=
| LErr (k : Z)        (* an ordinary sentinel error e_k *)
| LEOF                (* io.EOF *)
| LAbort              (* ers.ErrCurrentOpAbort *)
| LCtx                (* context.Canceled *)
| LSkip               (* fun.ErrIteratorSkip = ers.ErrCurrentOpSkip *)
| LRecovered          (* ers.ErrRecoveredPanic, added by ers.ParsePanic *)
| LPanicVal (k : Z).  (* the error value p_k that was passed to panic() *)

Definition err := list leaf.

Definition leaf_code (l : leaf) : Z :=
  match l with
  | LEOF => 1 | LAbort => 2 | LCtx => 3 | LSkip => 4 | LRecovered => 5
  | LErr k => 100 + k | LPanicVal k => 1000 + k
  end.

Definition leaf_eqb (a b : leaf) : bool :=
  match a, b with
  | LErr x, LErr y => x =? y
  | LPanicVal x, LPanicVal y => x =? y
  | LEOF, LEOF | LAbort, LAbort | LCtx, LCtx | LSkip, LSkip | LRecovered, LRecovered => true
  | _, _ => false
  end.

Definition has (l : leaf) (e : err) : bool := existsb (leaf_eqb l) e.
Definition is_nil (e : err) : bool := match e with [] => true | _ => false end.

(* ers.Join(a, b) *)
Definition join (a b : err) : err := a ++ b.

(* ers.IsExpiredContext / ers.IsTerminating / errors.Is(_, ErrIteratorSkip) / errors.Is(_, io.EOF) *)
Definition is_expired (e : err) : bool := has LCtx e.
Definition is_terminating (e : err) : bool := has LEOF e || has LAbort e || has LCtx e.
Definition is_skip (e : err) : bool := has LSkip e.
Definition is_eof (e : err) : bool := has LEOF e.

(* ers.ParsePanic(recover()) for a panic with the error value p_k *)
Definition recovered (k : Z) : err := [LPanicVal k; LRecovered].

(* ------------------------------------------------------------------ scripts, results, world *)
(* one call of the wrapped function: value returned alongside, and what kind of error *)
Inductive outcome :=
| OOk (v : Z)              (* (v, nil) *)
| OErr (v : Z) (k : Z)     (* (v, e_k) *)
| OEOF (v : Z)
| OAbort (v : Z)
| OCtx (v : Z)             (* returns context.Canceled; the context itself stays live *)
| OSkip (v : Z)
| OPanic (k : Z)           (* panic(p_k) *)
| OCancel (v : Z).         (* cancels the context it was called with, returns (v, nil) *)

Inductive result :=
| Ret (v : Z) (e : err)
| Pan (k : Z).             (* the panic p_k reached the caller *)

Record world := mkW { wlog : list (Z * Z); wcancelled : bool; wcall : Z }.

Definition log_ev (id : Z) (w : world) : world :=
  mkW ((id, wcall w) :: wlog w) (wcancelled w) (wcall w).
Definition cancel (w : world) : world := mkW (wlog w) true (wcall w).
Definition set_call (i : Z) (w : world) : world := mkW (wlog w) (wcancelled w) i.
Definition w0 : world := mkW [] false 0.

(* the function types: which components of (value, error) a function of that type can return *)
Inductive kind := KWorker | KOperation | KProducer | KProcessor | KHandler | KFuture | KFunc.

Definition proj (k : kind) (v : Z) (e : err) : result :=
  match k with
  | KWorker | KProcessor => Ret 0 e
  | KOperation | KHandler | KFunc => Ret 0 []
  | KProducer => Ret v e
  | KFuture => Ret v []
  end.

Definition outcome_result (k : kind) (o : outcome) : result :=
  match o with
  | OOk v | OCancel v => proj k v []
  | OErr v x => proj k v [LErr x]
  | OEOF v => proj k v [LEOF]
  | OAbort v => proj k v [LAbort]
  | OCtx v => proj k v [LCtx]
  | OSkip v => proj k v [LSkip]
  | OPanic p => Pan p
  end.

Definition outcome_cancels (o : outcome) : bool := match o with OCancel _ => true | _ => false end.

(* ------------------------------------------------------------------ wrapper stacks *)
Inductive fn :=
| FBase (k : kind) (id : Z) (script : list outcome)
| FOnce (f : fn)                 (* {Worker,Operation,Producer,Processor,Handler}.Once, ft.Once/OnceDo (Future.Once, adt.Mnemonize), adt.Once.Resolve *)
| FLimitExec (n : Z) (f : fn)    (* {Worker,Producer,Processor,Future}.Limit  = limitExec (process.go) *)
| FLimitCAS (n : Z) (f : fn)     (* Operation.Limit: CAS loop inside When *)
| FRetryW (n : Z) (f : fn)       (* Worker.Retry, Processor.Retry *)
| FRetryP (n : Z) (f : fn)       (* Producer.Retry *)
| FLock (f : fn)                 (* Lock / WithLock, all types *)
| FIf (c : bool) (f : fn)        (* If *)
| FWhen (id : Z) (conds : list bool) (f : fn)   (* When; the condition function is scripted (true once exhausted) *)
| FJoinW (f g : fn)              (* Worker.merge, Processor.merge *)
| FJoinO (f g : fn)              (* Operation.merge *)
| FJoinH (f g : fn)              (* Handler.Join / Chain; Handler.PreHook(prev) = prev.Join(of) *)
| FJoinF (f g : fn)              (* Future.Join / Reduce with merge(a,b) = 2a+b *)
| FJoinP (f g : fn)              (* Producer.Join: stage machine *)
| FPreRec (h f : fn)             (* Worker/Processor/Producer.PreHook: hook's panic recovered and joined *)
| FPreProp (h f : fn)            (* Operation/Future.PreHook: hook(); f() *)
| FPostRec (h f : fn)            (* Worker/Processor/Producer.PostHook: f first; hook's panic recovered and joined *)
| FPostDefer (h f : fn).         (* Operation/Future.PostHook: defer hook(); f() *)

Inductive st :=
| SBase (rest : list outcome)
| SOnce (done : bool) (cv : Z) (ce : err) (s : st)
| SLimit (cnt : Z) (cv : Z) (ce : err) (s : st)
| SCnt (cnt : Z) (s : st)
| SOne (s : st)
| SWhen (rest : list bool) (s : st)
| STwo (s1 s2 : st)
| SJoinP (stage : Z) (fe se : err) (s1 s2 : st).

Fixpoint init (f : fn) : st :=
  match f with
  | FBase _ _ script => SBase script
  | FOnce f => SOnce false 0 [] (init f)
  | FLimitExec _ f => SLimit 0 0 [] (init f)
  | FLimitCAS _ f => SCnt 0 (init f)
  | FRetryW _ f | FRetryP _ f | FLock f | FIf _ f => SOne (init f)
  | FWhen _ conds f => SWhen conds (init f)
  | FJoinW f g | FJoinO f g | FJoinH f g | FJoinF f g
  | FPreRec f g | FPreProp f g | FPostRec f g | FPostDefer f g => STwo (init f) (init g)
  | FJoinP f g => SJoinP 0 [] [] (init f) (init g)
  end.

(* Limit panics at construction unless n > 0 (Invariant.IsTrue / Invariant.Ok) *)
Fixpoint valid (f : fn) : bool :=
  match f with
  | FBase _ _ _ => true
  | FLimitExec n f | FLimitCAS n f => (0 <? n) && valid f
  | FOnce f | FRetryW _ f | FRetryP _ f | FLock f | FIf _ f | FWhen _ _ f => valid f
  | FJoinW f g | FJoinO f g | FJoinH f g | FJoinF f g | FJoinP f g
  | FPreRec f g | FPreProp f g | FPostRec f g | FPostDefer f g => valid f && valid g
  end.

(* what a state of the wrong shape yields (never reached from [init]) *)
Definition stuck : Z := -2.
(* Producer.Join's skip loops are unbounded in Go; the model gives up after this many iterations *)
Definition join_fuel : nat := 64.
Definition diverged : Z := -1.

Definition hook_err (r : result) : err :=
  match r with Ret _ _ => [] | Pan p => recovered p end.

(* the retry / skip loops, over an arbitrary runner of the wrapped function *)
Definition runner := st -> world -> result * st * world.

(* Worker.Retry:  for i := 0; i < n; i++ { attemptErr := wf(ctx); switch {
     case attemptErr == nil: return nil
     case ers.IsExpiredContext(attemptErr): return ers.Join(attemptErr, err)
     case errors.Is(attemptErr, ErrIteratorSkip): continue
     case ers.IsTerminating(attemptErr): return nil
     default: err = ers.Join(attemptErr, err) } }; return err *)
Fixpoint retryW_loop (rf : runner) (i : nat) (acc : err) (s : st) (w : world) : result * st * world :=
  match i with
  | O => (Ret 0 acc, SOne s, w)
  | S i' =>
      match rf s w with
      | (Pan p, s', w') => (Pan p, SOne s', w')
      | (Ret _ e, s', w') =>
          if is_nil e then (Ret 0 [], SOne s', w')
          else if is_expired e then (Ret 0 (join e acc), SOne s', w')
          else if is_skip e then retryW_loop rf i' acc s' w'
          else if is_terminating e then (Ret 0 [], SOne s', w')
          else retryW_loop rf i' (join e acc) s' w'
      end
  end.

(* Producer.Retry:  for i := 0; i < n; i++ { value, attemptErr := pf(ctx); switch {
     case attemptErr == nil: return value, nil
     case ers.IsTerminating(attemptErr): return zero, ers.Join(attemptErr, err)
     case errors.Is(attemptErr, ErrIteratorSkip): continue
     default: err = ers.Join(attemptErr, err) } }; return zero, err *)
Fixpoint retryP_loop (rf : runner) (i : nat) (acc : err) (s : st) (w : world) : result * st * world :=
  match i with
  | O => (Ret 0 acc, SOne s, w)
  | S i' =>
      match rf s w with
      | (Pan p, s', w') => (Pan p, SOne s', w')
      | (Ret v e, s', w') =>
          if is_nil e then (Ret v [], SOne s', w')
          else if is_terminating e then (Ret 0 (join e acc), SOne s', w')
          else if is_skip e then retryP_loop rf i' acc s' w'
          else retryP_loop rf i' (join e acc) s' w'
      end
  end.

(* Producer.Join, stage runSecondFunc: RETRY_SECOND loop *)
Fixpoint joinP_second (rg : runner) (fuel : nat) (fe se : err) (s1 s2 : st) (w : world) : result * st * world :=
  match fuel with
  | O => (Pan diverged, SJoinP 2 fe se s1 s2, w)
  | S fuel' =>
      match rg s2 w with
      | (Pan p, s2', w') => (Pan p, SJoinP 2 fe se s1 s2', w')
      | (Ret v e, s2', w') =>
          if is_nil e then (Ret v [], SJoinP 2 fe se s1 s2', w')
          else if is_skip e then joinP_second rg fuel' fe se s1 s2' w'
          else if negb (is_eof e) then (Ret 0 e, SJoinP 3 fe e s1 s2', w')
          else (Ret 0 e, SJoinP 4 fe se s1 s2', w')
      end
  end.

(* Producer.Join, stage runFirstFunc: RETRY loop, falling through to the second stage on io.EOF *)
Fixpoint joinP_first (rf rg : runner) (fuel : nat) (fe se : err) (s1 s2 : st) (w : world) : result * st * world :=
  match fuel with
  | O => (Pan diverged, SJoinP 0 fe se s1 s2, w)
  | S fuel' =>
      match rf s1 w with
      | (Pan p, s1', w') => (Pan p, SJoinP 0 fe se s1' s2, w')
      | (Ret v e, s1', w') =>
          if is_nil e then (Ret v [], SJoinP 0 fe se s1' s2, w')
          else if is_skip e then joinP_first rf rg fuel' fe se s1' s2 w'
          else if negb (is_eof e) then (Ret 0 e, SJoinP 1 e se s1' s2, w')
          else joinP_second rg join_fuel fe se s1' s2 w'
      end
  end.

Fixpoint run (f : fn) (s : st) (w : world) {struct f} : result * st * world :=
  match f, s with
  (* ---- the scripted function: log the execution, consume one outcome *)
  | FBase k id _, SBase rest =>
      let w1 := log_ev id w in
      match rest with
      | [] => (proj k 0 [], SBase [], w1)
      | o :: rest' => (outcome_result k o, SBase rest', if outcome_cancels o then cancel w1 else w1)
      end

  (* ---- once.Do(func() { out, err = f(ctx) }); return out, err
          sync.Once marks itself done (deferred) even if f panics; the cache then keeps its zero value *)
  | FOnce f, SOnce done cv ce s =>
      if done then (Ret cv ce, SOnce true cv ce s, w)
      else match run f s w with
           | (Ret v e, s', w') => (Ret v e, SOnce true v e s', w')
           | (Pan p, s', w') => (Pan p, SOnce true cv ce s', w')
           end

  (* ---- limitExec: if counter.CAS(n, n) { return output }
                     mtx.Lock(); defer mtx.Unlock(); num := counter.Load()
                     if num < n { output = op(); counter.Store(min(n, num+1)) }; return output
          a panic in op leaves counter and output untouched (deferred unlock only) *)
  | FLimitExec n f, SLimit cnt cv ce s =>
      if cnt =? n then (Ret cv ce, SLimit cnt cv ce s, w)
      else if cnt <? n then
        match run f s w with
        | (Ret v e, s', w') => (Ret v e, SLimit (Z.min n (cnt + 1)) v e s', w')
        | (Pan p, s', w') => (Pan p, SLimit cnt cv ce s', w')
        end
      else (Ret cv ce, SLimit cnt cv ce s, w)

  (* ---- Operation.Limit: wf.When(func() bool { CAS loop: if current >= n false; CAS(current, current+1) true })
          the counter is bumped before the operation runs, so a panicking run is counted *)
  | FLimitCAS n f, SCnt cnt s =>
      if n <=? cnt then (Ret 0 [], SCnt cnt s, w)
      else match run f s w with
           | (Ret _ _, s', w') => (Ret 0 [], SCnt (cnt + 1) s', w')
           | (Pan p, s', w') => (Pan p, SCnt (cnt + 1) s', w')
           end

  | FRetryW n f, SOne s => retryW_loop (run f) (Z.to_nat n) [] s w
  | FRetryP n f, SOne s => retryP_loop (run f) (Z.to_nat n) [] s w

  (* ---- mtx.Lock(); defer mtx.Unlock(); return f(ctx)        sequentially: the identity *)
  | FLock f, SOne s =>
      let '(r, s', w') := run f s w in (r, SOne s', w')

  (* ---- If(cond) = When(ft.Wrapper(cond)); false: zero value, nil error *)
  | FIf c f, SOne s =>
      if c then let '(r, s', w') := run f s w in (r, SOne s', w')
      else (Ret 0 [], SOne s, w)

  | FWhen id _ f, SWhen rest s =>
      let w1 := log_ev id w in
      let c := match rest with [] => true | c :: _ => c end in
      let rest' := tl rest in
      if c then let '(r, s', w') := run f s w1 in (r, SWhen rest' s', w')
      else (Ret 0 [], SWhen rest' s, w1)

  (* ---- Worker.merge: if err := wf(ctx); err != nil { return err }; return next.If(ctx.Err() == nil).Run(ctx) *)
  | FJoinW f g, STwo s1 s2 =>
      match run f s1 w with
      | (Pan p, s1', w') => (Pan p, STwo s1' s2, w')
      | (Ret v e, s1', w') =>
          if negb (is_nil e) then (Ret v e, STwo s1' s2, w')
          else if wcancelled w' then (Ret 0 [], STwo s1' s2, w')
          else let '(r, s2', w'') := run g s2 w' in (r, STwo s1' s2', w'')
      end

  (* ---- Operation.merge: wf(ctx); next.If(ctx.Err() == nil).Run(ctx) *)
  | FJoinO f g, STwo s1 s2 =>
      match run f s1 w with
      | (Pan p, s1', w') => (Pan p, STwo s1' s2, w')
      | (Ret _ _, s1', w') =>
          if wcancelled w' then (Ret 0 [], STwo s1' s2, w')
          else match run g s2 w' with
               | (Pan p, s2', w'') => (Pan p, STwo s1' s2', w'')
               | (Ret _ _, s2', w'') => (Ret 0 [], STwo s1' s2', w'')
               end
      end

  (* ---- Handler.Join: of(in); next(in) *)
  | FJoinH f g, STwo s1 s2 =>
      match run f s1 w with
      | (Pan p, s1', w') => (Pan p, STwo s1' s2, w')
      | (Ret _ _, s1', w') =>
          match run g s2 w' with
          | (Pan p, s2', w'') => (Pan p, STwo s1' s2', w'')
          | (Ret _ _, s2', w'') => (Ret 0 [], STwo s1' s2', w'')
          end
      end

  (* ---- Future.Join: out = f(); out = merge(out, next()) with merge(a,b) = 2a+b *)
  | FJoinF f g, STwo s1 s2 =>
      match run f s1 w with
      | (Pan p, s1', w') => (Pan p, STwo s1' s2, w')
      | (Ret v1 _, s1', w') =>
          match run g s2 w' with
          | (Pan p, s2', w'') => (Pan p, STwo s1' s2', w'')
          | (Ret v2 _, s2', w'') => (Ret (2 * v1 + v2) [], STwo s1' s2', w'')
          end
      end

  (* ---- Producer.Join: stages 0 runFirst, 1 firstErrored, 2 runSecond, 3 secondErrored, 4 eof *)
  | FJoinP f g, SJoinP stage fe se s1 s2 =>
      if stage =? 3 then (Ret 0 se, s, w)
      else if stage =? 1 then (Ret 0 fe, s, w)
      else if stage =? 0 then joinP_first (run f) (run g) join_fuel fe se s1 s2 w
      else if stage =? 2 then joinP_second (run g) join_fuel fe se s1 s2 w
      else (Ret 0 [LEOF], s, w)

  (* ---- Worker.PreHook: ers.Join(ers.WithRecoverCall(func() { op(ctx) }), wf(ctx))   (arguments left to right)
          Producer.PreHook: e := WithRecoverCall(op); out, err = pf(ctx); return out, ers.Join(err, e) *)
  | FPreRec h f, STwo sh sf =>
      let '(rh, sh', w1) := run h sh w in
      match run f sf w1 with
      | (Pan p, sf', w2) => (Pan p, STwo sh' sf', w2)
      | (Ret v e, sf', w2) => (Ret v (join (hook_err rh) e), STwo sh' sf', w2)
      end

  (* ---- Operation.PreHook: hook(c); wf(c)      Future.PreHook: fn(); return f() *)
  | FPreProp h f, STwo sh sf =>
      match run h sh w with
      | (Pan p, sh', w1) => (Pan p, STwo sh' sf, w1)
      | (Ret _ _, sh', w1) => let '(r, sf', w2) := run f sf w1 in (r, STwo sh' sf', w2)
      end

  (* ---- Worker.PostHook: ers.Join(ft.Flip(wf(ctx), ers.WithRecoverCall(op)))   (wf first; not reached if wf panics)
          Producer.PostHook: o, e = pf(ctx); e = ers.Join(ers.WithRecoverCall(op), e) *)
  | FPostRec h f, STwo sh sf =>
      match run f sf w with
      | (Pan p, sf', w1) => (Pan p, STwo sh sf', w1)
      | (Ret v e, sf', w1) =>
          let '(rh, sh', w2) := run h sh w1 in
          (Ret v (join (hook_err rh) e), STwo sh' sf', w2)
      end

  (* ---- Operation.PostHook: defer hook(); wf(ctx)     Future.PostHook: defer fn(); return f()
          the hook runs even if f panics; a panic of the hook replaces f's *)
  | FPostDefer h f, STwo sh sf =>
      let '(r, sf', w1) := run f sf w in
      match run h sh w1 with
      | (Pan q, sh', w2) => (Pan q, STwo sh' sf', w2)
      | (Ret _ _, sh', w2) => (r, STwo sh' sf', w2)
      end

  | _, _ => (Pan stuck, s, w)
  end.

(* [c] successive top-level calls, numbered from [i] *)
Fixpoint run_calls (f : fn) (s : st) (w : world) (i : Z) (c : nat) : list result * st * world :=
  match c with
  | O => ([], s, w)
  | S c' =>
      let '(r, s1, w1) := run f s (set_call i w) in
      let '(rs, s2, w2) := run_calls f s1 w1 (i + 1) c' in
      (r :: rs, s2, w2)
  end.

(* what the harness observes for a case: the per-call results and the order log *)
Definition observe (f : fn) (calls : nat) : list result * list (Z * Z) :=
  let '(rs, _, w) := run_calls f (init f) w0 0 calls in (rs, rev (wlog w)).

(* number of executions of the scripted function [id] recorded in a log *)
Definition invocations (id : Z) (log : list (Z * Z)) : Z :=
  Z.of_nat (length (filter (fun ev => fst ev =? id) log)).
