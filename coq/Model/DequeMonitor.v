(* Model/DequeMonitor.v — pubsub.Deque (/repo/pubsub/deque.go as repaired by fixes_pending/C06-deque-wakeups.diff)
   as an instance of Conc/Monitor.v.   Model only, no proofs.

   Data = (items front..back, tracker, closed).  Conds: nfront = 0, nback = 1, updates = 2.
   Who signals what, exactly as the code:
     addAfter   closed -> ErrQueueClosed, nothing;  tracker.add() fails -> updates.Broadcast();
                otherwise link the element and broadcastAll() (nfront, nback, updates);
     pop        closed or empty -> nothing;  otherwise tracker.remove(), unlink, `defer broadcastAll()`;
     ForcePush* `if cap() == len() { pop(opposite end) }` then addAfter;
     Close      closed = true; broadcastAll().
   waiters:
     WaitFront / WaitBack (waitPop)   loop { pop(end) succeeds -> return it;  root.wait(ctx, dir) }  — root.wait
                parks on nfront (dir = next) / nback (dir = prev) while the deque is empty, leaves with
                ErrQueueClosed if closed, with the context error if ctx is done;
     WaitPushFront / WaitPushBack (waitPushAfter)   parks on updates while cap() <= len(); closed is checked in
                the loop; on room: addAfter.
   Not modelled as Signals: the `cond.Signal()` each wait loop performs before `cond.Wait()` (it makes two waiters
   on one cond wake each other for ever — a busy ping-pong, DESIGN 3.2), the `defer dq.updates.Signal()` of
   waitPushAfter's fast path, and the extra helper broadcast each return of element.wait causes: all of them only
   ADD wake-ups, which Monitor.v's spurious wake-up step `LSpurious` covers; the theorems never rely on a Signal. *)
From FunV Require Import Base.Tac Conc.Monitor Model.QueueMonitor.
Local Open Scope Z_scope.

Definition NFRONT : cond := 0%nat.
Definition NBACK : cond := 1%nat.
Definition UPDATES : cond := 2%nat.

Definition BCAST_ALL : list sig := [Broadcast NFRONT; Broadcast NBACK; Broadcast UPDATES].

Record ddata := mkDD { d_items : list Z; d_trk : tracker; d_closed : bool }.

(* addAfter(it, root) [front = true] / addAfter(it, root.prev) [front = false] *)
Definition add_at (front : bool) (v : Z) (d : ddata) : ddata * list sig * err :=
  if d_closed d then (d, [], EClosed)
  else
    let '(t', e) := t_add (d_trk d) in
    match e with
    | ENil => (mkDD (if front then v :: d_items d else d_items d ++ [v]) t' (d_closed d), BCAST_ALL, ENil)
    | _ => (d, [Broadcast UPDATES], e)
    end.

(* pop(root.next) [front = true] / pop(root.prev) [front = false] *)
Definition pop_at (front : bool) (d : ddata) : ddata * list sig * res :=
  if d_closed d then (d, [], RNone)
  else if front then
    match d_items d with
    | [] => (d, [], RNone)
    | x :: r => (mkDD r (t_remove (d_trk d)) (d_closed d), BCAST_ALL, RVal x)
    end
  else
    match rev (d_items d) with
    | [] => (d, [], RNone)
    | x :: r => (mkDD (rev r) (t_remove (d_trk d)) (d_closed d), BCAST_ALL, RVal x)
    end.

(* ForcePushFront evicts from the back, ForcePushBack from the front *)
Definition force_push (front : bool) (v : Z) (d : ddata) : ddata * list sig * err :=
  let '(d1, sg1) :=
    if t_cap (d_trk d) =? t_len (d_trk d) then let '(d1, sg1, _) := pop_at (negb front) d in (d1, sg1) else (d, []) in
  let '(d2, sg2, e) := add_at front v d1 in
  (d2, sg1 ++ sg2, e).

Definition d_close (d : ddata) : ddata * list sig * res :=
  (mkDD (d_items d) (d_trk d) true, BCAST_ALL, RUnit).

Inductive dop :=
| DPush (front : bool) (v : Z)         (* PushFront / PushBack *)
| DPop (front : bool)                  (* PopFront / PopBack *)
| DForcePush (front : bool) (v : Z)
| DClose
| DLen
| DWaitPop (front : bool)              (* WaitFront / WaitBack; Distributor.Receive = WaitFront *)
| DWaitPush (front : bool) (v : Z).    (* WaitPushFront / WaitPushBack; Distributor.Send = WaitPushBack *)

Definition dop_run (o : dop) (d : ddata) : ddata * list sig * res :=
  match o with
  | DPush f v | DWaitPush f v => let '(d', sg, e) := add_at f v d in (d', sg, RErr e)
  | DPop f | DWaitPop f => pop_at f d
  | DForcePush f v => let '(d', sg, e) := force_push f v d in (d', sg, RErr e)
  | DClose => d_close d
  | DLen => (d, [], RUnit)
  end.

Definition dbody (o : dop) : body ddata := fun d => fst (dop_run o d).

Definition d_poppable (d : ddata) : bool :=
  negb (d_closed d) && match d_items d with [] => false | _ => true end.

Definition waitpop_w (front : bool) : waiter ddata :=
  mkWaiter (if front then NFRONT else NBACK) d_poppable d_closed (dbody (DWaitPop front)) false.
Definition waitpush_w (front : bool) (v : Z) : waiter ddata :=
  mkWaiter UPDATES (fun d => negb (d_closed d) && has_room (d_trk d)) d_closed (dbody (DWaitPush front v)) false.

Definition dcompile (o : dop) : op ddata :=
  match o with
  | DWaitPop f => OWaiter (waitpop_w f)
  | DWaitPush f v => OWaiter (waitpush_w f v)
  | _ => OEffect (dbody o)
  end.

(* Programs over the Deque.  Besides the operations above a thread may be ANY waiter on one of the three conds
   with ANY predicate over the data (this covers element.wait as used by the blocking iterators, whose
   predicate is about pointers the data determines) as long as what it does on success is a Deque critical
   section or nothing. *)
Definition deque_cond (c : cond) : Prop := c = NFRONT \/ c = NBACK \/ c = UPDATES.

Definition deque_thread (o : op ddata) : Prop :=
  (exists p, o = dcompile p) \/
  (exists w, o = OWaiter w /\ deque_cond (w_cond w) /\ (forall d, w_closed w d = d_closed d) /\
             ((exists p, w_succ w = dbody p) \/ w_succ w = (fun d => (d, [])))).

Definition deque_prog (prog : tid -> op ddata) : Prop := forall t, deque_thread (prog t).

Definition dprog (ops : list dop) : tid -> op ddata := fun t => dcompile (nth t ops DLen).

Definition dinit (t : tracker) : ddata := mkDD [] t false.
