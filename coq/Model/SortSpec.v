(* List-level model of dt.Heap and List.IsSorted (dt/cmp.go).
   The pointer-level model of dt.List is Model/ListHeap.v; this file is the
   sequence-level reading used by C17's Heap/IsSorted statements.

   Heap.Push(t): if empty, PushBack; otherwise scan from the back towards the
   front; skip every item with lt t item; insert after the first item for which
   lt t item is false; if none, PushFront.   Heap.Pop = PopFront. *)
From FunV Require Import Base.Tac.

Section WithLt.
Variable lt : Z -> Z -> bool.

(* scanning from the back = scanning the reversed list from its head *)
Fixpoint ins_rev (t : Z) (r : list Z) : list Z :=
  match r with
  | [] => [t]
  | x :: r' => if lt t x then x :: ins_rev t r' else t :: x :: r'
  end.

Definition heap_push (t : Z) (l : list Z) : list Z := rev (ins_rev t (rev l)).

Definition heap_pop (l : list Z) : option Z * list Z :=
  match l with [] => (None, []) | x :: l' => (Some x, l') end.

(* IsSorted as fixed: true for length <= 1; otherwise false iff some element is lt its predecessor. *)
Fixpoint is_sorted (l : list Z) : bool :=
  match l with
  | [] => true
  | x :: l' => match l' with
               | [] => true
               | y :: _ => if lt y x then false else is_sorted l'
               end
  end.

Inductive hop := HPush (v : Z) | HPop.

Definition heap_step (l : list Z) (o : hop) : list Z * option Z :=
  match o with
  | HPush v => (heap_push v l, None)
  | HPop => let '(r, l') := heap_pop l in (l', r)
  end.

Fixpoint heap_run (l : list Z) (ops : list hop) : list (option Z) * list Z :=
  match ops with
  | [] => ([], l)
  | o :: ops' => let '(l1, r) := heap_step l o in
                 let '(rs, l2) := heap_run l1 ops' in
                 (match o with HPop => r :: rs | _ => rs end, l2)
  end.
End WithLt.

(* NewHeapFromIterator: every value the iterator delivers is Push-ed, in arrival order; whatever
   prefix was consumed when the iterator failed or the context ended is what the returned heap holds *)
Definition heap_from_list (lt : Z -> Z -> bool) (l : list Z) : list Z :=
  fold_left (fun h v => heap_push lt v h) l [].

(* the family of comparison functions the harness uses, by id *)
Definition lt_of (k : Z) : Z -> Z -> bool :=
  match k with
  | 0 => Z.ltb
  | 1 => fun a b => Z.ltb b a
  | 2 => fun a b => Z.ltb (a mod 3) (b mod 3)
  | 3 => fun _ _ => false
  | 4 => fun a b => Z.ltb (Z.abs a) (Z.abs b)
  | _ => fun a b => Z.leb b a        (* cmp.Reverse(<), not a strict order; correspondence only *)
  end%Z.
