(* Skel/Lockset.v — the lockset checker: a type system "held set in, held set out"
   over skeleton code.  Executable (run by vm_compute on the generated programs).
   Its soundness theorem is in LocksetSound.v. *)
From Coq Require Import List String Bool.
From FunV Require Import Skel.Syntax.
Import ListNotations.
Open Scope string_scope.

(* What protects a field. *)
Inductive gspec :=
| GLock (m : lockid)   (* every access must hold m (a read at least shared, a write exclusively) *)
| GImm                 (* written only before the object is shared: reads are free, writes are rejected *)
| GNone.               (* not declared: every access is rejected *)

Definition guardmap := field -> gspec.

(* Result of checking a piece of code from a held set:
   None = rejected; Some None = accepted, never falls through (every path ends in Ret);
   Some (Some H) = accepted, falls through with held set H. *)
Definition res := option (option hset).
Definition Fail : res := None.
Definition Bot : res := Some None.
Definition Ok (H : hset) : res := Some (Some H).

Fixpoint mem (m : lockid) (U : list lockid) : bool :=
  match U with [] => false | x :: r => String.eqb x m || mem m r end.

(* Held sets are compared on the finite universe U of lock names of the program. *)
Definition heqb (U : list lockid) (A B : hset) : bool :=
  forallb (fun m => mode_eqb (A m) (B m)) U.

Section Chk.
  Variable U : list lockid.
  Variable g : guardmap.

  Definition join (r1 r2 : res) : res :=
    match r1, r2 with
    | None, _ | _, None => Fail
    | Some None, r | r, Some None => r
    | Some (Some A), Some (Some B) => if heqb U A B then Ok A else Fail
    end.

  Definition acc_ok (H : hset) (f : field) (a : rw) : bool :=
    match g f, a with
    | GLock m, W => mem m U && mode_eqb (H m) MW
    | GLock m, R => mem m U && negb (mode_eqb (H m) MN)
    | GImm, R => true
    | GImm, W => false
    | GNone, _ => false
    end.

  (* One Fixpoint on [instr]; the lists inside Choice/Loop/Spawn are handled by an inner [fix]. *)
  Fixpoint chk_i (H : hset) (i : instr) {struct i} : res :=
    let chk_l := fix chk_l (H : hset) (l : list instr) {struct l} : res :=
      match l with
      | [] => Ok H
      | i :: r => match chk_i H i with
                  | None => Fail
                  | Some None => Bot
                  | Some (Some H') => chk_l H' r
                  end
      end in
    match i with
    | Lock m    => if mem m U && mode_eqb (H m) MN then Ok (hupd H m MW) else Fail
    | Unlock m  => if mem m U && mode_eqb (H m) MW then Ok (hupd H m MN) else Fail
    | RLock m   => if mem m U && mode_eqb (H m) MN then Ok (hupd H m MR) else Fail
    | RUnlock m => if mem m U && mode_eqb (H m) MR then Ok (hupd H m MN) else Fail
    | Acc f a   => if acc_ok H f a then Ok H else Fail
    | Atomic _ | Signal _ | Broadcast _ | CtxWaker _ => Ok H
    | Wait _ m  => if mem m U && mode_eqb (H m) MW then Ok H else Fail
    | Choice p q => join (chk_l H p) (chk_l H q)
    | Loop p    => match chk_l H p with
                   | None => Fail
                   | Some None => Ok H
                   | Some (Some H') => if heqb U H' H then Ok H else Fail
                   end
    | Spawn p   => match chk_l hempty p with
                   | None => Fail
                   | Some None => Ok H
                   | Some (Some H') => if heqb U H' hempty then Ok H else Fail
                   end
    | Ret       => if heqb U H hempty then Bot else Fail
    | Unknown _ => Fail
    end.

  Fixpoint chk (H : hset) (l : list instr) {struct l} : res :=
    match l with
    | [] => Ok H
    | i :: r => match chk_i H i with
                | None => Fail
                | Some None => Bot
                | Some (Some H') => chk H' r
                end
    end.

  (* A piece of code is "closed" from H if it is accepted and ends with nothing held. *)
  Definition closed_res (r : res) : bool :=
    match r with
    | None => false
    | Some None => true
    | Some (Some H') => heqb U H' hempty
    end.

  Definition closed (H : hset) (l : list instr) : bool := closed_res (chk H l).
End Chk.

(* ------------------------------------------------------------------ lock universe of a program *)

Fixpoint locks_i (i : instr) : list lockid :=
  let locks_l := fix locks_l (l : list instr) : list lockid :=
    match l with [] => [] | i :: r => (locks_i i ++ locks_l r)%list end in
  match i with
  | Lock m | Unlock m | RLock m | RUnlock m | Wait _ m => [m]
  | Choice p q => (locks_l p ++ locks_l q)%list
  | Loop p | Spawn p => locks_l p
  | _ => []
  end.

Fixpoint locks_l (l : list instr) : list lockid :=
  match l with [] => [] | i :: r => (locks_i i ++ locks_l r)%list end.

Definition locks (p : prog) : list lockid := flat_map (fun e => locks_l (body e)) p.

(* The check: every public entry (method or escaped closure), started with no lock held,
   is accepted and ends with no lock held. *)
Definition lockset_ok (g : guardmap) (p : prog) : bool :=
  forallb (fun e => negb (public e) || closed (locks p) g hempty (body e)) p.

(* ------------------------------------------------------------------ diagnostics (not part of any theorem) *)

Definition failing_entries (g : guardmap) (p : prog) : list string :=
  map name (filter (fun e => public e && negb (closed (locks p) g hempty (body e))) p).

Definition show_rw (a : rw) := match a with R => "r" | W => "w" end.

(* first rejected primitive instruction on some path, as text *)
Section Diag.
  Variable U : list lockid.
  Variable g : guardmap.
  Fixpoint diag_i (fuel : nat) (H : hset) (i : instr) : option string :=
    match fuel with 0 => None | S fuel =>
    let diag_l := fix diag_l (H : hset) (l : list instr) : option string :=
      match l with
      | [] => None
      | i :: r => match chk_i U g H i with
                  | None => match diag_i fuel H i with Some s => Some s | None => Some "?" end
                  | Some None => None
                  | Some (Some H') => diag_l H' r
                  end
      end in
    match i with
    | Lock m => Some ("Lock " ++ m ++ " while it is already held")
    | Unlock m => Some ("Unlock " ++ m ++ " while it is not held exclusively")
    | RLock m => Some ("RLock " ++ m ++ " while it is already held")
    | RUnlock m => Some ("RUnlock " ++ m ++ " while it is not read-held")
    | Acc f a => Some ("Acc " ++ f ++ " " ++ show_rw a ++ " without its guard" ++
                       match g f with GLock m => " " ++ m | GImm => " (field declared immutable)" | GNone => " (field has no guard declared)" end)
    | Wait c m => Some ("Wait " ++ c ++ " without holding " ++ m)
    | Choice p q => match chk U g H p with
                    | None => diag_l H p
                    | _ => match chk U g H q with
                           | None => diag_l H q
                           | _ => Some "the two arms of a Choice end with different locks held"
                           end
                    end
    | Loop p => match chk U g H p with None => diag_l H p | _ => Some "a Loop body changes the set of held locks" end
    | Spawn p => match chk U g hempty p with None => diag_l hempty p | _ => Some "a spawned goroutine ends with a lock held" end
    | Ret => Some "return with a lock held"
    | Unknown s => Some ("Unknown: " ++ s)
    | _ => None
    end end.

  Fixpoint diag (fuel : nat) (H : hset) (l : list instr) : option string :=
    match l with
    | [] => if heqb U H hempty then None else Some "entry ends with a lock held"
    | i :: r => match chk_i U g H i with
                | None => match diag_i fuel H i with Some s => Some s | None => Some "?" end
                | Some None => None
                | Some (Some H') => diag fuel H' r
                end
    end.
End Diag.

Definition report (g : guardmap) (p : prog) : list (string * string) :=
  flat_map (fun e =>
    if public e && negb (closed (locks p) g hempty (body e))
    then [(name e, match diag (locks p) g 50 hempty (body e) with Some s => s | None => "?" end)]
    else []) p.
