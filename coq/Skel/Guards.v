(* Skel/Guards.v — which lock protects which field (hand-written, reviewed against the
   `// protects the fields below` comments and the struct declarations of the Go source).

   NOT part of the trusted base of C13: [lockset_sound] holds for EVERY guard map.  A wrong
   entry here can only make the check fail (every access to a field must hold the one lock
   named here; a field declared immutable must never be written by a method), it can never
   make a racy skeleton pass.

   Field names are those produced by /verif/translator: <Type>.<field>, <Type>.<node type>.<field>
   for the node types of a container, <constructor>.<captured variable> for the closure-based
   wrappers; a trailing prime marks the second instance of a two-instance program (dt.Set). *)
From Coq Require Import List String.
From FunV Require Import Skel.Syntax Skel.Lockset.
Import ListNotations.
Open Scope string_scope.

Definition guard_table : list (field * gspec) := [
  (* fun.WaitGroup (sync.go): mu protects counter and the lazily created cond *)
  ("WaitGroup.counter", GLock "WaitGroup.mu");
  ("WaitGroup.cond", GLock "WaitGroup.mu");
  (* erc.Collector *)
  ("Collector.stack", GLock "Collector.mu");
  (* adt.Synchronized *)
  ("Synchronized.obj", GLock "Synchronized.mtx");
  (* adt.Once: comp is written inside once.Do and read after it (sync.Once as a lock, see translator rule 6) *)
  ("Once.comp", GLock "Once.once");
  (* adt.Pool: everything set up by doInit inside once.Do *)
  ("Pool.hook", GLock "Pool.once");
  ("Pool.constructor", GLock "Pool.once");
  ("Pool.pool", GLock "Pool.once");
  ("Pool.typeIsPtr", GLock "Pool.once");
  (* pubsub.Queue: "mu protects the fields below" *)
  ("Queue.tracker", GLock "Queue.mu");
  ("Queue.closed", GLock "Queue.mu");
  ("Queue.back", GLock "Queue.mu");
  ("Queue.front", GLock "Queue.mu");
  ("Queue.entry.link", GLock "Queue.mu");
  ("Queue.entry.item", GImm);                 (* set in the composite literal before the entry is linked *)
  (* pubsub.Deque *)
  ("Deque.tracker", GLock "Deque.mtx");
  ("Deque.closed", GLock "Deque.mtx");
  ("Deque.element.next", GLock "Deque.mtx");
  ("Deque.element.prev", GLock "Deque.mtx");
  ("Deque.root", GImm);                       (* set by makeDeque *)
  ("Deque.element.item", GImm);
  ("Deque.element.list", GImm);
  ("Deque.element.root", GImm);
  (* dt.Set, synchronised configuration, two instances *)
  ("Set.hash", GLock "Set.mtx");
  ("Set.list", GLock "Set.mtx");
  ("Set.hash'", GLock "Set.mtx'");
  ("Set.list'", GLock "Set.mtx'");
  (* ttlExec and the TTL wrappers built on it *)
  ("ttlExec.output", GLock "ttlExec.mtx");
  ("ttlExec.lastAt", GLock "ttlExec.mtx");
  ("Worker.TTL.output", GLock "Worker.TTL.mtx");
  ("Worker.TTL.lastAt", GLock "Worker.TTL.mtx");
  ("Operation.TTL.output", GLock "Operation.TTL.mtx");
  ("Operation.TTL.lastAt", GLock "Operation.TTL.mtx");
  ("Producer.TTL.output", GLock "Producer.TTL.mtx");
  ("Producer.TTL.lastAt", GLock "Producer.TTL.mtx");
  ("Processor.TTL.output", GLock "Processor.TTL.mtx");
  ("Processor.TTL.lastAt", GLock "Processor.TTL.mtx");
  ("Future.TTL.output", GLock "Future.TTL.mtx");
  ("Future.TTL.lastAt", GLock "Future.TTL.mtx");
  (* Once wrappers: the cached result is written inside once.Do and read after it *)
  ("Worker.Once.err", GLock "Worker.Once.once");
  ("Processor.Once.err", GLock "Processor.Once.once");
  ("Producer.Once.out", GLock "Producer.Once.once");
  ("Producer.Once.err", GLock "Producer.Once.once");
  (* limitExec and the Limit wrappers (NOT provable by locksets: the fast path reads output
     after an atomic load observed the final counter value; see checks/c13.py) *)
  ("limitExec.output", GLock "limitExec.mtx");
  ("Worker.Limit.output", GLock "Worker.Limit.mtx");
  ("Producer.Limit.output", GLock "Producer.Limit.mtx");
  ("Processor.Limit.output", GLock "Processor.Limit.mtx");
  ("Future.Limit.output", GLock "Future.Limit.mtx");
  (* pubsub.Broker: set by the constructors before the broker is shared *)
  ("Broker.close", GImm);
  ("Broker.opts", GImm)
].

Fixpoint lookup (t : list (field * gspec)) (f : field) : gspec :=
  match t with
  | [] => GNone
  | (k, v) :: r => if String.eqb k f then v else lookup r f
  end.

Definition guards : guardmap := lookup guard_table.
