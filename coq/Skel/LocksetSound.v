(* Skel/LocksetSound.v — soundness of the lockset checker, for ALL skeleton programs,
   all guard maps, any number of threads and every interleaving:

     lockset_ok g p = true  ->  forall s, reachable p s -> ~ race s.

   Proof: (1) subject reduction — in every reachable state the remaining code of
   every thread is accepted by the checker from that thread's DYNAMIC held set and
   ends with nothing held ([closed]); (2) mutual exclusion — a lock held
   exclusively by one thread is not held (in any mode) by another; this is an
   invariant of the semantics alone.  Two threads at [Acc f] with one write would
   then hold [guard f] exclusively / at least shared at the same time. *)
From Coq Require Import List String Bool Arith Lia.
From FunV Require Import Skel.Syntax Skel.Lockset.
Import ListNotations.
Open Scope string_scope.

(* ------------------------------------------------------------------ induction principle for the nested type *)

Section InstrInd.
  Variable P : instr -> Prop.
  Hypothesis HLock : forall m, P (Lock m).
  Hypothesis HUnlock : forall m, P (Unlock m).
  Hypothesis HRLock : forall m, P (RLock m).
  Hypothesis HRUnlock : forall m, P (RUnlock m).
  Hypothesis HAcc : forall f a, P (Acc f a).
  Hypothesis HAtomic : forall f, P (Atomic f).
  Hypothesis HWait : forall c m, P (Wait c m).
  Hypothesis HSignal : forall c, P (Signal c).
  Hypothesis HBroadcast : forall c, P (Broadcast c).
  Hypothesis HChoice : forall p q, Forall P p -> Forall P q -> P (Choice p q).
  Hypothesis HLoop : forall p, Forall P p -> P (Loop p).
  Hypothesis HSpawn : forall p, Forall P p -> P (Spawn p).
  Hypothesis HCtx : forall c, P (CtxWaker c).
  Hypothesis HRet : P Ret.
  Hypothesis HUnknown : forall s, P (Unknown s).

  Fixpoint instr_ind' (i : instr) : P i :=
    let all := fix all (l : list instr) : Forall P l :=
      match l with [] => Forall_nil P | i :: r => Forall_cons i (instr_ind' i) (all r) end in
    match i with
    | Lock m => HLock m | Unlock m => HUnlock m | RLock m => HRLock m | RUnlock m => HRUnlock m
    | Acc f a => HAcc f a | Atomic f => HAtomic f | Wait c m => HWait c m
    | Signal c => HSignal c | Broadcast c => HBroadcast c
    | Choice p q => HChoice p q (all p) (all q)
    | Loop p => HLoop p (all p)
    | Spawn p => HSpawn p (all p)
    | CtxWaker c => HCtx c | Ret => HRet | Unknown s => HUnknown s
    end.
End InstrInd.

(* ------------------------------------------------------------------ basic facts *)

Lemma mem_In m U : mem m U = true <-> In m U.
Proof.
  induction U as [|x r IH]; simpl; [split; [discriminate|tauto]|].
  rewrite orb_true_iff, IH. destruct (String.eqb_spec x m); intuition congruence.
Qed.

Definition heq (U : list lockid) (A B : hset) : Prop := forall m, In m U -> A m = B m.

Lemma heqb_spec U A B : heqb U A B = true <-> heq U A B.
Proof.
  unfold heqb, heq. rewrite forallb_forall. split; intros Hx m Hm.
  - apply mode_eqb_eq; auto.
  - apply mode_eqb_eq; auto.
Qed.

Lemma heq_refl U A : heq U A A.  Proof. red; auto. Qed.
Lemma heq_sym U A B : heq U A B -> heq U B A.  Proof. unfold heq; intros; symmetry; auto. Qed.
Lemma heq_trans U A B C : heq U A B -> heq U B C -> heq U A C.
Proof. unfold heq; intros H1 H2 m Hm. rewrite H1, H2; auto. Qed.

Lemma heq_hupd U A B m v : heq U A B -> heq U (hupd A m v) (hupd B m v).
Proof. unfold heq, hupd; intros H x Hx. destruct (String.eqb x m); auto. Qed.

Lemma heqb_heq_congr U A B A' B' : heq U A A' -> heq U B B' -> heqb U A B = heqb U A' B'.
Proof.
  intros HA HB. destruct (heqb U A' B') eqn:E.
  - apply heqb_spec. apply heqb_spec in E. eauto using heq_trans, heq_sym.
  - destruct (heqb U A B) eqn:E2; auto. apply heqb_spec in E2.
    assert (heqb U A' B' = true) by (apply heqb_spec; eauto using heq_trans, heq_sym). congruence.
Qed.

Section Sound.
  Variable U : list lockid.
  Variable g : guardmap.

  Notation chk_i := (chk_i U g).
  Notation chk := (chk U g).
  Notation closed := (closed U g).
  Notation closed_res := (closed_res U).
  Notation join := (join U).
  Notation heq := (heq U).

  (* the inner [fix] of chk_i is chk *)
  Lemma chk_unfold_choice H p q : chk_i H (Choice p q) = join (chk H p) (chk H q).
  Proof. reflexivity. Qed.

  Lemma chk_unfold_loop H p :
    chk_i H (Loop p) = match chk H p with
                       | None => Fail | Some None => Ok H
                       | Some (Some H') => if heqb U H' H then Ok H else Fail end.
  Proof. reflexivity. Qed.

  Lemma chk_unfold_spawn H p :
    chk_i H (Spawn p) = match chk hempty p with
                        | None => Fail | Some None => Ok H
                        | Some (Some H') => if heqb U H' hempty then Ok H else Fail end.
  Proof. reflexivity. Qed.

  Lemma chk_app H p k :
    chk H (p ++ k) = match chk H p with
                     | None => Fail | Some None => Bot | Some (Some H') => chk H' k end.
  Proof.
    revert H. induction p as [|i r IH]; intros; simpl; auto.
    destruct (chk_i H i) as [[H'|]|]; auto.
  Qed.

  (* results related by heq *)
  Definition res_eq (r1 r2 : res) : Prop :=
    match r1, r2 with
    | None, None => True
    | Some None, Some None => True
    | Some (Some A), Some (Some B) => heq A B
    | _, _ => False
    end.

  Lemma join_res_eq r1 r2 r1' r2' : res_eq r1 r1' -> res_eq r2 r2' -> res_eq (join r1 r2) (join r1' r2').
  Proof.
    destruct r1 as [[A|]|], r1' as [[A'|]|]; simpl; try tauto;
    destruct r2 as [[B|]|], r2' as [[B'|]|]; simpl; try tauto; intros HA HB.
    rewrite (heqb_heq_congr U A B A' B' HA HB). destruct (heqb U A' B'); simpl; auto.
  Qed.

  Lemma chk_list_heq l :
    Forall (fun i => forall A B, heq A B -> res_eq (chk_i A i) (chk_i B i)) l ->
    forall A B, heq A B -> res_eq (chk A l) (chk B l).
  Proof.
    induction 1 as [|i r Hi Hr IH]; intros A B HAB; simpl; auto.
    specialize (Hi A B HAB).
    destruct (chk_i A i) as [[A'|]|], (chk_i B i) as [[B'|]|]; simpl in *; try tauto. auto.
  Qed.

  Lemma acc_ok_heq A B f a : heq A B -> acc_ok U g A f a = acc_ok U g B f a.
  Proof.
    intros HAB. unfold acc_ok. destruct (g f) as [m| |]; auto.
    destruct (mem m U) eqn:Em; simpl; [|destruct a; auto].
    apply mem_In in Em. rewrite (HAB m Em). reflexivity.
  Qed.

  Lemma chk_i_heq i : forall A B, heq A B -> res_eq (chk_i A i) (chk_i B i).
  Proof.
    induction i using instr_ind'; intros A B HAB;
      try (simpl; destruct (mem m U) eqn:Em; simpl; auto;
           apply mem_In in Em; rewrite (HAB m Em);
           destruct (mode_eqb (B m) _); simpl; auto using heq_hupd).
    - (* Acc *) simpl. rewrite (acc_ok_heq A B f a HAB). destruct (acc_ok U g B f a); simpl; auto.
    - simpl; auto.
    - simpl; auto.
    - simpl; auto.
    - (* Choice *) rewrite !chk_unfold_choice. apply join_res_eq; apply chk_list_heq; auto.
    - (* Loop *) rewrite !chk_unfold_loop.
      pose proof (chk_list_heq p H A B HAB) as Hp.
      destruct (chk A p) as [[A'|]|], (chk B p) as [[B'|]|]; simpl in *; try tauto.
      rewrite (heqb_heq_congr U A' A B' B Hp HAB). destruct (heqb U B' B); simpl; auto.
    - (* Spawn *) rewrite !chk_unfold_spawn.
      destruct (chk hempty p) as [[A'|]|]; simpl; auto. destruct (heqb U A' hempty); simpl; auto.
    - simpl; auto.
    - (* Ret *) simpl. rewrite (heqb_heq_congr U A hempty B hempty HAB (heq_refl U hempty)).
      destruct (heqb U B hempty); simpl; auto.
    - simpl; auto.
  Qed.

  Lemma chk_heq l A B : heq A B -> res_eq (chk A l) (chk B l).
  Proof. apply chk_list_heq. apply Forall_forall. intros i _. apply chk_i_heq. Qed.

  Lemma closed_res_eq r1 r2 : res_eq r1 r2 -> closed_res r1 = closed_res r2.
  Proof.
    destruct r1 as [[A|]|], r2 as [[B|]|]; simpl; try tauto. intros HAB.
    apply heqb_heq_congr; auto using heq_refl.
  Qed.

  Lemma closed_heq A B l : heq A B -> closed A l = closed B l.
  Proof. intros. unfold Lockset.closed. apply closed_res_eq, chk_heq; auto. Qed.

  (* ---------------------------------------------------------------- inversion of [closed] per instruction *)

  Lemma closed_nil H : closed H [] = true -> heq H hempty.
  Proof. unfold Lockset.closed; simpl. apply heqb_spec. Qed.

  Lemma closed_lock H m k :
    closed H (Lock m :: k) = true -> In m U /\ H m = MN /\ closed (hupd H m MW) k = true.
  Proof.
    unfold Lockset.closed; simpl. destruct (mem m U) eqn:Em; simpl; [|discriminate].
    destruct (mode_eqb (H m) MN) eqn:E; simpl; [|discriminate].
    apply mem_In in Em. apply mode_eqb_eq in E. auto.
  Qed.

  Lemma closed_unlock H m k :
    closed H (Unlock m :: k) = true -> In m U /\ H m = MW /\ closed (hupd H m MN) k = true.
  Proof.
    unfold Lockset.closed; simpl. destruct (mem m U) eqn:Em; simpl; [|discriminate].
    destruct (mode_eqb (H m) MW) eqn:E; simpl; [|discriminate].
    apply mem_In in Em. apply mode_eqb_eq in E. auto.
  Qed.

  Lemma closed_rlock H m k :
    closed H (RLock m :: k) = true -> In m U /\ H m = MN /\ closed (hupd H m MR) k = true.
  Proof.
    unfold Lockset.closed; simpl. destruct (mem m U) eqn:Em; simpl; [|discriminate].
    destruct (mode_eqb (H m) MN) eqn:E; simpl; [|discriminate].
    apply mem_In in Em. apply mode_eqb_eq in E. auto.
  Qed.

  Lemma closed_runlock H m k :
    closed H (RUnlock m :: k) = true -> In m U /\ H m = MR /\ closed (hupd H m MN) k = true.
  Proof.
    unfold Lockset.closed; simpl. destruct (mem m U) eqn:Em; simpl; [|discriminate].
    destruct (mode_eqb (H m) MR) eqn:E; simpl; [|discriminate].
    apply mem_In in Em. apply mode_eqb_eq in E. auto.
  Qed.

  Lemma closed_acc H f a k :
    closed H (Acc f a :: k) = true -> acc_ok U g H f a = true /\ closed H k = true.
  Proof.
    unfold Lockset.closed; simpl. destruct (acc_ok U g H f a); simpl; [auto|discriminate].
  Qed.

  Lemma closed_wait H c m k :
    closed H (Wait c m :: k) = true -> In m U /\ H m = MW /\ closed H k = true.
  Proof.
    unfold Lockset.closed; simpl. destruct (mem m U) eqn:Em; simpl; [|discriminate].
    destruct (mode_eqb (H m) MW) eqn:E; simpl; [|discriminate].
    apply mem_In in Em. apply mode_eqb_eq in E. auto.
  Qed.

  Lemma closed_choice H a b k :
    closed H (Choice a b :: k) = true -> closed H (a ++ k) = true /\ closed H (b ++ k) = true.
  Proof.
    unfold Lockset.closed. cbn [Lockset.chk]. rewrite chk_unfold_choice, !chk_app.
    destruct (chk H a) as [[A|]|] eqn:Ea, (chk H b) as [[B|]|] eqn:Eb; simpl; try discriminate; auto.
    destruct (heqb U A B) eqn:E; simpl; [|discriminate].
    intros Hk. split; auto. apply heqb_spec in E.
    rewrite <- Hk. symmetry. apply closed_res_eq, chk_heq; auto.
  Qed.

  Lemma closed_loop H a k :
    closed H (Loop a :: k) = true -> closed H k = true /\ closed H (a ++ Loop a :: k) = true.
  Proof.
    intros Hc. pose proof Hc as Hc0. revert Hc.
    unfold Lockset.closed at 1. cbn [Lockset.chk]. rewrite chk_unfold_loop.
    unfold Lockset.closed at 2. rewrite chk_app.
    destruct (chk H a) as [[A|]|] eqn:Ea; simpl; try discriminate; auto.
    destruct (heqb U A H) eqn:E; simpl; [|discriminate].
    intros Hk; split; auto. apply heqb_spec in E.
    change (closed A (Loop a :: k) = true). rewrite (closed_heq A H _ E). exact Hc0.
  Qed.

  Lemma closed_spawn H a k :
    closed H (Spawn a :: k) = true -> closed H k = true /\ closed hempty a = true.
  Proof.
    unfold Lockset.closed. cbn [Lockset.chk]. rewrite chk_unfold_spawn.
    destruct (chk hempty a) as [[A|]|] eqn:Ea; simpl; try discriminate; auto.
    destruct (heqb U A hempty) eqn:E; simpl; [auto|discriminate].
  Qed.

  Lemma closed_ret H k : closed H (Ret :: k) = true -> heq H hempty.
  Proof.
    unfold Lockset.closed; simpl. destruct (heqb U H hempty) eqn:E; simpl; [|discriminate].
    intros _. apply heqb_spec; auto.
  Qed.

  Lemma closed_unknown H s k : closed H (Unknown s :: k) = true -> False.
  Proof. unfold Lockset.closed; simpl. discriminate. Qed.

  Lemma closed_skip H i k :
    (forall H, chk_i H i = Ok H) -> closed H (i :: k) = true -> closed H k = true.
  Proof. intros Hi. unfold Lockset.closed; simpl. rewrite Hi. auto. Qed.

  (* ---------------------------------------------------------------- invariants *)

  Variable p : prog.
  Hypothesis entries_closed :
    forall e, In e p -> public e = true -> closed hempty (body e) = true.

  Definition typed (s : state) : Prop := forall t, closed (held (s t)) (code (s t)) = true.

  Definition mutex (s : state) : Prop :=
    forall t1 t2 m, t1 <> t2 -> held (s t1) m = MW -> held (s t2) m = MN.

  Lemma typed_tupd s t H k :
    typed s -> closed H k = true -> typed (tupd s t (mk H k)).
  Proof.
    intros Hs Hk x. destruct (Nat.eq_dec x t) as [->|Hx].
    - rewrite tupd_same; auto.
    - rewrite tupd_other; auto.
  Qed.

  Lemma step_typed s s' : typed s -> step p s s' -> typed s'.
  Proof.
    intros Ht Hstep. inversion Hstep; subst; clear Hstep;
      try (match goal with Hc : code (s ?t) = _ :: _ |- _ => pose proof (Ht t) as Hcl; rewrite Hc in Hcl end).
    - (* call *) apply typed_tupd; auto.
      pose proof (Ht t) as Hcl. match goal with Hc : code (s t) = [] |- _ => rewrite Hc in Hcl end.
      apply closed_nil in Hcl. rewrite (closed_heq _ _ _ Hcl). auto.
    - apply closed_lock in Hcl as (_ & _ & Hk). apply typed_tupd; auto.
    - apply closed_unlock in Hcl as (_ & _ & Hk). apply typed_tupd; auto.
    - apply closed_rlock in Hcl as (_ & _ & Hk). apply typed_tupd; auto.
    - apply closed_runlock in Hcl as (_ & _ & Hk). apply typed_tupd; auto.
    - apply closed_acc in Hcl as (_ & Hk). apply typed_tupd; auto.
    - apply closed_skip in Hcl; auto. apply typed_tupd; auto.
    - (* wait *) apply closed_wait in Hcl as (Hm & Hh & Hk). apply typed_tupd; auto.
      unfold Lockset.closed. simpl.
      assert (Em : mem m U = true) by (apply mem_In; auto). rewrite Em, hupd_same. simpl.
      change (closed (hupd (hupd (held (s t)) m MN) m MW) k = true).
      rewrite (closed_heq _ (held (s t))); auto.
      intros x _. unfold hupd. destruct (String.eqb_spec x m); subst; auto.
    - apply closed_skip in Hcl; auto. apply typed_tupd; auto.
    - apply closed_skip in Hcl; auto. apply typed_tupd; auto.
    - apply closed_skip in Hcl; auto. apply typed_tupd; auto.
    - apply closed_choice in Hcl as (Ha & _). apply typed_tupd; auto.
    - apply closed_choice in Hcl as (_ & Hb). apply typed_tupd; auto.
    - apply closed_loop in Hcl as (Hk & _). apply typed_tupd; auto.
    - apply closed_loop in Hcl as (_ & Hk). apply typed_tupd; auto.
    - (* spawn *) apply closed_spawn in Hcl as (Hk & Ha).
      apply typed_tupd; [apply typed_tupd; auto|].
      pose proof (Ht t') as Hidle.
      match goal with Hc : code (s t') = [] |- _ => rewrite Hc in Hidle end.
      apply closed_nil in Hidle. rewrite (closed_heq _ _ _ Hidle). auto.
    - (* ret *) apply closed_ret in Hcl. apply typed_tupd; auto.
      unfold Lockset.closed; simpl. apply heqb_spec; auto.
    - apply closed_unknown in Hcl. tauto.
  Qed.

  (* mutual exclusion is an invariant of the semantics alone *)
  Lemma mutex_same_held s s' :
    (forall t, held (s' t) = held (s t)) -> mutex s -> mutex s'.
  Proof. intros He Hm t1 t2 m Hne. rewrite !He. apply Hm; auto. Qed.

  Lemma held_tupd_keep s t k x : held (tupd s t (mk (held (s t)) k) x) = held (s x).
  Proof.
    destruct (Nat.eq_dec x t) as [->|Hx]; [rewrite tupd_same|rewrite tupd_other]; auto.
  Qed.

  Lemma mutex_lower s t m k :
    mutex s -> mutex (tupd s t (mk (hupd (held (s t)) m MN) k)).
  Proof.
    intros Hm t1 t2 m' Hne.
    destruct (Nat.eq_dec t1 t) as [->|Hd1]; destruct (Nat.eq_dec t2 t) as [->|Hd2]; try congruence;
      rewrite ?tupd_same, ?tupd_other by auto; simpl.
    - unfold hupd. destruct (String.eqb_spec m' m); [discriminate|]. intros. eapply Hm; eauto.
    - unfold hupd. destruct (String.eqb_spec m' m); auto. intros. eapply Hm; eauto.
    - apply Hm; auto.
  Qed.

  Lemma step_mutex s s' : mutex s -> step p s s' -> mutex s'.
  Proof.
    intros Hm Hstep. inversion Hstep; subst; clear Hstep;
      try (eapply mutex_same_held; [intros x; apply held_tupd_keep|assumption]);
      try (apply mutex_lower; assumption).
    - (* lock *) intros t1 t2 m' Hne.
      destruct (Nat.eq_dec t1 t) as [->|Hd1]; destruct (Nat.eq_dec t2 t) as [->|Hd2]; try congruence;
        rewrite ?tupd_same, ?tupd_other by auto; simpl.
      + unfold hupd. destruct (String.eqb_spec m' m); subst; intros; [auto|eapply Hm; eauto].
      + unfold hupd. destruct (String.eqb_spec m' m); subst; intros Hw.
        * match goal with Hn : nobody_holds s m |- _ => rewrite (Hn t1) in Hw end. discriminate.
        * eapply Hm; eauto.
      + apply Hm; auto.
    - (* rlock *) intros t1 t2 m' Hne.
      destruct (Nat.eq_dec t1 t) as [->|Hd1]; destruct (Nat.eq_dec t2 t) as [->|Hd2]; try congruence;
        rewrite ?tupd_same, ?tupd_other by auto; simpl.
      + unfold hupd. destruct (String.eqb_spec m' m); subst; intros; [discriminate|eapply Hm; eauto].
      + unfold hupd. destruct (String.eqb_spec m' m); subst; intros Hw.
        * match goal with Hn : no_writer s m |- _ => destruct (Hn t1 Hw) end.
        * eapply Hm; eauto.
      + apply Hm; auto.
    - (* spawn: no held set changes *)
      eapply mutex_same_held; [|exact Hm]. intros x.
      destruct (Nat.eq_dec x t') as [->|Hx]; [rewrite tupd_same; auto|rewrite tupd_other by auto].
      apply held_tupd_keep.
  Qed.

  Lemma init_typed : typed init.
  Proof. intros t. unfold Lockset.closed; simpl. apply heqb_spec, heq_refl. Qed.

  Lemma init_mutex : mutex init.
  Proof. intros t1 t2 m _. simpl. discriminate. Qed.

  Lemma reachable_inv s : reachable p s -> typed s /\ mutex s.
  Proof.
    induction 1 as [|s s' _ [IHt IHm] Hstep].
    - split; [apply init_typed|apply init_mutex].
    - split; [eapply step_typed|eapply step_mutex]; eauto.
  Qed.

  Theorem no_race s : reachable p s -> ~ race s.
  Proof.
    intros Hr (t1 & t2 & f & a1 & a2 & k1 & k2 & Hne & Hc1 & Hc2 & Hw).
    destruct (reachable_inv s Hr) as [Ht Hm].
    pose proof (Ht t1) as H1. rewrite Hc1 in H1. apply closed_acc in H1 as [H1 _].
    pose proof (Ht t2) as H2. rewrite Hc2 in H2. apply closed_acc in H2 as [H2 _].
    unfold acc_ok in H1, H2.
    destruct (g f) as [m| |]; [|destruct Hw; subst; discriminate|destruct a1; discriminate].
    assert (Hex : forall ta tb aa ab, ta <> tb ->
              (match aa with W => mem m U && mode_eqb (held (s ta) m) MW
                          | R => mem m U && negb (mode_eqb (held (s ta) m) MN) end) = true ->
              (match ab with W => mem m U && mode_eqb (held (s tb) m) MW
                          | R => mem m U && negb (mode_eqb (held (s tb) m) MN) end) = true ->
              aa = W -> False).
    { intros ta tb aa ab Hn Ha Hb ->.
      apply andb_true_iff in Ha as [_ Ha]. apply mode_eqb_eq in Ha.
      pose proof (Hm ta tb m Hn Ha) as Hb'.
      destruct ab; apply andb_true_iff in Hb as [_ Hb]; rewrite Hb' in Hb; discriminate. }
    destruct Hw as [Hw|Hw].
    - eapply (Hex t1 t2 a1 a2); eauto.
    - eapply (Hex t2 t1 a2 a1); eauto.
  Qed.
End Sound.

(* ------------------------------------------------------------------ the theorem *)

Theorem lockset_sound (g : guardmap) (p : prog) :
  lockset_ok g p = true -> forall s, reachable p s -> ~ race s.
Proof.
  intros Hok. apply no_race with (U := locks p) (g := g).
  intros e He Hpub. unfold lockset_ok in Hok. rewrite forallb_forall in Hok.
  specialize (Hok e He). rewrite Hpub in Hok. exact Hok.
Qed.

(* ------------------------------------------------------------------ non-vacuity *)

Definition ex_guard : guardmap := fun f => if String.eqb f "n" then GLock "mu" else GNone.

(* accepted: a locked counter with a waiter *)
Definition ex_good : prog :=
  [ {| name := "inc"; public := true; body := [Lock "mu"; Acc "n" R; Acc "n" W; Broadcast "c"; Unlock "mu"; Ret] |};
    {| name := "wait"; public := true;
       body := [Lock "mu"; CtxWaker "c";
                Loop [Acc "n" R; Choice [Unlock "mu"; Ret] [Wait "c" "mu"]];
                Acc "n" R; Unlock "mu"; Ret] |} ].

Example ex_good_ok : lockset_ok ex_guard ex_good = true.
Proof. vm_compute. reflexivity. Qed.

(* rejected: the read escapes the lock — and the skeleton really has a racy reachable state *)
Definition ex_bad : prog :=
  [ {| name := "inc"; public := true; body := [Lock "mu"; Acc "n" W; Unlock "mu"] |};
    {| name := "peek"; public := true; body := [Acc "n" R] |} ].

Example ex_bad_rejected : lockset_ok ex_guard ex_bad = false.
Proof. vm_compute. reflexivity. Qed.

Example ex_bad_races : exists s, reachable ex_bad s /\ race s.
Proof.
  set (e_inc := {| name := "inc"; public := true; body := [Lock "mu"; Acc "n" W; Unlock "mu"] |}).
  set (e_peek := {| name := "peek"; public := true; body := [Acc "n" R] |}).
  set (s1 := tupd init 0 (mk (held (init 0)) (body e_inc))).
  set (s2 := tupd s1 0 (mk (hupd (held (s1 0)) "mu" MW) [Acc "n" W; Unlock "mu"])).
  set (s3 := tupd s2 1 (mk (held (s2 1)) (body e_peek))).
  exists s3. split.
  - eapply R_step; [eapply R_step; [eapply R_step; [apply R_init|]|]|].
    + apply (S_call ex_bad 0 e_inc init); simpl; auto.
    + apply (S_lock ex_bad 0 "mu" [Acc "n" W; Unlock "mu"] s1); [reflexivity|].
      intros t. unfold s1, tupd. destruct (Nat.eqb t 0); reflexivity.
    + apply (S_call ex_bad 1 e_peek s2); simpl; auto.
  - exists 0, 1, "n", W, R, [Unlock "mu"], []. repeat split; auto.
Qed.
