(* Skel/AtomicShapeInst.v — the monitor-shape check evaluated on the skeletons regenerated from
   the Go source (coq/Gen/), for the METHODS of the monitor types (the escaped closures, whose
   names contain '@' or '(', are left out: an iterator closure takes the lock several times).
   These are the premises "each method is a critical section of the one mutex" used by
   Conc/LockedObject.v for C05 / C06 / C12 / C14. *)
From Coq Require Import List String Ascii Bool.
From FunV Require Import Skel.Syntax Skel.Lockset Skel.LocksetSound Skel.AtomicShape Skel.Guards.
From FunV Require Import Gen.Skel_WaitGroup Gen.Skel_Collector Gen.Skel_Synchronized Gen.Skel_Queue Gen.Skel_Deque.
Import ListNotations.
Open Scope string_scope.

Fixpoint is_closure_name (s : string) : bool :=
  match s with
  | EmptyString => false
  | String c r => (Ascii.eqb c "@" || Ascii.eqb c "(")%bool || is_closure_name r
  end.

Definition methods (p : prog) : prog := restrict (fun n => negb (is_closure_name n)) p.

Lemma Queue_methods_monitor : atomic_shape_ok guards "Queue.mu" (methods prog_Queue) = true.
Proof. vm_compute. reflexivity. Qed.

Lemma Deque_methods_monitor : atomic_shape_ok guards "Deque.mtx" (methods prog_Deque) = true.
Proof. vm_compute. reflexivity. Qed.

Lemma WaitGroup_methods_monitor : atomic_shape_ok guards "WaitGroup.mu" (methods prog_WaitGroup) = true.
Proof. vm_compute. reflexivity. Qed.

Lemma Collector_methods_monitor : atomic_shape_ok guards "Collector.mu" (methods prog_Collector) = true.
Proof. vm_compute. reflexivity. Qed.

Lemma Synchronized_methods_monitor : atomic_shape_ok guards "Synchronized.mtx" (methods prog_Synchronized) = true.
Proof. vm_compute. reflexivity. Qed.

(* what the instances give, e.g. for the Queue: clients calling the methods of a Queue in any
   interleaving — whenever a thread is about to touch tracker/closed/front/back/link it holds
   Queue.mu exclusively and nobody else holds it *)
Corollary Queue_methods_critical_sections :
  forall s, reachable (methods prog_Queue) s ->
  forall t f a k, code (s t) = Acc f a :: k -> guards f <> GImm ->
    held (s t) "Queue.mu" = MW /\ forall t', t' <> t -> held (s t') "Queue.mu" = MN.
Proof.
  intros s Hr t f a k Hc Hg.
  destruct (atomic_shape_sound guards "Queue.mu" _ Queue_methods_monitor s Hr t) as (_ & _ & H).
  eauto.
Qed.

Corollary Deque_methods_critical_sections :
  forall s, reachable (methods prog_Deque) s ->
  forall t f a k, code (s t) = Acc f a :: k -> guards f <> GImm ->
    held (s t) "Deque.mtx" = MW /\ forall t', t' <> t -> held (s t') "Deque.mtx" = MN.
Proof.
  intros s Hr t f a k Hc Hg.
  destruct (atomic_shape_sound guards "Deque.mtx" _ Deque_methods_monitor s Hr t) as (_ & _ & H).
  eauto.
Qed.
