(* Skel/AtomicShape.v — the "monitor shape" checker (DESIGN.md 3.4, premise of Conc/LockedObject.v).

   [atomic_shape_ok g m p] holds when the program uses the single mutex m, exclusively
   (no other lock, no RLock; helper goroutines obey the same rule), and every plain access to
   a field that g does not declare immutable happens while m is held: it is the lockset check
   for g with every lock but m erased, plus a syntactic "only lock m" condition.

   [atomic_shape_sound]: then in every reachable state, for any number of threads and every
   interleaving, each thread holds nothing but (possibly) m, m is only ever held exclusively,
   and a thread that is about to perform a plain access to a field not declared immutable
   holds m while no other thread holds it:
   the accesses of one critical section (from acquiring m to releasing it by Unlock or inside
   Cond.Wait) are never interleaved with accesses of another thread, i.e. executions decompose
   into critical sections. *)
From Coq Require Import List String Bool Arith Lia.
From FunV Require Import Skel.Syntax Skel.Lockset Skel.LocksetSound.
Import ListNotations.
Open Scope string_scope.

Fixpoint only_i (m : lockid) (i : instr) : bool :=
  let only_l := fix only_l (l : list instr) : bool :=
    match l with [] => true | i :: r => only_i m i && only_l r end in
  match i with
  | Lock x | Unlock x | Wait _ x => String.eqb x m
  | RLock _ | RUnlock _ | Unknown _ => false
  | Choice p q => only_l p && only_l q
  | Loop p | Spawn p => only_l p
  | Acc _ _ | Atomic _ | Signal _ | Broadcast _ | CtxWaker _ | Ret => true
  end.

Definition only_l (m : lockid) : list instr -> bool :=
  fix only_l (l : list instr) : bool :=
    match l with [] => true | i :: r => only_i m i && only_l r end.

(* the guard map g with every lock other than m erased: a field is either guarded by m,
   immutable (written only before the object is shared), or undeclared (rejected) *)
Definition mono (g : guardmap) (m : lockid) : guardmap :=
  fun f => match g f with
           | GLock x => if String.eqb x m then GLock m else GNone
           | GImm => GImm
           | GNone => GNone
           end.

Definition all_to (m : lockid) : guardmap := fun _ => GLock m.

Definition atomic_shape_ok (g : guardmap) (m : lockid) (p : prog) : bool :=
  lockset_ok (mono g m) p && forallb (fun e => negb (public e) || only_l m (body e)) p.

(* restriction of a program to the entries selected by name (e.g. the methods without the escaped closures) *)
Definition restrict (keep : string -> bool) (p : prog) : prog := filter (fun e => keep (name e)) p.

Section Sound.
  Variable g : guardmap.
  Variable m : lockid.
  Variable p : prog.
  Hypothesis Hok : atomic_shape_ok g m p = true.

  Lemma only_app a b : only_l m (a ++ b) = only_l m a && only_l m b.
  Proof. induction a as [|i r IH]; simpl; auto. rewrite IH. now rewrite andb_assoc. Qed.

  Lemma only_choice a b : only_i m (Choice a b) = only_l m a && only_l m b.
  Proof. reflexivity. Qed.

  Lemma only_loop a : only_i m (Loop a) = only_l m a.
  Proof. reflexivity. Qed.

  (* every thread runs "only lock m" code, holds nothing else, and never holds m shared *)
  Definition disciplined (s : state) : Prop :=
    forall t, only_l m (code (s t)) = true /\ (forall x, x <> m -> held (s t) x = MN) /\ held (s t) m <> MR.

  Lemma disc_tupd s t H k :
    disciplined s -> only_l m k = true -> (forall x, x <> m -> H x = MN) -> H m <> MR ->
    disciplined (tupd s t (mk H k)).
  Proof.
    intros Hd Hk Hx Hm x. destruct (Nat.eq_dec x t) as [->|Hne].
    - rewrite tupd_same; simpl; auto.
    - rewrite tupd_other; auto.
  Qed.

  Lemma hupd_keep_others H v : (forall x, x <> m -> H x = MN) -> forall x, x <> m -> hupd H m v x = MN.
  Proof. intros Hx x Hne. rewrite hupd_other; auto. Qed.

  Lemma entries_only e : In e p -> public e = true -> only_l m (body e) = true.
  Proof.
    intros He Hp. unfold atomic_shape_ok in Hok. apply andb_true_iff in Hok as [_ Ho].
    rewrite forallb_forall in Ho. specialize (Ho e He). rewrite Hp in Ho. exact Ho.
  Qed.

  Lemma only_cons i k : only_l m (i :: k) = only_i m i && only_l m k.
  Proof. reflexivity. Qed.

  Lemma step_disciplined s s' : disciplined s -> step p s s' -> disciplined s'.
  Proof.
    intros Hd Hstep.
    inversion Hstep; subst; clear Hstep;
      try (match goal with Hc : code (s ?t) = _ :: _ |- _ =>
             destruct (Hd t) as (Ho & Hx & Hm); rewrite Hc in Ho; rewrite only_cons in Ho;
             apply andb_true_iff in Ho; destruct Ho as [Hi Hk] end).
    - (* call *) destruct (Hd t) as (_ & Hx & Hm). apply disc_tupd; auto using entries_only.
    - (* lock *) simpl in Hi. apply String.eqb_eq in Hi; subst m0.
      apply disc_tupd; auto using hupd_keep_others. rewrite hupd_same. discriminate.
    - (* unlock *) simpl in Hi. apply String.eqb_eq in Hi; subst m0.
      apply disc_tupd; auto using hupd_keep_others. rewrite hupd_same. discriminate.
    - discriminate.
    - discriminate.
    - apply disc_tupd; auto.
    - apply disc_tupd; auto.
    - (* wait *) simpl in Hi. apply String.eqb_eq in Hi; subst m0.
      apply disc_tupd; auto using hupd_keep_others.
      + rewrite only_cons. simpl. rewrite String.eqb_refl. auto.
      + rewrite hupd_same. discriminate.
    - apply disc_tupd; auto.
    - apply disc_tupd; auto.
    - apply disc_tupd; auto.
    - (* choice l *) rewrite only_choice in Hi. apply andb_true_iff in Hi as [Ha Hb].
      apply disc_tupd; auto. rewrite only_app, Ha, Hk. reflexivity.
    - (* choice r *) rewrite only_choice in Hi. apply andb_true_iff in Hi as [Ha Hb].
      apply disc_tupd; auto. rewrite only_app, Hb, Hk. reflexivity.
    - (* loop exit *) apply disc_tupd; auto.
    - (* loop iter *) pose proof Hi as Hi'. rewrite only_loop in Hi'.
      apply disc_tupd; auto. rewrite only_app, only_cons, Hi', Hi, Hk. reflexivity.
    - (* spawn *) assert (Ha : only_l m a = true) by exact Hi.
      intros x. destruct (Nat.eq_dec x t') as [->|Hne'].
      + rewrite tupd_same. simpl. destruct (Hd t') as (_ & Hx' & Hm'). auto.
      + rewrite tupd_other by auto. apply disc_tupd; auto.
    - (* ret *) apply disc_tupd; auto.
    - discriminate.
  Qed.

  Lemma init_disciplined : disciplined init.
  Proof. intros t. simpl. repeat split; auto. discriminate. Qed.

  Lemma reachable_disciplined s : reachable p s -> disciplined s.
  Proof. induction 1; eauto using init_disciplined, step_disciplined. Qed.

  Theorem atomic_shape_sound_sec s : reachable p s ->
    forall t,
      (forall x, x <> m -> held (s t) x = MN) /\
      held (s t) m <> MR /\
      (forall f a k, code (s t) = Acc f a :: k -> g f <> GImm ->
         held (s t) m = MW /\ forall t', t' <> t -> held (s t') m = MN).
  Proof.
    intros Hr t. destruct (reachable_disciplined s Hr t) as (_ & Hx & Hm).
    split; [exact Hx|]. split; [exact Hm|].
    intros f a k Hc Hni.
    assert (Hls : lockset_ok (mono g m) p = true)
      by (unfold atomic_shape_ok in Hok; apply andb_true_iff in Hok; tauto).
    assert (Hent : forall e, In e p -> public e = true ->
                     closed (locks p) (mono g m) hempty (body e) = true).
    { intros e He Hp. unfold lockset_ok in Hls. rewrite forallb_forall in Hls.
      specialize (Hls e He). rewrite Hp in Hls. exact Hls. }
    destruct (reachable_inv (locks p) (mono g m) p Hent s Hr) as [Ht Hmu].
    pose proof (Ht t) as Hcl. rewrite Hc in Hcl.
    apply closed_acc in Hcl as [Ha _]. unfold acc_ok, mono in Ha.
    assert (Hw : held (s t) m = MW).
    { destruct (g f) as [x| |]; [|congruence|destruct a; discriminate].
      destruct (String.eqb x m); [|destruct a; discriminate].
      destruct a; apply andb_true_iff in Ha as [_ Ha].
      - destruct (held (s t) m) eqn:E; simpl in Ha; try discriminate; auto. congruence.
      - apply mode_eqb_eq in Ha. exact Ha. }
    split; [exact Hw|]. intros t' Hne. eapply Hmu; eauto.
  Qed.
End Sound.

Theorem atomic_shape_sound (g : guardmap) (m : lockid) (p : prog) :
  atomic_shape_ok g m p = true ->
  forall s, reachable p s ->
  forall t,
    (forall x, x <> m -> held (s t) x = MN) /\
    held (s t) m <> MR /\
    (forall f a k, code (s t) = Acc f a :: k -> g f <> GImm ->
       held (s t) m = MW /\ forall t', t' <> t -> held (s t') m = MN).
Proof. intros Hok s Hr. exact (atomic_shape_sound_sec g m p Hok s Hr). Qed.

(* non-vacuity: the waiter/incrementer example of LocksetSound.v has the monitor shape *)
Example ex_good_atomic : atomic_shape_ok ex_guard "mu" ex_good = true.
Proof. vm_compute. reflexivity. Qed.

(* ... and a program that also reads outside the lock has not *)
Example ex_bad_not_atomic : atomic_shape_ok ex_guard "mu" ex_bad = false.
Proof. vm_compute. reflexivity. Qed.
