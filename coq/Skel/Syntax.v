(* Skel/Syntax.v — the synchronisation-skeleton language (DESIGN.md 3.4) and its
   small-step semantics.  The terms of this language are GENERATED from the Go
   source by /verif/translator on every check run (coq/Gen/Skel_<type>.v).

   Data is abstracted away: a Go condition becomes a nondeterministic [Choice],
   a Go loop a [Loop] that runs any number of times.  Every execution of the
   translated methods is therefore an execution of the skeleton.

   Locks, fields and condition variables are named by strings (the Go field
   names, e.g. "Queue.mu", "Queue.tracker", "Queue.nempty") so that the
   generated files can be read against the source. *)
From Coq Require Import List String Bool.
Import ListNotations.
Open Scope string_scope.

Definition lockid := string.
Definition field  := string.
Definition condid := string.

Inductive rw := R | W.

Inductive instr :=
| Lock (m : lockid)                  (* sync.Mutex.Lock / sync.RWMutex.Lock / entering a sync.Once body *)
| Unlock (m : lockid)
| RLock (m : lockid)                 (* sync.RWMutex.RLock / "the sync.Once has completed" *)
| RUnlock (m : lockid)
| Acc (f : field) (a : rw)           (* plain (non-atomic) read or write of a shared field / region *)
| Atomic (f : field)                 (* access through sync/atomic, sync.Map, sync.Pool, a channel, ... *)
| Wait (c : condid) (m : lockid)     (* sync.Cond.Wait: release m, park, re-acquire m *)
| Signal (c : condid)
| Broadcast (c : condid)
| Choice (p q : list instr)
| Loop (p : list instr)
| Spawn (p : list instr)             (* go func(){ p }() *)
| CtxWaker (c : condid)              (* go func(){ <-ctx.Done(); c.Broadcast() }() *)
| Ret                                (* return from the entry *)
| Unknown (src : string).            (* source text the translator did not recognise *)

Record entry := { name : string; public : bool; body : list instr }.
Definition prog := list entry.

(* ------------------------------------------------------------------ held sets *)

Inductive mode := MN | MR | MW.      (* not held / held shared / held exclusively *)

Definition mode_eqb (a b : mode) : bool :=
  match a, b with MN, MN | MR, MR | MW, MW => true | _, _ => false end.

Lemma mode_eqb_eq a b : mode_eqb a b = true <-> a = b.
Proof. destruct a, b; simpl; split; congruence. Qed.

Definition hset := lockid -> mode.
Definition hempty : hset := fun _ => MN.
Definition hupd (H : hset) (m : lockid) (v : mode) : hset :=
  fun x => if String.eqb x m then v else H x.

Lemma hupd_same H m v : hupd H m v m = v.
Proof. unfold hupd. now rewrite String.eqb_refl. Qed.

Lemma hupd_other H m v x : x <> m -> hupd H m v x = H x.
Proof. unfold hupd. intro. destruct (String.eqb_spec x m); congruence. Qed.

(* ------------------------------------------------------------------ semantics *)

(* Any number of client threads (thread ids are natural numbers).  A thread is
   its dynamic held set and the list of instructions it still has to run.  A
   thread whose code is empty is idle: it may call any public entry of the
   program (methods AND escaped closures), any number of times, in any order. *)
Record thread := { held : hset; code : list instr }.
Definition state := nat -> thread.

Definition init : state := fun _ => {| held := hempty; code := [] |}.

Definition tupd (s : state) (t : nat) (th : thread) : state :=
  fun x => if Nat.eqb x t then th else s x.

Lemma tupd_same s t th : tupd s t th t = th.
Proof. unfold tupd. now rewrite PeanoNat.Nat.eqb_refl. Qed.

Lemma tupd_other s t th x : x <> t -> tupd s t th x = s x.
Proof. unfold tupd. intro. destruct (PeanoNat.Nat.eqb_spec x t); congruence. Qed.

Definition nobody_holds (s : state) (m : lockid) : Prop := forall t, held (s t) m = MN.
Definition no_writer    (s : state) (m : lockid) : Prop := forall t, held (s t) m <> MW.

Definition mk (H : hset) (k : list instr) : thread := {| held := H; code := k |}.

Inductive step (p : prog) : state -> state -> Prop :=
| S_call t e s :
    code (s t) = [] -> In e p -> public e = true ->
    step p s (tupd s t (mk (held (s t)) (body e)))
| S_lock t m k s :
    code (s t) = Lock m :: k -> nobody_holds s m ->
    step p s (tupd s t (mk (hupd (held (s t)) m MW) k))
| S_unlock t m k s :
    code (s t) = Unlock m :: k -> held (s t) m = MW ->
    step p s (tupd s t (mk (hupd (held (s t)) m MN) k))
| S_rlock t m k s :
    code (s t) = RLock m :: k -> no_writer s m -> held (s t) m = MN ->
    step p s (tupd s t (mk (hupd (held (s t)) m MR) k))
| S_runlock t m k s :
    code (s t) = RUnlock m :: k -> held (s t) m = MR ->
    step p s (tupd s t (mk (hupd (held (s t)) m MN) k))
| S_acc t f a k s :
    code (s t) = Acc f a :: k ->
    step p s (tupd s t (mk (held (s t)) k))
| S_atomic t f k s :
    code (s t) = Atomic f :: k ->
    step p s (tupd s t (mk (held (s t)) k))
| S_wait t c m k s :                 (* releases m; the thread then has to re-acquire m like any Lock
                                        (it may wake at any time: spurious wake-ups are included) *)
    code (s t) = Wait c m :: k -> held (s t) m = MW ->
    step p s (tupd s t (mk (hupd (held (s t)) m MN) (Lock m :: k)))
| S_signal t c k s :
    code (s t) = Signal c :: k ->
    step p s (tupd s t (mk (held (s t)) k))
| S_broadcast t c k s :
    code (s t) = Broadcast c :: k ->
    step p s (tupd s t (mk (held (s t)) k))
| S_ctxwaker t c k s :
    code (s t) = CtxWaker c :: k ->
    step p s (tupd s t (mk (held (s t)) k))
| S_choice_l t a b k s :
    code (s t) = Choice a b :: k ->
    step p s (tupd s t (mk (held (s t)) (a ++ k)))
| S_choice_r t a b k s :
    code (s t) = Choice a b :: k ->
    step p s (tupd s t (mk (held (s t)) (b ++ k)))
| S_loop_exit t a k s :
    code (s t) = Loop a :: k ->
    step p s (tupd s t (mk (held (s t)) k))
| S_loop_iter t a k s :
    code (s t) = Loop a :: k ->
    step p s (tupd s t (mk (held (s t)) (a ++ Loop a :: k)))
| S_spawn t t' a k s :               (* the new goroutine runs on any idle thread *)
    code (s t) = Spawn a :: k -> t' <> t -> code (s t') = [] ->
    step p s (tupd (tupd s t (mk (held (s t)) k)) t' (mk (held (s t')) a))
| S_ret t k s :
    code (s t) = Ret :: k ->
    step p s (tupd s t (mk (held (s t)) []))
| S_unknown t src k s :
    code (s t) = Unknown src :: k ->
    step p s (tupd s t (mk (held (s t)) k)).

Inductive reachable (p : prog) : state -> Prop :=
| R_init : reachable p init
| R_step s s' : reachable p s -> step p s s' -> reachable p s'.

(* A data race: two distinct threads are both about to perform a plain access
   to the same field and at least one of the two is a write. *)
Definition race (s : state) : Prop :=
  exists t1 t2 f a1 a2 k1 k2,
    t1 <> t2 /\ code (s t1) = Acc f a1 :: k1 /\ code (s t2) = Acc f a2 :: k2 /\ (a1 = W \/ a2 = W).
